rule {
  label "k.*" {
    token    = "[a-z]+"
    value    = "good"
    required = true
  }
}
rule {
  label "k.*" {
    token    = "[0-9]+"
    value    = "good"
    required = false
  }
}
