rule {
  reject "[a-z]+[0-9]" {
    label_values = true
  }
}
