rule {
  aggregate ".+" {
    keep = ["job", "instance"]
  }
}
