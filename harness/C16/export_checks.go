//go:build verif

package checks

import (
	"time"

	promParser "github.com/prometheus/prometheus/promql/parser"

	"github.com/cloudflare/pint/internal/parser"
)

// Overlay exports for the C16 harness (never part of /repo).

func VerifNonFallbackSelectors(n parser.PromQLExpr) []*promParser.VectorSelector {
	return getNonFallbackSelectors(n)
}

func VerifStripLabels(s *promParser.VectorSelector) promParser.VectorSelector { return stripLabels(s) }

func VerifIsDisabled(rule parser.Rule, s *promParser.VectorSelector) bool { return isDisabled(rule, s) }

func VerifIsSnoozed(rule parser.Rule, s *promParser.VectorSelector) bool { return isSnoozed(rule, s) }

// getMinAge(rule, selector): the duration and the number of "invalid comment" problems it produced
func VerifMinAge(rule parser.Rule, s *promParser.VectorSelector) (time.Duration, int) {
	d, p := SeriesCheck{}.getMinAge(rule, s)
	return d, len(p)
}

func VerifLabelValueIgnored(settings *PromqlSeriesSettings, rule parser.Rule, s *promParser.VectorSelector, name string) bool {
	return SeriesCheck{}.isLabelValueIgnored(settings, rule, s, name)
}
