//go:build verif

package checks

import (
	promParser "github.com/prometheus/prometheus/promql/parser"

	"github.com/cloudflare/pint/internal/parser"
)

// Overlay exports for the C16 harness (never part of /repo).

func VerifNonFallbackSelectors(n parser.PromQLExpr) []*promParser.VectorSelector {
	return getNonFallbackSelectors(n)
}

func VerifStripLabels(s *promParser.VectorSelector) promParser.VectorSelector { return stripLabels(s) }

func VerifIsDisabled(rule parser.Rule, s *promParser.VectorSelector) bool { return isDisabled(rule, s) }

func VerifIsSnoozed(rule parser.Rule, s *promParser.VectorSelector) bool { return isSnoozed(rule, s) }
