//go:build verif

package main

// C16 — promql/series verdicts agree with what the server actually holds.
//
// The harness generates (rule file, database) pairs, serves /api/v1/query and /api/v1/query_range from the
// VENDORED PromQL ENGINE over the in-memory database, runs the real promql/series check through a real
// FailoverGroup, attributes every reported problem to the selector it points at and
//   * writes (database, selectors, settings, rules, observed problems) as a Coq case for Model/Series.v;
//   * evaluates the property directly on the database (oracle_impl):
//       (a) a "query on nonexistent series" problem for a selector that currently returns series  => failure
//       (b) a checked selector whose metric has no sample in the whole lookback window, no recording rule,
//           no exemption, and no Bug "query on nonexistent series" problem                         => failure

import (
	"context"
	"fmt"
	"hash/fnv"
	"math/rand"
	"net/http"
	"net/http/httptest"
	"os"
	"path/filepath"
	"regexp"
	"sort"
	"strconv"
	"strings"
	"sync"
	"time"

	"github.com/prometheus/client_golang/prometheus"
	"github.com/prometheus/common/model"
	"github.com/prometheus/prometheus/model/histogram"
	"github.com/prometheus/prometheus/model/labels"
	"github.com/prometheus/prometheus/promql"
	promParser "github.com/prometheus/prometheus/promql/parser"
	"github.com/prometheus/prometheus/storage"
	"github.com/prometheus/prometheus/tsdb/chunkenc"
	"github.com/prometheus/prometheus/tsdb/chunks"
	"github.com/prometheus/prometheus/util/annotations"

	"github.com/cloudflare/pint/internal/checks"
	"github.com/cloudflare/pint/internal/discovery"
	"github.com/cloudflare/pint/internal/parser"
	"github.com/cloudflare/pint/internal/promapi"
)

func init() { register("C16", runC16) }

const (
	c16Minute     = int64(60_000) // ms
	c16LookbackMs = 5 * c16Minute // engine lookback delta
)

// ---------------------------------------------------------------------------------------------
// database + storage

type c16Series struct {
	Labels map[string]string `json:"labels"`
	Runs   [][2]int64        `json:"sample_runs_ms"` // [first sample, last sample]; one sample per minute
}

type c16DB struct {
	Series []c16Series `json:"series"`
}

type c16Sample struct {
	t int64
	f float64
}

func (s c16Sample) T() int64                      { return s.t }
func (s c16Sample) F() float64                    { return s.f }
func (s c16Sample) H() *histogram.Histogram       { return nil }
func (s c16Sample) FH() *histogram.FloatHistogram { return nil }
func (s c16Sample) Type() chunkenc.ValueType      { return chunkenc.ValFloat }
func (s c16Sample) Copy() chunks.Sample           { return c16Sample{s.t, s.f} }

type c16Queryable struct{ db *c16DB }

func (q c16Queryable) Querier(mint, maxt int64) (storage.Querier, error) {
	return c16Querier{db: q.db, mint: mint, maxt: maxt}, nil
}

type c16Querier struct {
	db         *c16DB
	mint, maxt int64
}

func (q c16Querier) LabelValues(context.Context, string, *storage.LabelHints, ...*labels.Matcher) ([]string, annotations.Annotations, error) {
	return nil, nil, nil
}

func (q c16Querier) LabelNames(context.Context, *storage.LabelHints, ...*labels.Matcher) ([]string, annotations.Annotations, error) {
	return nil, nil, nil
}
func (q c16Querier) Close() error { return nil }

func (q c16Querier) Select(_ context.Context, _ bool, _ *storage.SelectHints, matchers ...*labels.Matcher) storage.SeriesSet {
	var out []storage.Series
	for _, s := range q.db.Series {
		ls := labels.FromMap(s.Labels)
		if !c16Match(matchers, ls) {
			continue
		}
		var samples []chunks.Sample
		for _, run := range s.Runs {
			lo := run[0]
			if q.mint > lo {
				lo += (q.mint - lo + c16Minute - 1) / c16Minute * c16Minute
			}
			for t := lo; t <= run[1] && t <= q.maxt; t += c16Minute {
				samples = append(samples, c16Sample{t, 1})
			}
		}
		out = append(out, storage.NewListSeries(ls, samples))
	}
	sort.Slice(out, func(i, j int) bool { return labels.Compare(out[i].Labels(), out[j].Labels()) < 0 })
	return &c16SeriesSet{series: out, idx: -1}
}

type c16SeriesSet struct {
	series []storage.Series
	idx    int
}

func (s *c16SeriesSet) Next() bool                        { s.idx++; return s.idx < len(s.series) }
func (s *c16SeriesSet) At() storage.Series                { return s.series[s.idx] }
func (s *c16SeriesSet) Err() error                        { return nil }
func (s *c16SeriesSet) Warnings() annotations.Annotations { return nil }

func c16Match(ms []*labels.Matcher, ls labels.Labels) bool {
	for _, m := range ms {
		if !m.Matches(ls.Get(m.Name)) {
			return false
		}
	}
	return true
}

// direct evaluation (independent of the engine): is the series visible to an instant selector at t (ms)?
func (s c16Series) visibleAt(t int64) bool {
	for _, iv := range s.visibility() {
		if iv[0] <= t && t <= iv[1] {
			return true
		}
	}
	return false
}

// visibility intervals (ms, closed): [first sample, last sample + lookback delta - 1ms]
func (s c16Series) visibility() [][2]int64 {
	var out [][2]int64
	for _, run := range s.Runs {
		if run[1] < run[0] {
			continue
		}
		last := run[0] + (run[1]-run[0])/c16Minute*c16Minute
		out = append(out, [2]int64{run[0], last + c16LookbackMs - 1})
	}
	return out
}

// ---------------------------------------------------------------------------------------------
// engine-backed fake Prometheus

type c16Server struct {
	db  *c16DB
	eng *promql.Engine
	log *c16ReqLog // nil: requests are not recorded (other servers)
	vs  uint64     // seed of the response renderings of this server
}

// every response in a different legal rendering (key order inside the top-level object, "data" and samples; whitespace;
// optional stats / warnings / infos; number formats), chosen from the request
func (s *c16Server) variant(parts ...string) fpVariant {
	h := fnv.New64a()
	fmt.Fprintf(h, "%d", s.vs)
	for _, p := range parts {
		h.Write([]byte{0})
		h.Write([]byte(p))
	}
	return fpVariantFrom(h.Sum64() >> 3)
}

// what pint actually asked for: every parameter that selects the evaluation instants
type c16InstantReq struct {
	Query  string `json:"query"`
	TimeMs *int64 `json:"time_ms"` // nil: no `time` parameter (the server evaluates at its own now)
	AtMs   int64  `json:"received_at_ms"`
}

type c16RangeReq struct {
	Query   string `json:"query"`
	StartMs int64  `json:"start_ms"`
	EndMs   int64  `json:"end_ms"`
	StepMs  int64  `json:"step_ms"`
}

type c16ReqLog struct {
	mu      sync.Mutex
	Instant []c16InstantReq
	Range   []c16RangeReq
}

func newC16Engine() *promql.Engine {
	return promql.NewEngine(promql.EngineOpts{
		MaxSamples:               50_000_000,
		Timeout:                  30 * time.Second,
		LookbackDelta:            time.Duration(c16LookbackMs) * time.Millisecond,
		NoStepSubqueryIntervalFn: func(int64) int64 { return 60_000 },
		EnableAtModifier:         true,
		EnableNegativeOffset:     true,
	})
}

func (s *c16Server) ServeHTTP(w http.ResponseWriter, r *http.Request) {
	if err := r.ParseForm(); err != nil {
		fpWriteError(w, 400, "bad_data", err.Error())
		return
	}
	ctx, cancel := context.WithTimeout(r.Context(), 30*time.Second)
	defer cancel()
	switch {
	case strings.HasSuffix(r.URL.Path, "/api/v1/query"):
		ts := time.Now()
		ir := c16InstantReq{Query: r.Form.Get("query"), AtMs: ts.UnixMilli()}
		if v := r.Form.Get("time"); v != "" {
			ms, err := fpParseTimeMs(v)
			if err != nil {
				fpWriteError(w, 400, "bad_data", err.Error())
				return
			}
			ts = time.UnixMilli(ms)
			ir.TimeMs = &ms
		}
		if s.log != nil {
			s.log.mu.Lock()
			s.log.Instant = append(s.log.Instant, ir)
			s.log.mu.Unlock()
		}
		q, err := s.eng.NewInstantQuery(ctx, c16Queryable{s.db}, nil, r.Form.Get("query"), ts)
		if err != nil {
			fpWriteError(w, 400, "bad_data", err.Error())
			return
		}
		defer q.Close()
		res := q.Exec(ctx)
		if res.Err != nil {
			fpWriteError(w, 422, "execution", res.Err.Error())
			return
		}
		switch v := res.Value.(type) {
		case promql.Vector:
			var out []fpSeries
			for _, smp := range v {
				out = append(out, fpSeries{Metric: smp.Metric.Map(), Vals: []float64{smp.F}})
			}
			fpWriteVectorV(w, ts.UnixMilli(), out, s.variant("instant", r.Form.Get("query")))
		case promql.Scalar:
			fpWriteJSON(w, fmt.Sprintf(`{"status":"success","data":{"resultType":"scalar","result":[%s,"%s"]}}`,
				fpTs(v.T), strconv.FormatFloat(v.V, 'f', -1, 64)))
		default:
			fpWriteError(w, 422, "execution", "unsupported result type")
		}
	case strings.HasSuffix(r.URL.Path, "/api/v1/query_range"):
		startMs, err1 := fpParseTimeMs(r.Form.Get("start"))
		endMs, err2 := fpParseTimeMs(r.Form.Get("end"))
		stepMs, err3 := fpParseDurationMs(r.Form.Get("step"))
		if err1 != nil || err2 != nil || err3 != nil || stepMs <= 0 || endMs < startMs {
			fpWriteError(w, 400, "bad_data", "invalid parameters")
			return
		}
		if s.log != nil {
			s.log.mu.Lock()
			s.log.Range = append(s.log.Range, c16RangeReq{Query: r.Form.Get("query"), StartMs: startMs, EndMs: endMs, StepMs: stepMs})
			s.log.mu.Unlock()
		}
		q, err := s.eng.NewRangeQuery(ctx, c16Queryable{s.db}, nil, r.Form.Get("query"),
			time.UnixMilli(startMs), time.UnixMilli(endMs), time.Duration(stepMs)*time.Millisecond)
		if err != nil {
			fpWriteError(w, 400, "bad_data", err.Error())
			return
		}
		defer q.Close()
		res := q.Exec(ctx)
		if res.Err != nil {
			fpWriteError(w, 422, "execution", res.Err.Error())
			return
		}
		m, ok := res.Value.(promql.Matrix)
		if !ok {
			fpWriteError(w, 422, "execution", "unsupported result type")
			return
		}
		var out []fpSeries
		for _, ser := range m {
			fs := fpSeries{Metric: ser.Metric.Map()}
			for _, p := range ser.Floats {
				fs.TsMs = append(fs.TsMs, p.T)
				fs.Vals = append(fs.Vals, p.F)
			}
			out = append(out, fs)
		}
		fpWriteMatrixV(w, out, s.variant("range", r.Form.Get("query"), r.Form.Get("start")))
	case strings.HasSuffix(r.URL.Path, "/api/v1/status/config"):
		fpWriteJSON(w, `{"status":"success","data":{"yaml":"global:\n  scrape_interval: 1m\n"}}`)
	case strings.HasSuffix(r.URL.Path, "/api/v1/status/flags"):
		fpWriteJSON(w, `{"status":"success","data":{"storage.tsdb.retention.time":"15d"}}`)
	case strings.HasSuffix(r.URL.Path, "/api/v1/metadata"):
		fpWriteJSON(w, `{"status":"success","data":{}}`)
	default:
		fpWriteError(w, 404, "not_found", "unsupported path "+r.URL.Path)
	}
}

// ---------------------------------------------------------------------------------------------
// cases

type c16Problem struct {
	Selector string `json:"selector"`
	Summary  string `json:"summary"`
	Severity string `json:"severity"`
	Message  string `json:"message,omitempty"`
}

type c16Sel struct {
	Str      string            `json:"selector"`
	Bare     string            `json:"bare"`
	Name     string            `json:"name"`
	Matchers []*labels.Matcher `json:"-"`
	Disabled bool              `json:"disabled"`
	Snoozed  bool              `json:"snoozed"`
	Pos      int               `json:"position"`
	MinAgeMs int64             `json:"min_age_ms"`
	Ignored  []string          `json:"label_values_ignored,omitempty"`
}

type c16Case struct {
	ID              int      `json:"id"`
	Content         string   `json:"rules_file"`
	Expr            string   `json:"expr"`
	Shape           string   `json:"shape"`
	LookbackRange   string   `json:"lookbackRange"`
	LookbackStep    string   `json:"lookbackStep"`
	IgnoreMetrics   []string `json:"ignoreMetrics,omitempty"`
	IgnoreElsewhere []string `json:"ignoreMatchingElsewhere,omitempty"`
	DB              c16DB    `json:"db"`
	Others          []c16DB  `json:"other_servers,omitempty"`
	T0              int64    `json:"t0_ms"`
	// expectations by construction (independent of pint)
	AllChecked    bool     `json:"all_selectors_checked_by_construction"`
	NoneChecked   bool     `json:"fallback_no_selector_checked"`
	DisabledNames []string `json:"disabled_metric_names,omitempty"`
	SnoozedNames  []string `json:"snoozed_metric_names,omitempty"`
	Recording     []string `json:"recording_rules,omitempty"`
	Alerting      []string `json:"alerting_rules,omitempty"`
	// observations
	Now      int64           `json:"now_ms,omitempty"`
	After    int64           `json:"after_ms,omitempty"`
	Attempts int             `json:"attempts,omitempty"`
	Shifted  []string        `json:"probes_with_offset_or_at_modifier,omitempty"`
	Instant  []c16InstantReq `json:"instant_requests,omitempty"`
	Range    []c16RangeReq   `json:"range_requests,omitempty"`
	db0      c16DB
	others0  []c16DB
	Checked  []c16Sel     `json:"checked_selectors,omitempty"`
	Problems []c16Problem `json:"problems,omitempty"`
	Other    []c16Problem `json:"unattributed_problems,omitempty"`
	Fail     string       `json:"oracle_failure,omitempty"`
	Known    string       `json:"known_finding_class,omitempty"`
	nontriv  bool
	sexpr    string
	coq      string
	classes  []string
}

var c16Metrics = []string{"m0", "m1", "m2", "m3"}

func c16ParseDur(s string) int64 {
	d, err := model.ParseDuration(s)
	must(err)
	return time.Duration(d).Milliseconds()
}

// sample times sit at hh:mm:30 so that they never coincide with a grid point
func c16Snap(ms int64) int64 {
	q := ms / c16Minute
	if ms%c16Minute < 0 {
		q--
	}
	return q*c16Minute + 30_000
}

func c16GenRuns(r *rand.Rand, t0, lb int64, classes *[]string, metric string) [][2]int64 {
	hour := 60 * c16Minute
	before := t0 - lb - 5*hour
	future := t0 + hour
	in := func() int64 { // a transition instant well inside the window
		span := lb - 60*c16Minute
		return c16Snap(t0 - 30*c16Minute - r.Int63n(span/(7*c16Minute)+1)*7*c16Minute)
	}
	recent := func() int64 { return int64(r.Intn(7)) * c16Minute } // 0..6 whole minutes
	switch r.Intn(13) {
	case 9, 12:
		// first sample 0.5 .. 7.5 minutes before the probes: visible at every probe instant of the case
		*classes = append(*classes, metric+":appeared-recently")
		return [][2]int64{{c16Snap(t0 - 30_000 - recent()), c16Snap(future)}}
	case 10:
		// last sample such that the series stopped being visible 0.5 .. 7.5 minutes before the probes
		*classes = append(*classes, metric+":disappeared-recently")
		return [][2]int64{{c16Snap(before), c16Snap(t0 - 30_000 - recent() - c16LookbackMs)}}
	case 11:
		*classes = append(*classes, metric+":reappeared-recently")
		return [][2]int64{{c16Snap(before), in()}, {c16Snap(t0 - 30_000 - recent()), c16Snap(future)}}
	case 0, 1, 8:
		*classes = append(*classes, metric+":present")
		return [][2]int64{{c16Snap(before), c16Snap(future)}}
	case 2:
		*classes = append(*classes, metric+":old-data-only")
		return [][2]int64{{c16Snap(t0 - lb - 9*hour), c16Snap(t0 - lb - 4*hour)}}
	case 3:
		*classes = append(*classes, metric+":disappeared")
		return [][2]int64{{c16Snap(before), in()}}
	case 4:
		*classes = append(*classes, metric+":appeared")
		return [][2]int64{{in(), c16Snap(future)}}
	case 5:
		*classes = append(*classes, metric+":intermittent")
		var pts []int64
		for k := 2 * (1 + r.Intn(3)); k > 0; k-- {
			pts = append(pts, in())
		}
		sort.Slice(pts, func(i, j int) bool { return pts[i] < pts[j] })
		var runs [][2]int64
		for i := 0; i+1 < len(pts); i += 2 {
			if pts[i+1]-pts[i] >= 20*c16Minute {
				runs = append(runs, [2]int64{pts[i], pts[i+1]})
			}
		}
		if r.Intn(2) == 0 && len(runs) > 0 && runs[len(runs)-1][1] < t0-60*c16Minute {
			runs = append(runs, [2]int64{c16Snap(t0 - 40*c16Minute), c16Snap(future)})
		}
		return runs
	default:
		*classes = append(*classes, metric+":never")
		return nil
	}
}

func c16GenDB(r *rand.Rand, t0, lb int64, classes *[]string, withUp bool) c16DB {
	var db c16DB
	hour := 60 * c16Minute
	if withUp {
		runs := [][2]int64{{c16Snap(t0 - lb - 5*hour), c16Snap(t0 + hour)}}
		if r.Intn(5) == 0 {
			// the server itself was down for a while: a hole in the uptime baseline
			a := c16Snap(t0 - 40*c16Minute - r.Int63n((lb-80*c16Minute)/(7*c16Minute)+1)*7*c16Minute)
			runs = [][2]int64{{runs[0][0], a}, {a + (20+int64(r.Intn(60)))*c16Minute, runs[0][1]}}
			if runs[1][0] > c16Snap(t0-35*c16Minute) {
				runs[1][0] = c16Snap(t0 - 35*c16Minute)
			}
			*classes = append(*classes, "uptime-with-hole")
		}
		db.Series = append(db.Series, c16Series{Labels: map[string]string{"__name__": "up", "job": "a"}, Runs: runs})
	}
	for _, m := range c16Metrics {
		n := 1 + r.Intn(3)
		if r.Intn(5) == 0 {
			n = 0
			*classes = append(*classes, m+":never")
		}
		for k := 0; k < n; k++ {
			ls := map[string]string{"__name__": m, "job": pick(r, []string{"a", "b", "c"})}
			if r.Intn(2) == 0 {
				ls["env"] = pick(r, []string{"x", "y"})
			}
			runs := c16GenRuns(r, t0, lb, classes, m)
			if len(runs) > 0 {
				db.Series = append(db.Series, c16Series{Labels: ls, Runs: runs})
			}
		}
	}
	if r.Intn(3) == 0 {
		*classes = append(*classes, "ALERTS-in-db")
		db.Series = append(db.Series, c16Series{Labels: map[string]string{"__name__": "ALERTS", "alertname": pick(r, []string{"A1", "A9"}), "alertstate": "firing"},
			Runs: [][2]int64{{c16Snap(t0 - lb - 5*hour), c16Snap(t0 + hour)}}})
	}
	return db
}

// c16GenSelector: a vector selector, one time in six with an `offset` (shorter and longer than the recent presence edges), so
// offsets occur in every position a selector can take: top level, join operands, unless operands, nested
func c16GenSelector(r *rand.Rand) string {
	s := c16GenSelectorBase(r)
	if r.Intn(6) == 0 {
		s += " offset " + pick(r, []string{"3m", "10m", "1h", "1h"})
	}
	return s
}

// c16Range: selector[range], keeping an offset behind the range
func c16Range(sel, rng string) string {
	if i := strings.Index(sel, " offset "); i >= 0 {
		return sel[:i] + rng + sel[i:]
	}
	return sel + rng
}

func c16GenSelectorBase(r *rand.Rand) string {
	m := pick(r, c16Metrics)
	var ms []string
	if r.Intn(2) == 0 {
		ms = append(ms, pick(r, []string{`job="a"`, `job="b"`, `job!="a"`, `job=~"a|b"`, `job=~".+"`, `job!~"c"`, `job=""`, `job="zz"`}))
	}
	if r.Intn(4) == 0 {
		ms = append(ms, pick(r, []string{`env="x"`, `env!="x"`, `env=~"x|y"`, `missing="z"`, `env=""`}))
	}
	switch r.Intn(14) {
	case 12, 13:
		// no metric name, several __name__ matchers: a positive regexp narrowed by a negative matcher.  The metric set of the
		// selector (and of its bare selector) is what ALL of them select.
		o := pick(r, c16Metrics)
		for o == m {
			o = pick(r, c16Metrics)
		}
		nm := pick(r, []string{
			fmt.Sprintf(`__name__=~"%s|%s", __name__!="%s"`, m, o, o),
			fmt.Sprintf(`__name__=~"m.+", __name__!~"%s|%s"`, o, pick(r, c16Metrics)),
			fmt.Sprintf(`__name__!="%s", __name__=~"%s|%s"`, o, o, m),
			fmt.Sprintf(`__name__=~"%s|%s", __name__!~"%s"`, m, o, o)})
		ms = append([]string{nm}, ms...)
		return "{" + strings.Join(ms, ", ") + "}"
	case 0:
		ms = append([]string{fmt.Sprintf(`__name__="%s"`, m)}, ms...)
		return "{" + strings.Join(ms, ", ") + "}"
	case 1:
		ms = append([]string{fmt.Sprintf(`__name__=~"%s|%s"`, m, pick(r, c16Metrics))}, ms...)
		return "{" + strings.Join(ms, ", ") + "}"
	}
	if len(ms) == 0 {
		return m
	}
	return m + "{" + strings.Join(ms, ", ") + "}"
}

// returns expr, shape, allChecked (every vector selector of the expression must be checked), noneChecked
func c16GenExpr(r *rand.Rand) (string, string, bool, bool) {
	s1 := c16GenSelector(r)
	s2 := c16GenSelector(r)
	// an always-returning operand (no selector in it): joins with it are NOT fallbacks - the result still depends on the
	// selector, only `<selector> or <always-returning>` gives the selector a fallback
	k := pick(r, []string{"hour()", "day_of_week()", "vector(1)", "vector(time())", "(hour() > 9 < 17)", "(day_of_week() > 0)", "vector(0)"})
	s3 := c16GenSelector(r)
	switch r.Intn(30) {
	case 26: // a join nested under an operand that has its own fallback: the fallback exempts that selector only
		return s1 + " / ((" + s2 + " or vector(0)) + " + s3 + ")", "join-nested-under-fallback-operand", true, false
	case 27: // a join nested under an operand that is not a selector at all
		return s1 + " * on() group_left() (vector(2) * on() " + s3 + ")", "join-nested-under-always-operand", true, false
	case 28: // a conditional unless nested under a fallback operand
		return s1 + " / ((" + s2 + " or vector(0)) unless " + s3 + " > 5)", "unless-nested-under-fallback-operand", true, false
	case 29: // both: fallback operand first, then a nested join two levels down
		return "(" + s1 + " or vector(1)) * on() group_left() (hour() * on() group_right() (" + s2 + " / " + s3 + "))", "joins-under-always-and-fallback", true, false
	case 22: // `unless <condition>` nested in a join operand: all three selectors decide the result
		return s1 + " / on(job) (" + s2 + " unless on(job) " + s3 + " > 5)", "join-of-conditional-unless", true, false
	case 23: // a join inside the condition of an unless
		return s1 + " unless on(job) (" + s2 + " * on(job) " + s3 + ") > 5", "conditional-unless-of-join", true, false
	case 24: // the documented direct case: both sides tested
		return s1 + " unless on(job) " + s2 + " > 5", "conditional-unless", true, false
	case 25: // nested conditional unless in the condition
		return s1 + " unless on(job) (" + s2 + " unless on(job) " + s3 + " > 1) > 5", "conditional-unless-nested", true, false
	case 16:
		return s1 + " > 0 and on() " + k, "and-on()-always", true, false
	case 17:
		return s1 + " unless on() " + pick(r, []string{"(hour() > 25)", "(vector(0) > 1)", "(day_of_week() > 7)"}), "unless-on()-always", true, false
	case 18:
		return s1 + " * on() group_left() " + k, "join-group_left-always", true, false
	case 19:
		return k + " * on() group_right() " + s1, "join-group_right-always", true, false
	case 20:
		return "(" + s1 + " > 0 and on() " + k + ") / " + s2, "and-on()-always-nested", true, false
	case 21:
		return k + " and on() " + s1, "always-and-on()-selector", true, false
	case 0:
		return s1, "selector", true, false
	case 1:
		return "sum(" + s1 + ") by (job)", "aggregation", true, false
	case 2:
		return s1 + " > 0", "comparison", true, false
	case 3:
		return "rate(" + c16Range(s1, "[5m]") + ") > 0", "rate", true, false
	case 4:
		return s1 + " / " + s2, "binary", true, false
	case 5:
		return s1 + " * on(job) group_left() " + s2, "join", true, false
	case 6:
		if !strings.Contains(s1, " offset ") {
			s1 += " offset 10m"
		}
		return s1, "offset", true, false
	case 7:
		return s1 + " / " + s1, "duplicate", true, false
	case 8:
		return "sum(" + s1 + ") or vector(0)", "fallback", false, true
	case 9:
		an := pick(r, []string{"A1", "A2", "A2", "m1"})
		return pick(r, []string{
			fmt.Sprintf(`ALERTS{alertname="%s"}`, an),
			fmt.Sprintf(`ALERTS{alertname="%s", alertstate="firing"} > 0`, an),
			fmt.Sprintf(`ALERTS_FOR_STATE{alertname="%s"}`, an),
			`count(ALERTS) > 0`,
			fmt.Sprintf(`ALERTS{alertname!="%s"}`, an),
			fmt.Sprintf(`ALERTS{alertname=~"%s"}`, an)}), "alerts", true, false
	case 10:
		return s1 + " unless " + s2, "unless", false, false
	case 11:
		return s1 + " and " + s2, "and", false, false
	case 12:
		return "absent(" + s1 + ")", "absent", false, false
	case 13:
		return "sum(" + s1 + ") by (job) > on(job) sum(" + s2 + ") by (job)", "agg-compare", true, false
	case 14:
		return "(" + s1 + " or " + s2 + ") > 0", "or", false, false
	default:
		return "max_over_time(" + c16Range(s1, "[10m]") + ")", "over_time", true, false
	}
}

func c16GenCase(r *rand.Rand, id int, t0 int64) *c16Case {
	c := &c16Case{ID: id, T0: t0}
	c.LookbackRange = pick(r, []string{"4h", "4h", "4h", "6h", "6h", "1d", "1d", "3d"})
	c.LookbackStep = pick(r, []string{"5m", "5m", "10m", "2m"})
	lb := c16ParseDur(c.LookbackRange)
	c.Expr, c.Shape, c.AllChecked, c.NoneChecked = c16GenExpr(r)
	c.DB = c16GenDB(r, t0, lb, &c.classes, r.Intn(6) != 0)
	if r.Intn(5) == 0 {
		var cl []string
		c.Others = append(c.Others, c16GenDB(r, t0, lb, &cl, true))
		c.classes = append(c.classes, "other-server")
		if r.Intn(2) == 0 {
			c.IgnoreElsewhere = []string{pick(r, []string{`{job="a"}`, `{job=~"a|b"}`, `{env="x"}`, `{job="c"}`})}
			c.classes = append(c.classes, "ignoreMatchingElsewhere")
		}
	}
	if r.Intn(6) == 0 {
		c.IgnoreMetrics = []string{pick(r, []string{"m3", "m[23]", "m0"})}
		c.classes = append(c.classes, "ignoreMetrics")
	}
	var b strings.Builder
	b.WriteString("groups:\n- name: g\n  rules:\n")
	// other rules of the checked set: rules of BOTH kinds, named like the metrics and like the alerts the expression may
	// reference (a recording rule `m1` produces m1, an alerting rule `m1` does not; an alerting rule `A1` produces
	// ALERTS{alertname="A1"}, a recording rule `A1` does not), before and after the rule under test
	var after strings.Builder
	names := append([]string{"job:m0:sum", "A1", "A2"}, c16Metrics...)
	if ms := c16MetricsIn(c.Expr); len(ms) > 0 {
		names = append(names, ms...) // favour the names the expression refers to
		names = append(names, ms...)
	}
	for k := r.Intn(4); k > 0; k-- {
		n := pick(r, names)
		w := &b
		if r.Intn(3) == 0 {
			w = &after
		}
		if r.Intn(2) == 0 {
			c.Recording = append(c.Recording, n)
			fmt.Fprintf(w, "  - record: %s\n    expr: sum(up) by (job)\n", n)
			c.classes = append(c.classes, "rule-set=recording/"+c16NameKind(n))
		} else {
			c.Alerting = append(c.Alerting, n)
			fmt.Fprintf(w, "  - alert: %s\n    expr: up == 0\n", n)
			c.classes = append(c.classes, "rule-set=alerting/"+c16NameKind(n))
		}
	}
	switch r.Intn(8) {
	case 0:
		n := pick(r, c16Metrics)
		c.DisabledNames = append(c.DisabledNames, n)
		fmt.Fprintf(&b, "  # pint disable promql/series(%s)\n", n)
		c.classes = append(c.classes, "disable-comment")
	case 1:
		n := pick(r, c16Metrics)
		c.SnoozedNames = append(c.SnoozedNames, n)
		fmt.Fprintf(&b, "  # pint snooze 2099-01-01T00:00:00Z promql/series(%s)\n", n)
		c.classes = append(c.classes, "snooze-comment")
	case 2:
		fmt.Fprintf(&b, "  # pint rule/set promql/series min-age %s\n", pick(r, []string{"5m", "20m", "1h", "5h", "2d"}))
		c.classes = append(c.classes, "min-age-comment")
	case 3:
		fmt.Fprintf(&b, "  # pint rule/set promql/series(%s) min-age %s\n", pick(r, c16Metrics), pick(r, []string{"5m", "20m", "5h"}))
		c.classes = append(c.classes, "min-age-comment(selector)")
	case 4:
		fmt.Fprintf(&b, "  # pint rule/set promql/series ignore/label-value %s\n", pick(r, []string{"job", "env"}))
		c.classes = append(c.classes, "ignore/label-value-comment")
	}
	if r.Intn(2) == 0 {
		fmt.Fprintf(&b, "  - alert: test\n    expr: '%s'\n", c.Expr)
	} else {
		fmt.Fprintf(&b, "  - record: test:rec\n    expr: '%s'\n", c.Expr)
	}
	b.WriteString(after.String())
	c.Content = b.String()
	return c
}

var c16MetricRe = regexp.MustCompile(`\bm[0-3]\b`)

func c16MetricsIn(expr string) []string {
	out := c16MetricRe.FindAllString(expr, -1)
	if strings.Contains(expr, "ALERTS") {
		out = append(out, regexp.MustCompile(`\bA[0-9]\b`).FindAllString(expr, -1)...)
	}
	return out
}

func c16NameKind(n string) string {
	switch {
	case strings.HasPrefix(n, "A"):
		return "named-like-alert"
	case strings.Contains(n, ":"):
		return "other-name"
	default:
		return "named-like-metric"
	}
}

// ---------------------------------------------------------------------------------------------
// running one case

func c16StripOffset(vs *promParser.VectorSelector) *promParser.VectorSelector {
	s := &promParser.VectorSelector{}
	*s = *vs
	s.Offset = 0
	s.OriginalOffset = 0
	return s
}

func c16MetricName(vs *promParser.VectorSelector) string {
	if vs.Name != "" {
		return vs.Name
	}
	for _, lm := range vs.LabelMatchers {
		if lm.Name == labels.MetricName && lm.Type == labels.MatchEqual {
			return lm.Value
		}
	}
	return ""
}

func c16NameMatchers(vs *promParser.VectorSelector) []*labels.Matcher {
	var out []*labels.Matcher
	for _, lm := range vs.LabelMatchers {
		if lm.Name == labels.MetricName {
			out = append(out, lm)
		}
	}
	return out
}

// c16Shift anchors a case generated with offsets relative to 0 at the (minute aligned) start of its own run, so the
// designed slack around "now" holds however long the whole harness run takes.
func c16Shift(c *c16Case) {
	if c.Attempts == 0 {
		c.db0, c.others0 = c.DB, c.Others // as generated: offsets relative to 0
	}
	c.Attempts++
	c.T0 = time.Now().UnixMilli() / c16Minute * c16Minute
	shift := func(db c16DB) c16DB {
		out := c16DB{Series: make([]c16Series, len(db.Series))}
		for i, s := range db.Series {
			out.Series[i] = c16Series{Labels: s.Labels, Runs: make([][2]int64, len(s.Runs))}
			for j, run := range s.Runs {
				out.Series[i].Runs[j] = [2]int64{run[0] + c.T0, run[1] + c.T0}
			}
		}
		return out
	}
	c.DB = shift(c.db0)
	c.Others = nil
	for _, o := range c.others0 {
		c.Others = append(c.Others, shift(o))
	}
	c.Checked, c.Problems, c.Other, c.Instant, c.Range, c.Fail, c.Known, c.nontriv = nil, nil, nil, nil, nil, "", "", false
	c.Shifted = nil
}

func c16Ptrs(dbs []c16DB) []*c16DB {
	out := make([]*c16DB, len(dbs))
	for i := range dbs {
		out[i] = &dbs[i]
	}
	return out
}

// c16Run runs a case; a case during which the wall clock crosses a whole minute is run again from scratch (all
// evaluation grids, slice boundaries and designed presence edges sit on whole minutes or half minutes, so within
// one minute the verdict cannot depend on the instant at which each probe happens to be evaluated).
func c16Run(c *c16Case) {
	for {
		c16RunOnce(c)
		if !c16Critical(c) || c.Attempts >= 5 {
			return
		}
	}
}

// c16Critical: the wall clock crossed hh:mm:00.000 or hh:mm:59.000 during the case.  All evaluation grids, slice
// boundaries and designed presence edges sit on whole or half minutes and every range pint derives ends at
// hh:mm:59.000, so between two such instants no comparison pint makes can depend on the exact clock reading.
func c16Critical(c *c16Case) bool {
	a, b := c.Now-5, c.After+5
	return a/c16Minute != b/c16Minute || (a+1000)/c16Minute != (b+1000)/c16Minute
}

func contains(l []string, x string) bool {
	for _, y := range l {
		if y == x {
			return true
		}
	}
	return false
}

func c16RunOnce(c *c16Case) {
	c16Shift(c)
	reqLog := &c16ReqLog{}
	mk := func(db *c16DB, name string) (*promapi.FailoverGroup, func()) {
		sv := &c16Server{db: db, eng: newC16Engine(), vs: uint64(c.ID)*7919 + uint64(len(name))}
		if name == "prom" {
			sv.log = reqLog
		}
		srv := httptest.NewServer(sv)
		fg := promapi.NewFailoverGroup(name, srv.URL,
			[]*promapi.Prometheus{promapi.NewPrometheus(name, srv.URL, "", nil, 30*time.Second, 8, 100000, nil)},
			true, "up", []*regexp.Regexp{}, []*regexp.Regexp{}, nil)
		reg := prometheus.NewRegistry()
		fg.StartWorkers(reg)
		return fg, func() { fg.Close(reg); srv.Close() }
	}
	fg, closeMain := mk(&c.DB, "prom")
	defer closeMain()
	all := []*promapi.FailoverGroup{fg}
	for i := range c.Others {
		o, cl := mk(&c.Others[i], fmt.Sprintf("other%d", i))
		defer cl()
		all = append(all, o)
	}

	p := parser.NewParser(false, parser.PrometheusSchema, model.UTF8Validation)
	file := p.Parse(strings.NewReader(c.Content))
	if file.Error.Err != nil {
		panic(fmt.Sprintf("C16 harness: generated rule file does not parse: %v\n%s", file.Error.Err, c.Content))
	}
	var entries []discovery.Entry
	var target *discovery.Entry
	for gi := range file.Groups {
		for _, rule := range file.Groups[gi].Rules {
			entries = append(entries, discovery.Entry{
				Path:          discovery.Path{Name: "fake.yml", SymlinkTarget: "fake.yml"},
				ModifiedLines: rule.Lines.Expand(), Rule: rule, Group: &file.Groups[gi], File: &file,
			})
		}
	}
	for i := range entries {
		n := ""
		if entries[i].Rule.AlertingRule != nil {
			n = entries[i].Rule.AlertingRule.Alert.Value
		} else if entries[i].Rule.RecordingRule != nil {
			n = entries[i].Rule.RecordingRule.Record.Value
		}
		if n == "test" || n == "test:rec" {
			target = &entries[i]
		}
	}
	if target == nil || target.Rule.Expr().SyntaxError != nil {
		panic(fmt.Sprintf("C16 harness: generated rule is unusable: %s", c.Content))
	}
	expr := target.Rule.Expr()

	settings := &checks.PromqlSeriesSettings{LookbackRange: c.LookbackRange, LookbackStep: c.LookbackStep,
		IgnoreMetrics: c.IgnoreMetrics, IgnoreMatchingElsewhere: c.IgnoreElsewhere}
	must(settings.Validate())
	ctx := context.WithValue(context.Background(), checks.SettingsKey(checks.SeriesCheckName), settings)
	ctx = context.WithValue(ctx, promapi.AllPrometheusServers, all)

	sels := checks.VerifNonFallbackSelectors(expr)
	for _, s := range sels {
		bare := checks.VerifStripLabels(s)
		minAge, _ := checks.VerifMinAge(target.Rule, s)
		var ign []string
		for _, lm := range s.LabelMatchers {
			if checks.VerifLabelValueIgnored(settings, target.Rule, s, lm.Name) && !contains(ign, lm.Name) {
				ign = append(ign, lm.Name)
			}
		}
		c.Checked = append(c.Checked, c16Sel{Str: s.String(), Bare: bare.String(), Name: s.Name, Matchers: s.LabelMatchers,
			Disabled: checks.VerifIsDisabled(target.Rule, s), Snoozed: checks.VerifIsSnoozed(target.Rule, s),
			Pos: int(s.PosRange.Start), MinAgeMs: minAge.Milliseconds(), Ignored: ign})
	}

	now := time.Now()
	c.Now = now.UnixMilli()
	problems := checks.NewSeriesCheck(fg).Check(ctx, *target, entries)
	c.After = time.Now().UnixMilli()
	reqLog.mu.Lock()
	c.Instant = append([]c16InstantReq(nil), reqLog.Instant...)
	c.Range = append([]c16RangeReq(nil), reqLog.Range...)
	reqLog.mu.Unlock()
	// every probe asks about NOW (instant) or about the window ending now (range): a probe whose selector carries an offset or
	// an @ modifier asks about another time
	seenQ := map[string]bool{}
	var probes []string
	for _, ir := range c.Instant {
		probes = append(probes, ir.Query)
	}
	for _, rr := range c.Range {
		probes = append(probes, rr.Query)
	}
	for _, q := range probes {
		if seenQ[q] {
			continue
		}
		seenQ[q] = true
		pe, err := promParser.ParseExpr(q)
		if err != nil {
			c.Shifted = append(c.Shifted, q)
			continue
		}
		promParser.Inspect(pe, func(n promParser.Node, _ []promParser.Node) error {
			if vs, ok := n.(*promParser.VectorSelector); ok && (vs.OriginalOffset != 0 || vs.Timestamp != nil || vs.StartOrEnd != 0) {
				c.Shifted = append(c.Shifted, q)
			}
			return nil
		})
	}
	sort.Strings(c.Shifted)
	sort.SliceStable(c.Range, func(i, j int) bool {
		if c.Range[i].Query != c.Range[j].Query {
			return c.Range[i].Query < c.Range[j].Query
		}
		if c.Range[i].StartMs != c.Range[j].StartMs {
			return c.Range[i].StartMs < c.Range[j].StartMs
		}
		return c.Range[i].EndMs < c.Range[j].EndMs
	})

	// every vector selector of the expression, from the Prometheus parser (independent of pint's analysis)
	var astSels []*promParser.VectorSelector
	promParser.Inspect(expr.Query.Expr, func(n promParser.Node, _ []promParser.Node) error {
		if vs, ok := n.(*promParser.VectorSelector); ok {
			astSels = append(astSels, vs)
		}
		return nil
	})
	attribute := func(col int) string {
		for _, lst := range [][]*promParser.VectorSelector{sels, astSels} {
			for _, s := range lst {
				if int(s.PosRange.Start)+1 <= col && col <= int(s.PosRange.End) {
					return c16StripOffset(s).String()
				}
			}
		}
		return ""
	}
	for _, pr := range problems {
		cp := c16Problem{Summary: pr.Summary, Severity: pr.Severity.String()}
		if len(pr.Diagnostics) > 0 {
			cp.Message = pr.Diagnostics[0].Message
		}
		if (pr.Summary == "query on nonexistent series" || pr.Summary == "unknown alert referenced") && len(pr.Diagnostics) > 0 {
			cp.Selector = attribute(pr.Diagnostics[0].FirstColumn)
		}
		if cp.Selector == "" {
			c.Other = append(c.Other, cp)
			if pr.Summary != "invalid comment" {
				panic(fmt.Sprintf("C16 harness: unexpected unattributed problem %+v for %s", cp, c.Expr))
			}
			continue
		}
		c.Problems = append(c.Problems, cp)
	}
	sort.SliceStable(c.Problems, func(i, j int) bool {
		a, b := c.Problems[i], c.Problems[j]
		if a.Selector != b.Selector {
			return a.Selector < b.Selector
		}
		if a.Summary != b.Summary {
			return a.Summary < b.Summary
		}
		return a.Severity < b.Severity
	})

	if root, ok := expr.Query.Expr.(promParser.Expr); ok {
		c.sexpr = c16Sexpr(root, false)
	}
	c16Oracle(c, astSels, expr.Query.Expr)
	c.coq = c16Coq(c)
}

// ---------------------------------------------------------------------------------------------
// the rule expression as a term of Model/SeriesSelectors.v (sexpr); "" when it lies outside the modelled fragment

var c16AlwaysFuncs = map[string]bool{"hour": true, "minute": true, "month": true, "year": true, "day_of_week": true,
	"day_of_month": true, "day_of_year": true, "days_in_month": true}

func c16IsNumber(n promParser.Expr) bool {
	switch v := n.(type) {
	case *promParser.NumberLiteral:
		return true
	case *promParser.ParenExpr:
		return c16IsNumber(v.Expr)
	}
	return false
}

func c16Sexpr(n promParser.Expr, underUnless bool) string {
	switch v := n.(type) {
	case *promParser.VectorSelector:
		return fmt.Sprintf("(ESel %s)", coqN(int(v.PosRange.Start)))
	case *promParser.MatrixSelector:
		return c16Sexpr(v.VectorSelector, underUnless)
	case *promParser.ParenExpr:
		return c16Sexpr(v.Expr, underUnless)
	case *promParser.AggregateExpr:
		if v.Param != nil {
			return ""
		}
		return c16Wrap(c16Sexpr(v.Expr, underUnless))
	case *promParser.Call:
		switch {
		case v.Func.Name == "vector" && len(v.Args) == 1:
			return "EAlways"
		case c16AlwaysFuncs[v.Func.Name] && len(v.Args) == 0:
			return "EAlways"
		case len(v.Args) == 1 && (v.Func.Name == "rate" || v.Func.Name == "max_over_time" || v.Func.Name == "absent"):
			return c16Wrap(c16Sexpr(v.Args[0], underUnless))
		}
		return ""
	case *promParser.BinaryExpr:
		ln, rn := c16IsNumber(v.LHS), c16IsNumber(v.RHS)
		if ln || rn {
			if ln && rn {
				return ""
			}
			side := v.LHS
			if ln {
				side = v.RHS
			}
			inner := c16Sexpr(side, underUnless)
			if inner == "" {
				return ""
			}
			if v.Op.IsComparisonOperator() {
				return "(ECmp " + inner + ")"
			}
			return "(EWrap " + inner + ")"
		}
		switch v.Op {
		case promParser.LOR:
			return c16Bin("EOr", c16Sexpr(v.LHS, underUnless), c16Sexpr(v.RHS, underUnless))
		case promParser.LUNLESS:
			return c16Bin("EUnless", c16Sexpr(v.LHS, underUnless), c16Sexpr(v.RHS, true))
		case promParser.LAND:
			return c16Bin("EJoin false", c16Sexpr(v.LHS, underUnless), c16Sexpr(v.RHS, underUnless))
		}
		cons := "EJoin "
		if v.VectorMatching != nil && v.VectorMatching.Card == promParser.CardOneToMany {
			cons = "EJoinR "
		}
		return c16Bin(cons+coqBool(v.Op.IsComparisonOperator()), c16Sexpr(v.LHS, underUnless), c16Sexpr(v.RHS, underUnless))
	}
	return ""
}

func c16Wrap(inner string) string {
	if inner == "" {
		return ""
	}
	return "(EWrap " + inner + ")"
}

func c16Bin(cons, a, b string) string {
	if a == "" || b == "" {
		return ""
	}
	return "(" + cons + " " + a + " " + b + ")"
}

// ---------------------------------------------------------------------------------------------
// oracle_impl: the property as written, evaluated directly on the database

// the documented carve-out, decided on the syntax tree: the selector sits on one side of an `or` whose other side is a
// selector-free always-returning operand (vector(N), a date/time function without argument)
func c16HasOwnOrFallback(root promParser.Node, sel *promParser.VectorSelector) bool {
	always := func(e promParser.Expr) bool {
		for {
			switch v := e.(type) {
			case *promParser.ParenExpr:
				e = v.Expr
				continue
			case *promParser.Call:
				return (v.Func.Name == "vector" && len(v.Args) == 1) || (c16AlwaysFuncs[v.Func.Name] && len(v.Args) == 0)
			}
			return false
		}
	}
	inside := func(e promParser.Expr) bool {
		pr := e.PositionRange()
		return pr.Start <= sel.PosRange.Start && sel.PosRange.End <= pr.End
	}
	hit := false
	promParser.Inspect(root, func(n promParser.Node, _ []promParser.Node) error {
		be, ok := n.(*promParser.BinaryExpr)
		if !ok || be.Op != promParser.LOR {
			return nil
		}
		if (inside(be.LHS) && always(be.RHS)) || (inside(be.RHS) && always(be.LHS)) {
			hit = true
		}
		return nil
	})
	return hit
}

func c16Oracle(c *c16Case, astSels []*promParser.VectorSelector, astRoot promParser.Node) {
	lb := c16ParseDur(c.LookbackRange)
	hour := 60 * c16Minute
	// "an instant query for the selector currently returns series": at every instant of the case (before and after Check)
	visibleNow := func(db *c16DB, ms []*labels.Matcher) bool {
		for _, s := range db.Series {
			if c16Match(ms, labels.FromMap(s.Labels)) && s.visibleAt(c.Now) && s.visibleAt(c.After) {
				return true
			}
		}
		return false
	}
	everInWindow := func(ms []*labels.Matcher) bool {
		lo, hi := c.T0-lb-2*hour-10*c16Minute, c.Now+10*c16Minute
		for _, s := range c.DB.Series {
			if !c16Match(ms, labels.FromMap(s.Labels)) {
				continue
			}
			for _, iv := range s.visibility() {
				if iv[0] <= hi && lo <= iv[1] {
					return true
				}
			}
		}
		return false
	}
	byStr := map[string]*promParser.VectorSelector{}
	var order []string
	for _, s := range astSels {
		k := c16StripOffset(s).String()
		if _, ok := byStr[k]; !ok {
			byStr[k] = s
			order = append(order, k)
		}
	}
	// (a) never reported missing while an instant query returns series
	for _, p := range c.Problems {
		if p.Summary != "query on nonexistent series" {
			continue
		}
		s := byStr[p.Selector]
		if s == nil {
			continue
		}
		n := c16MetricName(s)
		if n == "ALERTS" || n == "ALERTS_FOR_STATE" {
			continue
		}
		if visibleNow(&c.DB, s.LabelMatchers) {
			c.nontriv = true
			c.Fail = fmt.Sprintf("(a) selector %s is reported as missing (%s/%s) although an instant query for it returns series now", p.Selector, p.Summary, p.Severity)
			return
		}
	}
	// (b) never there, nothing produces it, no exemption => Bug
	checked := map[string]bool{}
	if c.AllChecked {
		for _, k := range order {
			checked[k] = true
		}
	} else if !c.NoneChecked {
		for _, s := range c.Checked {
			checked[s.Str] = true
		}
	}
	for _, k := range order {
		s := byStr[k]
		if !visibleNow(&c.DB, s.LabelMatchers) {
			c.nontriv = true // "selector absent now"
		}
		if !checked[k] {
			continue
		}
		if c.AllChecked && c16HasOwnOrFallback(astRoot, s) {
			continue // `<selector> or vector(0)`: documented, not checked
		}
		n := c16MetricName(s)
		if n == "ALERTS" || n == "ALERTS_FOR_STATE" {
			// (b) for alert metrics: ALERTS{alertname="X"} is produced by an ALERTING rule named X and by nothing else.  No
			// ALERTS sample in the window, no alerting rule X in the checked set (a recording rule X does not count), no
			// exemption => a Bug must be reported for the selector.
			an := ""
			for _, lm := range s.LabelMatchers {
				if lm.Name == "alertname" && lm.Type == labels.MatchEqual {
					an = lm.Value
				}
			}
			if an == "" || everInWindow(c16NameMatchers(s)) || contains(c.Alerting, an) {
				continue
			}
			exempt := false
			for _, d := range append(append([]string{}, c.DisabledNames...), c.SnoozedNames...) {
				if d == n || d == k {
					exempt = true
				}
			}
			if exempt {
				continue
			}
			found := false
			for _, p := range c.Problems {
				if p.Selector == k && p.Severity == "Bug" {
					found = true
				}
			}
			if !found {
				c.Fail = fmt.Sprintf("(b) %s has no sample in the whole lookback window and no alerting rule named %q is in the checked set (rules: recording %v, alerting %v), but no Bug is reported for it", k, an, c.Recording, c.Alerting)
				return
			}
			continue
		}
		nm := c16NameMatchers(s)
		if len(nm) == 0 {
			continue // no metric to speak of
		}
		if everInWindow(nm) {
			continue
		}
		exempt := false
		for _, d := range append(append([]string{}, c.DisabledNames...), c.SnoozedNames...) {
			if d == n || d == k {
				exempt = true
			}
		}
		bare := n
		for _, rn := range c.Recording {
			ok := true
			for _, m := range nm {
				if !m.Matches(rn) {
					ok = false
				}
			}
			if ok {
				exempt = true // a rule of the checked set produces it
			}
		}
		for _, re := range c.IgnoreMetrics {
			if bare != "" && regexp.MustCompile("^"+re+"$").MatchString(bare) {
				exempt = true
			}
			if bare == "" {
				exempt = true // regexp name selectors: ignoreMetrics applies to the selector text, keep out of the oracle
			}
		}
		if len(c.Others) > 0 && len(c.IgnoreElsewhere) > 0 {
			exempt = true // ignoreMatchingElsewhere may suppress the report
		}
		if exempt {
			continue
		}
		found := false
		for _, p := range c.Problems {
			if p.Selector == k && p.Summary == "query on nonexistent series" && p.Severity == "Bug" {
				found = true
			}
		}
		if !found {
			c.Fail = fmt.Sprintf("(b) metric of selector %s has no sample in the whole lookback window, no rule produces it and nothing exempts it, but no Bug \"query on nonexistent series\" is reported for it", k)
			return
		}
	}
}

// ---------------------------------------------------------------------------------------------
// Coq serialisation

func c16CoqMatcher(m *labels.Matcher) string {
	t := map[labels.MatchType]string{labels.MatchEqual: "MEq", labels.MatchNotEqual: "MNe", labels.MatchRegexp: "MRe", labels.MatchNotRegexp: "MNre"}[m.Type]
	return fmt.Sprintf("(mkM %s %s %s)", t, coqStr(m.Name), coqStr(m.Value))
}

func c16CoqMatchers(ms []*labels.Matcher) string {
	out := make([]string, len(ms))
	for i, m := range ms {
		out[i] = c16CoqMatcher(m)
	}
	return coqList(out)
}

func c16CoqDB(db *c16DB) string {
	out := make([]string, len(db.Series))
	for i, s := range db.Series {
		ks := sortedKeys(s.Labels)
		ls := make([]string, len(ks))
		for j, k := range ks {
			ls[j] = coqPair(coqStr(k), coqStr(s.Labels[k]))
		}
		var ivs []string
		for _, iv := range s.visibility() {
			ivs = append(ivs, coqPair(coqZ(iv[0]*1_000_000), coqZ(iv[1]*1_000_000)))
		}
		out[i] = fmt.Sprintf("(mkTS %s %s)", coqList(ls), coqList(ivs))
	}
	return coqList(out)
}

func c16Coq(c *c16Case) string {
	// regexp oracle table
	pats := map[string]bool{".+": true} // step 3 asks for absent(metric{label=~".+"})
	var allMs [][]*labels.Matcher
	for _, s := range c.Checked {
		allMs = append(allMs, s.Matchers)
	}
	var elsewhere []string
	for _, sel := range c.IgnoreElsewhere {
		ms, err := promParser.ParseMetricSelector(sel)
		must(err)
		allMs = append(allMs, ms)
		elsewhere = append(elsewhere, c16CoqMatchers(ms))
	}
	for _, ms := range allMs {
		for _, m := range ms {
			if m.Type == labels.MatchRegexp || m.Type == labels.MatchNotRegexp {
				pats[m.Value] = true
			}
		}
	}
	vals := map[string]bool{"": true}
	for _, db := range append([]c16DB{c.DB}, c.Others...) {
		for _, s := range db.Series {
			for _, v := range s.Labels {
				vals[v] = true
			}
		}
	}
	var table []string
	for _, p := range sortedKeys(pats) {
		m := labels.MustNewMatcher(labels.MatchRegexp, "x", p)
		for _, v := range sortedKeys(vals) {
			table = append(table, fmt.Sprintf("(%s, %s, %s)", coqStr(p), coqStr(v), coqBool(m.Matches(v))))
		}
	}
	var ignored []string
	var sels []string
	for _, s := range c.Checked {
		for _, re := range c.IgnoreMetrics {
			if s.Bare != "" && regexp.MustCompile("^"+re+"$").MatchString(s.Bare) {
				ignored = append(ignored, coqStr(s.Bare))
			}
		}
		ign := make([]string, len(s.Ignored))
		for i, n := range s.Ignored {
			ign[i] = coqStr(n)
		}
		sels = append(sels, fmt.Sprintf("(mkSel %s %s %s %s %s %s %s %s)", coqStr(s.Str), coqStr(s.Bare), coqStr(s.Name),
			c16CoqMatchers(s.Matchers), coqBool(s.Disabled), coqBool(s.Snoozed), coqZ(s.MinAgeMs*1_000_000), coqList(ign)))
	}
	exprTerm := "None"
	if c.sexpr != "" {
		exprTerm = "(Some " + c.sexpr + ")"
	}
	var poss []string
	for _, s := range c.Checked {
		poss = append(poss, coqN(s.Pos))
	}
	var rules []string
	for _, n := range c.Recording {
		rules = append(rules, fmt.Sprintf("(mkRI true %s false)", coqStr(n)))
	}
	for _, n := range c.Alerting {
		rules = append(rules, fmt.Sprintf("(mkRI false %s false)", coqStr(n)))
	}
	var others []string
	for i := range c.Others {
		others = append(others, c16CoqDB(&c.Others[i]))
	}
	// observed, grouped per selector
	var obs []string
	i := 0
	for i < len(c.Problems) {
		j := i
		var ps []string
		for j < len(c.Problems) && c.Problems[j].Selector == c.Problems[i].Selector {
			ps = append(ps, coqPair(coqStr(c.Problems[j].Summary), c.Problems[j].Severity))
			j++
		}
		obs = append(obs, coqPair(coqStr(c.Problems[i].Selector), coqList(ps)))
		i = j
	}
	// requests seen by the main server
	var inst []string
	for _, ir := range c.Instant {
		if ir.TimeMs == nil {
			inst = append(inst, coqPair("None", coqZ(ir.AtMs*1_000_000)))
		} else {
			inst = append(inst, coqPair("(Some "+coqZ(*ir.TimeMs*1_000_000)+")", coqZ(ir.AtMs*1_000_000)))
		}
	}
	var rng []string
	for i := 0; i < len(c.Range); {
		j := i
		var rs []c16RangeReq
		for j < len(c.Range) && c.Range[j].Query == c.Range[i].Query {
			rq := c.Range[j]
			switch {
			case len(rs) > 0 && rs[len(rs)-1] == rq: // the same slice asked again (cache miss): one entry
			default:
				rs = append(rs, rq)
			}
			j++
		}
		// the last slice ends at "now": asked again later it has a later end; keep the latest
		for len(rs) >= 2 && rs[len(rs)-1].StartMs == rs[len(rs)-2].StartMs && rs[len(rs)-1].StepMs == rs[len(rs)-2].StepMs {
			if rs[len(rs)-2].EndMs > rs[len(rs)-1].EndMs {
				rs[len(rs)-1] = rs[len(rs)-2]
			}
			rs = append(rs[:len(rs)-2], rs[len(rs)-1])
		}
		var ts []string
		for _, rq := range rs {
			ts = append(ts, fmt.Sprintf("(%s, %s, %s)", coqZ(rq.StartMs*1_000_000), coqZ(rq.EndMs*1_000_000), coqZ(rq.StepMs*1_000_000)))
		}
		rng = append(rng, coqPair(coqStr(c.Range[i].Query), coqList(ts)))
		i = j
	}
	st := fmt.Sprintf("(mkSet %s %s %s %s %s)", coqZ(c16ParseDur(c.LookbackRange)*1_000_000), coqZ(c16ParseDur(c.LookbackStep)*1_000_000),
		coqList(ignored), coqList(elsewhere), coqStr("up"))
	return fmt.Sprintf("{| c_id := %s; c_db := %s; c_others := %s; c_expr := %s; c_checked_pos := %s; c_shifted_probes := %s; c_now := %s; c_after := %s; c_instant := %s; c_range := %s; c_settings := %s; c_rules := %s; c_sels := %s; c_re := %s; c_observed := %s |}",
		coqN(c.ID), c16CoqDB(&c.DB), coqList(others), exprTerm, coqList(poss), coqStrList(c.Shifted), coqZ(c.Now*1_000_000), coqZ(c.After*1_000_000), coqList(inst), coqList(rng), st, coqList(rules), coqList(sels), coqList(table), coqList(obs))
}

// ---------------------------------------------------------------------------------------------

func runC16(args []string) int {
	n := argInt(args, "--n", 120)
	seed := seedFromEnv()
	r := rand.New(rand.NewSource(seed))
	rep := newReport("C16", seed)
	rep.Rule = "a case is non-trivial when at least one vector selector of the rule expression returns nothing now " +
		"(the decision tree goes past step 1)"
	cw := newCaseWriter(".", "Common.GoTime Model.Range Model.RangeRef Model.Series Model.SeriesSelectors Run.C16", 40)
	t0 := int64(0) // cases are generated as offsets and anchored at their own start (c16Shift)
	var cases []*c16Case
	id := 0
	for _, f := range c16CorpusFiles() {
		b, err := os.ReadFile(f)
		must(err)
		id++
		c := c16CorpusCase(r, id, t0, string(b))
		c.classes = append(c.classes, "corpus")
		cases = append(cases, c)
	}
	for k := 0; k < n; k++ {
		id++
		cases = append(cases, c16GenCase(r, id, t0))
	}
	parallel(len(cases), 6, func(i int) { c16Run(cases[i]) })
	keep := n <= 400
	for _, c := range cases {
		rep.hist("shape=" + c.Shape)
		if c.Attempts > 1 {
			rep.hist("rerun-after-minute-crossing")
		}
		if c16Critical(c) {
			rep.hist("dropped-minute-crossing")
			continue
		}
		tp := false
		for _, ir := range c.Instant {
			if ir.TimeMs != nil {
				tp = true
			}
		}
		rep.hist(fmt.Sprintf("instant-requests-with-time-param=%v", tp))
		rep.hist(fmt.Sprintf("expression-inside-selection-model=%v", c.sexpr != ""))
		rep.hist("lookback=" + c.LookbackRange + "/" + c.LookbackStep)
		for _, cl := range c.classes {
			if i := strings.Index(cl, ":"); i >= 0 {
				cl = "metric-regime=" + cl[i+1:]
			}
			rep.hist(cl)
		}
		for _, p := range c.Problems {
			rep.hist("problem=" + p.Summary + "/" + p.Severity)
		}
		if len(c.Problems) == 0 {
			rep.hist("problem=none")
		}
		rep.count(c.Content+fmt.Sprint(c.DB), c.nontriv)
		rep.sample(map[string]any{"expr": c.Expr, "lookback": c.LookbackRange, "series": len(c.DB.Series), "problems": c.Problems})
		if keep || c.Fail != "" {
			rep.Cases[strconv.Itoa(c.ID)] = c
		}
		if c.Fail != "" && c.Known != "" {
			rep.failKnown(strconv.Itoa(c.ID), c.Fail, c, c.Known)
			continue
		}
		if c.Fail != "" {
			rep.fail(strconv.Itoa(c.ID), c.Fail, c)
			continue
		}
		cw.add(c.coq)
	}
	cw.flush()
	for _, f := range cw.files {
		abs, _ := filepath.Abs(f)
		rep.CaseFiles = append(rep.CaseFiles, abs)
	}
	rep.write("report.json")
	return 0
}

// corpus: a rule expression per file (first line), optional "never:m0,m1" second line, optional "alerting:<name>" /
// "recording:<name>" lines adding rules of that kind and name to the checked set, optional "allchecked" line (every selector
// of the expression must be checked: the oracle does not rely on pint's own list)
func c16CorpusCase(r *rand.Rand, id int, t0 int64, text string) *c16Case {
	lines := strings.Split(strings.TrimSpace(text), "\n")
	c := c16GenCase(r, id, t0)
	c.Expr = strings.TrimSpace(lines[0])
	c.Shape = "corpus"
	c.AllChecked, c.NoneChecked = false, false
	c.DisabledNames, c.SnoozedNames, c.Recording, c.Alerting = nil, nil, nil, nil
	c.Content = fmt.Sprintf("groups:\n- name: g\n  rules:\n  - alert: test\n    expr: '%s'\n", c.Expr)
	for _, ln := range lines[1:] {
		switch {
		case strings.HasPrefix(ln, "alerting:"):
			n := strings.TrimSpace(strings.TrimPrefix(ln, "alerting:"))
			c.Alerting = append(c.Alerting, n)
			c.Content += fmt.Sprintf("  - alert: %s\n    expr: up == 0\n", n)
		case strings.TrimSpace(ln) == "allchecked":
			c.AllChecked = true // by construction every selector of this expression must be checked
		case strings.HasPrefix(ln, "recording:"):
			n := strings.TrimSpace(strings.TrimPrefix(ln, "recording:"))
			c.Recording = append(c.Recording, n)
			c.Content += fmt.Sprintf("  - record: %s\n    expr: sum(up) by (job)\n", n)
		}
	}
	if len(lines) > 1 && strings.HasPrefix(lines[1], "never:") {
		drop := strings.Split(strings.TrimPrefix(lines[1], "never:"), ",")
		var keepS []c16Series
		for _, s := range c.DB.Series {
			dropIt := false
			for _, d := range drop {
				if s.Labels["__name__"] == strings.TrimSpace(d) {
					dropIt = true
				}
			}
			if !dropIt {
				keepS = append(keepS, s)
			}
		}
		c.DB.Series = keepS
	}
	return c
}

func c16CorpusFiles() []string {
	exe, err := os.Executable()
	if err != nil {
		return nil
	}
	m, _ := filepath.Glob(filepath.Join(filepath.Dir(filepath.Dir(exe)), "corpus", "C16", "*.case"))
	sort.Strings(m)
	return m
}
