//go:build verif

package main

// Helpers shared by the C08 / C09 / C18 harnesses (config loading, entry discovery, pint runs).

import (
	"context"
	"encoding/json"
	"fmt"
	"io"
	"log/slog"
	"os"
	"path/filepath"
	"sort"
	"strings"
	"time"

	"github.com/prometheus/common/model"

	"github.com/cloudflare/pint/internal/comments"
	"github.com/cloudflare/pint/internal/config"
	"github.com/cloudflare/pint/internal/discovery"
	pgit "github.com/cloudflare/pint/internal/git"
	"github.com/cloudflare/pint/internal/parser"
)

func scQuiet() {
	slog.SetDefault(slog.New(slog.NewTextHandler(io.Discard, nil)))
}

// scLoadConfig writes the HCL text to dir/.pint.hcl and loads it with the real config.Load.
func scLoadConfig(dir, hcl string) (config.Config, error) {
	p := filepath.Join(dir, ".pint.hcl")
	writeFile(p, hcl)
	cfg, _, err := config.Load(p, true)
	return cfg, err
}

// scEntries runs the real glob finder (strict parser, default schema) over dir/<pattern>; reported paths
// are made relative to dir (as if pint had been started there).
func scEntries(dir string, pattern string) ([]discovery.Entry, error) {
	f := discovery.NewGlobFinder([]string{filepath.Join(dir, pattern)}, pgit.NewPathFilter(nil, nil, nil), parser.PrometheusSchema, model.UTF8Validation, nil)
	es, err := f.Find()
	if err != nil {
		return nil, err
	}
	for i := range es {
		if rel, err := filepath.Rel(dir, es[i].Path.Name); err == nil {
			es[i].Path.Name = rel
		}
		if rel, err := filepath.Rel(dir, es[i].Path.SymlinkTarget); err == nil {
			es[i].Path.SymlinkTarget = rel
		}
	}
	return es, nil
}

func scCtx(cmd string) context.Context {
	ctx := context.Background()
	switch cmd {
	case "ci":
		return context.WithValue(ctx, config.CommandKey, config.CICommand)
	case "lint":
		return context.WithValue(ctx, config.CommandKey, config.LintCommand)
	case "watch":
		return context.WithValue(ctx, config.CommandKey, config.WatchCommand)
	}
	return ctx // no command set
}

var scStateNames = map[discovery.ChangeType]string{
	discovery.Unknown: "Unknown", discovery.Noop: "Noop", discovery.Added: "Added",
	discovery.Modified: "Modified", discovery.Removed: "Removed", discovery.Moved: "Moved",
}

var scAllStates = []discovery.ChangeType{discovery.Unknown, discovery.Noop, discovery.Added, discovery.Modified, discovery.Removed, discovery.Moved}

// scCommentMatches: Match strings of `# pint disable` comments and of not yet expired `# pint snooze`
// comments attached to the rule.
func scCommentMatches(r parser.Rule) []string {
	out := []string{}
	for _, d := range comments.Only[comments.Disable](r.Comments, comments.DisableType) {
		out = append(out, d.Match)
	}
	for _, s := range comments.Only[comments.Snooze](r.Comments, comments.SnoozeType) {
		if s.Until.After(time.Now()) {
			out = append(out, s.Match)
		}
	}
	return out
}

// ---------------------------------------------------------------------------------------------
// JSON report of a pint run

type scProblem struct {
	Path     string `json:"path"`
	Owner    string `json:"owner,omitempty"`
	Reporter string `json:"reporter"`
	Problem  string `json:"problem"`
	Details  string `json:"details,omitempty"`
	Severity string `json:"severity"`
	Lines    []int  `json:"lines"`
}

func (p scProblem) key() string {
	return fmt.Sprintf("%s|%s|%v|%s|%s|%s", p.Reporter, p.Path, p.Lines, p.Severity, p.Problem, p.Details)
}

type scRun struct {
	Args     []string    `json:"args"`
	Exit     int         `json:"exit"`
	Stderr   string      `json:"stderr_tail,omitempty"`
	JSONOK   bool        `json:"json_ok"`
	Problems []scProblem `json:"-"`
}

// scRunPint runs `pint <global args> lint --json out rules` (or ci) in dir and parses the report.
func scRunPint(dir string, jsonName string, global []string, cmdArgs []string) scRun {
	jp := filepath.Join(dir, jsonName)
	os.Remove(jp)
	args := append([]string{"--no-color"}, global...)
	args = append(args, cmdArgs...)
	for i, a := range args {
		if a == "@JSON@" {
			args[i] = jp
		}
	}
	rc, _, se := runPint(dir, args...)
	if len(se) > 1500 {
		se = se[len(se)-1500:]
	}
	res := scRun{Args: args, Exit: rc, Stderr: se}
	b, err := os.ReadFile(jp)
	if err == nil {
		if json.Unmarshal(b, &res.Problems) == nil {
			res.JSONOK = true
		}
	}
	return res
}

func scKeys(ps []scProblem) []string {
	out := make([]string, len(ps))
	for i, p := range ps {
		out[i] = p.key()
	}
	sort.Strings(out)
	return out
}

func scCrashed(r scRun) bool {
	return r.Exit < 0 || r.Exit > 1 || strings.Contains(r.Stderr, "panic:") || strings.Contains(r.Stderr, "fatal error:") || strings.Contains(r.Stderr, "goroutine ")
}

func scDiff(a, b []string) (onlyA, onlyB []string) {
	m := map[string]int{}
	for _, x := range a {
		m[x]++
	}
	for _, x := range b {
		if m[x] > 0 {
			m[x]--
		} else {
			onlyB = append(onlyB, x)
		}
	}
	for _, x := range a {
		if m[x] > 0 {
			m[x]--
			onlyA = append(onlyA, x)
		}
	}
	return onlyA, onlyB
}

func scIndent(s, pre string) string {
	lines := strings.Split(strings.TrimRight(s, "\n"), "\n")
	for i := range lines {
		lines[i] = pre + lines[i]
	}
	return strings.Join(lines, "\n") + "\n"
}

func hclStr(s string) string {
	// HCL quoted template: escape backslash, quote, and template introducers
	s = strings.ReplaceAll(s, `\`, `\\`)
	s = strings.ReplaceAll(s, `"`, `\"`)
	s = strings.ReplaceAll(s, "${", "$${")
	s = strings.ReplaceAll(s, "%{", "%%{")
	s = strings.ReplaceAll(s, "\n", `\n`)
	s = strings.ReplaceAll(s, "\t", `\t`)
	return `"` + s + `"`
}

func hclList(xs []string) string {
	o := make([]string, len(xs))
	for i, x := range xs {
		o[i] = hclStr(x)
	}
	return "[" + strings.Join(o, ", ") + "]"
}
