//go:build verif

package config

// Verification-only exports (injected through `go build -overlay`, never part of /repo).
// They only EXPOSE unexported functions of this package; no decision logic lives here, except that
// VerifParsedRules repeats the construction half of GetChecksForEntry (ErrorCheck for a broken entry,
// otherwise baseRules followed by parseRule of every rule block) so that the harness can see the parsed
// rules the routing loop iterates over.  The routing loop itself is observed through the real
// GetChecksForEntry.

import (
	"context"
	"time"

	"github.com/cloudflare/pint/internal/checks"
	"github.com/cloudflare/pint/internal/discovery"
)

type VerifPRule struct {
	Name    string
	Check   checks.RuleChecker
	Tags    []string
	Locked  bool
	Matched bool
	Match   []Match
	Ignore  []Match
}

func VerifParsedRules(ctx context.Context, cfg *Config, gen *PrometheusGenerator, entry discovery.Entry) (hasErr bool, out []VerifPRule) {
	defaultStates := defaultMatchStates(commandFromContext(ctx))
	defaultMatch := []Match{{State: defaultStates}}
	proms := gen.ServersForPath(entry.Path.Name)
	var prs []parsedRule
	if entry.PathError != nil || entry.Rule.Error.Err != nil {
		hasErr = true
		check := checks.NewErrorCheck(entry)
		prs = append(prs, baseParsedRule(defaultMatch, check.Reporter(), check, nil))
	} else {
		prs = append(prs, baseRules(proms, defaultMatch)...)
		for _, rule := range cfg.Rules {
			prs = append(prs, parseRule(rule, proms, defaultStates)...)
		}
	}
	for _, pr := range prs {
		out = append(out, VerifPRule{
			Name: pr.name, Check: pr.check, Tags: pr.tags, Locked: pr.locked,
			Matched: isMatch(ctx, entry, pr.ignore, pr.match),
			Match:   pr.match, Ignore: pr.ignore,
		})
	}
	return hasErr, out
}

// VerifParseRule exposes parseRule for one rule block (names/locked/match/ignore of the parsed rules it yields).
func VerifParseRule(ctx context.Context, rule Rule, gen *PrometheusGenerator, entry discovery.Entry) (out []VerifPRule) {
	defaultStates := defaultMatchStates(commandFromContext(ctx))
	for _, pr := range parseRule(rule, gen.ServersForPath(entry.Path.Name), defaultStates) {
		out = append(out, VerifPRule{
			Name: pr.name, Check: pr.check, Tags: pr.tags, Locked: pr.locked,
			Matched: isMatch(ctx, entry, pr.ignore, pr.match),
			Match:   pr.match, Ignore: pr.ignore,
		})
	}
	return out
}

func VerifIsMatch(ctx context.Context, e discovery.Entry, ignore, match []Match) bool {
	return isMatch(ctx, e, ignore, match)
}

func VerifDefaultRuleMatch(match []Match, defaultStates []string) []Match {
	return defaultRuleMatch(match, defaultStates)
}

func VerifDefaultMatchStates(cmd ContextCommandVal) []string { return defaultMatchStates(cmd) }

func VerifStateMatches(states []string, state discovery.ChangeType) bool {
	return stateMatches(states, state)
}

// VerifDurationMatch: parseDurationMatch + isMatch; ok=false when the expression does not parse.
func VerifDurationMatch(expr string, durNanos int64) (ok, res bool) {
	dm, err := parseDurationMatch(expr)
	if err != nil {
		return false, false
	}
	return true, dm.isMatch(time.Duration(durNanos))
}

func VerifParseDuration(s string) (int64, bool) {
	d, err := parseDuration(s)
	if err != nil {
		return 0, false
	}
	return int64(d), true
}

func VerifIsEnabled(enabled, disabled []string, e discovery.Entry, name string, check checks.RuleChecker, tags []string, locked bool) bool {
	return isEnabled(enabled, disabled, e.Rule, name, check, tags, locked)
}
