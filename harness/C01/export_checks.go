//go:build verif

package checks

import (
	"context"

	"github.com/prometheus/prometheus/promql"
	promTemplate "github.com/prometheus/prometheus/template"
)

// VerifTemplateSyntax: what alerts/template's checkTemplateSyntax says about one label/annotation value.
func VerifTemplateSyntax(name, text string) bool {
	data := promTemplate.AlertTemplateData(map[string]string{}, map[string]string{}, "", promql.Sample{})
	return checkTemplateSyntax(context.Background(), name, text, data) == nil
}
