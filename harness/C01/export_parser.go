//go:build verif

package parser

import (
	"bytes"
	"io"
)

// VerifReadThrough returns the bytes the masking ContentReader hands to the yaml decoder for the given file
// content, together with the lines it recorded (C01 glue: on files without pint control comments the reader
// must be the identity, so that pint and Prometheus decode the same bytes).
func VerifReadThrough(content []byte) (out []byte, lines []string, err error) {
	cr := newContentReader(bytes.NewReader(content))
	out, err = io.ReadAll(cr)
	return out, cr.lines, err
}
