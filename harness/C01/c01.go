//go:build verif

package main

// C01: a file pint passes in strict mode (no Bug/Fatal) is loadable by Prometheus.
//  (a) correspondence of both sides on the real forest: Model.Routing.strict_blocks vs the real strict pipeline,
//      Model.PromLoader.prom_accepts vs the real rulefmt.Parse(content, false);
//  (b) oracle_impl: pint verdict vs rulefmt.Parse directly.

import (
	"bytes"
	"context"
	"fmt"
	"io"
	"math/rand"
	"os"
	"path/filepath"
	"strings"
	"time"

	"github.com/prometheus/common/model"
	"github.com/prometheus/prometheus/model/rulefmt"
	"github.com/prometheus/prometheus/model/timestamp"
	"github.com/prometheus/prometheus/promql"
	promTemplate "github.com/prometheus/prometheus/template"
	"gopkg.in/yaml.v3"

	"github.com/cloudflare/pint/internal/checks"
	"github.com/cloudflare/pint/internal/comments"
	"github.com/cloudflare/pint/internal/parser"
)

func init() { register("C01", runC01) }

const (
	annStrDec   = 1 << 5
	annIntDec   = 1 << 6
	annTmplPint = 1 << 7
	annTmplProm = 1 << 8
	annDurZero  = 1 << 9
	annNullDec  = 1 << 11 // per node: the scalar resolves to null
)

var promTmplDefs = []string{
	"{{$labels := .Labels}}",
	"{{$externalLabels := .ExternalLabels}}",
	"{{$externalURL := .ExternalURL}}",
	"{{$value := .Value}}",
}

// promTemplateOK replicates rulefmt.testTemplateParsing's parseTest.
func promTemplateOK(text string) bool {
	data := promTemplate.AlertTemplateData(map[string]string{}, map[string]string{}, "", promql.Sample{})
	tmpl := promTemplate.NewTemplateExpander(context.TODO(), strings.Join(append(append([]string{}, promTmplDefs...), text), ""),
		"__alert_x", data, model.Time(timestamp.FromTime(time.Now())), nil, nil, nil)
	return tmpl.ParseTest() == nil
}

func c01ValueBits(v string) int {
	b := 0
	if checks.VerifTemplateSyntax("summary", v) {
		b |= annTmplPint
	}
	if promTemplateOK(v) {
		b |= annTmplProm
	}
	if d, err := model.ParseDuration(v); err == nil && d == 0 {
		b |= annDurZero
	}
	return b
}

func c01NodeBits(n *yaml.Node) int {
	b := 0
	if n.Kind == yaml.ScalarNode {
		var s string
		if func() (ok bool) {
			defer func() { recover() }()
			return n.Decode(&s) == nil
		}() {
			b |= annStrDec
		}
		var i int
		if func() (ok bool) {
			defer func() { recover() }()
			return n.Decode(&i) == nil
		}() {
			b |= annIntDec
		}
		if scalarIsNull(n) {
			b |= annNullDec
		}
	}
	return b
}

// ---- known-finding class predicates (pint passes, Prometheus refuses) ----

// hasNonAliasMerge: a `<<` merge key whose value is not an alias (inline mapping or a sequence of mappings):
// pint's unpackNodes then skips that value AND every following key up to the next alias.
func hasNonAliasMerge(docs []parser.VerifDoc) bool {
	found := false
	for _, d := range docs {
		walkForest(d.Node, map[*yaml.Node]bool{}, func(n *yaml.Node) {
			if n.Kind != yaml.MappingNode {
				return
			}
			for i := 0; i+1 < len(n.Content); i += 2 {
				k := n.Content[i]
				if k.Kind == yaml.ScalarNode && k.Value == "<<" && k.ShortTag() == "!!merge" && n.Content[i+1].Kind != yaml.AliasNode {
					found = true
				}
			}
		})
	}
	return found
}

// scalarIsNull: yaml.v3 resolves the scalar to null (decoding it into an interface{} yields nil without error).
func scalarIsNull(n *yaml.Node) bool {
	var v any = "sentinel"
	ok := func() (ok bool) {
		defer func() { recover() }()
		return n.Decode(&v) == nil
	}()
	return ok && v == nil
}

func hasAliasOrMerge(docs []parser.VerifDoc) bool {
	found := false
	for _, d := range docs {
		walkForest(d.Node, map[*yaml.Node]bool{}, func(n *yaml.Node) {
			if n.Kind == yaml.AliasNode || (n.Kind == yaml.ScalarNode && n.Value == "<<" && n.ShortTag() == "!!merge") {
				found = true
			}
		})
	}
	return found
}

func hasBinaryTag(docs []parser.VerifDoc) bool {
	found := false
	for _, d := range docs {
		walkForest(d.Node, map[*yaml.Node]bool{}, func(n *yaml.Node) {
			if n.ShortTag() == "!!binary" {
				found = true
			}
		})
	}
	return found
}

func modelledBlock(p probObs) bool {
	switch {
	case p.Reporter == "yaml/parse" && p.Severity == "Fatal":
		return true
	case p.Reporter == "promql/syntax" && p.Severity == "Fatal":
		return true
	case p.Reporter == "alerts/for" && p.Severity == "Bug" && p.Summary == "invalid duration":
		return true
	case p.Reporter == "alerts/template" && p.Severity == "Fatal" && p.Summary == "template syntax error":
		return true
	}
	return false
}

func runC01(args []string) int {
	n := argInt(args, "--n", 300)
	nCat := argInt(args, "--cat", 60)      // extra catalogue deviations beyond the core ones (-1 = all)
	nStress := argInt(args, "--stress", 4) // random reader-stress files beyond one per boundary size
	seed := seedFromEnv()
	r := rand.New(rand.NewSource(seed))
	rep := newReport("C01", seed)
	rep.Rule = "non-trivial := Prometheus rejects the file or pint blocks it (Bug/Fatal); distinct by content"
	cw := newCaseWriter(".", "Model.Yaml Model.Parser Run.C19 Run.C01", 60)
	cw.preamble = "Open Scope N_scope.\n"
	keepCases := n <= 1000
	workDir, _ := filepath.Abs("files")
	must(os.MkdirAll(workDir, 0o755))
	forestNodeExtra = c01NodeBits

	// scheme: 0 = the run's default name validation scheme (seed parity), 1 = the other one. The scheme is a process-wide
	// global of prometheus/common shared by pint and rulefmt; cases run sequentially and set it before every library call.
	type item struct {
		content, class string
		scheme         int
	}
	var items []item
	for _, p := range corpusFiles("C01") {
		if b, err := os.ReadFile(p); err == nil {
			items = append(items, item{string(b), "corpus", 0})
		}
	}
	for _, p := range corpusFiles("C19") {
		if b, err := os.ReadFile(p); err == nil && !strings.Contains(p, ".wrapped.") {
			items = append(items, item{string(b), "corpus-c19", 0})
		}
	}
	gv := newDocGen(r, 0)
	g1 := newDocGen(r, 0.04)
	gm := newDocGen(r, 0.12)
	nameSlots := map[string]bool{"record": true, "alert": true, "gname": true, "glabelk": true, "alabelk": true, "annk": true, "rlabelk": true}
	for i, dev := range c01Catalogue(r, nCat) {
		if nameSlots[dev.slot] && (dev.op == "value" || dev.op == "key") {
			// name validity depends on the scheme: both
			items = append(items, item{c01Render(dev), "catalogue:" + dev.op, 0}, item{c01Render(dev), "catalogue:" + dev.op, 1})
		} else {
			items = append(items, item{c01Render(dev), "catalogue:" + dev.op, i % 2})
		}
		rep.hist("catalogue-slot:" + dev.slot)
	}
	for i := 0; i < len(c01BoundarySizes)+nStress; i++ {
		size := c01BoundarySizes[i%len(c01BoundarySizes)]
		if i >= len(c01BoundarySizes) {
			size = pick(r, c01BoundarySizes) + r.Intn(3) - 1
		}
		// every boundary size once with a single long physical line (the four one-line fillers rotate with the seed) and
		// a defective tail; the extra ones draw size, filler (incl. many short lines) and tail at random
		kind := []int{0, 1, 3, 4}[(i+int(seed%4)+4)%4]
		if i >= len(c01BoundarySizes) {
			kind = r.Intn(5)
		}
		content, desc := c01ReaderStress(r, gv, size, kind, i < len(c01BoundarySizes) || r.Intn(2) == 0)
		items = append(items, item{content, "reader-stress", 0})
		rep.hist("reader-stress:" + desc[strings.Index(desc, ":")+1:])
	}
	n += len(items)
	for len(items) < n {
		switch r.Intn(10) {
		case 0, 1:
			items = append(items, item{gv.ruleFile(), "generated-valid", r.Intn(2)})
		case 2, 3, 4, 5:
			items = append(items, item{g1.ruleFile(), "generated-few-defects", r.Intn(2)})
		case 6, 7:
			items = append(items, item{gm.ruleFile(), "generated-defects", r.Intn(2)})
		case 8:
			items = append(items, item{gm.mutateBytes(g1.ruleFile()), "generated-mutated", r.Intn(2)})
		case 9:
			items = append(items, item{c01Special(r), "special", r.Intn(2)})
		}
	}
	schemes := []model.ValidationScheme{model.UTF8Validation, model.LegacyValidation}
	if seed%2 == 0 {
		schemes = []model.ValidationScheme{model.LegacyValidation, model.UTF8Validation}
	}
	rep.Notes = append(rep.Notes, fmt.Sprintf("name validation scheme: per case (default of this run %v; name-sensitive catalogue cases under both); a process-wide global shared by pint and rulefmt, set before every call", schemes[0]))

	for i, it := range items {
		id := i + 1
		content := []byte(it.content)
		names := schemes[it.scheme]
		model.NameValidationScheme = names
		rep.hist("name-validation:" + map[model.ValidationScheme]string{model.UTF8Validation: "utf8", model.LegacyValidation: "legacy"}[names])
		if strings.Contains(it.content, "# pint") || len(comments.Parse(1, it.content)) > 0 {
			rep.hist("skipped:pint-comment")
			continue
		}
		if pre, _, _, _ := parser.VerifForest(content); hasAliasCycle(pre) || hasTemplateAliasCycle(it.content) {
			rep.hist("skipped:known-C02-crash-class")
			continue
		}
		file := filepath.Join(workDir, fmt.Sprintf("f%05d.yml", id))
		must(os.WriteFile(file, content, 0o644))
		model.NameValidationScheme = names
		term, _, _, ps, _ := forestCase(id, content, parser.PrometheusSchema, names, c01ValueBits)
		docs := lastDocs
		if len(content) > 20000 {
			term = "" // oracle only: the correspondence term would be dominated by the filler text
		}
		// glue (mask_id): without pint control comments the masking reader hands yaml.v3 exactly the file's bytes
		// (checked as: yaml.v3 returns the same forest for the reader's output as for the raw bytes Prometheus decodes; the byte
		// identity itself is only recorded — a reader that e.g. normalised line ends would not break the property)
		through, _, rerr := parser.VerifReadThrough(content)
		if rerr != nil || !bytes.Equal(through, content) {
			rep.hist("reader-bytes-differ")
		}
		readerID := sameForestAsRaw(content, docs)
		if !readerID && bytes.Contains(content, []byte("\r\r\n")) {
			// since 670b316 the reader drops the CR of a line-final CR LF; when another CR precedes it (CR CR LF = two line
			// breaks for yaml) the decoder sees one break where the raw bytes have two, so folded scalars can differ.
			// Recorded, not a glue failure: the property oracle above still compares pint and rulefmt on these bytes.
			rep.hist("glue-not-compared:cr-before-crlf")
			readerID = true
		}
		res := runPipeline(file, true, parser.PrometheusSchema, names, 30*time.Second)
		os.Remove(file)
		model.NameValidationScheme = names
		_, perrs := rulefmt.Parse(content, false)
		promOK := len(perrs) == 0
		if res.Panic != "" || res.Timeout || ps != "" || res.FindErr != "" {
			rep.hist("pipeline-crash(C02's business)")
			continue
		}
		blockedAny, blockedModelled := false, false
		var blockers []string
		for _, p := range res.Problems {
			if p.Severity == "Bug" || p.Severity == "Fatal" {
				blockedAny = true
				blockers = append(blockers, p.Reporter+":"+p.Summary)
				if modelledBlock(p) {
					blockedModelled = true
				}
			}
		}
		rep.hist("class:" + it.class)
		rep.hist(fmt.Sprintf("pint-blocks=%v prom-accepts=%v", blockedAny, promOK))
		rep.count(fmt.Sprintf("%v|%s", names, it.content), blockedAny || !promOK)
		kept := map[string]any{"class": it.class, "name_validation_scheme": fmt.Sprint(names), "content": it.content, "pint_blockers": blockers, "prom_errors": errStrings(perrs)}
		if len(it.content) > 20000 {
			delete(kept, "content")
			kept["content_run_length_encoded"] = rleLong(it.content) // runs of >= 64 equal bytes written as «c*N»
			kept["content_bytes"] = len(it.content)
		}
		if keepCases {
			rep.Cases[fmt.Sprint(id)] = kept
		}
		// (b) the property as written
		if !readerID {
			rep.hist("reader-not-identity")
		}
		if !blockedAny && !promOK {
			what := "pint (strict, default offline checks) reports no Bug/Fatal but rulefmt.Parse rejects the file: " + strings.Join(errStrings(perrs), "; ")
			if !readerID {
				what += fmt.Sprintf(" [pint's yaml decoder did not see the document Prometheus sees: the content reader delivered %d of %d bytes]", len(through), len(content))
			}
			known := ""
			switch {
			case hasNonAliasMerge(docs):
				known = "C01-merge-not-alias"
			}
			if known != "" {
				rep.failKnown(fmt.Sprint(id), what, kept, known)
			} else {
				rep.fail(fmt.Sprint(id), what, kept)
			}
		}
		if len(rep.Samples) < 3 && (blockedAny || !promOK) && it.class != "corpus" {
			rep.sample(kept)
		}
		// (a) correspondence terms
		if term == "" {
			rep.hist("correspondence-skipped:forest-or-content-too-large")
			if !readerID {
				// keep the glue obligation visible to Coq even when the forest is not serialised
				cw.add(fmt.Sprintf("{| c_base := empty_case %d; c_reader_id := false; c_pint_blocked := None; c_prom_accepts := None |}", id))
			}
			continue
		}
		obsP := fmt.Sprintf("(Some %s)", coqBool(blockedModelled))
		obsQ := fmt.Sprintf("(Some %s)", coqBool(promOK))
		if !res.Plain {
			obsP = "None"
		}
		if hasBinaryTag(docs) {
			obsQ = "None"
			rep.hist("prom-side-not-compared:binary-tag")
		}
		if hasAliasOrMerge(docs) {
			rep.hist("has:alias-or-merge")
		}
		cw.add(fmt.Sprintf("{| c_base := %s;\n c_reader_id := %s; c_pint_blocked := %s; c_prom_accepts := %s |}", term, coqBool(readerID), obsP, obsQ))
	}
	for _, g := range []*docGen{gv, g1, gm} {
		for k, v := range g.hist {
			rep.Histogram[k] += v
		}
	}
	cw.flush()
	rep.CaseFiles = cw.files
	for i := range rep.CaseFiles {
		rep.CaseFiles[i], _ = filepath.Abs(rep.CaseFiles[i])
	}
	for _, a := range args {
		if a == "--oracle-only" {
			// search mode: something is already known to be broken and only a concrete failing input is wanted;
			// those come from the implementation-level oracle above, so the (expensive) model evaluation of the
			// case files is skipped
			rep.CaseFiles = nil
			rep.hist("search-mode:oracle-only")
		}
	}
	rep.write("report.json")
	return 0
}

func errStrings(errs []error) []string {
	out := make([]string, 0, len(errs))
	for _, e := range errs {
		out = append(out, e.Error())
	}
	return out
}

// c01Special: hand-picked shapes around the decoder's corner cases (null, aliases, merges, explicit tags, ints).
func c01Special(r *rand.Rand) string {
	rule := pick(r, []string{
		"  - record: ~\n    expr: up\n",
		"  - alert: ~\n    expr: up\n",
		"  - alert:\n    expr: up\n",
		"  - record: a\n    expr: ~\n",
		"  - alert: A\n    expr: up\n    for: ~\n",
		"  - alert: A\n    expr: up\n    labels: ~\n",
		"  - alert: A\n    expr: up\n    annotations:\n      a: ~\n",
		"  - alert: A\n    expr: up\n    labels:\n      ~: x\n",
		"  - alert: A\n    expr: up\n    labels:\n      a: !!str 5\n",
		"  - alert: A\n    expr: !!str up\n",
		"  - record: a\n    expr: up\n    for: 0s\n",
		"  - record: a\n    expr: up\n    annotations: {}\n",
		"  - &b\n    record: a\n    expr: up\n  - <<: *b\n    record: c\n",
		"  - &b\n    alert: A\n    expr: up\n    for: 5m\n  - <<: [*b]\n    record: c\n",
		"  - &b\n    alert: A\n    expr: up\n    for: 5m\n  - record: c\n    expr: up\n    <<: [*b]\n",
		"  - record: c\n    expr: up\n    <<: {for: 5m}\n",
		"  - record: c\n    expr: &e up\n  - record: d\n    expr: *e\n",
		"  - record: c\n    expr: up\n    labels: &l\n      a: b\n  - alert: D\n    expr: up\n    labels: *l\n",
		"  - ~\n",
		"  - record: \"a b\"\n    expr: up\n",
		"  - alert: A\n    expr: up\n    annotations:\n      a: \"{{ $labels.job\"\n",
		"  - alert: A\n    expr: sum(\n    annotations:\n      a: \"{{ $labels.job\"\n",
		"  - alert: A\n    expr: up\n    keep_firing_for: 1x\n",
		"  - alert: A\n    expr: up\n    labels:\n      __name__: x\n",
		"  - alert: A\n    expr: up\n    annotations:\n      \"a b\": x\n",
		"  - record: a\n    expr: up\n    labels:\n      a: \"{{ bad\"\n",
	})
	group := pick(r, []string{
		"- name: g\n  rules:\n",
		"- name: g\n  limit: 18446744073709551615\n  rules:\n",
		"- name: g\n  limit: 1.0\n  rules:\n",
		"- name: g\n  limit: 0x10\n  rules:\n",
		"- name: g\n  limit: !!int x\n  rules:\n",
		"- name: g\n  interval: 0\n  rules:\n",
		"- name: g\n  labels:\n    a: \"{{ bad\"\n  rules:\n",
		"- name: g\n  labels:\n    a: ~\n  rules:\n",
		"- name: g\n  query_offset: ~\n  rules:\n",
		"- name: g\n  interval: ~\n  rules:\n",
		"- ~\n- name: g\n  rules:\n",
		"- name: g\n  rules: !!seq\n",
		"- name: &rules g0\n  rules: []\n- name: g\n  *rules :\n",
	})
	top := pick(r, []string{"groups:\n", "groups:\n", "groups:\n", "---\ngroups:\n", "\"groups\":\n"})
	return top + group + rule
}

// sameForestAsRaw: decoding the raw bytes with yaml.v3 (what rulefmt.Parse starts from) gives the same documents — kinds,
// tags, values, shape, alias targets — as pint's decoder got through its content reader, and fails iff that one failed.
func sameForestAsRaw(content []byte, docs []parser.VerifDoc) bool {
	_, _, yerr, _ := parser.VerifForest(content)
	dec := yaml.NewDecoder(bytes.NewReader(content))
	i := 0
	for {
		var doc yaml.Node
		err := dec.Decode(&doc)
		if err == io.EOF {
			return i == len(docs) && yerr == nil
		}
		if err != nil {
			return i == len(docs) && yerr != nil
		}
		if i >= len(docs) || !sameNode(&doc, docs[i].Node, 0) {
			return false
		}
		i++
	}
}

func sameNode(a, b *yaml.Node, depth int) bool {
	if a == nil || b == nil {
		return a == b
	}
	if depth > 200 {
		return true // cyclic anchors are skipped before this point; bound the walk anyway
	}
	if a.Kind != b.Kind || a.ShortTag() != b.ShortTag() || a.Value != b.Value || a.Anchor != b.Anchor || len(a.Content) != len(b.Content) {
		return false
	}
	if (a.Alias == nil) != (b.Alias == nil) {
		return false
	}
	if a.Alias != nil && !sameNode(a.Alias, b.Alias, depth+1) {
		return false
	}
	for i := range a.Content {
		if !sameNode(a.Content[i], b.Content[i], depth+1) {
			return false
		}
	}
	return true
}

// rleLong writes runs of at least 64 equal bytes as «c*N» (replays of the reader-stress files stay readable).
func rleLong(s string) string {
	var b strings.Builder
	for i := 0; i < len(s); {
		j := i
		for j < len(s) && s[j] == s[i] {
			j++
		}
		if j-i >= 64 {
			fmt.Fprintf(&b, "«%c*%d»", s[i], j-i)
		} else {
			b.WriteString(s[i:j])
		}
		i = j
	}
	return b.String()
}
