//go:build verif

package main

// C01-specific input strata (in addition to the shared structure-aware generator of harness/shared_yaml/gen.go):
//
//  (1) single-deviation catalogue: ONE otherwise valid document (a group with every optional key, one alerting
//      and one recording rule with every field) in which exactly one slot deviates: the value of one key is
//      replaced by one entry of a catalogue of YAML value shapes (empty string in both quote styles, the null
//      spellings, ints, bools, floats, sequences, mappings, explicit tags, block scalars, ...), or one key is
//      removed / duplicated / followed by an unknown sibling.  Because everything else is valid, "pint passes and
//      Prometheus refuses" shows up for every slot x shape where the two disagree, instead of being drowned by a
//      second, unrelated defect.  Enumerated deterministically: every slot x every CORE shape in every run, plus a
//      seed-dependent sample (quick) or all (thorough) of the remaining shapes.
//
//  (2) reader stress: a valid head, a filler that crosses the buffer sizes used by line readers (4 KiB, 64 KiB)
//      either as ONE physical line (comment, annotation text, label matcher) or as many short lines, CRLF line ends,
//      and a tail group that is valid or carries one defect.  pint must have read the file to its end.

import (
	"fmt"
	"math/rand"
	"sort"
	"strings"

	promparser "github.com/prometheus/prometheus/promql/parser"
)

func sp(v string) string {
	if v == "" {
		return ""
	}
	return " " + v
}

type c01Slot struct {
	name string
	def  string // default (valid) value text written after "key:"; "\n"+indent marker \x01 for nested blocks
}

// The skeleton: lines with {slot} placeholders. `key:{slot}`: the value text is appended with a single space when it
// does not start with a newline. \x01 inside a value = indentation of the key + 2.
var c01Skeleton = []string{
	"groups:{groups}",
}

var c01GroupLines = []string{
	"- name:{gname}",
	"  interval:{ginterval}",
	"  query_offset:{goffset}",
	"  limit:{glimit}",
	"  labels:{glabels}",
	"  rules:{rules}",
}

var c01RuleLines = []string{
	"  - alert:{alert}",
	"    expr:{aexpr}",
	"    for:{for}",
	"    keep_firing_for:{keep}",
	"    labels:{alabels}",
	"    annotations:{anns}",
	"  - record:{record}",
	"    expr:{rexpr}",
	"    labels:{rlabels}",
}

// nested defaults
var c01Defaults = map[string]string{
	"groups":    "\n{GROUP}",
	"gname":     "g1",
	"ginterval": "1m",
	"goffset":   "30s",
	"glimit":    "10",
	"glabels":   "\n\x01{glabelk}:{glabelv}",
	"glabelk":   "team",
	"glabelv":   "infra",
	"rules":     "\n{RULES}",
	"alert":     "HighErrors",
	"aexpr":     "up == 0",
	"for":       "5m",
	"keep":      "1m",
	"alabels":   "\n\x01{alabelk}:{alabelv}",
	"alabelk":   "severity",
	"alabelv":   "page",
	"anns":      "\n\x01{annk}:{annv}",
	"annk":      "summary",
	"annv":      "\"Instance {{ $labels.instance }} down\"",
	"record":    "job:up:sum",
	"rexpr":     "sum(up) by (job)",
	"rlabels":   "\n\x01{rlabelk}:{rlabelv}",
	"rlabelk":   "job",
	"rlabelv":   "x",
}

// value slots (the text after `key:`) and key-text slots
var c01ValueSlots = []string{"groups", "gname", "ginterval", "goffset", "glimit", "glabels", "glabelv", "rules",
	"alert", "aexpr", "for", "keep", "alabels", "alabelv", "anns", "annv", "record", "rexpr", "rlabels", "rlabelv"}
var c01KeySlots = []string{"glabelk", "alabelk", "annk", "rlabelk"}

// YAML value shapes. \x01 = indentation for continuation lines.
var c01CoreShapes = []string{`""`, `''`, `~`, ``, `null`, `0`, `5`, `true`, `[a]`, `{a: b}`, `!!str 5`, `" "`}
var c01MoreShapes = []string{`-1`, `1.5`, `[]`, `{}`, `!!str`, `"5m"`, `5m`, `0s`, `abc`, `"a b"`, `"{{ bad"`, "|\n\x01up", ">-\n\x01up", "|-\n\x01 5m",
	`!!binary aGk=`, `0x10`, `1e3`, `2024-01-01`, `"\t"`, `!!null x`, `!!null ""`, `!!int 5`, `!!int x`, `&anc up`, `18446744073709551615`, `"é"`,
	`"foo{bar}"`, `"__name__"`, `Null`, `NULL`, `!!map {}`, `!!seq []`, `!!seq x`, `!!map x`, `[~]`, `[{}]`, `"0"`, `"null"`, `'~'`, `00`, `+5`, `1_0`,
	`.inf`, `"{{ $labels.job }}"`, `"{{ $value | nope }}"`, `!!float 5`, `!!bool yes`, `yes`, `"5 m"`, `1h1h`, `-5m`, `5`, `"sum("`, `up{`}
var c01KeyShapes = []string{`""`, `~`, `5`, `true`, `__name__`, `"a b"`, `a-b`, `[a]`, `{a: b}`, `!!str x`, `<<`, `1abc`, `"é"`, `null`, `''`, `? x`, `!!null n`}

// shapes that probe the validation specific to one slot (every character class / boundary the check distinguishes);
// part of the core set of that slot
var c01SlotShapes = map[string][]string{
	"record":    {`"a{b"`, `"a}b"`, `"a b"`, `1a`, `"a:b"`, `a-b`, `"é"`},
	"alert":     {`"a b"`, `"{{ x }}"`},
	"aexpr":     {`"sum("`, `up{`, `"1 +"`, `"up == "`},
	"rexpr":     {`"sum("`, `"foo bar"`},
	"for":       {`5m`, `0s`, `1.5m`, `-5m`, `1h1h`, `"5 m"`, `1y`, `5M`},
	"keep":      {`0s`, `1.5m`, `-5m`, `m5`},
	"ginterval": {`0s`, `1.5m`, `-5m`, `0`},
	"goffset":   {`0s`, `-5m`, `1x`},
	"glimit":    {`-1`, `1.0`, `0x10`, `1e3`, `18446744073709551615`, `9223372036854775808`, `"5"`, `!!int x`, `0o17`, `1_000`},
	"gname":     {`"a b"`, `"{{ x }}"`},
	"glabelv":   {`"{{ bad"`, `"a b"`},
	"alabelv":   {`"{{ bad"`, `"{{ $labels.job }}"`, `"{{ .Foo | nope }}"`},
	"annv":      {`"{{ bad"`, `"{{ end }}"`, `"{{ .Foo | nope }}"`},
	"rlabelv":   {`"{{ bad"`},
}

// duplicated keys INSIDE a labels / annotations mapping, for every pair of value shapes (a null in either position, an empty
// string, a plain value): yaml.v3 refuses any repeated key whatever its value
var c01DupValueShapes = []string{``, `~`, `""`, `x`}
var c01MapSlots = []string{"glabels", "alabels", "anns", "rlabels"}

// c01FunctionCalls: one minimal well-typed call of EVERY function the PromQL parser knows (experimental ones included), built
// from the parser's own signature table: whatever pint accepts as an expression, Prometheus must be able to load.
func c01FunctionCalls() []string {
	var names []string
	for name := range promparser.Functions {
		names = append(names, name)
	}
	sort.Strings(names)
	var out []string
	for _, name := range names {
		f := promparser.Functions[name]
		var args []string
		for i, t := range f.ArgTypes {
			if f.Variadic != 0 && i >= len(f.ArgTypes)-1 && name != "label_join" {
				break // optional trailing arguments are left out
			}
			switch t {
			case promparser.ValueTypeVector:
				args = append(args, "up")
			case promparser.ValueTypeMatrix:
				args = append(args, "up[5m]")
			case promparser.ValueTypeScalar:
				args = append(args, "0.5")
			case promparser.ValueTypeString:
				args = append(args, `'job'`)
			default:
				args = append(args, "up")
			}
		}
		out = append(out, `"`+name+"("+strings.Join(args, ", ")+`)"`)
	}
	return out
}

type c01Deviation struct {
	slot, shape, op string // op: "value", "key", "drop", "dup", "sibling", "alias", "extra"
}

// op "extra": one more `key: value` line (shape) in the mapping that holds the slot (gname -> the group, alert -> the alerting
// rule, record -> the recording rule, groups -> the top level): every key of every level, well-formed for its usual home,
// placed in each mapping.
var c01ExtraLines = []string{"groups: []", "name: other", "interval: 1m", "query_offset: 1m", "limit: 5", "labels: {extra: x}", "labels: {}",
	"rules: []", "partial_response_strategy: warn", "source_tenants: [a]", "alert: Extra", "record: extra:rule", "expr: up",
	"for: 5m", "for: 0s", "keep_firing_for: 1m", "keep_firing_for: 0s", "annotations: {extra: x}", "annotations: {}", "annotations: ~",
	"for: ~", "keep_firing_for: ~", "<<: {for: 5m}", "<<: *mk", "<<: *mk\n<<: *mk2"}
var c01ExtraHomes = []string{"groups", "gname", "alert", "record"}

// op "alias": the value of the slot is an alias; the anchors (one per kind of node) are defined by a first, valid group.
var c01AnchorGroup = `- name: anchors
  labels: &gl
    team: infra
  rules:
  - alert: Anchors
    expr: &e up == 0
    for: &d 5m
    labels: &l
      severity: &s page
    annotations: &a
      summary: &t "Instance {{ $labels.instance }} down"
      __name__: odd
  - &r
    record: anchored:rule
    expr: up
`
var c01Anchors = []string{"e", "d", "l", "s", "a", "t", "gl", "r"}

// anchors for the merge-key lines of the "extra" stratum: two mappings with disjoint keys that are rule fields
var c01MergeAnchorGroup = `- name: mergeanchors
  rules:
  - alert: MergeAnchors
    expr: up == 0
    labels: &mk
      for: 5m
    annotations: &mk2
      keep_firing_for: 1m
`

// op "names": several groups with the given names (relations between siblings: duplicates adjacent or not).
var c01NamePatterns = []string{"a,a", "a,b,a", "a,b,b", "a,b,c,a", "a,b,c", "a,b,c,b"}

func c01RenderNames(pattern string) string {
	var b strings.Builder
	b.WriteString("groups:\n")
	for i, n := range strings.Split(pattern, ",") {
		fmt.Fprintf(&b, "- name: %s\n  rules:\n  - record: r%d:x\n    expr: up\n", n, i)
	}
	return b.String()
}

func c01Render(dev c01Deviation) string {
	if dev.op == "names" {
		return c01RenderNames(dev.shape)
	}
	expand := func(lines []string, drop, dup, sibling string) []string {
		var out []string
		for _, l := range lines {
			slot := ""
			if i := strings.Index(l, "{"); i >= 0 {
				slot = l[i+1 : strings.Index(l, "}")]
			}
			if slot != "" && slot == drop {
				continue
			}
			out = append(out, l)
			if slot != "" && slot == dup {
				out = append(out, l)
			}
			if slot != "" && slot == sibling {
				ind := len(l) - len(strings.TrimLeft(l, " -"))
				out = append(out, strings.Repeat(" ", ind)+"bogus: x")
			}
			if dev.op == "extra" && slot != "" && slot == dev.slot && slot != "groups" {
				ind := len(l) - len(strings.TrimLeft(l, " -"))
				for _, el := range strings.Split(dev.shape, "\n") {
					out = append(out, strings.Repeat(" ", ind)+el)
				}
			}
		}
		return out
	}
	drop, dup, sib := "", "", ""
	switch dev.op {
	case "drop":
		drop = dev.slot
	case "dup":
		dup = dev.slot
	case "sibling":
		sib = dev.slot
	}
	text := strings.Join(expand(c01Skeleton, drop, dup, sib), "\n")
	if dev.op == "extra" && dev.slot == "groups" {
		text += "\n" + dev.shape
	}
	group := strings.Join(expand(c01GroupLines, drop, dup, sib), "\n")
	rules := strings.Join(expand(c01RuleLines, drop, dup, sib), "\n")
	val := func(slot string) string {
		if (dev.op == "value" || dev.op == "key") && dev.slot == slot {
			return dev.shape
		}
		if dev.op == "alias" && dev.slot == slot {
			return "*" + dev.shape
		}
		return c01Defaults[slot]
	}
	isKey := func(slot string) bool {
		for _, k := range c01KeySlots {
			if k == slot {
				return true
			}
		}
		return false
	}
	var subst func(text string, depth int) string
	subst = func(text string, depth int) string {
		var out []string
		for _, line := range strings.Split(text, "\n") {
			from := 0
			for depth < 12 {
				i, j, slot := findSlot(line, from)
				if slot == "" {
					break
				}
				if slot == "GROUP" || slot == "RULES" {
					if slot == "GROUP" {
						line = subst(group, depth+1)
						if dev.op == "alias" {
							line = strings.TrimSuffix(c01AnchorGroup, "\n") + "\n" + line
						}
						if dev.op == "extra" && strings.Contains(dev.shape, "*mk") {
							line = strings.TrimSuffix(c01MergeAnchorGroup, "\n") + "\n" + line
						}
					} else {
						line = subst(rules, depth+1)
					}
					break
				}
				v := val(slot)
				ind := len(line) - len(strings.TrimLeft(line, " -"))
				v = strings.ReplaceAll(v, "\x01", strings.Repeat(" ", ind+2))
				if !isKey(slot) && v != "" && !strings.HasPrefix(v, "\n") {
					v = " " + v
				}
				deviates := (dev.op == "value" || dev.op == "key" || dev.op == "alias") && dev.slot == slot
				line = line[:i] + v + line[j+1:]
				if deviates {
					from = i + len(v) // never re-scan the injected shape
					continue
				}
				if strings.Contains(v, "\n") {
					line = subst(line, depth+1)
					break
				}
			}
			out = append(out, line)
		}
		return strings.Join(out, "\n")
	}
	return subst(text, 0) + "\n"
}

// findSlot: the first {name} with a known slot name at or after position from.
func findSlot(line string, from int) (int, int, string) {
	for i := from; i < len(line); i++ {
		if line[i] != '{' {
			continue
		}
		j := strings.Index(line[i:], "}")
		if j < 0 {
			return -1, -1, ""
		}
		if name := line[i+1 : i+j]; isSlotName(name) {
			return i, i + j, name
		}
	}
	return -1, -1, ""
}

func isSlotName(s string) bool {
	if s == "GROUP" || s == "RULES" {
		return true
	}
	_, ok := c01Defaults[s]
	return ok
}

// c01Catalogue enumerates the deviations of this run: all core ones, plus `extra` of the rest (all when extra < 0).
func c01Catalogue(r *rand.Rand, extra int) []c01Deviation {
	var core, more []c01Deviation
	core = append(core, c01Deviation{op: "none"})
	for _, s := range c01ValueSlots {
		for _, sh := range append(append([]string{}, c01CoreShapes...), c01SlotShapes[s]...) {
			core = append(core, c01Deviation{slot: s, shape: sh, op: "value"})
		}
		for _, sh := range c01MoreShapes {
			more = append(more, c01Deviation{slot: s, shape: sh, op: "value"})
		}
		for _, op := range []string{"drop", "dup", "sibling"} {
			core = append(core, c01Deviation{slot: s, op: op})
		}
	}
	for _, s := range c01ValueSlots {
		if s == "groups" {
			continue // the anchors live below `groups`
		}
		for _, a := range c01Anchors {
			core = append(core, c01Deviation{slot: s, shape: a, op: "alias"})
		}
	}
	for _, ms := range c01MapSlots {
		for _, a := range c01DupValueShapes {
			for _, b := range c01DupValueShapes {
				sh := "\n\x01dup:" + sp(a) + "\n\x01other: y\n\x01dup:" + sp(b)
				core = append(core, c01Deviation{slot: ms, shape: sh, op: "value"})
			}
		}
	}
	for i, call := range c01FunctionCalls() {
		core = append(core, c01Deviation{slot: []string{"aexpr", "rexpr"}[i%2], shape: call, op: "value"})
	}
	for _, pat := range c01NamePatterns {
		core = append(core, c01Deviation{slot: "gname", shape: pat, op: "names"})
	}
	for _, home := range c01ExtraHomes {
		for _, line := range c01ExtraLines {
			core = append(core, c01Deviation{slot: home, shape: line, op: "extra"})
		}
	}
	for _, s := range c01KeySlots {
		for i, sh := range c01KeyShapes {
			d := c01Deviation{slot: s, shape: sh, op: "key"}
			if i < 6 {
				core = append(core, d)
			} else {
				more = append(more, d)
			}
		}
	}
	if extra < 0 || extra > len(more) {
		extra = len(more)
	}
	r.Shuffle(len(more), func(i, j int) { more[i], more[j] = more[j], more[i] })
	return append(core, more[:extra]...)
}

// ---- reader stress ----

var c01BoundarySizes = []int{4095, 4096, 4097, 65535, 65536, 65537, 70001, 131073}

var c01TailDefects = []string{
	"  - record: tail:bad\n    expr: sum(\n",
	"  - record: tail:bad\n    expr: up\n    bogus: 1\n",
	"  - record: tail:bad\n    expr: up\n    expr: up\n",
	"  - alert: TailBad\n    expr: up\n    for: abc\n",
	"  - alert: TailBad\n    expr: up\n    annotations:\n      summary: \"{{ bad\"\n",
	"  - record: \"tail{bad}\"\n    expr: up\n",
	"\t@ not yaml\n",
}

// c01ReaderStress builds: valid head group(s), a filler of about `size` bytes, a tail group (valid or with one defect).
func c01ReaderStress(r *rand.Rand, gv *docGen, size, kind int, tailDefect bool) (content, desc string) {
	var b strings.Builder
	b.WriteString("groups:\n")
	for _, l := range seqLines([][]string{gv.groupLines(0)}, 0) {
		b.WriteString(l + "\n")
	}
	fill := strings.Repeat("x", size)
	switch kind {
	case 0:
		desc = "comment-line"
		b.WriteString("# " + fill + "\n")
	case 1:
		desc = "annotation-value"
		b.WriteString("- name: filler\n  rules:\n  - alert: Filler\n    expr: up\n    annotations:\n      description: \"" + fill + "\"\n")
	case 2:
		desc = "many-short-lines"
		for n := 0; n < size; n += 64 {
			b.WriteString("# " + strings.Repeat("y", 61) + "\n")
		}
	case 3:
		desc = "matcher-value"
		b.WriteString("- name: filler\n  rules:\n  - record: filler:x\n    expr: up{job=~\"" + fill + "\"}\n")
	case 4:
		desc = "trailing-spaces-line"
		b.WriteString("- name: filler\n  rules: []" + strings.Repeat(" ", size) + "\n")
	}
	b.WriteString("- name: tail\n  rules:\n")
	if tailDefect {
		b.WriteString(pick(r, c01TailDefects))
		desc += "+tail-defect"
	} else {
		b.WriteString("  - record: tail:ok\n    expr: up\n")
		desc += "+tail-valid"
	}
	content = b.String()
	if r.Intn(6) == 0 {
		content = strings.ReplaceAll(content, "\n", "\r\n")
		desc += "+crlf"
	}
	if r.Intn(8) == 0 {
		content = strings.TrimSuffix(content, "\n")
		desc += "+no-final-newline"
	}
	return content, fmt.Sprintf("size=%d:%s", size, desc)
}
