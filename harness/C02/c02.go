//go:build verif

package main

// C02: linting any input terminates with a renderable verdict, never a crash.
//  (a) forest-level correspondence (Run.C19) + discovery entries and error routing vs Model.Routing;
//  (b) crash detector / oracle_impl: the in-process pipeline (discovery, routing, every offline check, the four
//      renderers) in strict+relaxed x both schemas, and the real pint binary with console/JSON/checkstyle/TeamCity
//      output, on every generated/mutated/fixture file under timeout: a panic, hang, unrenderable report or
//      line outside the file is an oracle failure.

import (
	"bytes"
	"encoding/json"
	"fmt"
	"go/ast"
	goparser "go/parser"
	"go/token"
	"math/rand"
	"os"
	"path/filepath"
	"sort"
	"strconv"
	"strings"
	"time"

	"github.com/prometheus/common/model"
	"gopkg.in/yaml.v3"

	"github.com/cloudflare/pint/internal/diags"
	"github.com/cloudflare/pint/internal/parser"
)

func init() { register("C02", runC02); register("C02-one", runC02One) }

// repoFixtures: every YAML file of the repository, every yaml section of cmd/pint/tests/*.txt, the fuzz seeds.
func repoFixtures(src string) (out []string) {
	seen := map[string]bool{}
	add := func(s string) {
		if !seen[s] && len(s) < 20000 {
			seen[s] = true
			out = append(out, s)
		}
	}
	filepath.Walk(src, func(p string, info os.FileInfo, err error) error {
		if err != nil {
			return nil
		}
		if info.IsDir() && (info.Name() == ".git" || info.Name() == "node_modules") {
			return filepath.SkipDir
		}
		if info.IsDir() {
			return nil
		}
		switch {
		case strings.HasSuffix(p, ".yml"), strings.HasSuffix(p, ".yaml"):
			if b, err := os.ReadFile(p); err == nil {
				add(string(b))
			}
		case strings.HasSuffix(p, ".txt") && strings.Contains(p, filepath.Join("cmd", "pint", "tests")):
			if b, err := os.ReadFile(p); err == nil {
				name := ""
				var cur []string
				flush := func() {
					if strings.HasSuffix(name, ".yml") || strings.HasSuffix(name, ".yaml") {
						add(strings.Join(cur, "\n") + "\n")
					}
					cur = nil
				}
				for _, l := range strings.Split(string(b), "\n") {
					if strings.HasPrefix(l, "-- ") && strings.HasSuffix(l, " --") {
						flush()
						name = strings.TrimSuffix(strings.TrimPrefix(l, "-- "), " --")
						continue
					}
					cur = append(cur, l)
				}
				flush()
			}
		case strings.HasSuffix(p, filepath.Join("internal", "parser", "fuzz_test.go")):
			fset := token.NewFileSet()
			if f, err := goparser.ParseFile(fset, p, nil, 0); err == nil {
				ast.Inspect(f, func(n ast.Node) bool {
					if bl, ok := n.(*ast.BasicLit); ok && bl.Kind == token.STRING {
						if s, err := strconv.Unquote(bl.Value); err == nil && strings.Contains(s, "\n") {
							add(s)
						}
					}
					return true
				})
			}
		}
		return nil
	})
	sort.Strings(out)
	return out
}

// known-finding class predicates -----------------------------------------------------------------

// embeddedNonLiteral: relaxed mode descends into a scalar that holds YAML but is not a literal block scalar:
// the line offset pint adds (node line + line inside the value) then has nothing to do with the source lines.
func embeddedNonLiteral(docs []parser.VerifDoc) bool {
	found := false
	for _, d := range docs {
		walkForest(d.Node, map[*yaml.Node]bool{}, func(n *yaml.Node) {
			if n.Kind == yaml.ScalarNode && strings.Count(n.Value, "\n") > 1 && n.Style&yaml.LiteralStyle == 0 {
				var e yaml.Node
				if yaml.Unmarshal([]byte(n.Value), &e) == nil {
					found = true
				}
			}
		})
	}
	return found
}

// Reported by the C08 engineer: promql/regexp builds a regexp from a quoted UTF-8 label name without escaping it.
func hasQuotedLabelMatcher(content string) bool {
	return strings.Contains(content, "{\"") || strings.Contains(content, "{'") || strings.Contains(content, ",\"") || strings.Contains(content, ", \"")
}

type c02Variant struct {
	Strict bool
	Schema parser.Schema
	Names  model.ValidationScheme
}

func (v c02Variant) String() string {
	return fmt.Sprintf("strict=%v schema=%d names=%d", v.Strict, v.Schema, v.Names)
}

func coqObsEntries(es []entryObs) string {
	items := make([]string, 0, len(es))
	for _, e := range es {
		pe, re := "None", "None"
		if e.PathErrOK {
			pe = fmt.Sprintf("(Some %d%%nat)", e.PathErr)
		}
		if e.RuleErrOK {
			re = fmt.Sprintf("(Some %d%%nat)", e.RuleErr)
		}
		items = append(items, fmt.Sprintf("(Build_obs_entry %s %s %d%%nat %s)", pe, re, e.Kind, coqStrList(e.Checks)))
	}
	return coqList(items)
}

// ---- more known-finding class predicates ----

// groupLabelShadowedAfterRules: a group whose `labels:` block comes after `rules:` and shares a label name with a rule.
func groupLabelShadowedAfterRules(docs []parser.VerifDoc) bool {
	found := false
	for _, d := range docs {
		walkForest(d.Node, map[*yaml.Node]bool{}, func(g *yaml.Node) {
			if g.Kind != yaml.MappingNode {
				return
			}
			var rules, labels *yaml.Node
			ri, li := -1, -1
			for i := 0; i+1 < len(g.Content); i += 2 {
				switch g.Content[i].Value {
				case "rules":
					rules, ri = g.Content[i+1], i
				case "labels":
					labels, li = g.Content[i+1], i
				}
			}
			if rules == nil || labels == nil || li < ri || labels.Kind != yaml.MappingNode {
				return
			}
			gl := map[string]bool{}
			for i := 0; i+1 < len(labels.Content); i += 2 {
				gl[labels.Content[i].Value] = true
			}
			for _, r := range rules.Content {
				for i := 0; i+1 < len(r.Content); i += 2 {
					if r.Content[i].Value == "labels" {
						for j := 0; j+1 < len(r.Content[i+1].Content); j += 2 {
							if gl[r.Content[i+1].Content[j].Value] {
								found = true
							}
						}
					}
				}
			}
		})
	}
	return found
}

// hasLoneCR: the class predicate of the open known finding C02-lone-cr: the file contains a line break of YAML that is
// not a line break for pint (which counts LF only): a CR not followed by LF, NEL (U+0085), LS (U+2028) or PS (U+2029).
func hasLoneCR(content []byte) bool {
	for j := 0; j < len(content); j++ {
		if content[j] == '\r' && (j+1 >= len(content) || content[j+1] != '\n') {
			return true
		}
	}
	return bytes.Contains(content, []byte("\xc2\x85")) || bytes.Contains(content, []byte("\xe2\x80\xa8")) || bytes.Contains(content, []byte("\xe2\x80\xa9"))
}

// aliasExpansion: number of nodes of the tree unfolding of the alias graph (what relaxed mode walks: parseNode and
// unpackNodes re-expand every alias), memoised and saturating (`aN: &aN [*aN-1, *aN-1]` doubles it per level).
// Since fix 2108dfa a document above aliasExpansionLimit must be refused with a parse error in both modes (former known
// finding C02-alias-fanout: relaxed mode walked the unfolding for minutes).
const aliasExpansionLimit = 1_000_000

func aliasExpansion(docs []parser.VerifDoc) int {
	memo := map[*yaml.Node]int{}
	var size func(n *yaml.Node, depth int) int
	size = func(n *yaml.Node, depth int) int {
		if n == nil || depth > 5000 {
			return 0
		}
		if v, ok := memo[n]; ok {
			return v
		}
		memo[n] = 1 // cycles are C02's other business (5f8fd57)
		t := 1 + size(n.Alias, depth+1)
		for _, c := range n.Content {
			t += size(c, depth+1)
			if t > 1<<40 {
				t = 1 << 40
			}
		}
		memo[n] = t
		return t
	}
	total := 0
	for _, d := range docs {
		total += size(d.Node, 0)
	}
	return total
}

// coqExpandCases: the real diags.LineRange.Expand on the line ranges of this file's problems plus adversarial ranges
// (empty, inverted by one, inverted by more: `make([]int, 0, Last-First+1)` panics on a negative capacity).
func coqExpandCases(id int, observed [][2]int) string {
	k := id%9 + 1
	pairs := append([][2]int{{k, k}, {k, k + id%4}, {k, k - 1}, {k, k - 2}, {k + id%3, 0}}, observed...)
	items := make([]string, 0, len(pairs))
	for _, p := range pairs {
		obs := "None"
		func() {
			defer func() { recover() }()
			l := diags.LineRange{First: p[0], Last: p[1]}.Expand()
			xs := make([]string, 0, len(l))
			for _, x := range l {
				xs = append(xs, fmt.Sprintf("(%d)%%Z", x))
			}
			obs = "(Some " + coqList(xs) + ")"
		}()
		items = append(items, fmt.Sprintf("((%d)%%Z, (%d)%%Z, %s)", p[0], p[1], obs))
	}
	return coqList(items)
}

var (
	trigExprs = []string{
		"rate(errors_total[5m])", "sum(rate(http_requests_total[5m])) by (job) > 0.5", "rate(a_total[5m]) / rate(b_total[5m])",
		"irate(errors_total[1m]) > 0", "sum(foo) without (instance) > 0", "count(up) by (job) == 0", "absent(up{job=\"x\"})",
		"up", "foo{job=~\".*\"} > 1", "foo{job=~\"a\"} == 2", "sum(foo)", "foo / bar > 0.1", "vector(1)", "up == 0 or foo > 1",
		"label_replace(up, \"dst\", \"x\", \"src\", \".*\") > 0", "topk(3, foo) > 1", "foo offset 5m > bar", "avg_over_time(foo[5m]) < 1",
		"histogram_quantile(0.9, rate(x_bucket[5m])) > 1", "count_values(\"v\", foo) > 0",
	}
	trigTemplates = []string{
		"{{ $value }} too high", "value is {{ $value | humanize }}", "{{ $labels.instance }} is down", "{{ $labels.job }} on {{ $labels.missing }}",
		"{{ .Value }} of {{ .Labels.instance }}", "plain text", "{{ $value | humanizePercentage }}", "{{ printf \"%.2f\" $value }}",
		"{{ with $value }}{{ . }}{{ end }}", "http://example.com/d/{{ $labels.job }}",
	}
)

// checkTriggerFile: one group of valid alerting rules, every rule with its keys in a random order.
func checkTriggerFile(r *rand.Rand) string {
	var out []string
	out = append(out, "groups:", "- name: triggers", "  rules:")
	n := 1 + r.Intn(3)
	for i := 0; i < n; i++ {
		fields := [][]string{
			{fmt.Sprintf("alert: Trigger%d", i)},
			{"expr: " + yamlQuote(pick(r, trigExprs))},
		}
		if r.Intn(3) > 0 {
			fields = append(fields, []string{"for: " + pick(r, []string{"5m", "0s", "1h"})})
		}
		if r.Intn(4) == 0 {
			fields = append(fields, []string{"keep_firing_for: 10m"})
		}
		if r.Intn(3) > 0 {
			f := []string{"labels:"}
			for _, k := range []string{"severity", "team"}[:1+r.Intn(2)] {
				f = append(f, "  "+k+": "+yamlQuote(pick(r, append([]string{"page", "warning"}, trigTemplates...))))
			}
			fields = append(fields, f)
		}
		if r.Intn(5) > 0 {
			f := []string{"annotations:"}
			for _, k := range []string{"summary", "description", "dashboard"}[:1+r.Intn(3)] {
				f = append(f, "  "+k+": "+yamlQuote(pick(r, trigTemplates)))
			}
			fields = append(fields, f)
		}
		r.Shuffle(len(fields), func(a, b int) { fields[a], fields[b] = fields[b], fields[a] })
		first := true
		for _, f := range fields {
			for _, l := range f {
				if first {
					out = append(out, "  - "+l)
					first = false
				} else {
					out = append(out, "    "+l)
				}
			}
		}
	}
	return strings.Join(out, "\n") + "\n"
}

func yamlQuote(v string) string {
	return "'" + strings.ReplaceAll(v, "'", "''") + "'"
}

type c02Fail struct {
	What    string `json:"what"`
	Variant string `json:"variant"`
	Relaxed bool   `json:"relaxed"`
	Extra   any    `json:"extra,omitempty"`
}

type c02Child struct {
	Term    string    `json:"term"`
	Fails   []c02Fail `json:"fails"`
	Hist    []string  `json:"hist"`
	Nontriv bool      `json:"nontrivial"`
}

var c02Variants = func() (vs []c02Variant) {
	for _, st := range []bool{true, false} {
		for _, sc := range []parser.Schema{parser.PrometheusSchema, parser.ThanosSchema} {
			vs = append(vs, c02Variant{st, sc, model.UTF8Validation})
		}
	}
	return vs
}()

// runC02One: everything that executes pint code in-process for ONE file, in its own process (a stack overflow or
// a runaway allocation inside pint kills this child, not the harness).  Prints a c02Child as JSON.
func runC02One(args []string) int {
	file := argStr(args, "--file", "")
	id := argInt(args, "--id", 0)
	names := model.ValidationScheme(argInt(args, "--names", int(model.UTF8Validation)))
	schema := parser.Schema(argInt(args, "--schema", 0))
	content, err := os.ReadFile(file)
	must(err)
	nl := physLines(content)
	model.NameValidationScheme = names
	allowAliasCycles = true
	var o c02Child
	addFail := func(what, variant string, relaxed bool, extra any) {
		o.Fails = append(o.Fails, c02Fail{what, variant, relaxed, extra})
	}
	term, fs, fr, ps, pr := forestCase(id, content, schema, names, nil)
	if ps != "" {
		addFail("parser panicked in strict mode: "+ps, "parser strict", false, nil)
	}
	if pr != "" {
		addFail("parser panicked in relaxed mode: "+pr, "parser relaxed", true, nil)
	}
	o.Nontriv = len(fs.Groups) > 0 || len(fr.Groups) > 0 || fs.Error.Err != nil || fr.Error.Err != nil
	obsS, obsR := "None", "None"
	var expandPairs [][2]int
	var injectCases []string
	nSplit := len(strings.Split(string(content), "\n"))
	for _, v := range c02Variants {
		v.Names = names
		res := runPipeline(file, v.Strict, v.Schema, v.Names, 30*time.Second)
		switch {
		case res.Timeout:
			addFail("in-process pipeline hung (30 s)", v.String(), !v.Strict, nil)
		case res.Panic != "":
			addFail("in-process pipeline panicked: "+res.Panic, v.String(), !v.Strict, nil)
		case res.FindErr != "":
			addFail("discovery returned an error instead of entries: "+res.FindErr, v.String(), !v.Strict, nil)
		default:
			for k, e := range res.Render {
				if e != "" {
					addFail("renderer "+k+" failed: "+e, v.String(), !v.Strict, res.Problems)
				}
			}
			if res.TotalLines >= 0 && res.TotalLines != nl {
				addFail(fmt.Sprintf("in-process: File.TotalLines = %d but the file has %d lines (outside the file)", res.TotalLines, nl), v.String(), !v.Strict, nil)
			}
			for _, w := range res.lineViolations(nl) {
				addFail("in-process: "+w, v.String(), !v.Strict, res.Problems)
			}
			if !hasAliasCycle(lastDocs) && aliasExpansion(lastDocs) > 2*aliasExpansionLimit {
				if len(res.Entries) != 1 || !res.Entries[0].PathErrOK {
					addFail("a document whose aliases unfold to more than a million nodes was not refused with a parse error", v.String(), !v.Strict, res.Problems)
				}
			}
			for _, p := range res.Problems {
				if p.InjRun {
					// oracle (the statement of C02_inject_lines_complete): InjectDiagnostics prints exactly the source lines that
					// carry a diagnostic position (positions outside the file print nothing)
					want := map[int]bool{}
					for _, ls := range p.DiagLines {
						for _, x := range ls {
							if x >= 1 && x <= nSplit {
								want[x] = true
							}
						}
					}
					got := map[int]bool{}
					for _, x := range p.InjLines {
						got[x] = true
					}
					same := len(want) == len(got)
					for x := range want {
						same = same && got[x]
					}
					switch {
					case p.InjPanic && len(want) > 0:
						addFail("in-process: InjectDiagnostics panicked on diagnostics that have positions", v.String(), !v.Strict, p)
					case !p.InjPanic && !same:
						addFail(fmt.Sprintf("in-process: InjectDiagnostics printed source lines %v but the diagnostics have positions on lines %v", p.InjLines, p.DiagLines), v.String(), !v.Strict, p)
					}
				}
				if p.InjRun && len(injectCases) < 4 {
					ds := make([]string, 0, len(p.DiagLines))
					for _, ls := range p.DiagLines {
						xs := make([]string, 0, len(ls))
						for _, x := range ls {
							xs = append(xs, fmt.Sprintf("(%d)%%Z", x))
						}
						ds = append(ds, coqList(xs))
					}
					obs := "None"
					if !p.InjPanic {
						xs := make([]string, 0, len(p.InjLines))
						for _, x := range p.InjLines {
							xs = append(xs, fmt.Sprintf("(%d)%%Z", x))
						}
						obs = "(Some " + coqList(xs) + ")"
					}
					injectCases = append(injectCases, fmt.Sprintf("((%d)%%Z, %s, %s)", nSplit, coqList(ds), obs))
				}
				if len(expandPairs) < 4 {
					expandPairs = append(expandPairs, [2]int{p.First, p.Last})
				}
			}
			nErr, nRep := 0, 0
			for _, e := range res.Entries {
				if e.PathErrOK || e.RuleErrOK {
					nErr++
				}
			}
			for _, p := range res.Problems {
				if p.Reporter == "yaml/parse" || p.Reporter == "ignore/file" || p.Reporter == "pint/comment" || p.Reporter == "rule/owner" {
					nRep++
				}
			}
			if nErr != nRep {
				addFail(fmt.Sprintf("%d error entries but %d error reports", nErr, nRep), v.String(), !v.Strict, res.Problems)
			}
			if v.Schema == schema && res.Plain {
				if v.Strict {
					obsS = "(Some " + coqObsEntries(res.Entries) + ")"
				} else {
					obsR = "(Some " + coqObsEntries(res.Entries) + ")"
				}
			}
		}
	}
	if term != "" {
		o.Term = fmt.Sprintf("{| c_base := %s;\n c_entries_strict := %s;\n c_entries_relaxed := %s;\n c_lone_cr := %s;\n c_expand := %s;\n c_inject := %s |}",
			term, obsS, obsR, coqBool(hasLoneCR(content)), coqExpandCases(id, expandPairs), coqList(injectCases))
	} else {
		o.Hist = append(o.Hist, "skipped:forest-too-large")
	}
	b, _ := json.Marshal(o)
	os.Stdout.Write(b)
	return 0
}

func runC02(args []string) int {
	n := argInt(args, "--n", 300)
	binEvery := argInt(args, "--bin-variants", 1) // how many (mode,schema) variants per file go through the binary
	seed := seedFromEnv()
	r := rand.New(rand.NewSource(seed))
	rep := newReport("C02", seed)
	rep.Rule = "non-trivial := the parse (either mode) yields at least one rule or error entry; distinct by content"
	cw := newCaseWriter(".", "Model.Yaml Model.Parser Run.C19 Run.C02", 30)
	cw.preamble = "Open Scope N_scope.\n"
	keepCases := n <= 1000
	workDir, _ := filepath.Abs("files")
	must(os.MkdirAll(workDir, 0o755))

	type item struct {
		content string
		class   string
	}
	var items []item
	for _, p := range corpusFiles("C02") {
		if b, err := os.ReadFile(p); err == nil {
			items = append(items, item{string(b), "corpus"})
		}
	}
	for _, p := range append(corpusFiles("C19"), corpusFiles("C01")...) {
		if b, err := os.ReadFile(p); err == nil {
			items = append(items, item{string(b), "corpus-other"})
		}
	}
	fixtures := repoFixtures(os.Getenv("PINT_SRC"))
	rep.Notes = append(rep.Notes, fmt.Sprintf("repository fixtures available: %d", len(fixtures)))
	nFix := n / 4
	if nFix > len(fixtures) {
		nFix = len(fixtures)
	}
	perm := r.Perm(len(fixtures))
	gm := newDocGen(r, 0.12)
	for i := 0; i < nFix; i++ {
		c := fixtures[perm[i]]
		items = append(items, item{c, "fixture"})
		if i%2 == 0 {
			items = append(items, item{gm.mutateBytes(c), "fixture-mutated"})
		}
	}
	gv := newDocGen(r, 0)
	gb := newDocGen(r, 0.3)
	for len(items) < n {
		switch r.Intn(11) {
		case 10:
			// YAML in YAML whose lines are (partly) separated by line breaks pint does not count (lone CR, NEL, LS, PS): yaml
			// sees more lines than pint, inside the embedded document and above it
			list := seqLines(gm.ruleItems(1+r.Intn(3), false), 0)
			txt := gm.embed(gm.wrapOpts(list, r.Intn(2), false).Text).Text
			br := pick(r, []string{"\r", "\r", "\u0085", "\u2028", "\u2029"})
			if r.Intn(2) == 0 {
				txt = strings.ReplaceAll(txt, "\n", br)
			} else {
				parts := strings.Split(txt, "\n")
				var b strings.Builder
				for k, p := range parts {
					b.WriteString(p)
					if k+1 < len(parts) {
						if r.Intn(3) == 0 {
							b.WriteString(br)
						} else {
							b.WriteString("\n")
						}
					}
				}
				txt = b.String()
			}
			items = append(items, item{txt, "embedded-foreign-breaks"})
		case 8, 9:
			// valid alerting rules whose keys are fully permuted (annotations / labels / for written above expr ...) with
			// expressions and templates chosen to trigger the offline checks (alerts/template humanize, missing labels,
			// alerts/comparison, promql/regexp, promql/fragile, rule/duplicate, alerts/annotation ...): every problem each
			// check builds must have a valid line range whatever the order of the fields
			items = append(items, item{checkTriggerFile(r), "check-triggers"})
		case 7:
			// alias-doubling chains of random depth, at top level or inside a literal block scalar: short ones are parsed,
			// long ones (unfolding above 10^6 nodes, also far above: 60+ levels exceed 2^63) must be refused / not looked into
			depth := pick(r, []int{3 + r.Intn(12), 16 + r.Intn(8), 28, 40 + r.Intn(8), 60 + r.Intn(12)})
			chain := []string{"a0: &a0 [{record: \"chain:a\", expr: up}, x]"}
			for k := 1; k <= depth; k++ {
				chain = append(chain, fmt.Sprintf("a%d: &a%d [*a%d, *a%d]", k, k, k-1, k-1))
			}
			txt := strings.Join(chain, "\n") + "\n"
			if r.Intn(2) == 0 {
				txt = "data:\n  chain.yaml: |\n" + strings.Join(indentLines(chain, 4), "\n") + "\n"
			}
			items = append(items, item{txt, "alias-chain"})
		case 6:
			// rule lists with many per-field defects inside a scalar of an outer document (YAML in YAML): the error paths of
			// parseRule with a line offset
			list := seqLines(gb.ruleItems(1+r.Intn(4), false), 0)
			w := gb.wrapOpts(list, r.Intn(3), false)
			items = append(items, item{gb.embed(w.Text).Text, "embedded-defects"})
		case 0:
			items = append(items, item{gv.ruleFile(), "generated-valid"})
		case 1, 2:
			items = append(items, item{gm.ruleFile(), "generated-defects"})
		case 3:
			items = append(items, item{gb.ruleFile(), "generated-many-defects"})
		case 4:
			items = append(items, item{gm.mutateBytes(gm.ruleFile()), "generated-mutated"})
		case 5:
			// wrapped rule lists (relaxed mode food), sometimes as YAML inside YAML
			list := seqLines(gm.ruleItems(1+r.Intn(3), true), 0)
			w := gm.wrap(list, r.Intn(4))
			txt := w.Text
			switch r.Intn(5) {
			case 0:
				txt = "data:\n  rules.yaml: |\n" + strings.Join(indentLines(strings.Split(strings.TrimRight(txt, "\n"), "\n"), 4), "\n") + "\n"
			case 1:
				// YAML inside a double-quoted scalar with \n escapes (one source line)
				esc := strings.NewReplacer("\\", "\\\\", "\"", "\\\"", "\n", "\\n", "\t", "\\t").Replace(txt)
				txt = "data:\n  rules.yaml: \"" + esc + "\"\nother: 1\n"
			case 2:
				// folded block scalar holding YAML
				txt = "data: >\n" + strings.Join(indentLines(strings.Split(strings.TrimRight(txt, "\n"), "\n"), 2), "\n\n") + "\nz: 1\n"
			}
			items = append(items, item{txt, "wrapped"})
		}
	}

	type outcome struct {
		term   string
		fails  []oracleFail
		hist   []string
		nontrv bool
		kept   any
	}
	results := make([]outcome, len(items))
	self, _ := os.Executable()
	parallel(len(items), 12, func(i int) {
		it := items[i]
		id := i + 1
		var o outcome
		content := []byte(it.content)
		nl := physLines(content)
		file := filepath.Join(workDir, fmt.Sprintf("f%05d.yml", id))
		must(os.WriteFile(file, content, 0o644))
		names := model.UTF8Validation
		if id%3 == 0 {
			names = model.LegacyValidation
		}
		schema := parser.PrometheusSchema
		if id%5 == 0 {
			schema = parser.ThanosSchema
		}
		docs, _, _, _ := parser.VerifForest(content)
		embNL := embeddedNonLiteral(docs)
		_ = embNL
		cyc := hasAliasCycle(docs)
		tcyc := hasTemplateAliasCycle(it.content)
		shadow := groupLabelShadowedAfterRules(docs)
		loneCR := hasLoneCR(content)
		addFail := func(what string, variant string, relaxed bool, extra any) {
			of := oracleFail{ID: fmt.Sprint(id), What: what, Case: map[string]any{"content": it.content, "class": it.class, "variant": variant, "lines": nl, "observed": extra}}
			// classes repaired in pint (f44c1ab, da58998, 5f8fd57, aba0d51, 4008951, 147313f) are no longer known
			// findings: a recurrence is reported as a violation.  Open: line numbers of files with lone CR breaks.
			// (C02-eof-implicit-null and the makeslice panic on inverted ranges are repaired by 5430596 / 5f804fb: a recurrence is a violation)
			// (fixed upstream after being found here, a recurrence is a violation: implicit null after EOF 5430596, makeslice 5f804fb,
			// alias fan-out 2108dfa + 07824b1, yaml error line after EOF 07824b1, parenthesised promql literals 53ade46)
			if loneCR && strings.Contains(what, "outside the file") {
				of.Known = "C02-lone-cr"
			}
			o.fails = append(o.fails, of)
		}
		// (a)+(b): correspondence term and in-process pipeline, in a child process
		rc, so, se := runCmd(workDir, 150*time.Second, nil, self, "C02-one", "--file", file, "--id", fmt.Sprint(id), "--names", fmt.Sprint(int(names)), "--schema", fmt.Sprint(int(schema)))
		var child c02Child
		switch {
		case rc == -1:
			addFail("in-process pipeline process hung (150 s)", "all", true, nil)
		case rc != 0 || json.Unmarshal([]byte(so), &child) != nil:
			msg := se
			if j := strings.Index(se, "fatal error:"); j >= 0 {
				msg = se[j:]
			} else if j := strings.Index(se, "panic:"); j >= 0 {
				msg = se[j:]
			}
			if len(msg) > 1200 {
				msg = msg[:1200]
			}
			addFail(fmt.Sprintf("in-process pipeline process died (exit %d): %s", rc, msg), "all", true, nil)
		default:
			o.term = child.Term
			o.hist = append(o.hist, child.Hist...)
			o.nontrv = child.Nontriv
			for _, f := range child.Fails {
				addFail(f.What, f.Variant, f.Relaxed, f.Extra)
			}
		}
		// (c) the real binary
		for k := 0; k < binEvery && k < len(c02Variants); k++ {
			v := c02Variants[(id+k)%len(c02Variants)]
			v.Names = names
			br := runBinary(workDir, file, v.Strict, v.Schema, v.Names)
			for _, w := range br.violations(nl) {
				addFail("binary: "+w, v.String(), !v.Strict, br)
			}
		}
		o.hist = append(o.hist, "class:"+it.class)
		if embNL {
			o.hist = append(o.hist, "has:embedded-yaml-non-literal")
		}
		if cyc {
			o.hist = append(o.hist, "has:alias-cycle")
		}
		if loneCR {
			o.hist = append(o.hist, "has:lone-cr")
		}
		if tcyc {
			o.hist = append(o.hist, "has:template-alias-cycle")
		}
		if shadow {
			o.hist = append(o.hist, "has:group-label-shadowed-after-rules")
		}
		if keepCases {
			o.kept = map[string]any{"class": it.class, "content": it.content, "schema": int(schema), "names": int(names)}
		}
		os.Remove(file)
		results[i] = o
	})
	for i, o := range results {
		if o.term != "" {
			cw.add(o.term)
		}
		for _, h := range o.hist {
			rep.hist(h)
		}
		rep.count(items[i].content, o.nontrv)
		for _, f := range o.fails {
			if f.Known != "" {
				rep.failKnown(f.ID, f.What, f.Case, f.Known)
			} else {
				rep.fail(f.ID, f.What, f.Case)
			}
		}
		if keepCases && o.kept != nil {
			rep.Cases[fmt.Sprint(i+1)] = o.kept
		}
		if len(rep.Samples) < 3 && o.nontrv && items[i].class != "corpus" {
			rep.sample(map[string]any{"class": items[i].class, "content": items[i].content})
		}
	}
	for _, g := range []*docGen{gv, gm, gb} {
		for k, v := range g.hist {
			rep.Histogram[k] += v
		}
	}
	cw.flush()
	rep.CaseFiles = cw.files
	for i := range rep.CaseFiles {
		rep.CaseFiles[i], _ = filepath.Abs(rep.CaseFiles[i])
	}
	rep.write("report.json")
	return 0
}
