//go:build verif

package diags

// VerifReadRange exposes the unexported readRange to the C06 harness.
func VerifReadRange(firstColumn, lastColumn int, prs PositionRanges) PositionRanges {
	return readRange(firstColumn, lastColumn, prs)
}
