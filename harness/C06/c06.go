//go:build verif

package main

// C06 harness: (1) correspondence cases for Model/Position.v (real NewPositionRange/readRange/Lines on
// synthetic and real yaml nodes; every YamlNode.Pos / Rule.Lines / YamlMap.Lines of parsed documents),
// (2) the implementation-level oracle: documents printed by gen.go (which knows where each value is) are
// parsed by the real parser and every field's positions are read back from the file.

import (
	"unicode/utf8"
	"bytes"
	"context"
	"fmt"
	"math/rand"
	"os"
	"path/filepath"
	"reflect"
	"sort"
	"strconv"
	"strings"

	"github.com/prometheus/common/model"
	"gopkg.in/yaml.v3"

	"github.com/cloudflare/pint/internal/checks"
	"github.com/cloudflare/pint/internal/diags"
	"github.com/cloudflare/pint/internal/discovery"
	"github.com/cloudflare/pint/internal/output"
	"github.com/cloudflare/pint/internal/parser"
)

func isASCII(s string) bool {
	for i := 0; i < len(s); i++ {
		if s[i] >= 0x80 || s[i] == '\t' || s[i] == '\r' {
			return false
		}
	}
	return true
}

// c06CaretCheck renders one diagnostic with the real InjectDiagnostics (no colours) and checks that the carets sit
// under exactly the file characters the column range [a..b] of the field's positions denotes, on the last line of
// that range. want = the positions (independently: the window a..b of the expanded field positions).
// Returns "" when fine or not applicable, else a description. split = the expected carets are not contiguous.
func c06CaretCheck(text string, lines []string, d diags.Diagnostic, window []c06Pos) (problem string, split bool, applicable bool) {
	if len(window) == 0 || strings.ContainsAny(d.Message, "\n\r") {
		return "", false, false
	}
	last := 0
	for _, q := range window {
		last = max(last, q.Line)
	}
	if last < 1 || last > len(lines) {
		return "", false, false
	}
	line := lines[last-1]
	in := map[int]bool{}
	any := false
	for _, q := range window {
		if q.Line == last && q.Col <= len(line) {
			in[q.Col] = true
			any = true
		}
	}
	if !any {
		return "", false, false // only the line break of that line is in the window: nothing to underline
	}
	// One mark per CHARACTER of the source line (display column = number of characters before the byte): a caret under a
	// character iff its bytes are covered (position columns are byte columns), a blank elsewhere, nothing after the last
	// caret. A window that covers a character only partly (it can only come from a random byte range) is not judged.
	var starts []int
	for bi := range line {
		starts = append(starts, bi)
	}
	marks := make([]byte, 0, len(starts))
	runs, lastCaret := 0, -1
	for k, bi := range starts {
		end := len(line)
		if k+1 < len(starts) {
			end = starts[k+1]
		}
		covered := in[bi+1]
		for j := bi + 1; j < end; j++ {
			if in[j+1] != covered {
				return "", false, false
			}
		}
		if covered {
			marks = append(marks, '^')
			if lastCaret != len(marks)-2 || len(marks) == 1 {
				runs++
			}
			lastCaret = len(marks) - 1
		} else {
			marks = append(marks, ' ')
		}
	}
	marks = marks[:lastCaret+1]
	var out string
	func() {
		defer func() {
			if e := recover(); e != nil {
				out = "PANIC: " + fmt.Sprint(e)
			}
		}()
		out = diags.InjectDiagnostics(text, []diags.Diagnostic{d}, output.None)
	}()
	if strings.HasPrefix(out, "PANIC") {
		return "InjectDiagnostics panicked: " + out, runs > 1, true
	}
	olines := strings.Split(out, "\n")
	lastAll := 0
	for _, q := range d.Pos {
		lastAll = max(lastAll, q.Line)
	}
	digits := len(fmt.Sprint(lastAll))
	prefix := fmt.Sprintf("%*d | ", digits, last)
	for i, ol := range olines {
		if ol == prefix+line && i+1 < len(olines) {
			cl := olines[i+1]
			suffix := " " + d.Message
			if !strings.HasSuffix(cl, suffix) || len(cl) < digits+3+len(suffix) {
				return fmt.Sprintf("caret line %q does not end with the message", cl), runs > 1, true
			}
			got := cl[digits+3 : len(cl)-len(suffix)]
			// blanks after the last caret are immaterial (InjectDiagnostics pads up to the line-break position when the
			// window ends with the break of a line that has trailing blanks)
			if strings.TrimRight(got, " ") != strings.TrimRight(string(marks), " ") {
				return fmt.Sprintf("carets under line %d are %q, want %q (source line %q)", last, got, string(marks), line), runs > 1, true
			}
			return "", runs > 1, true
		}
	}
	return fmt.Sprintf("rendered output has no source line %d followed by a caret line: %q", last, out), runs > 1, true
}

// the offline checks pint enables by default, plus rule/report (a diagnostic on every rule)
func c06OfflineChecks() []checks.RuleChecker {
	return []checks.RuleChecker{
		checks.NewSyntaxCheck(), checks.NewAlertsForCheck(), checks.NewComparisonCheck(), checks.NewTemplateCheck(),
		checks.NewFragileCheck(), checks.NewRegexpCheck(), checks.NewRuleDependencyCheck(), checks.NewImpossibleCheck(),
		checks.NewReportCheck("verif", checks.Warning),
	}
}

// c06RunChecks runs the offline checks on every rule of the file; a panic inside a check is returned as text.
func c06RunChecks(f parser.File, rules []parser.Rule) (out [][]checks.Problem, panicMsg string) {
	defer func() {
		if e := recover(); e != nil {
			panicMsg = fmt.Sprint(e)
		}
	}()
	var entries []discovery.Entry
	for _, r := range rules {
		entries = append(entries, discovery.Entry{
			Path: discovery.Path{Name: "rules.yml", SymlinkTarget: "rules.yml"}, File: &f, Rule: r, State: discovery.Added,
			ModifiedLines: r.Lines.Expand(),
		})
	}
	out = make([][]checks.Problem, len(rules))
	for i, e := range entries {
		if e.Rule.Error.Err != nil {
			continue
		}
		for _, c := range c06OfflineChecks() {
			out[i] = append(out[i], c.Check(context.Background(), e, entries)...)
		}
	}
	return out, ""
}

func init() { register("C06", runC06) }

// ---------------------------------------------------------------------------------------------
// Coq printers

func coqTriple(p diags.PositionRange) string {
	return fmt.Sprintf("(%s, %s, %s)", coqZ(int64(p.Line)), coqZ(int64(p.FirstColumn)), coqZ(int64(p.LastColumn)))
}

func coqPrs(prs diags.PositionRanges) string {
	out := make([]string, len(prs))
	for i, p := range prs {
		out[i] = coqTriple(p)
	}
	return coqList(out)
}

func coqZPair(a, b int) string { return "(" + coqZ(int64(a)) + ", " + coqZ(int64(b)) + ")" }

type c06NodeObs struct {
	id                      int
	value                   string
	line, col               int
	block                   bool   // yaml Style has the Literal or Folded bit
	anchor                  string // yaml Anchor
	dq                      bool   // yaml Style has the DoubleQuoted bit
	minCol, offLine, offCol int
	obs                     diags.PositionRanges
	panicked                bool
	guard                   bool // claimed to satisfy the guard of the partial theorem
}

func (n c06NodeObs) coq() string {
	obs := "None"
	if !n.panicked {
		obs = "(Some " + coqPrs(n.obs) + ")"
	}
	return fmt.Sprintf("{| no_id := %s; no_node := mksn %s %s %s %s %s %s; no_min := %s; no_offl := %s; no_offc := %s; no_obs := %s; no_guard := %s |}",
		coqN(n.id), coqStr(n.value), coqZ(int64(n.line)), coqZ(int64(n.col)), coqBool(n.block), coqStr(n.anchor), coqBool(n.dq), coqZ(int64(n.minCol)), coqZ(int64(n.offLine)), coqZ(int64(n.offCol)), obs, coqBool(n.guard))
}

func coqDoc(lines []string, nodes []c06NodeObs) string {
	ns := make([]string, len(nodes))
	for i, n := range nodes {
		ns[i] = n.coq()
	}
	return "CDoc " + coqStrList(lines) + "\n  " + coqList(ns)
}

// callNPR runs the real NewPositionRange (+AddOffset) and recovers a panic.
func c06IsBlock(st yaml.Style) bool { return st&(yaml.LiteralStyle|yaml.FoldedStyle) != 0 }
func c06IsDq(st yaml.Style) bool    { return st&yaml.DoubleQuotedStyle != 0 }

func callNPR(lines []string, value string, line, col int, style yaml.Style, anchor string, minCol, offLine, offCol int) (out diags.PositionRanges, panicked bool) {
	defer func() {
		if e := recover(); e != nil {
			panicked = true
			out = nil
		}
	}()
	n := &yaml.Node{Kind: yaml.ScalarNode, Value: value, Line: line, Column: col, Style: style, Anchor: anchor}
	out = diags.NewPositionRange(lines, n, minCol)
	out.AddOffset(offLine, offCol)
	return out, false
}

// ---------------------------------------------------------------------------------------------
// read-back (implementation side of the oracle; independent of the Coq model)

type c06Pos struct{ Line, Col int }

func expandPos(prs diags.PositionRanges) []c06Pos {
	var out []c06Pos
	for _, p := range prs {
		for c := p.FirstColumn; c <= p.LastColumn; c++ {
			out = append(out, c06Pos{p.Line, c})
		}
	}
	return out
}

// readBack returns the bytes at the positions; ok=false when a position is outside the file.
// embedded = the document sits inside a block scalar of an outer document: a blank outer line has lost
// its indentation, so any column past its end is read as that line's break.
func readBack(lines []string, ps []c06Pos, embedded bool) (string, bool) {
	var b strings.Builder
	for _, p := range ps {
		if p.Line < 1 || p.Line > len(lines) || p.Col < 1 {
			return b.String(), false
		}
		l := lines[p.Line-1]
		switch {
		case embedded && isBlank(l) && p.Col > len(l):
			b.WriteByte('\n')
		case embedded && p.Col == len(l) && l[len(l)-1] == '\r':
			// CRLF file, embedded document: yaml normalised the inner line breaks, the line-break position of the
			// inner line falls on the \r of the outer \r\n
			b.WriteByte('\n')
		case p.Col == len(l)+1:
			b.WriteByte('\n')
		case p.Col <= len(l):
			b.WriteByte(l[p.Col-1])
		default:
			return b.String(), false
		}
	}
	return b.String(), true
}

// c06IsDqStyle: printer styles written as a double-quoted scalar
func c06IsDqStyle(st string) bool { return st == "dq" || st == "dqesc" || st == "dqml" }

// c06EscapeDecode (independent of pint: YAML 1.2 section 5.7): s starts with a backslash; returns the decoded text and the
// number of source bytes of the escape sequence (1 = escaped line break at the end of the line).
func c06EscapeDecode(s string) (string, int) {
	if len(s) < 2 {
		return "", 1
	}
	simple := map[byte]string{'0': "\x00", 'a': "\a", 'b': "\b", 't': "\t", '\t': "\t", 'n': "\n", 'v': "\v", 'f': "\f", 'r': "\r", 'e': "\x1b",
		' ': " ", '"': "\"", '/': "/", '\\': "\\", 'N': "\u0085", '_': "\u00a0", 'L': "\u2028", 'P': "\u2029"}
	if d, ok := simple[s[1]]; ok {
		return d, 2
	}
	n := map[byte]int{'x': 2, 'u': 4, 'U': 8}[s[1]]
	if n == 0 {
		return s[1:2], 2 // any other escaped character stands for itself (yaml.v3 accepts \')
	}
	if len(s) < 2+n {
		return "", 2
	}
	v, err := strconv.ParseUint(s[2:2+n], 16, 32)
	if err != nil {
		return "", 2
	}
	return string(rune(v)), 2 + n
}

// readBackDecoded: the "modulo escapes" reading for a double-quoted scalar starting at (l0, c0) = its opening quote: a
// position on a column of an escape sequence stands for a byte that sequence decodes to (the value byte vb, if the
// sequence decodes to it; otherwise its first decoded byte); every other position is read literally.
func readBackDecoded(lines []string, ps []c06Pos, value string, l0, c0 int, embedded bool) (string, bool) {
	// escape spans per line: column (1-based) -> decoded text of the sequence covering it
	spans := map[int]map[int]string{}
	span := func(ln int) map[int]string {
		if m, ok := spans[ln]; ok {
			return m
		}
		m := map[int]string{}
		spans[ln] = m
		if ln < 1 || ln > len(lines) {
			return m
		}
		line := lines[ln-1]
		start := 0
		if ln == l0 {
			start = c0 // byte index after the opening quote
		}
		for i := start; i < len(line); {
			if line[i] != '\\' {
				i++
				continue
			}
			d, n := c06EscapeDecode(line[i:])
			for k := 0; k < n && i+k < len(line); k++ {
				m[i+k+1] = d
			}
			i += n
		}
		return m
	}
	var b strings.Builder
	for i, p := range ps {
		if d, ok := span(p.Line)[p.Col]; ok && i < len(value) {
			if strings.IndexByte(d, value[i]) >= 0 {
				b.WriteByte(value[i])
			} else if d != "" {
				b.WriteByte(d[0])
			} else {
				b.WriteByte('\\')
			}
			continue
		}
		one, ok := readBack(lines, []c06Pos{p}, embedded)
		if !ok {
			return b.String(), false
		}
		b.WriteString(one)
	}
	return b.String(), true
}

// spells: rb equals a prefix of value up to line folding (a file line break may stand for ' ' or '\n'),
// and the rest of value is line breaks only.
func spells(rb, value string) bool {
	if len(rb) > len(value) {
		return false
	}
	for i := 0; i < len(rb); i++ {
		if rb[i] == value[i] {
			continue
		}
		if rb[i] == '\n' && (value[i] == ' ' || value[i] == '\n') {
			continue
		}
		return false
	}
	for i := len(rb); i < len(value); i++ {
		if value[i] != '\n' {
			return false
		}
	}
	return true
}

func foldEq(rb, want string) bool {
	if len(rb) != len(want) {
		return false
	}
	for i := 0; i < len(rb); i++ {
		if rb[i] == want[i] || (rb[i] == '\n' && (want[i] == ' ' || want[i] == '\n')) {
			continue
		}
		return false
	}
	return true
}

// ---------------------------------------------------------------------------------------------

type c06ParsedField struct {
	path string
	node *parser.YamlNode
}

func c06RuleFields(r parser.Rule) []c06ParsedField {
	var out []c06ParsedField
	addMap := func(name string, m *parser.YamlMap) {
		if m == nil {
			return
		}
		out = append(out, c06ParsedField{name, m.Key})
		for i, it := range m.Items {
			out = append(out, c06ParsedField{fmt.Sprintf("%s/%d/key", name, i), it.Key})
			out = append(out, c06ParsedField{fmt.Sprintf("%s/%d/value", name, i), it.Value})
		}
	}
	if a := r.AlertingRule; a != nil {
		out = append(out, c06ParsedField{"alert", &a.Alert}, c06ParsedField{"expr", a.Expr.Value})
		if a.For != nil {
			out = append(out, c06ParsedField{"for", a.For})
		}
		if a.KeepFiringFor != nil {
			out = append(out, c06ParsedField{"keep_firing_for", a.KeepFiringFor})
		}
		addMap("labels", a.Labels)
		addMap("annotations", a.Annotations)
	}
	if rr := r.RecordingRule; rr != nil {
		out = append(out, c06ParsedField{"record", &rr.Record}, c06ParsedField{"expr", rr.Expr.Value})
		addMap("labels", rr.Labels)
	}
	return out
}

func c06AllRules(f parser.File) []parser.Rule {
	var out []parser.Rule
	for _, g := range f.Groups {
		out = append(out, g.Rules...)
	}
	return out
}

type c06Failure struct {
	What    string   `json:"what"`
	Classes []string `json:"classes"`
}

// c06Oracle checks one printed document against the real parser. It returns the failures (each with the
// known-finding classes of the scalars involved; empty = unlisted) and statistics.
type c06OracleResult struct {
	failures   []c06Failure
	fields     int
	nontrivial bool
	skipped    string
	wantDiff   int
	file       parser.File
	lines      []string
}

func c06SplitLines(text string) []string {
	// exactly the parser's line table: one entry per '\n'-terminated (or final unterminated) line
	if text == "" {
		return nil
	}
	ls := strings.Split(text, "\n")
	if ls[len(ls)-1] == "" {
		ls = ls[:len(ls)-1]
	}
	return ls
}

func isBlank(s string) bool { return strings.TrimSpace(s) == "" }

func c06Oracle(doc c06Doc, rnd *rand.Rand, rep *runReport) c06OracleResult {
	res := c06OracleResult{}
	lines := c06SplitLines(doc.Text)
	res.lines = lines
	embedded := doc.Layout == "embedded"
	p := parser.NewParser(doc.Strict, parser.PrometheusSchema, model.UTF8Validation)
	var f parser.File
	panicMsg := ""
	func() {
		defer func() {
			if e := recover(); e != nil {
				panicMsg = fmt.Sprint(e)
			}
		}()
		f = p.Parse(bytes.NewReader([]byte(doc.Text)))
	}()
	if panicMsg != "" {
		res.failures = append(res.failures, c06Failure{What: "the parser panicked while computing positions: " + panicMsg})
		return res
	}
	res.file = f
	if f.Error.Err != nil {
		res.skipped = "file-error: " + f.Error.Err.Error()
		return res
	}
	rules := c06AllRules(f)
	if len(rules) != len(doc.Rules) {
		res.skipped = fmt.Sprintf("rule-count: parsed %d printed %d", len(rules), len(doc.Rules))
		return res
	}
	// Known-finding classes excuse wrong SPELLING / wrong PLACE only. An empty position list, a position outside
	// the file or a rule range outside the file is never excused (hard = true).
	failKind := func(hard bool, classes []string, format string, a ...any) {
		if hard {
			classes = nil
		}
		res.failures = append(res.failures, c06Failure{What: fmt.Sprintf(format, a...), Classes: classes})
	}
	fail := func(classes []string, format string, a ...any) { failKind(false, classes, format, a...) }
	if f.TotalLines != len(lines) {
		fail(nil, "TotalLines=%d but the file has %d lines", f.TotalLines, len(lines))
	}
	probs, cpanic := c06RunChecks(f, rules)
	if cpanic != "" {
		rep.hist("diag:check-panicked")
		rep.Notes = appendNote(rep.Notes, "an offline check panicked: "+cpanic)
		probs = nil
	}
	for ri, pr := range rules {
		gr := doc.Rules[ri]
		if pr.Error.Err != nil {
			rep.hist("oracle:rule-error")
			continue
		}
		pfs := c06RuleFields(pr)
		if len(pfs) != len(gr.Fields) {
			rep.hist("oracle:field-count-differs")
			continue
		}
		var ruleClasses []string
		minLine, maxLine := 0, 0
		okRule := true
		byPath := map[string]c06Field{}
		for _, gf := range gr.Fields {
			byPath[gf.Path] = gf
			_ = gf // since the dq-escape fix no class excuses a rule's line range
		}
		for _, pf := range pfs {
			if _, ok := byPath[pf.path]; !ok {
				rep.hist("oracle:field-paths-differ")
				okRule = false
				break
			}
		}
		if !okRule {
			continue
		}
		for _, pf := range pfs {
			gf := byPath[pf.path]
			res.fields++
			rep.hist("style:" + gf.Style)
			for _, c := range gf.Classes {
				rep.hist("class:" + c)
			}
			if len(gf.Classes) == 0 {
				rep.hist("class:none(in theorem guard)")
			}
			for _, st := range gf.Strata {
				rep.hist("stratum:" + st)
			}
			if c06HasMultibytePrefix(gf, lines) {
				rep.hist("stratum:" + c06SMultibyte)
			}
			if gf.Style != "plain" || gf.L1 > gf.L0 {
				res.nontrivial = true
			}
			// The remaining class C06-dq-escape excuses ONE thing: the literal reading of the positions of a value byte that an
			// escape sequence hides. Every other check below is made under the "modulo escapes" reading (a position on an
			// escape sequence stands for the byte it decodes to) and is never excused.
			litClasses := c06EffClasses(gf, lines)
			gf.Classes = nil
			isDq := c06IsDqStyle(gf.Style)
			value := pf.node.Value
			if gf.Want != "\x00trust-yaml" && gf.Want != value {
				res.wantDiff++
				rep.hist("oracle:printer-and-yaml-disagree-on-value")
				if os.Getenv("C06_DEBUG") != "" {
					fmt.Printf("WANTDIFF style=%s want=%q got=%q\n", gf.Style, gf.Want, value)
				}
			}
			pos := pf.node.Pos
			ps := expandPos(pos)
			for _, q := range ps {
				if gf.Style == "alias" && (gr.Merged || !strings.HasSuffix(gf.Path, "for")) {
					break // items of an aliased map live at the anchor, outside the rule
				}
				if minLine == 0 || q.Line < minLine {
					minLine = q.Line
				}
				maxLine = max(maxLine, q.Line)
			}
			where := fmt.Sprintf("rule %d field %s (%s, lines %d-%d)", ri, gf.Path, gf.Style, gf.L0, gf.L1)
			if len(pos) == 0 {
				failKind(true, gf.Classes, "%s: empty position list (value %q)", where, value)
				continue
			}
			// region: extend block scalars over following blank lines (they belong to the scalar)
			l1 := gf.L1
			if gf.Style == "literal" || gf.Style == "folded" {
				for l1 < len(lines) && isBlank(lines[l1]) {
					l1++
				}
			}
			rb, inside := readBack(lines, ps, embedded)
			if !inside {
				failKind(true, gf.Classes, "%s: a position lies outside the file (value %q, positions %v)", where, value, pos)
				continue
			}
			rbLit := rb
			if isDq {
				rb, _ = readBackDecoded(lines, ps, value, gf.L0, gf.C0, embedded)
			}
			if value == "" {
				continue
			}
			if gf.Style == "alias" {
				rep.hist("oracle:alias-field (hard checks only)")
				continue
			}
			if !spells(rb, value) {
				// Never excused (theorem C06_positions_spell_prefix, unconditional): unless the one-column fallback was
				// returned, the positions read back a PREFIX of the value, and none lies in front of the scalar.
				if len(ps) > 1 {
					if len(rb) > len(value) || !foldEq(rb, value[:len(rb)]) {
						failKind(true, gf.Classes, "%s: positions read back %q, which is not even a prefix of the value %q", where, rb, value)
						continue
					}
					if q := ps[0]; q.Line < gf.L0 || (q.Line == gf.L0 && q.Col < gf.C0) {
						failKind(true, gf.Classes, "%s: position %d:%d lies in front of the scalar (%d:%d); value %q", where, q.Line, q.Col, gf.L0, gf.C0, value)
						continue
					}
				}
				fail(gf.Classes, "%s: positions read back %q but the value is %q", where, rb, value)
				continue
			}
			bad := false
			for _, q := range ps {
				if q.Line < gf.L0 || q.Line > l1 || (q.Line == gf.L0 && q.Col < gf.C0) {
					fail(gf.Classes, "%s: position %d:%d is outside the scalar's region (%d:%d .. line %d); value %q", where, q.Line, q.Col, gf.L0, gf.C0, l1, value)
					bad = true
					break
				}
			}
			if bad {
				continue
			}
			// one-line plain scalar outside every class: exactly one range over the token (theorem C06_plain_end_to_end)
			if gf.Style == "plain" && len(gf.Classes) == 0 && gf.L0 == gf.L1 {
				if len(pos) != 1 || pos[0].Line != gf.L0 || pos[0].FirstColumn != gf.C0 || pos[0].LastColumn != gf.C0+len(value)-1 {
					fail(gf.Classes, "%s: positions %v, want exactly one range %d:%d-%d over the plain scalar %q", where, pos, gf.L0, gf.C0, gf.C0+len(value)-1, value)
					continue
				}
			}
			// diagnostic consequence: offsets [a,b] into the value land on value[a-1:b]
			for k := 0; k < 3; k++ {
				a := 1 + rnd.Intn(len(value))
				b := a + rnd.Intn(len(value)-a+1)
				if k == 0 {
					a, b = 1, len(value)
				}
				if k == 1 && rnd.Intn(3) == 0 {
					b = len(value) + rnd.Intn(4) // beyond the end: InjectDiagnostics clips with Len()
				}
				dl := pos.Len()                                          // what InjectDiagnostics clips with
				got := diags.VerifReadRange(min(a, dl), min(b, dl), pos) // what InjectDiagnostics underlines
				np := len(ps)                                            // independent count of the positions
				grb, gin := readBack(lines, expandPos(got), embedded)
				if isDq && gin {
					grb, gin = readBackDecoded(lines, expandPos(got), value[min(a, np)-1:], gf.L0, gf.C0, embedded)
				}
				want := value[min(a, np)-1 : min(b, np)]
				if !gin || !foldEq(grb, want) {
					fail(gf.Classes, "%s: diagnostic columns %d-%d of value %q land on %q, want %q", where, a, b, value, grb, want)
					break
				}
			}
			// carets: a synthetic Diagnostic over a character-aligned range of the value (first one: the whole value), rendered by
			// the real InjectDiagnostics: the carets must sit exactly under the characters whose bytes the positions denote,
			// also after non-ASCII text on the line (display column = number of characters before the byte)
			if !doc.CRLF && !embedded && utf8.ValidString(value) {
				var bounds []int // byte offsets of character starts, plus len(value)
				for bi := range value {
					bounds = append(bounds, bi)
				}
				bounds = append(bounds, len(value))
				for k := 0; k < 2; k++ {
					i := rnd.Intn(len(bounds) - 1)
					j := i + 1 + rnd.Intn(len(bounds)-1-i)
					if k == 0 {
						i, j = 0, len(bounds)-1
					}
					a, b := bounds[i]+1, bounds[j]
					if b > len(ps) {
						b = len(ps)
					}
					if a > b {
						continue
					}
					dg := diags.Diagnostic{Message: "m", Pos: pos, FirstColumn: a, LastColumn: b}
					if msg, _, ok := c06CaretCheck(doc.Text, lines, dg, ps[a-1:b]); ok {
						rep.hist("caret:checked-synthetic")
						if !isASCII(lines[ps[b-1].Line-1]) {
							rep.hist("caret:checked-on-non-ascii-line")
						}
						if msg != "" {
							fail(nil, "%s: diagnostic over columns %d-%d of the value: %s", where, a, b, msg)
							break
						}
					}
				}
			}
			// the literal reading (the property as written): fails exactly for bytes hidden behind an escape sequence
			if isDq && !spells(rbLit, value) {
				lc := []string(nil)
				for _, c := range litClasses {
					if c == c06DqEscape {
						lc = []string{c06DqEscape}
					}
				}
				fail(lc, "%s: read back literally the positions spell %q, the value is %q (bytes hidden behind escape sequences are located on the sequence)", where, rbLit, value)
			}
		}
		// every Diagnostic the offline checks attach to this rule: its column range (offsets into a field's value,
		// clipped by Pos.Len() as InjectDiagnostics does) must land on exactly value[a-1:b]
		if probs != nil {
			for _, pb := range probs[ri] {
				for _, d := range pb.Diagnostics {
					var fld *c06ParsedField
					for k := range pfs {
						if reflect.DeepEqual(pfs[k].node.Pos, d.Pos) {
							fld = &pfs[k]
							break
						}
					}
					if fld == nil {
						rep.hist("diag:positions-are-not-a-field's (skipped)")
						continue
					}
					gf := byPath[fld.path]
					if gf.Style == "alias" {
						continue // not written as a scalar here
					}
					gf.Classes = nil // nothing is excused here (modulo-escapes reading for double-quoted scalars)
					value := fld.node.Value
					dl := d.Pos.Len()
					np := len(expandPos(d.Pos)) // independent count of the positions
					a, b := min(d.FirstColumn, np), min(d.LastColumn, np)
					if a < 1 || b < a || b > len(value) {
						rep.hist("diag:degenerate-column-range (skipped)")
						continue
					}
					rep.hist("diag:" + pb.Reporter)
					got := diags.VerifReadRange(min(d.FirstColumn, dl), min(d.LastColumn, dl), d.Pos) // as InjectDiagnostics
					grb, gin := readBack(lines, expandPos(got), embedded)
					if gin && c06IsDqStyle(gf.Style) {
						grb, gin = readBackDecoded(lines, expandPos(got), value[a-1:], gf.L0, gf.C0, embedded)
					}
					if !gin || !foldEq(grb, value[a-1:b]) {
						fail(gf.Classes, "rule %d: diagnostic of %s on field %s columns %d-%d (%q) lands on %q, should cover %q of value %q",
							ri, pb.Reporter, fld.path, d.FirstColumn, d.LastColumn, d.Message, grb, value[a-1:b], value)
						continue
					}
					// carets of the rendered diagnostic
					all := expandPos(d.Pos)
					if msg, split, ok := c06CaretCheck(doc.Text, lines, d, all[a-1:b]); ok && !doc.CRLF && doc.Layout != "embedded" {
						rep.hist("caret:checked")
						if ll := all[b-1].Line; ll >= 1 && ll <= len(lines) && !isASCII(lines[ll-1]) {
							rep.hist("caret:checked-on-non-ascii-line")
						}
						if msg != "" {
							cls := gf.Classes
							_ = split // split ranges render correctly since fix e721538: no class excuses them
							fail(cls, "rule %d: diagnostic of %s on field %s columns %d-%d: %s", ri, pb.Reporter, fld.path, d.FirstColumn, d.LastColumn, msg)
						}
					}
				}
			}
		}
		// rule line range
		if pr.Lines.First < 1 || pr.Lines.Last > len(lines) || pr.Lines.First > pr.Lines.Last {
			failKind(true, ruleClasses, "rule %d: Lines %d-%d is not inside the file (%d lines)", ri, pr.Lines.First, pr.Lines.Last, len(lines))
		} else if minLine != 0 && (pr.Lines.First > minLine || pr.Lines.Last < maxLine) {
			fail(ruleClasses, "rule %d: Lines %d-%d does not enclose its fields (%d-%d)", ri, pr.Lines.First, pr.Lines.Last, minLine, maxLine)
		} else {
			l1 := gr.L1
			for l1 < len(lines) && isBlank(lines[l1]) {
				l1++
			}
			if gr.Merged {
				rep.hist("oracle:rule-with-merge-key (text-region check skipped)")
			} else if pr.Lines.First < gr.L0 || pr.Lines.Last > l1 {
				fail(ruleClasses, "rule %d: Lines %d-%d reaches outside the rule's text (%d-%d)", ri, pr.Lines.First, pr.Lines.Last, gr.L0, l1)
			}
		}
	}
	// group-level labels (Group.Labels is a YamlMap with positions like a rule's labels)
	for gi, gfs := range doc.GroupLabels {
		if gi >= len(f.Groups) || f.Groups[gi].Labels == nil {
			rep.hist("oracle:group-labels-not-parsed")
			continue
		}
		m := f.Groups[gi].Labels
		gpfs := []c06ParsedField{{"labels", m.Key}}
		for i, it := range m.Items {
			gpfs = append(gpfs, c06ParsedField{fmt.Sprintf("labels/%d/key", i), it.Key}, c06ParsedField{fmt.Sprintf("labels/%d/value", i), it.Value})
		}
		gby := map[string]c06Field{}
		for _, gf := range gfs {
			gby[gf.Path] = gf
		}
		for _, pf := range gpfs {
			gf, ok := gby[pf.path]
			if !ok {
				continue
			}
			gf.Classes = c06EffClasses(gf, lines)
			rep.hist("oracle:group-label-field")
			where := fmt.Sprintf("group %d field %s (%s, line %d)", gi, gf.Path, gf.Style, gf.L0)
			ps := expandPos(pf.node.Pos)
			rb, inside := readBack(lines, ps, embedded)
			switch {
			case len(ps) == 0:
				failKind(true, nil, "%s: empty position list", where)
			case !inside:
				failKind(true, nil, "%s: a position lies outside the file", where)
			case gf.Style == "alias" || pf.node.Value == "":
			case !spells(rb, pf.node.Value):
				fail(gf.Classes, "%s: positions read back %q but the value is %q", where, rb, pf.node.Value)
			default:
				for _, q := range ps {
					if q.Line < gf.L0 || q.Line > gf.L1 || (q.Line == gf.L0 && q.Col < gf.C0) {
						fail(gf.Classes, "%s: position %d:%d is outside the scalar's region (%d:%d .. line %d)", where, q.Line, q.Col, gf.L0, gf.C0, gf.L1)
						break
					}
				}
			}
		}
	}
	return res
}

// c06EffClasses: the known-finding classes of a field (only the printer-assigned ones are left).
func c06EffClasses(gf c06Field, lines []string) []string {
	return append([]string{}, gf.Classes...)
}

// c06HasMultibytePrefix: non-ASCII bytes before the scalar on its first line (blocks: on the header line);
// yaml.v3 columns count characters there (stratum, fixed by 9af0d98).
func c06HasMultibytePrefix(gf c06Field, lines []string) bool {
	hl := gf.L0
	if gf.Style == "literal" || gf.Style == "folded" {
		hl = gf.L0 - 1
	}
	if hl >= 1 && hl <= len(lines) {
		pre := lines[hl-1]
		if hl == gf.L0 && gf.C0-1 <= len(pre) {
			pre = pre[:gf.C0-1]
		}
		for k := 0; k < len(pre); k++ {
			if pre[k] >= 0x80 {
				return true
			}
		}
	}
	return false
}

// c06GuardMap: (rule index, field path) -> the printer claims the field is outside every known-finding class,
// i.e. inside the guard of the partial theorem (checked in Coq: node_ok must evaluate to true).
func c06GuardMap(doc c06Doc) map[string]bool {
	lines := c06SplitLines(doc.Text)
	m := map[string]bool{}
	for ri, r := range doc.Rules {
		for _, f := range r.Fields {
			inGuard := len(c06EffClasses(f, lines)) == 0 && f.Want != "" && f.Style != "alias"
			if inGuard && c06IsDqStyle(f.Style) {
				// double-quoted: the theorem guard covers scalars without any escape sequence on their lines (with
				// self-escapes the token scanner is covered by correspondence and oracle only)
				for l := f.L0; l <= f.L1 && l <= len(lines); l++ {
					from := 0
					if l == f.L0 {
						from = min(max(f.C0-1, 0), len(lines[l-1]))
					}
					if strings.IndexByte(lines[l-1][from:], '\\') >= 0 {
						inGuard = false
					}
				}
			}
			m[fmt.Sprintf("%d|%s", ri, f.Path)] = inGuard
		}
	}
	return m
}

// ---------------------------------------------------------------------------------------------
// correspondence cases from a parsed document: every scalar node directly, and every rule field as the
// parser passed it (node, minColumn, offsets) with the positions the parser attached.

type c06YRule struct {
	node            *yaml.Node
	offLine, offCol int
	lines           []string
}

// c06FindRules walks the yaml forest the way parseNode does (document order) and returns mapping nodes that
// have an alert or record key, with the offsets and line table of the (possibly embedded) document.
func c06FindRules(n *yaml.Node, offLine, offCol int, lines []string, out *[]c06YRule) {
	switch n.Kind {
	case yaml.MappingNode:
		parts := parser.VerifUnpackNodesC06(n)
		isRule := false
		for i := 0; i+1 < len(parts); i += 2 {
			if parts[i].Value == "alert" || parts[i].Value == "record" || parts[i].Value == "expr" {
				isRule = true
			}
		}
		if isRule {
			*out = append(*out, c06YRule{n, offLine, offCol, lines})
			return
		}
	case yaml.ScalarNode:
		if strings.Count(n.Value, "\n") > 1 && n.Value != strings.Join(lines, "\n") && n.Line < len(lines) && n.Style&yaml.LiteralStyle != 0 {
			var inner yaml.Node
			if err := yaml.Unmarshal([]byte(n.Value), &inner); err == nil {
				c06FindRules(&inner, offLine+n.Line, offCol+parser.VerifCountLeadingSpaceC06(lines[n.Line]), strings.Split(n.Value, "\n"), out)
				return
			}
		}
	}
	for _, c := range n.Content {
		c06FindRules(c, offLine, offCol, lines, out)
	}
}

func c06Scalars(n *yaml.Node, out *[]*yaml.Node) {
	if n.Kind == yaml.ScalarNode {
		*out = append(*out, n)
	}
	for _, c := range n.Content {
		c06Scalars(c, out)
	}
}

type c06Corr struct {
	w      *caseWriter
	nextID int
	cases  map[string]any
	keep   bool
}

func (c *c06Corr) id() int { c.nextID++; return c.nextID }

func (c *c06Corr) remember(id int, v any) {
	if c.keep {
		c.cases[fmt.Sprint(id)] = v
	}
}

func linesLast(p diags.PositionRanges) int { return p.Lines().Last }

func (c *c06Corr) addDocument(text string, strict bool, guard map[string]bool, rnd *rand.Rand, rep *runReport) {
	docs, lines, seen, err := parser.VerifDecodeC06N([]byte(text))
	if err != nil || len(docs) == 0 {
		rep.hist("corr:yaml-error")
		return
	}
	var nodes []c06NodeObs
	// (a) every scalar node of the forest, directly, with a random minColumn
	var scalars []*yaml.Node
	for _, d := range docs {
		c06Scalars(d, &scalars)
	}
	if guard != nil && rnd.Intn(3) != 0 {
		scalars = nil // generated documents: the direct stream on one document in three (the parsed-field stream covers the same nodes)
	}
	for _, s := range scalars {
		minCol := pick(rnd, []int{1, 3, 3, 5, s.Column, s.Column + 2, 7})
		obs, pan := callNPR(lines, s.Value, s.Line, s.Column, s.Style, s.Anchor, minCol, 0, 0)
		n := c06NodeObs{id: c.id(), value: s.Value, line: s.Line, col: s.Column, block: c06IsBlock(s.Style), anchor: s.Anchor, dq: c06IsDq(s.Style), minCol: minCol, obs: obs, panicked: pan}
		c.remember(n.id, map[string]any{"kind": "scalar-node", "text": text, "value": s.Value, "line": s.Line, "column": s.Column, "style": int(s.Style), "anchor": s.Anchor, "minColumn": minCol, "observed": obs})
		nodes = append(nodes, n)
		rep.hist("corr:yaml-scalar-node")
	}
	// (b) rule fields as the parser sees them
	p := parser.NewParser(strict, parser.PrometheusSchema, model.UTF8Validation)
	var f parser.File
	parsePanicked := false
	func() {
		defer func() {
			if e := recover(); e != nil {
				parsePanicked = true
			}
		}()
		f = p.Parse(bytes.NewReader([]byte(text)))
	}()
	if parsePanicked {
		rep.hist("corr:parser-panicked")
		f.Error.Err = fmt.Errorf("panic")
	}
	if f.Error.Err == nil {
		var yrules []c06YRule
		for di, d := range docs {
			c06FindRules(d, 0, 0, lines[:seen[di]], &yrules) // the line table as far as the reader had got
		}
		prules := c06AllRules(f)
		if len(yrules) == len(prules) {
			var extra []string
			byTable := map[string][]c06NodeObs{}
			tables := map[string][]string{}
			for i, yr := range yrules {
				pr := prules[i]
				if pr.Error.Err != nil {
					continue
				}
				key := fmt.Sprintf("%d/%d/%d", yr.offLine, yr.offCol, len(yr.lines))
				tables[key] = yr.lines
				fieldNodes, ruleCase, mapCases, ok := c.ruleNodes(yr, pr, text, i, guard, rep)
				if !ok {
					rep.hist("corr:rule-shape-not-matched")
					continue
				}
				byTable[key] = append(byTable[key], fieldNodes...)
				extra = append(extra, ruleCase)
				extra = append(extra, mapCases...)
				rep.hist("corr:parsed-rule")
				if yr.offLine == 0 && yr.offCol == 0 {
					c.addCarets(text, lines, pr, rnd, rep)
				}
			}
			keys := make([]string, 0, len(byTable))
			for k := range byTable {
				keys = append(keys, k)
			}
			sort.Strings(keys)
			for _, k := range keys {
				if k == fmt.Sprintf("0/0/%d", len(lines)) && len(docs) == 1 {
					nodes = append(nodes, byTable[k]...)
				} else {
					c.w.add(coqDoc(tables[k], byTable[k]))
				}
			}
			for _, e := range extra {
				c.w.add(e)
			}
		} else {
			rep.hist("corr:rule-count-differs")
		}
	} else {
		rep.hist("corr:file-error")
	}
	c.w.add(coqDoc(lines, nodes))
}

// addCarets: render a diagnostic over a random column range of a random field with the real InjectDiagnostics and record
// the caret marks it printed under the last line of the range (ASCII lines only) for comparison with Model caret_marks.
func (c *c06Corr) addCarets(text string, lines []string, pr parser.Rule, rnd *rand.Rand, rep *runReport) {
	pfs := c06RuleFields(pr)
	if len(pfs) == 0 || strings.Contains(text, "\r") {
		return
	}
	pf := pfs[rnd.Intn(len(pfs))]
	n := len(expandPos(pf.node.Pos))
	if n == 0 {
		return
	}
	a := 1 + rnd.Intn(n)
	b := a + rnd.Intn(n-a+1)
	d := diags.Diagnostic{Message: "m", Pos: pf.node.Pos, FirstColumn: a, LastColumn: b}
	dl := pf.node.Pos.Len()
	dp := diags.VerifReadRange(min(a, dl), min(b, dl), pf.node.Pos)
	if len(dp) == 0 {
		return
	}
	last := dp.Lines().Last
	if last < 1 || last > len(lines) {
		return
	}
	var out string
	func() {
		defer func() {
			if e := recover(); e != nil {
				out = ""
			}
		}()
		out = diags.InjectDiagnostics(text, []diags.Diagnostic{d}, output.None)
	}()
	lastAll := pf.node.Pos.Lines().Last
	digits := len(fmt.Sprint(lastAll))
	prefix := fmt.Sprintf("%*d | ", digits, last)
	olines := strings.Split(out, "\n")
	for i, ol := range olines {
		if ol == prefix+lines[last-1] && i+1 < len(olines) && strings.HasSuffix(olines[i+1], " m") && len(olines[i+1]) >= digits+3+2 {
			marks := olines[i+1][digits+3 : len(olines[i+1])-2]
			id := c.id()
			c.remember(id, map[string]any{"kind": "caret-marks", "text": text, "line": last, "ranges": dp, "first": a, "last": b, "observed": marks})
			if isASCII(lines[last-1]) {
				c.w.add(fmt.Sprintf("CCaret %s %s %s %s %s", coqN(id), coqNat(len(lines[last-1])), coqZ(int64(last)), coqPrs(dp), coqStr(marks)))
				rep.hist("corr:caret-marks")
			} else {
				c.w.add(fmt.Sprintf("CCaretL %s %s %s %s %s", coqN(id), coqStr(lines[last-1]), coqZ(int64(last)), coqPrs(dp), coqStr(marks)))
				rep.hist("corr:caret-marks-non-ascii-line")
			}
			return
		}
	}
	rep.hist("corr:caret-line-not-found")
}

// c06ParserMinColumn: the minColumn parseRule / newYamlMap pass to newYamlNode for every field (continuation lines
// are scanned from the first column; the leading-space adjustment of NewPositionRange skips the indentation).
const c06ParserMinColumn = 1

// ruleNodes pairs the yaml parts of one rule mapping with the fields of the parsed rule.
func (c *c06Corr) ruleNodes(yr c06YRule, pr parser.Rule, text string, ruleIdx int, guard map[string]bool, rep *runReport) (nodes []c06NodeObs, ruleCase string, mapCases []string, ok bool) {
	parts := parser.VerifUnpackNodesC06(yr.node)
	var partTerms []string
	mk := func(n *yaml.Node, minCol int, got *parser.YamlNode, what string) {
		o := c06NodeObs{id: c.id(), value: n.Value, line: n.Line, col: n.Column, block: c06IsBlock(n.Style), anchor: n.Anchor, dq: c06IsDq(n.Style), minCol: minCol, offLine: yr.offLine, offCol: yr.offCol, obs: got.Pos}
		if guard != nil && guard[fmt.Sprintf("%d|%s", ruleIdx, what)] {
			o.guard = true
			rep.hist("corr:field-claimed-inside-theorem-guard")
		}
		c.remember(o.id, map[string]any{"kind": "parsed-field", "field": what, "text": text, "value": n.Value, "line": n.Line, "column": n.Column, "style": int(n.Style), "anchor": n.Anchor,
			"minColumn": minCol, "offsetLine": yr.offLine, "offsetColumn": yr.offCol, "observed": got.Pos})
		nodes = append(nodes, o)
	}
	doMap := func(key, val *yaml.Node, m *parser.YamlMap, name string) (int, bool) {
		if m == nil || val.Kind != yaml.MappingNode {
			return 0, false
		}
		mk(key, 1, m.Key, name)
		if len(val.Content)/2 != len(m.Items) {
			return 0, false // duplicate keys collapse in setValue? (newYamlMap appends) — shape differs, skip
		}
		var items []string
		for i := 0; i+1 < len(val.Content); i += 2 {
			ck, cv := val.Content[i], val.Content[i+1]
			it := m.Items[i/2]
			if cv.Kind != yaml.ScalarNode || cv.Alias != nil || ck.Alias != nil {
				return 0, false
			}
			mk(ck, c06ParserMinColumn, it.Key, fmt.Sprintf("%s/%d/key", name, i/2))
			mk(cv, c06ParserMinColumn, it.Value, fmt.Sprintf("%s/%d/value", name, i/2))
			items = append(items, "("+coqPrs(it.Key.Pos)+", "+coqPrs(it.Value.Pos)+")")
		}
		ml := m.Lines()
		mapCases = append(mapCases, fmt.Sprintf("CMap %s %s %s %s", coqN(c.id()), coqPrs(m.Key.Pos), coqList(items), coqZPair(ml.First, ml.Last)))
		return ml.Last, true
	}
	for i := 0; i+1 < len(parts); i += 2 {
		key, val := parts[i], parts[i+1]
		partTerms = append(partTerms, fmt.Sprintf("(%s, None)", coqZ(int64(key.Line+yr.offLine))))
		var got *parser.YamlNode
		switch key.Value {
		case "alert":
			if pr.AlertingRule != nil {
				got = &pr.AlertingRule.Alert
			}
		case "record":
			if pr.RecordingRule != nil {
				got = &pr.RecordingRule.Record
			}
		case "expr":
			if pr.AlertingRule != nil {
				got = pr.AlertingRule.Expr.Value
			} else if pr.RecordingRule != nil {
				got = pr.RecordingRule.Expr.Value
			}
		case "for":
			if pr.AlertingRule != nil {
				got = pr.AlertingRule.For
			}
		case "keep_firing_for":
			if pr.AlertingRule != nil {
				got = pr.AlertingRule.KeepFiringFor
			}
		case "labels", "annotations":
			var m *parser.YamlMap
			switch {
			case key.Value == "labels" && pr.AlertingRule != nil:
				m = pr.AlertingRule.Labels
			case key.Value == "labels" && pr.RecordingRule != nil:
				m = pr.RecordingRule.Labels
			case key.Value == "annotations" && pr.AlertingRule != nil:
				m = pr.AlertingRule.Annotations
			}
			last, mok := doMap(key, val, m, key.Value)
			if !mok {
				return nil, "", nil, false
			}
			partTerms = append(partTerms, fmt.Sprintf("(%s, Some %s)", coqZ(int64(val.Line+yr.offLine)), coqZ(int64(last))))
			continue
		default:
			return nil, "", nil, false
		}
		if got == nil || val.Kind != yaml.ScalarNode || val.Alias != nil {
			return nil, "", nil, false
		}
		mk(val, c06ParserMinColumn, got, key.Value)
		partTerms = append(partTerms, fmt.Sprintf("(%s, Some %s)", coqZ(int64(val.Line+yr.offLine)), coqZ(int64(linesLast(got.Pos)))))
	}
	ruleCase = fmt.Sprintf("CRule %s %s %s", coqN(c.id()), coqList(partTerms), coqZPair(pr.Lines.First, pr.Lines.Last))
	return nodes, ruleCase, mapCases, true
}

// ---------------------------------------------------------------------------------------------
// synthetic cases: arbitrary line tables and nodes (including out-of-range lines/columns, which panic)

func c06SynthLine(r *rand.Rand) string {
	alpha := []string{"a", "b", "c", " ", " ", "'", "\"", "\\", "#", "|", ">", "-", ":", "x", "\t", "é"}
	n := r.Intn(12)
	if r.Intn(6) == 0 {
		n = 0
	}
	var b strings.Builder
	if r.Intn(2) == 0 {
		b.WriteString(sp(r.Intn(5)))
	}
	for i := 0; i < n; i++ {
		b.WriteString(pick(r, alpha))
	}
	return b.String()
}

// c06EscapeTokens: (source text, decoded bytes) of everything a double-quoted line can be made of; invalid and
// truncated sequences included (they only occur in synthetic tables: yaml.v3 rejects them).
var c06EscapeTokens = [][2]string{
	{"a", "a"}, {"b", "b"}, {" ", " "}, {"n", "n"}, {"t", "t"}, {"x", "x"}, {"4", "4"}, {"'", "'"}, {"é", "é"},
	{`\t`, "\t"}, {`\n`, "\n"}, {`\0`, "\x00"}, {`\a`, "\a"}, {`\b`, "\b"}, {`\v`, "\v"}, {`\f`, "\f"}, {`\r`, "\r"}, {`\e`, "\x1b"},
	{"\\\t", "\t"}, {`\ `, " "}, {`\"`, `"`}, {`\/`, "/"}, {`\\`, `\`}, {`\N`, "\u0085"}, {`\_`, "\u00a0"}, {`\L`, "\u2028"}, {`\P`, "\u2029"},
	{`\x41`, "A"}, {`\x7f`, "\x7f"}, {`\xe9`, "é"}, {`\u00e9`, "é"}, {`\u2192`, "→"}, {`\U0001F600`, "😀"}, {`\u0041`, "A"},
	{`\xZ1`, ""}, {`\u12`, ""}, {`\q`, "q"}, {`\ud800`, "\ufffd"}, {`\UFFFFFFFF`, "\ufffd"}, {`\x4`, ""},
}

// addSyntheticEscapes: lines made of escape tokens, values = the decoded text of a sub-sequence of the tokens (in sync,
// skipping, or diverging), nodes mostly double quoted (the same table as a plain node must ignore the escapes).
func (c *c06Corr) addSyntheticEscapes(r *rand.Rand, rep *runReport) {
	nl := 1 + r.Intn(3)
	lines := make([]string, nl)
	decs := make([][]string, nl)
	for i := range lines {
		var b strings.Builder
		b.WriteString(sp(r.Intn(3)))
		if i == 0 {
			b.WriteString(`k: "`)
		}
		for k := r.Intn(9); k > 0; k-- {
			t := pick(r, c06EscapeTokens)
			b.WriteString(t[0])
			decs[i] = append(decs[i], t[1])
		}
		if i == nl-1 {
			b.WriteString(pick(r, []string{`"`, `" # c`, `\`, ""}))
		} else if r.Intn(4) == 0 {
			b.WriteString(`\`) // escaped line break
		}
		lines[i] = b.String()
	}
	var nodes []c06NodeObs
	for k := 0; k < 5; k++ {
		var v strings.Builder
		for i := range lines {
			for _, d := range decs[i] {
				if r.Intn(5) != 0 {
					v.WriteString(d)
				}
			}
			if i < nl-1 && r.Intn(3) != 0 {
				v.WriteString(pick(r, []string{" ", "\n"}))
			}
		}
		if r.Intn(6) == 0 {
			v.WriteString(pick(r, []string{"z", "\n", `\`}))
		}
		val := v.String()
		if val == "" {
			val = "a"
		}
		style := pick(r, []yaml.Style{yaml.DoubleQuotedStyle, yaml.DoubleQuotedStyle, yaml.DoubleQuotedStyle, 0, yaml.SingleQuotedStyle})
		line := 1
		col := 1 + r.Intn(len(lines[0])+1)
		if r.Intn(3) != 0 {
			col = strings.Index(lines[0], `"`) + 1
		}
		minCol := pick(r, []int{1, 1, 1, 3})
		obs, pan := callNPR(lines, val, line, col, style, "", minCol, 0, 0)
		n := c06NodeObs{id: c.id(), value: val, line: line, col: col, dq: c06IsDq(style), minCol: minCol, obs: obs, panicked: pan}
		c.remember(n.id, map[string]any{"kind": "synthetic-escape-node", "lines": lines, "value": val, "line": line, "column": col, "style": int(style),
			"minColumn": minCol, "observed": obs, "panicked": pan})
		nodes = append(nodes, n)
		rep.hist("corr:synthetic-escape-node")
		rep.count(fmt.Sprintf("esc|%q|%q|%d|%d", lines, val, col, style), len(obs) > 1)
	}
	c.w.add(coqDoc(lines, nodes))
}

func (c *c06Corr) addSynthetic(r *rand.Rand, rep *runReport) {
	nl := 1 + r.Intn(6)
	lines := make([]string, nl)
	for i := range lines {
		lines[i] = c06SynthLine(r)
	}
	var nodes []c06NodeObs
	for k := 0; k < 6; k++ {
		line := 1 + r.Intn(nl)
		col := 1 + r.Intn(len(lines[line-1])+2)
		minCol := 1 + r.Intn(6)
		// value: a subsequence walk through the table from (line, col), folding line breaks, or noise
		var v strings.Builder
		switch r.Intn(5) {
		case 0:
			v.WriteString(c06SynthLine(r))
		default:
			l, cc := line, col
			for l <= nl && v.Len() < 20 {
				s := lines[l-1]
				for i := cc - 1; i >= 0 && i < len(s); i++ {
					if r.Intn(3) != 0 {
						v.WriteByte(s[i])
					}
				}
				if r.Intn(4) == 0 {
					break
				}
				v.WriteString(pick(r, []string{" ", "\n", "\n", ""}))
				l++
				cc = minCol
			}
			if r.Intn(4) == 0 {
				v.WriteString(pick(r, []string{"\n", "\n\n", " ", "z"}))
			}
		}
		switch r.Intn(12) {
		case 0:
			line = pick(r, []int{0, -1, nl + 1, nl + 2})
			rep.hist("synthetic:line-out-of-range")
		case 1:
			col = pick(r, []int{0, -1, len(lines[line-1]) + 5})
			rep.hist("synthetic:column-out-of-range")
		case 2:
			minCol = pick(r, []int{0, -2})
			rep.hist("synthetic:minColumn<=0")
		}
		offL, offC := 0, 0
		if r.Intn(4) == 0 {
			offL, offC = r.Intn(20), r.Intn(10)
		}
		var style yaml.Style
		anchor := ""
		switch r.Intn(8) {
		case 0, 1:
			style = pick(r, []yaml.Style{yaml.LiteralStyle, yaml.FoldedStyle, yaml.LiteralStyle | yaml.TaggedStyle})
			rep.hist("synthetic:block-style")
		case 2:
			style = pick(r, []yaml.Style{yaml.DoubleQuotedStyle, yaml.DoubleQuotedStyle, yaml.DoubleQuotedStyle | yaml.TaggedStyle, yaml.SingleQuotedStyle, yaml.TaggedStyle, yaml.FlowStyle})
		case 3:
			anchor = pick(r, []string{"a", "up", "x1", "é", "b c"})
			rep.hist("synthetic:anchor")
		}
		obs, pan := callNPR(lines, v.String(), line, col, style, anchor, minCol, offL, offC)
		if pan {
			rep.hist("synthetic:implementation-panicked")
		}
		n := c06NodeObs{id: c.id(), value: v.String(), line: line, col: col, block: c06IsBlock(style), anchor: anchor, dq: c06IsDq(style), minCol: minCol, offLine: offL, offCol: offC, obs: obs, panicked: pan}
		c.remember(n.id, map[string]any{"kind": "synthetic-node", "lines": lines, "value": v.String(), "line": line, "column": col, "style": int(style), "anchor": anchor, "minColumn": minCol,
			"offsetLine": offL, "offsetColumn": offC, "observed": obs, "panicked": pan})
		nodes = append(nodes, n)
		rep.hist("corr:synthetic-node")
		rep.count(fmt.Sprintf("syn|%q|%q|%d|%d|%d", lines, v.String(), line, col, minCol), len(obs) > 1)
	}
	c.w.add(coqDoc(lines, nodes))

	// readRange / Lines on arbitrary range lists
	var prs diags.PositionRanges
	np := r.Intn(5)
	for i := 0; i < np; i++ {
		a := r.Intn(12) - 1
		prs = append(prs, diags.PositionRange{Line: r.Intn(9) - 1, FirstColumn: a, LastColumn: a + r.Intn(6) - 1})
	}
	fc, lc := r.Intn(14)-2, r.Intn(18)-2
	dl := prs.Len()
	got := diags.VerifReadRange(min(fc, dl), min(lc, dl), prs)
	id := c.id()
	c.remember(id, map[string]any{"kind": "readRange", "first": fc, "last": lc, "ranges": prs, "observed": got})
	c.w.add(fmt.Sprintf("CRead %s %s %s %s %s", coqN(id), coqZ(int64(fc)), coqZ(int64(lc)), coqPrs(prs), coqPrs(got)))
	lr := prs.Lines()
	id = c.id()
	c.remember(id, map[string]any{"kind": "Lines", "ranges": prs, "observed": lr})
	c.w.add(fmt.Sprintf("CLines %s %s %s", coqN(id), coqPrs(prs), coqZPair(lr.First, lr.Last)))
}

// ---------------------------------------------------------------------------------------------

func c06Corpus() []c06Doc {
	dir := filepath.Join(os.Getenv("VERIF_ROOT"), "corpus", "C06")
	if os.Getenv("VERIF_ROOT") == "" {
		dir = "/verif/corpus/C06"
	}
	ents, _ := os.ReadDir(dir)
	var out []c06Doc
	for _, e := range ents {
		if !strings.HasSuffix(e.Name(), ".yml") {
			continue
		}
		b, err := os.ReadFile(filepath.Join(dir, e.Name()))
		if err != nil {
			continue
		}
		d := c06Doc{Text: string(b), Strict: strings.Contains(e.Name(), "strict"), Layout: "corpus:" + e.Name()}
		// optional sidecar <name>.expect: "rule path l0 c0 l1" = the region the printer of the witness put the value in
		if eb, err := os.ReadFile(filepath.Join(dir, strings.TrimSuffix(e.Name(), ".yml")+".expect")); err == nil {
			for _, l := range strings.Split(string(eb), "\n") {
				var ri, l0, c0, l1 int
				var path string
				if n, _ := fmt.Sscanf(l, "%d %s %d %d %d", &ri, &path, &l0, &c0, &l1); n == 5 {
					for len(d.Rules) <= ri {
						d.Rules = append(d.Rules, c06Rule{})
					}
					d.Rules[ri].Fields = append(d.Rules[ri].Fields, c06Field{Path: path, L0: l0, C0: c0, L1: l1})
				}
			}
		}
		out = append(out, d)
	}
	return out
}

var c06KnownClasses = []string{c06DqEscape}

// c06CorpusOracle re-checks a stored witness on the real parser: every field must be non-empty, inside the file and
// spell its value (and lie in the region given by the sidecar). Files named after a known-finding class are expected
// to fail and are counted under that id; any other corpus file failing is an unlisted failure.
func c06CorpusOracle(d c06Doc, rep *runReport) {
	name := strings.TrimSuffix(strings.TrimPrefix(d.Layout, "corpus:"), ".yml")
	class := ""
	for _, k := range c06KnownClasses {
		if strings.HasPrefix("C06-"+strings.ReplaceAll(name, "_", "-"), k) {
			class = k
		}
	}
	lines := c06SplitLines(d.Text)
	p := parser.NewParser(d.Strict, parser.PrometheusSchema, model.UTF8Validation)
	f := p.Parse(bytes.NewReader([]byte(d.Text)))
	nfail := 0
	report := func(format string, a ...any) {
		nfail++
		what := "corpus " + name + ": " + fmt.Sprintf(format, a...)
		c := map[string]any{"text": d.Text, "strict": d.Strict, "layout": d.Layout}
		if class != "" {
			rep.failKnown("corpus-"+name, what, c, class)
		} else {
			rep.fail("corpus-"+name, what, c)
		}
	}
	for ri, r := range c06AllRules(f) {
		for _, pf := range c06RuleFields(r) {
			ps := expandPos(pf.node.Pos)
			rb, inside := readBack(lines, ps, false)
			switch {
			case len(ps) == 0:
				rep.fail("corpus-"+name, "corpus "+name+": empty position list", map[string]any{"text": d.Text})
			case !inside:
				rep.fail("corpus-"+name, "corpus "+name+": position outside the file", map[string]any{"text": d.Text})
			case pf.node.Value != "" && !spells(rb, pf.node.Value):
				report("rule %d field %s: positions %v read back %q, value %q", ri, pf.path, pf.node.Pos, rb, pf.node.Value)
			}
			if len(ps) > 0 && inside && pf.node.Value != "" {
				dg := diags.Diagnostic{Message: "m", Pos: pf.node.Pos, FirstColumn: 1, LastColumn: len(ps)}
				if msg, _, ok := c06CaretCheck(d.Text, lines, dg, ps); ok && msg != "" {
					report("rule %d field %s: %s", ri, pf.path, msg)
				}
			}
			if ri < len(d.Rules) {
				for _, gf := range d.Rules[ri].Fields {
					if gf.Path != pf.path {
						continue
					}
					for _, q := range ps {
						if q.Line < gf.L0 || q.Line > gf.L1 || (q.Line == gf.L0 && q.Col < gf.C0) {
							report("rule %d field %s: position %d:%d outside the scalar (%d:%d..line %d)", ri, pf.path, q.Line, q.Col, gf.L0, gf.C0, gf.L1)
							break
						}
					}
				}
			}
		}
		// a rule's lines must not reach into the next rule
		if rs := c06AllRules(f); ri+1 < len(rs) && r.Lines.Last >= rs[ri+1].Lines.First && r.Error.Err == nil && rs[ri+1].Error.Err == nil {
			report("rule %d Lines %d-%d overlap the next rule (%d-%d)", ri, r.Lines.First, r.Lines.Last, rs[ri+1].Lines.First, rs[ri+1].Lines.Last)
		}
	}
	if class != "" && nfail == 0 {
		rep.Notes = appendNote(rep.Notes, "corpus witness "+name+" of "+class+" no longer fails on this tree")
		rep.hist("corpus:witness-no-longer-fails")
	}
	rep.count(d.Text, true)
}

func runC06(args []string) int {
	n := argInt(args, "--n", 300)
	extra := argInt(args, "--extra", 0) // additional documents checked by the oracle only (no correspondence cases)
	noCases := false                    // search mode: only the implementation-level oracle, no correspondence case files
	for _, a := range args {
		if a == "--no-cases" {
			noCases = true
		}
	}
	seed := seedFromEnv()
	rnd := rand.New(rand.NewSource(seed))
	rep := newReport("C06", seed)
	rep.Rule = "case = one printed rule document (strict groups / bare rule list / nested keys / YAML embedded in a block scalar; every scalar style, " +
		"indentation, flow mappings, comments, blank lines) parsed by the real parser, or one synthetic (line table, node) group; " +
		"non-trivial = the document has a field that is not a one-line plain scalar (documents) / the positions have more than one range (synthetic); " +
		"distinct = document text / (lines, value, line, column, minColumn)"
	cwd, _ := os.Getwd()
	cw := newCaseWriter(cwd, "Model.Position Run.C06", 40)
	cw.preamble = "Open Scope N_scope.\n"
	corr := &c06Corr{w: cw, cases: map[string]any{}, keep: n <= 1000}

	// corpus: design-session witnesses and minimised failures (correspondence only; the witnesses of the
	// known findings are re-checked by the `_refuted` theorems and by the generator strata)
	for _, d := range c06Corpus() {
		c06CorpusOracle(d, rep)
		corr.addDocument(d.Text, d.Strict, nil, rnd, rep)
		rep.hist("layout:" + d.Layout)
	}

	nSynth := n / 2
	for i := 0; i < nSynth; i++ {
		corr.addSynthetic(rnd, rep)
		if i%3 == 0 {
			corr.addSyntheticEscapes(rnd, rep)
		}
	}
	for i := 0; i < n+extra; i++ {
		doc := c06GenDoc(rnd)
		rep.hist("layout:" + doc.Layout)
		if doc.CRLF {
			rep.hist("layout:+crlf")
		}
		if doc.Nested2 {
			rep.hist("layout:+embedded-twice")
		}
		res := c06Oracle(doc, rnd, rep)
		if res.skipped != "" {
			rep.hist("oracle:skipped-document")
			rep.Notes = appendNote(rep.Notes, "skipped: "+res.skipped)
			if i >= n {
				continue
			}
			if os.Getenv("C06_DEBUG") != "" {
				fmt.Printf("==== SKIPPED doc%d (%s) strict=%v\n", i, res.skipped, doc.Strict)
				os.WriteFile(fmt.Sprintf("skipped_%d.yml", i), []byte(doc.Text), 0o644)
			}
			corr.addDocument(doc.Text, doc.Strict, nil, rnd, rep)
			continue
		}
		rep.count(doc.Text, res.nontrivial)
		if i < 3 {
			rep.sample(map[string]any{"text": doc.Text, "layout": doc.Layout, "strict": doc.Strict, "fields": res.fields, "failures": len(res.failures)})
		}
		for k, fl := range res.failures {
			id := fmt.Sprintf("doc%d-%d", i, k)
			c := map[string]any{"text": doc.Text, "strict": doc.Strict, "layout": doc.Layout, "classes": fl.Classes}
			if len(fl.Classes) > 0 {
				if len(rep.OracleFails) >= 300 {
					rep.Known[fl.Classes[0]]++ // counted, payload dropped (report size)
				} else {
					rep.failKnown(id, fl.What, c, fl.Classes[0])
				}
				rep.hist("oracle:failure-in-known-class:" + fl.Classes[0])
			} else {
				rep.fail(id, fl.What, c)
			}
		}
		if i < n {
			corr.addDocument(doc.Text, doc.Strict, c06GuardMap(doc), rnd, rep)
		}
	}
	cw.flush()
	rep.CaseFiles = cw.files
	if noCases {
		for _, f := range cw.files {
			os.Remove(f)
		}
		rep.CaseFiles = nil
	}
	if corr.keep {
		rep.Cases = corr.cases
	} else {
		rep.Cases = nil
	}
	rep.write(filepath.Join(cwd, "report.json"))
	return 0
}

func appendNote(notes []string, s string) []string {
	if len(notes) >= 20 {
		return notes
	}
	for _, n := range notes {
		if n == s {
			return notes
		}
	}
	return append(notes, s)
}
