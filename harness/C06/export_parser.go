//go:build verif

package parser

import (
	"bytes"
	"errors"
	"io"

	"gopkg.in/yaml.v3"
)

// VerifDecodeC06 runs pint's own content reader + yaml decoder over src and returns the document nodes
// together with the line table (cr.lines) the parser hands to NewPositionRange.
func VerifDecodeC06(src []byte) (docs []*yaml.Node, lines []string, err error) {
	docs, lines, _, err = VerifDecodeC06N(src)
	return docs, lines, err
}

// VerifDecodeC06N also returns, per document, how many lines the reader had read when the document was decoded:
// Parser.Parse hands cr.lines AS IT IS AT THAT MOMENT to parseGroups/parseNode (multi-document files).
func VerifDecodeC06N(src []byte) (docs []*yaml.Node, lines []string, seen []int, err error) {
	cr := newContentReader(bytes.NewReader(src))
	dec := yaml.NewDecoder(cr)
	for {
		var doc yaml.Node
		e := dec.Decode(&doc)
		if errors.Is(e, io.EOF) {
			break
		}
		if e != nil {
			return docs, cr.lines, seen, e
		}
		docs = append(docs, &doc)
		seen = append(seen, len(cr.lines))
	}
	return docs, cr.lines, seen, nil
}

// VerifUnpackNodesC06 exposes unpackNodes (merge keys / aliases resolved the way parseRule sees them).
func VerifUnpackNodesC06(n *yaml.Node) []*yaml.Node { return unpackNodes(n) }

// VerifCountLeadingSpaceC06 exposes the parser's countLeadingSpace.
func VerifCountLeadingSpaceC06(s string) int { return countLeadingSpace(s) }
