//go:build verif

package main

// C06 printing generator: a YAML presenter for Prometheus rule documents that KNOWS where it put every
// scalar (region in file coordinates), which style it used and which known-finding layout classes the
// scalar falls into.

import (
	"fmt"
	"math/rand"
	"os"
	"strings"
)

// Known-finding class ids (mirrored by known_findings.d/C06.json and by the guard of the partial theorem).
// Seven former layout classes (block header, folded/multi-line blank lines, shallow indentation, trailing blanks on
// continued lines, block values starting with a break, non-ASCII prefix, anchor prefix) were repaired in pint by
// fix commits 660d1e1, 6c7f5de, 9af0d98, 69b377d, d1959ae: their layouts are still GENERATED (strata below, counted
// in the histogram) but excuse nothing any more.
const (
	c06DqEscape = "C06-dq-escape" // double-quoted scalar with an escape that hides the byte (anything but \" \\ and an escaped line break)
)

// generator strata that used to be known-finding classes (histogram "stratum:<name>")
const (
	c06SBlockHeader  = "block-header-contains-first-byte"
	c06SFoldedBlank  = "folded-or-multiline-with-blank-line"
	c06SShallow      = "shallow-indent"
	c06STrailSpace   = "continued-trailing-space"
	c06SLeadingBlank = "block-leading-blank"
	c06SAnchorPrefix = "anchor-contains-first-byte"
	c06SMultibyte    = "multibyte-prefix"
	c06SEscapedBreak = "dq-escaped-line-break"
)

type c06Field struct {
	Path    string   `json:"path"`  // e.g. alert, expr, labels, labels/0/key, annotations/1/value
	Style   string   `json:"style"` // plain, sq, dq, dqesc, literal, folded, plainml, sqml, dqml
	Want    string   `json:"want"`  // the value the printer intended
	L0      int      `json:"l0"`    // region: first line (1-indexed, file coordinates)
	C0      int      `json:"c0"`    // region: first column on L0
	L1      int      `json:"l1"`    // region: last line
	Classes []string `json:"classes,omitempty"`
	Strata  []string `json:"strata,omitempty"` // adversarial layout strata the scalar is in (no excuse: measured only)
	Flow    bool     `json:"flow,omitempty"`
}

type c06Rule struct {
	Merged bool       `json:"merged,omitempty"` // has a `<<: *base` merge key: for/labels come from the anchored mapping elsewhere in the file
	Kind   string     `json:"kind"` // alerting | recording
	Fields []c06Field `json:"fields"`
	L0     int        `json:"l0"` // rule region (first/last line)
	L1     int        `json:"l1"`
}

type c06Doc struct {
	GroupLabels map[int][]c06Field `json:"group_labels,omitempty"` // group index -> fields of its labels map (paths labels, labels/i/key, labels/i/value)
	Text    string    `json:"text"`
	Strict  bool      `json:"strict"`
	Layout  string    `json:"layout"`
	Rules   []c06Rule `json:"rules"`
	CRLF    bool      `json:"crlf,omitempty"`
	Nested2 bool      `json:"nested2,omitempty"` // embedded document inside an embedded document
}

type c06ScalarAnchor struct {
	name, value string
	kind        c06Kind
}

type c06MapAnchor struct {
	name   string
	fields []c06Field // item fields (paths relative: "<i>/key", "<i>/value")
}

type c06Printer struct {
	mergeBase  bool // an anchored mapping `&base {for: 5m, labels: {team: infra}}` exists in this document
	anchors    []c06ScalarAnchor
	mapAnchors []c06MapAnchor
	nAnchor    int
	forceMulti bool // next scalar: prefer a multi-line style (stratum: the LAST field of a rule spans several lines)
	r     *rand.Rand
	lines []string
	cur   strings.Builder
}

func (p *c06Printer) w(s string)  { p.cur.WriteString(s) }
func (p *c06Printer) nl()         { p.lines = append(p.lines, p.cur.String()); p.cur.Reset() }
func (p *c06Printer) lineNo() int { return len(p.lines) + 1 }
func (p *c06Printer) col() int    { return p.cur.Len() + 1 }
func (p *c06Printer) chance(n int) bool { return p.r.Intn(n) == 0 }

func sp(n int) string { return strings.Repeat(" ", n) }

// ---------------------------------------------------------------------------------------------
// value generators

var c06Metrics = []string{"up", "foo", "http_requests_total", "node_cpu_seconds_total", "job:errors:rate5m", "a", "x_y"}
var c06Words = []string{"Instance", "down", "for", "more", "than", "5", "minutes", "high", "CPU", "usage", "on", "the", "a", "is", "value", "summary", "it's", "error-rate", "50%", "x", "of", "disk"}
var c06Idents = []string{"severity", "team", "summary", "description", "runbook_url", "job", "a", "env", "priority", "link", "dashboard", "x1"}

func c06Selector(r *rand.Rand) string {
	m := pick(r, c06Metrics)
	switch r.Intn(5) {
	case 0:
		return m
	case 1:
		return fmt.Sprintf(`%s{job="%s"}`, m, pick(r, []string{"a", "node exporter", "api-1", "x", "żółć", "日本", "x😀"}))
	case 2:
		return fmt.Sprintf(`%s{job=~"%s", env!="%s"}`, m, pick(r, []string{"a.+", "foo|bar"}), pick(r, []string{"dev", "prod"}))
	case 3:
		// non-ASCII text (2-, 3-, 4-byte characters) in FRONT of a matcher that the regexp / fragile checks report on
		return fmt.Sprintf(`%s{job="%s", env=~"%s"}`, m, pick(r, []string{"żółć", "é", "→ x", "日本語", "😀", "aż😀→"}), pick(r, []string{"prod", "dev", "a.+", ".*"}))
	default:
		return fmt.Sprintf(`%s{instance='%s'}`, m, pick(r, []string{"a", "b c"}))
	}
}

func c06Expr(r *rand.Rand) string {
	s := c06Selector(r)
	switch r.Intn(9) {
	case 0:
		return s
	case 1:
		return s + " == 0"
	case 2:
		return fmt.Sprintf("rate(%s[%s]) > %d", s, pick(r, []string{"5m", "1h", "30s"}), r.Intn(100))
	case 3:
		return fmt.Sprintf("sum(%s) by (job) / sum(%s) by (job) > 0.%d", s, c06Selector(r), r.Intn(9)+1)
	case 4:
		return fmt.Sprintf("sum by (instance) (rate(%s[2m])) and on (instance) %s", s, c06Selector(r))
	case 5:
		return fmt.Sprintf("-%d * %s", r.Intn(9)+1, s) // leading '-' (block header `|-` stratum)
	case 6:
		return fmt.Sprintf("absent(%s) or vector(%d)", s, r.Intn(3))
	case 7:
		return fmt.Sprintf("%s unless %s > %d", s, c06Selector(r), r.Intn(50))
	default:
		return fmt.Sprintf("(%s + %s) * 100 >= %d", s, c06Selector(r), r.Intn(1000))
	}
}

func c06Text(r *rand.Rand) string {
	n := 1 + r.Intn(6)
	var parts []string
	for i := 0; i < n; i++ {
		switch r.Intn(14) {
		case 0:
			parts = append(parts, "{{ $labels."+pick(r, c06Idents)+" }}")
		case 1:
			parts = append(parts, "{{ $value }}")
		case 2:
			parts = append(parts, "https://example.com/"+pick(r, c06Idents))
		case 3:
			parts = append(parts, pick(r, []string{"key: value", "a #b", "#", ":", "'quoted'", "\"dq\"", "back\\slash", "[x]", "{y}", "a,b", "é", "→", "zażółć", "日本語", "😀", "naïve 😀 →", "a\tb", "|", ">", "-", "- x", "%", "@", "`", "*", "&a", "!t", "?"}))
		default:
			parts = append(parts, pick(r, c06Words))
		}
	}
	return strings.Join(parts, " ")
}

func c06Name(r *rand.Rand) string {
	n := 1 + r.Intn(3)
	var b strings.Builder
	for i := 0; i < n; i++ {
		w := pick(r, c06Words)
		w = strings.Map(func(c rune) rune {
			if (c >= 'a' && c <= 'z') || (c >= 'A' && c <= 'Z') || (c >= '0' && c <= '9') {
				return c
			}
			return -1
		}, w)
		if w == "" {
			w = "X"
		}
		b.WriteString(strings.ToUpper(w[:1]) + w[1:])
	}
	if r.Intn(8) == 0 {
		b.WriteString(pick(r, []string{"Ż", "É", "日本", "😀"})) // UTF-8 alert names are legal
	}
	return b.String()
}

func c06Duration(r *rand.Rand) string {
	return pick(r, []string{"5m", "1h", "30s", "1h30m", "2d", "0s", "10m"})
}

// plainSafe: can `s` be written as a one-line plain scalar (conservative) and still resolve to !!str?
func c06PlainSafe(s string, flow bool) bool {
	if s == "" || s[0] == ' ' || s[len(s)-1] == ' ' {
		return false
	}
	if strings.ContainsAny(s, "\n\t\r") || strings.Contains(s, ": ") || strings.Contains(s, " #") || strings.HasSuffix(s, ":") {
		return false
	}
	if strings.ContainsRune("?:,[]{}#&*!|>'\"%@`", rune(s[0])) {
		return false
	}
	if s[0] == '-' && (len(s) == 1 || s[1] == ' ' || (s[1] >= '0' && s[1] <= '9' && !strings.ContainsAny(s, " "))) {
		return false
	}
	if flow && strings.ContainsAny(s, ",[]{}?") {
		return false
	}
	if strings.HasPrefix(s, "---") || strings.HasPrefix(s, "...") {
		return false
	}
	// things yaml resolves to non-strings
	low := strings.ToLower(s)
	switch low {
	case "true", "false", "null", "~", "yes", "no", "on", "off", "y", "n", ".inf", "-.inf", "+.inf", ".nan", "<<", "=":
		return false
	}
	numeric := true
	for i := 0; i < len(s); i++ {
		c := s[i]
		if !((c >= '0' && c <= '9') || strings.ContainsRune("+-.eExXoObB_:abcdefABCDEF", rune(c))) {
			numeric = false
			break
		}
	}
	if numeric && (s[0] >= '0' && s[0] <= '9' || s[0] == '.' || s[0] == '+' || s[0] == '-') {
		return false
	}
	// timestamps (2001-01-01 ...)
	if len(s) >= 8 && s[0] >= '0' && s[0] <= '9' && strings.Count(s, "-") >= 2 {
		return false
	}
	return true
}

// ---------------------------------------------------------------------------------------------
// scalar emitters. Precondition: "key: " (or "- ", or flow prefix) is already in p.cur. keyIndent0 is the
// 0-based indentation of the key that owns the scalar (yaml key.Column-1). In block context the emitter
// finishes the line(s); in flow context it leaves the cursor after the scalar.

type c06Kind int

const (
	kName c06Kind = iota
	kMetric
	kExpr
	kDuration
	kIdent
	kText
)

func c06Value(r *rand.Rand, k c06Kind) string {
	switch k {
	case kName:
		return c06Name(r)
	case kMetric:
		return pick(r, c06Metrics)
	case kExpr:
		return c06Expr(r)
	case kDuration:
		return c06Duration(r)
	case kIdent:
		return pick(r, c06Idents)
	default:
		return c06Text(r)
	}
}

func (p *c06Printer) trailer() {
	// optional trailing blanks / comment after a one-line scalar in block context
	switch p.r.Intn(8) {
	case 0:
		p.w(sp(1 + p.r.Intn(3)))
	case 1:
		p.w(sp(1+p.r.Intn(2)) + "# " + pick(p.r, []string{"comment", "up == 0", "a b c", "'x'", "TODO: fix"}))
	}
}

// c06Retired: experiment knob (C06_RETIRED=class,class): classes treated as if their defect were repaired, i.e.
// failures inside them are plain violations. Used to validate candidate patches on a scratch tree; it can only make
// the check stricter.
var c06Retired = func() map[string]bool {
	m := map[string]bool{}
	for _, c := range strings.Split(os.Getenv("C06_RETIRED"), ",") {
		if c != "" {
			m[c] = true
		}
	}
	return m
}()

func c06AddClass(cs []string, c string) []string {
	if c06Retired[c] {
		return cs
	}
	for _, x := range cs {
		if x == c {
			return cs
		}
	}
	return append(cs, c)
}

func c06SqEscape(s string) string { return "'" + strings.ReplaceAll(s, "'", "''") + "'" }

func c06DqSimple(s string) string {
	s = strings.ReplaceAll(s, `\`, `\\`)
	s = strings.ReplaceAll(s, `"`, `\"`)
	return `"` + s + `"`
}

// dq with "real" escapes: returns source and whether an escape other than \" \\ was used
func c06DqEscaped(r *rand.Rand, s string) (string, bool) {
	var b strings.Builder
	used := false // an escape that HIDES its byte(s) was written (class C06-dq-escape: literal reading only)
	hide := func(forms ...string) {
		b.WriteString(pick(r, forms))
		used = true
	}
	b.WriteByte('"')
	for _, c := range s {
		switch {
		case c == '"':
			b.WriteString(`\"`)
		case c == '\\':
			b.WriteString(`\\`)
		case c == '\'' && r.Intn(4) == 0:
			b.WriteString(`\'`) // self-escape accepted by yaml.v3 (not `\/`: "found unknown escape character"): the byte stays in the source
		case c == '\t':
			hide(`\t`, `\t`, `\x09`, "\\\t", `\u0009`)
		case c == '\n':
			hide(`\n`, `\n`, `\x0a`, `\u000A`)
		case c == 1:
			hide(`\x01`, `\u0001`, `\U00000001`)
		case c == 0x1b:
			hide(`\e`, `\x1b`)
		case c == 0x85:
			hide(`\N`, `\x85`, `\u0085`)
		case c == 0xa0:
			hide(`\_`, `\u00a0`)
		case c == 0xe9:
			if r.Intn(3) == 0 {
				b.WriteString(`é`)
			} else {
				hide(`\xe9`, `\u00e9`, `\u00E9`, `\U000000e9`)
			}
		case c == 0x2192:
			if r.Intn(2) == 0 {
				b.WriteRune(c)
			} else {
				hide(`\u2192`, `\U00002192`)
			}
		case c == 0x1F600:
			if r.Intn(2) == 0 {
				b.WriteRune(c)
			} else {
				hide(`\U0001F600`, `\U0001f600`)
			}
		case c == ' ' && r.Intn(12) == 0:
			if r.Intn(2) == 0 {
				b.WriteString(`\ `) // self-escape
			} else {
				hide(`\x20`, `\u0020`)
			}
		case c == 'a' && r.Intn(10) == 0:
			hide(`\x61`, `\u0061`)
		default:
			b.WriteRune(c)
		}
	}
	b.WriteByte('"')
	return b.String(), used
}
func c06Specials(r *rand.Rand, s string) string {
	// sprinkle characters that need escapes in a double-quoted scalar
	ins := []string{"\t", "\n", "é", "\x01", "\t", "\n", "é", "\x1b", "\u0085", "\u00a0", "→", "😀"}
	n := 1 + r.Intn(2)
	for i := 0; i < n; i++ {
		pos := r.Intn(len(s) + 1)
		for pos < len(s) && s[pos]&0xC0 == 0x80 { // stay on a rune boundary
			pos++
		}
		s = s[:pos] + pick(r, ins) + s[pos:]
	}
	return s
}

// splitAtSpaces splits s at single spaces into k>=2 segments (none empty, none with leading/trailing space); ok=false if impossible.
func c06SplitAtSpaces(r *rand.Rand, s string, max int) ([]string, bool) {
	var cut []int
	for i := 1; i+1 < len(s); i++ {
		if s[i] == ' ' && s[i-1] != ' ' && s[i+1] != ' ' {
			cut = append(cut, i)
		}
	}
	if len(cut) == 0 {
		return nil, false
	}
	r.Shuffle(len(cut), func(i, j int) { cut[i], cut[j] = cut[j], cut[i] })
	k := 1 + r.Intn(min(max, len(cut)))
	sel := append([]int{}, cut[:k]...)
	// sort
	for i := range sel {
		for j := i + 1; j < len(sel); j++ {
			if sel[j] < sel[i] {
				sel[i], sel[j] = sel[j], sel[i]
			}
		}
	}
	var segs []string
	prev := 0
	for _, c := range sel {
		segs = append(segs, s[prev:c])
		prev = c + 1
	}
	segs = append(segs, s[prev:])
	return segs, true
}

// continuation segment of a multi-line plain scalar must not look like a comment, a new key or a list item
func c06ContSafe(seg string, quoted bool) bool {
	if seg == "" {
		return false
	}
	if quoted {
		return true
	}
	if seg[0] == '#' || strings.Contains(seg, ": ") || strings.HasSuffix(seg, ":") || strings.Contains(seg, " #") {
		return false
	}
	if strings.HasPrefix(seg, "- ") || seg == "-" || strings.HasPrefix(seg, "---") || strings.HasPrefix(seg, "...") {
		return false
	}
	return true
}

// emitScalar prints one scalar of kind k; allowMulti permits multi-line / block styles.
func (p *c06Printer) emitScalar(path string, k c06Kind, keyIndent0 int, flow, allowMulti bool) c06Field {
	r := p.r
	f := c06Field{Path: path, Flow: flow, L0: p.lineNo(), C0: p.col()}
	styles := []string{"plain", "plain", "sq", "dq", "dqesc"}
	if allowMulti && !flow {
		styles = append(styles, "literal", "literal", "folded", "folded", "plainml", "plainml", "sqml", "dqml")
	}
	// alias to an earlier anchored scalar of the same kind: the field is NOT written as a scalar here (out of the
	// property's domain): only the hard checks apply (style "alias")
	if !flow && !p.forceMulti && len(p.anchors) > 0 && (k == kDuration || k == kText) && r.Intn(10) == 0 {
		var cands []c06ScalarAnchor
		for _, a := range p.anchors {
			if a.kind == k {
				cands = append(cands, a)
			}
		}
		if len(cands) > 0 {
			a := pick(r, cands)
			f.Style, f.Want = "alias", a.value
			p.w("*" + a.name)
			f.L1 = p.lineNo()
			p.nl()
			return f
		}
	}
	style := pick(r, styles)
	anchorName := ""
	if !flow && !p.forceMulti && (style == "plain" || style == "sq" || style == "dq") && r.Intn(12) == 0 {
		p.nAnchor++
		anchorName = fmt.Sprintf("%s%d", pick(r, []string{"a", "d", "up", "e", "x", "Is", "s", "{", "5"}), p.nAnchor)
		if anchorName[0] == '{' {
			anchorName = "v" + anchorName[1:]
		}
	}
	if p.forceMulti && !flow {
		style = pick(r, []string{"literal", "literal", "folded", "plainml"})
		p.forceMulti = false
	}
	v := c06Value(r, k)

	if anchorName != "" {
		// blanks between the anchor and the scalar: spaces or a tab (stratum: the scanner must skip both)
		p.w("&" + anchorName + pick(r, []string{" ", " ", "  ", "\t", " \t "}))
		f.C0 = p.col()
	}
	finish := func() c06Field {
		if anchorName != "" {
			// yaml reports the node at the '&': the scan starts inside the anchor text
			if strings.IndexByte("&"+anchorName+" ", f.Want[0]) >= 0 {
				f.Strata = c06AddClass(f.Strata, c06SAnchorPrefix)
			}
			if k == kDuration || k == kText {
				p.anchors = append(p.anchors, c06ScalarAnchor{anchorName, f.Want, k})
			}
		}
		f.L1 = p.lineNo()
		if !flow {
			p.trailer()
			p.nl()
		}
		return f
	}

	switch style {
	case "plain":
		if !c06PlainSafe(v, flow) {
			// fall back to single quotes
			f.Style, f.Want = "sq", v
			p.w(c06SqEscape(v))
			return finish()
		}
		f.Style, f.Want = "plain", v
		p.w(v)
		return finish()
	case "sq":
		if k == kText && r.Intn(4) == 0 {
			v = sp(r.Intn(3)) + v + sp(r.Intn(3))
		}
		f.Style, f.Want = "sq", v
		p.w(c06SqEscape(v))
		return finish()
	case "dq":
		if k == kText && r.Intn(4) == 0 {
			v = sp(r.Intn(3)) + v + sp(r.Intn(3))
		}
		f.Style, f.Want = "dq", v
		p.w(c06DqSimple(v))
		return finish()
	case "dqesc":
		if k == kText || k == kExpr || k == kName {
			v = c06Specials(r, v)
		}
		if k == kExpr || k == kMetric || k == kIdent || k == kDuration {
			// keep these parseable: only escapes that do not change the value class
			v = strings.ReplaceAll(strings.ReplaceAll(v, "\t", " "), "é", "a")
			for _, x := range []string{"\x1b", "\u0085", "\u00a0", "→", "😀"} {
				v = strings.ReplaceAll(v, x, " ")
			}
			if k != kExpr {
				v = strings.ReplaceAll(strings.ReplaceAll(v, "\n", ""), "\x01", "")
			}
		}
		src, used := c06DqEscaped(r, v)
		f.Style, f.Want = "dq", v
		if used {
			f.Style = "dqesc"
			f.Classes = c06AddClass(f.Classes, c06DqEscape)
		}
		p.w(src)
		return finish()
	case "literal", "folded":
		return p.emitBlock(f, style, k, v, keyIndent0)
	default: // plainml, sqml, dqml
		return p.emitMultiFlow(f, style, k, v, keyIndent0)
	}
}

// emitBlock prints a literal or folded block scalar.
func (p *c06Printer) emitBlock(f c06Field, style string, k c06Kind, v string, keyIndent0 int) c06Field {
	r := p.r
	// content lines
	var content []string
	if segs, ok := c06SplitAtSpaces(r, v, 3); ok && r.Intn(4) != 0 {
		content = segs
	} else {
		content = []string{v}
	}
	if k == kText && r.Intn(3) == 0 {
		content = append(content, c06Text(r))
	}
	// a line of a block scalar is kept verbatim: strip nothing, but avoid leading spaces on the first line
	// (would need an indentation indicator) unless we emit one deliberately.
	for i := range content {
		content[i] = strings.TrimLeft(content[i], " ")
		if content[i] == "" {
			content[i] = "x"
		}
	}
	moreIndented := false
	if r.Intn(6) == 0 && len(content) > 1 {
		i := 1 + r.Intn(len(content)-1)
		content[i] = sp(1+r.Intn(3)) + content[i]
		moreIndented = true
	}
	if r.Intn(8) == 0 {
		i := r.Intn(len(content))
		content[i] += sp(1 + r.Intn(2)) // trailing blanks are content in block scalars
	}
	blankInside := false
	if r.Intn(4) == 0 && len(content) > 1 {
		i := 1 + r.Intn(len(content)-1)
		nb := 1 + r.Intn(2)
		var c2 []string
		c2 = append(c2, content[:i]...)
		for j := 0; j < nb; j++ {
			c2 = append(c2, "")
		}
		c2 = append(c2, content[i:]...)
		content = c2
		blankInside = true
	}
	leadingBlank := 0
	if r.Intn(14) == 0 {
		leadingBlank = 1 + r.Intn(2)
	}
	trailingBlank := 0
	if r.Intn(4) == 0 {
		trailingBlank = 1 + r.Intn(2)
	}
	chomp := pick(r, []string{"", "", "-", "-", "+"})
	// indentation of the content (0-based)
	indent := keyIndent0 + 2 + pick(r, []int{0, 0, 0, 0, 1, 2, 4})
	shallow := false
	if r.Intn(10) == 0 {
		indent = keyIndent0 + 1
		shallow = true
	}
	indicator := ""
	leadSpaceFirst := 0
	if r.Intn(8) == 0 && indent-keyIndent0 <= 9 {
		// explicit indentation indicator (relative to the parent node's indentation = keyIndent0)
		ind := indent - keyIndent0
		if ind >= 1 {
			indicator = fmt.Sprint(ind)
			if r.Intn(3) == 0 {
				leadSpaceFirst = 1 + r.Intn(2) // first line more indented than the indicator says: value starts with spaces
			}
		}
	}
	header := map[string]string{"literal": "|", "folded": ">"}[style]
	if indicator != "" && r.Intn(2) == 0 {
		header += chomp + indicator
	} else {
		header += indicator + chomp
	}
	comment := ""
	if r.Intn(6) == 0 {
		comment = sp(1+r.Intn(2)) + "# " + pick(r, []string{"comment", "up == 0", "sum rate", "x", "Instance down", "{{ a }}", "1 2 3"})
	} else if r.Intn(10) == 0 {
		comment = sp(1 + r.Intn(2))
	}
	headerCol := p.col()
	p.w(header + comment)
	headerLine := p.cur.String()[headerCol-1:]
	p.nl()

	f.Style = style
	f.L0 = p.lineNo()
	f.C0 = 1
	// emit content
	var srcLines []string
	for i := 0; i < leadingBlank; i++ {
		srcLines = append(srcLines, "")
	}
	for i, c := range content {
		if c == "" {
			// blank line: empty or a few spaces (not more than the indentation)
			if r.Intn(3) == 0 {
				srcLines = append(srcLines, sp(r.Intn(indent+1)))
			} else {
				srcLines = append(srcLines, "")
			}
			continue
		}
		if i == 0 {
			c = sp(leadSpaceFirst) + c
		}
		srcLines = append(srcLines, sp(indent)+c)
	}
	lastContent := p.lineNo() + len(srcLines) - 1
	for i := 0; i < trailingBlank; i++ {
		srcLines = append(srcLines, "")
	}
	for _, l := range srcLines {
		p.w(l)
		p.nl()
	}
	f.L1 = lastContent
	if chomp == "+" {
		f.L1 = p.lineNo() - 1
	}
	// intended value (only for the simple shapes; "" = trust the yaml library)
	simple := !moreIndented && !blankInside && leadingBlank == 0 && leadSpaceFirst == 0
	if simple {
		body := ""
		if style == "literal" {
			body = strings.Join(content, "\n")
		} else {
			body = strings.Join(content, " ")
		}
		switch chomp {
		case "":
			f.Want = body + "\n"
		case "-":
			f.Want = body
		default:
			f.Want = body + strings.Repeat("\n", 1+trailingBlank)
		}
	} else {
		f.Want = "\x00trust-yaml"
	}
	// layout classes
	first := content[0]
	firstByte := first[0]
	if leadSpaceFirst > 0 {
		firstByte = ' '
	}
	if leadingBlank > 0 {
		firstByte = '\n'
	}
	if strings.IndexByte(headerLine, firstByte) >= 0 {
		f.Strata = c06AddClass(f.Strata, c06SBlockHeader)
	}
	if leadingBlank > 0 || leadSpaceFirst > 0 {
		f.Strata = c06AddClass(f.Strata, c06SLeadingBlank)
	}
	if shallow {
		f.Strata = c06AddClass(f.Strata, c06SShallow)
	}
	if style == "folded" && (blankInside || moreIndented) {
		f.Strata = c06AddClass(f.Strata, c06SFoldedBlank)
	}
	return f
}

// emitMultiFlow prints a multi-line plain / single-quoted / double-quoted scalar.
func (p *c06Printer) emitMultiFlow(f c06Field, style string, k c06Kind, v string, keyIndent0 int) c06Field {
	r := p.r
	quoted := style != "plainml"
	segs, ok := c06SplitAtSpaces(r, v, 3)
	good := ok
	if ok {
		for i, s := range segs {
			if i > 0 && !c06ContSafe(s, quoted) {
				good = false
			}
		}
		if !quoted && !c06PlainSafe(v, false) {
			good = false
		}
	}
	if !good {
		// one-line fallback
		f.Style, f.Want = "sq", v
		p.w(c06SqEscape(v))
		f.L1 = p.lineNo()
		p.nl()
		return f
	}
	f.Style = style
	indent := keyIndent0 + 2 + pick(r, []int{0, 0, 0, 1, 2, 6})
	if r.Intn(9) == 0 {
		indent = keyIndent0 + 1
		f.Strata = c06AddClass(f.Strata, c06SShallow)
	}
	q := map[string]string{"plainml": "", "sqml": "'", "dqml": `"`}[style]
	esc := func(s string) string {
		switch style {
		case "sqml":
			return strings.ReplaceAll(s, "'", "''")
		case "dqml":
			return strings.ReplaceAll(strings.ReplaceAll(s, `\`, `\\`), `"`, `\"`)
		}
		return s
	}
	want := ""
	p.w(q)
	for i, s := range segs {
		last := i == len(segs)-1
		if i > 0 {
			p.w(sp(indent))
		}
		p.w(esc(s))
		if last {
			want += s
			break
		}
		sep := " "
		// trailing blanks on a continued line are dropped by line folding
		if r.Intn(8) == 0 {
			p.w(sp(1 + r.Intn(2)))
			f.Strata = c06AddClass(f.Strata, c06STrailSpace)
		}
		if style == "dqml" && r.Intn(8) == 0 {
			// escaped line break: joins without a space (the backslash is never matched, the break gets no position)
			p.w(`\`)
			sep = ""
			f.Strata = c06AddClass(f.Strata, c06SEscapedBreak)
		}
		p.nl()
		if sep == " " && r.Intn(7) == 0 {
			nb := 1 + r.Intn(2)
			for j := 0; j < nb; j++ {
				p.nl()
			}
			sep = strings.Repeat("\n", nb)
			f.Strata = c06AddClass(f.Strata, c06SFoldedBlank)
		}
		want += s + sep
	}
	p.w(q)
	f.Want = want
	f.L1 = p.lineNo()
	if quoted {
		p.trailer()
	}
	p.nl()
	return f
}

// ---------------------------------------------------------------------------------------------
// rules and documents

func (p *c06Printer) commentOrBlank(indent int) {
	switch p.r.Intn(10) {
	case 0:
		p.nl() // blank line
	case 1:
		p.w(sp(indent) + "# " + pick(p.r, []string{"a comment", "expr: up == 0", "alert: Foo", "'", "\""}))
		p.nl()
	case 2:
		p.w(sp(p.r.Intn(indent + 1)))
		p.nl()
	}
}

// emitMap prints labels/annotations. Cursor is at the start of a fresh line; key is printed at `indent`.
func (p *c06Printer) emitMap(name string, indent int, valKind c06Kind, allowMulti bool) []c06Field {
	r := p.r
	var fs []c06Field
	n := 1 + r.Intn(3)
	used := map[string]bool{}
	keyName := func() string {
		for {
			k := pick(r, c06Idents)
			if !used[k] {
				used[k] = true
				return k
			}
		}
	}
	p.w(sp(indent))
	kf := c06Field{Path: name, Style: "plain", Want: name, L0: p.lineNo(), C0: p.col(), L1: p.lineNo()}
	p.w(name + ":")
	fs = append(fs, kf)
	if len(p.mapAnchors) > 0 && r.Intn(6) == 0 {
		// the whole map is an alias: its items live at the anchor (style "alias": hard checks only)
		ma := pick(r, p.mapAnchors)
		p.w(" *" + ma.name)
		p.nl()
		for _, af := range ma.fields {
			af.Path = name + "/" + af.Path
			af.Style = "alias" // classes of the anchored items are kept: their positions still feed this rule's line range
			fs = append(fs, af)
		}
		return fs
	}
	if r.Intn(4) == 0 {
		// flow mapping on one line
		p.w(" {")
		for i := 0; i < n; i++ {
			if i > 0 {
				p.w(", ")
			} else if r.Intn(3) == 0 {
				p.w(" ")
			}
			kfld := p.emitKey(fmt.Sprintf("%s/%d/key", name, i), keyName(), true)
			fs = append(fs, kfld)
			p.w(": ")
			fs = append(fs, p.emitScalar(fmt.Sprintf("%s/%d/value", name, i), valKind, p.col()-1, true, false))
		}
		if r.Intn(3) == 0 {
			p.w(" ")
		}
		p.w("}")
		p.trailer()
		p.nl()
		return fs
	}
	mapAnchor := ""
	if !allowMulti && r.Intn(8) == 0 {
		p.nAnchor++
		mapAnchor = fmt.Sprintf("m%d", p.nAnchor)
		p.w(" &" + mapAnchor)
	}
	p.trailer()
	p.nl()
	start := len(fs)
	defer func() {
		if mapAnchor != "" {
			ma := c06MapAnchor{name: mapAnchor}
			for _, f := range fs[start:] {
				f.Path = strings.TrimPrefix(f.Path, name+"/")
				ma.fields = append(ma.fields, f)
			}
			p.mapAnchors = append(p.mapAnchors, ma)
		}
	}()
	ci := indent + pick(r, []int{1, 2, 2, 2, 4})
	for i := 0; i < n; i++ {
		p.commentOrBlank(ci)
		p.w(sp(ci))
		kcol0 := p.col() - 1
		kfld := p.emitKey(fmt.Sprintf("%s/%d/key", name, i), keyName(), false)
		fs = append(fs, kfld)
		p.w(":" + sp(1+pick(r, []int{0, 0, 0, 1, 3})))
		fs = append(fs, p.emitScalar(fmt.Sprintf("%s/%d/value", name, i), valKind, kcol0, false, allowMulti))
	}
	return fs
}

func (p *c06Printer) emitKey(path, k string, flow bool) c06Field {
	f := c06Field{Path: path, Want: k, L0: p.lineNo(), C0: p.col(), L1: p.lineNo(), Flow: flow}
	switch p.r.Intn(6) {
	case 0:
		f.Style = "sq"
		p.w("'" + k + "'")
	case 1:
		f.Style = "dq"
		p.w(`"` + k + `"`)
	default:
		f.Style = "plain"
		p.w(k)
	}
	return f
}

// emitFlowRule prints `{record: x, expr: y}` at the cursor.
func (p *c06Printer) emitFlowRule(alerting bool) c06Rule {
	rule := c06Rule{Kind: "recording", L0: p.lineNo()}
	p.w("{")
	if alerting {
		rule.Kind = "alerting"
		p.w("alert: ")
		rule.Fields = append(rule.Fields, p.emitScalar("alert", kName, p.col()-1, true, false))
	} else {
		p.w("record: ")
		rule.Fields = append(rule.Fields, p.emitScalar("record", kMetric, p.col()-1, true, false))
	}
	p.w(", expr: ")
	rule.Fields = append(rule.Fields, p.emitScalar("expr", kExpr, p.col()-1, true, false))
	if alerting && p.r.Intn(2) == 0 {
		p.w(", for: ")
		rule.Fields = append(rule.Fields, p.emitScalar("for", kDuration, p.col()-1, true, false))
	}
	p.w("}")
	p.nl()
	rule.L1 = p.lineNo() - 1
	return rule
}

// emitRuleList prints a sequence of rules as a block sequence at `indent` (0-based column of the dash).
func (p *c06Printer) emitRuleList(indent, n int) []c06Rule {
	var rules []c06Rule
	for i := 0; i < n; i++ {
		p.commentOrBlank(indent)
		alerting := p.r.Intn(3) != 0
		gap := pick(p.r, []int{1, 1, 1, 1, 2, 3})
		if p.r.Intn(12) == 0 {
			p.w(sp(indent) + "-" + sp(gap))
			rules = append(rules, p.emitFlowRule(alerting))
			continue
		}
		p.w(sp(indent) + "-" + sp(gap))
		ru := p.emitRuleNoFirstMap(indent+1+gap, alerting)
		rules = append(rules, ru)
	}
	return rules
}

// emitRuleNoFirstMap prints one rule as a block mapping; the dash and gap are already on the line, the first key
// goes at the cursor, later keys at `indent`. Maps (labels/annotations) print their own indentation and are never first.
func (p *c06Printer) emitRuleNoFirstMap(indent int, alerting bool) c06Rule {
	r := p.r
	rule := c06Rule{Kind: "recording", L0: p.lineNo()}
	if alerting {
		rule.Kind = "alerting"
	}
	var items []string
	if alerting {
		items = []string{"alert", "expr"}
		if r.Intn(2) == 0 {
			items = append(items, "for")
		}
		if r.Intn(4) == 0 {
			items = append(items, "keep_firing_for")
		}
		if r.Intn(2) == 0 {
			items = append(items, "labels")
		}
		if r.Intn(3) != 0 {
			items = append(items, "annotations")
		}
	} else {
		items = []string{"record", "expr"}
		if r.Intn(3) == 0 {
			items = append(items, "labels")
		}
	}
	if r.Intn(2) == 0 {
		r.Shuffle(len(items), func(i, j int) { items[i], items[j] = items[j], items[i] })
		// a map must not be first (see above): rotate until a scalar key leads
		for items[0] == "labels" || items[0] == "annotations" {
			items = append(items[1:], items[0])
		}
	}
	if p.mergeBase && alerting && r.Intn(3) == 0 {
		// merge key: `for` and `labels` come from the anchored mapping (out of the property's domain: style "alias")
		rule.Merged = true
		var keep []string
		for _, it := range items {
			if it != "for" && it != "labels" {
				keep = append(keep, it)
			}
		}
		items = keep
		p.w("<<: *base")
		p.nl()
		rule.Fields = append(rule.Fields,
			c06Field{Path: "for", Style: "alias", Want: "5m"},
			c06Field{Path: "labels", Style: "alias", Want: "labels"},
			c06Field{Path: "labels/0/key", Style: "alias", Want: "team"},
			c06Field{Path: "labels/0/value", Style: "alias", Want: "infra"})
	}
	if len(items) > 2 && r.Intn(2) == 0 {
		// stratum: any field can be the last one of the rule
		k := 1 + r.Intn(len(items)-1)
		it := items[k]
		items = append(append(append([]string{}, items[:k]...), items[k+1:]...), it)
	}
	for i, key := range items {
		if i > 0 {
			p.commentOrBlank(indent)
		}
		lastScalar := i == len(items)-1 && i > 0 && key != "labels" && key != "annotations" && r.Intn(2) == 0
		switch key {
		case "labels":
			rule.Fields = append(rule.Fields, p.emitMap("labels", indent, kText, false)...)
			continue
		case "annotations":
			rule.Fields = append(rule.Fields, p.emitMap("annotations", indent, kText, true)...)
			continue
		}
		if i > 0 || rule.Merged {
			p.w(sp(indent))
		}
		if r.Intn(25) == 0 {
			p.w(key + ":\t") // a tab is valid separation white space
		} else {
			p.w(key + ":" + sp(1+pick(r, []int{0, 0, 0, 0, 1, 4})))
		}
		var kind c06Kind
		multi := false
		switch key {
		case "alert":
			kind = kName
			multi = r.Intn(6) == 0
		case "record":
			kind = kMetric
			multi = r.Intn(8) == 0
		case "expr":
			kind = kExpr
			multi = true
		default:
			kind = kDuration
			multi = r.Intn(4) == 0 // `for: |-` / `for: >-` block scalars (the line range must reach their content)
		}
		if lastScalar {
			multi, p.forceMulti = true, true
		}
		rule.Fields = append(rule.Fields, p.emitScalar(key, kind, indent, false, multi))
		p.forceMulti = false
	}
	rule.L1 = p.lineNo() - 1
	return rule
}

// c06GenDoc prints one document.
func c06GenDoc(r *rand.Rand) c06Doc {
	p := &c06Printer{r: r}
	doc := c06Doc{}
	layout := pick(r, []string{"strict", "strict", "strict", "list", "nested", "embedded", "multidoc"})
	doc.Layout = layout
	switch layout {
	case "strict":
		doc.Strict = r.Intn(4) != 0
		if r.Intn(5) == 0 {
			p.w("# rules file")
			p.nl()
		}
		if r.Intn(8) == 0 {
			p.w("---")
			p.nl()
		}
		p.w("groups:")
		p.nl()
		ng := 1 + r.Intn(2)
		gi := pick(r, []int{0, 0, 2, 4})
		for g := 0; g < ng; g++ {
			p.w(sp(gi) + "- name: " + fmt.Sprintf("g%d", g))
			p.nl()
			if r.Intn(4) == 0 {
				p.w(sp(gi+2) + "interval: 1m")
				p.nl()
			}
			if r.Intn(3) == 0 {
				// group-level labels: a YamlMap with positions of its own
				if doc.GroupLabels == nil {
					doc.GroupLabels = map[int][]c06Field{}
				}
				doc.GroupLabels[g] = p.emitMap("labels", gi+2, kText, false)
			}
			p.w(sp(gi+2) + "rules:")
			p.nl()
			ri := gi + 2 + pick(r, []int{0, 0, 2, 2, 4})
			doc.Rules = append(doc.Rules, p.emitRuleList(ri, 1+r.Intn(3))...)
		}
	case "list":
		doc.Rules = append(doc.Rules, p.emitRuleList(pick(r, []int{0, 0, 2}), 1+r.Intn(3))...)
	case "multidoc":
		// several yaml documents in one file (relaxed mode only): positions are file positions
		nd := 2 + r.Intn(2)
		for d := 0; d < nd; d++ {
			if d > 0 || r.Intn(2) == 0 {
				p.w("---" + pick(r, []string{"", "", " # next document"}))
				p.nl()
			}
			p.anchors, p.mapAnchors = nil, nil // anchors do not cross document boundaries
			if r.Intn(2) == 0 {
				doc.Rules = append(doc.Rules, p.emitRuleList(pick(r, []int{0, 2}), 1+r.Intn(2))...)
			} else {
				p.w("groups:")
				p.nl()
				p.w("- name: " + fmt.Sprintf("d%d", d))
				p.nl()
				p.w("  rules:")
				p.nl()
				doc.Rules = append(doc.Rules, p.emitRuleList(pick(r, []int{2, 4}), 1+r.Intn(2))...)
			}
		}
	case "nested":
		depth := 1 + r.Intn(3)
		ind := 0
		for d := 0; d < depth; d++ {
			p.w(sp(ind) + pick(r, []string{"spec", "items", "foo", "data", "x"}) + fmt.Sprint(d) + ":")
			p.nl()
			ind += pick(r, []int{1, 2, 2, 4})
		}
		if r.Intn(3) == 0 {
			p.w(sp(ind) + "x-base: &base")
			p.nl()
			p.w(sp(ind+2) + "for: 5m")
			p.nl()
			p.w(sp(ind+2) + "labels:")
			p.nl()
			p.w(sp(ind+4) + "team: infra")
			p.nl()
			p.mergeBase = true
		}
		p.w(sp(ind) + "groups:")
		p.nl()
		p.w(sp(ind) + "- name: g")
		p.nl()
		p.w(sp(ind+2) + "rules:")
		p.nl()
		doc.Rules = append(doc.Rules, p.emitRuleList(ind+2+pick(r, []int{0, 2}), 1+r.Intn(3))...)
	case "embedded":
		// YAML inside a YAML block scalar (kubernetes ConfigMap style); relaxed mode only
		inner := &c06Printer{r: r}
		inner.w("groups:")
		inner.nl()
		inner.w("- name: g")
		inner.nl()
		inner.w("  rules:")
		inner.nl()
		rules := inner.emitRuleList(pick(r, []int{2, 4}), 1+r.Intn(3))
		// wrap the document into a literal block scalar, once or (stratum: doubly nested documents, each level with its
		// own indentation, so that column offsets must ACCUMULATE over the levels) twice
		cur := inner.lines
		depth := pick(r, []int{1, 1, 2})
		for d := 0; d < depth; d++ {
			hdr := []string{"config:", "  inner.yml: |"}
			if d == depth-1 {
				hdr = []string{"apiVersion: v1", "kind: ConfigMap", "data:", "  rules.yml: |"}
			}
			ind := pick(r, []int{4, 4, 6, 3, 4, 6, 3, 70}) // 70: column offsets far beyond any rule's own indentation
			out := append([]string{}, hdr...)
			for _, l := range cur {
				if l == "" {
					out = append(out, "")
					continue
				}
				out = append(out, sp(ind)+l)
			}
			off := len(hdr)
			for i := range rules {
				rules[i].L0 += off
				rules[i].L1 += off
				for j := range rules[i].Fields {
					fl := &rules[i].Fields[j]
					fl.L0 += off
					fl.L1 += off
					fl.C0 += ind
				}
			}
			cur = out
		}
		p.lines = cur
		if depth > 1 {
			doc.Layout = "embedded" // same oracle reading; counted separately below
			doc.Nested2 = true
		}
		doc.Rules = rules
	}
	if r.Intn(6) == 0 {
		p.w("# trailing comment")
		p.nl()
	}
	doc.Text = strings.Join(p.lines, "\n") + "\n"
	if r.Intn(10) == 0 {
		doc.Text = strings.TrimSuffix(doc.Text, "\n") // no newline at end of file
	}
	if r.Intn(14) == 0 {
		doc.Text = strings.ReplaceAll(doc.Text, "\n", "\r\n") // CRLF line endings: the line table keeps the \r
		doc.CRLF = true
	}
	return doc
}
