//go:build verif

package main

// `pint-verif-C06 C06probe [--strict] file...` : print what the real parser attaches to every field of every
// rule of the given files (used to confirm witnesses on the real code).

import (
	"bytes"
	"fmt"
	"os"
	"strings"

	"github.com/prometheus/common/model"
	"gopkg.in/yaml.v3"

	"github.com/cloudflare/pint/internal/diags"
	"github.com/cloudflare/pint/internal/output"
	"github.com/cloudflare/pint/internal/parser"
)

func init() { register("C06probe", runC06Probe) }

func runC06Probe(args []string) int {
	strict := false
	for _, a := range args {
		if a == "--strict" {
			strict = true
			continue
		}
		if a == "--yaml" {
			continue
		}
		b, err := os.ReadFile(a)
		if err != nil {
			fmt.Println(err)
			return 1
		}
		fmt.Printf("== %s\n", a)
		var n yaml.Node
		if err := yaml.Unmarshal(b, &n); err != nil {
			fmt.Printf("yaml error: %v\n", err)
		}
		lines := c06SplitLines(string(b))
		p := parser.NewParser(strict, parser.PrometheusSchema, model.UTF8Validation)
		f := p.Parse(bytes.NewReader(b))
		fmt.Printf("file error: %v total lines %d\n", f.Error.Err, f.TotalLines)
		for i, r := range c06AllRules(f) {
			fmt.Printf("rule %d lines %d-%d error=%v\n", i, r.Lines.First, r.Lines.Last, r.Error.Err)
			for _, pf := range c06RuleFields(r) {
				rb, ok := readBack(lines, expandPos(pf.node.Pos), false)
				fmt.Printf("  %-22s value=%q\n      pos=%v\n      read-back=%q inside=%v spells=%v\n", pf.path, pf.node.Value, pf.node.Pos, rb, ok, ok && spells(rb, pf.node.Value))
				if n := len(expandPos(pf.node.Pos)); n > 0 && ok {
					dg := diags.Diagnostic{Message: "<- diagnostic over the whole value", Pos: pf.node.Pos, FirstColumn: 1, LastColumn: n}
					func() {
						defer func() { recover() }()
						for _, l := range strings.Split(strings.TrimRight(diags.InjectDiagnostics(string(b), []diags.Diagnostic{dg}, output.None), "\n"), "\n") {
							fmt.Printf("      | %s\n", l)
						}
					}()
				}
			}
		}
	}
	return 0
}
