//go:build verif

package main

// Shared between C10 and C07: serialisation of comments.Comment values into Coq terms (Run/C10.v [ocomment])
// and the table of time.Parse successes that the Gallina model takes as its [tp] input.

import (
	"fmt"
	"math/rand"
	"strings"
	"time"
	"unicode"

	"github.com/cloudflare/pint/internal/comments"
)

// scTimeTable returns every whitespace-delimited token of text that time.Parse accepts the way parseSnooze
// tries (RFC3339 first, then 2006-01-02), as Coq [(token, ns)] pairs. Keys are exact strings, so extra
// entries are harmless: the model only looks up the exact stamp it cut out of the comment value.
func scTimeTable(text string) string {
	seen := map[string]bool{}
	var items []string
	add := func(tok string) {
		if tok == "" || seen[tok] {
			return
		}
		seen[tok] = true
		t, err := time.Parse(time.RFC3339, tok)
		if err != nil {
			t, err = time.Parse("2006-01-02", tok)
		}
		if err != nil {
			return
		}
		items = append(items, coqPair(scStr(tok), scTimeZ(t)))
	}
	for _, tok := range strings.FieldsFunc(text, unicode.IsSpace) {
		add(tok)
	}
	for _, line := range strings.Split(text, "\n") {
		for _, tok := range strings.Split(line, " ") {
			add(tok)
		}
	}
	return coqList(items)
}

// scTimeZ prints a time as Z nanoseconds since the epoch without overflowing int64.
func scTimeZ(t time.Time) string {
	return fmt.Sprintf("(%d * 1000000000 + %d)%%Z", t.Unix(), t.Nanosecond())
}

// scStr prints a Go string as a Coq string term: printable ASCII and newlines as a literal (Coq string literals may
// span lines), anything else byte by byte through [bs] (needs N_scope open in the case file, see scPreamble).
func scStr(s string) string {
	for i := 0; i < len(s); i++ {
		if (s[i] < 0x20 && s[i] != '\n') || s[i] > 0x7e {
			return coqStr(s)
		}
	}
	return `"` + strings.ReplaceAll(s, `"`, `""`) + `"`
}

func scStrList(ss []string) string {
	out := make([]string, len(ss))
	for i, s := range ss {
		out[i] = scStr(s)
	}
	return coqList(out)
}

const scPreamble = "Open Scope N_scope.\n"

const scInvalidPrefix = "This comment is not a valid pint control comment: "

func scVal(c comments.Comment) string {
	switch v := c.Value.(type) {
	case nil:
		return "OVNone"
	case comments.Invalid:
		msg := strings.TrimPrefix(v.Err.Diagnostic.Message, scInvalidPrefix)
		kind, arg := 99, ""
		switch {
		case strings.HasPrefix(msg, "unexpected comment suffix: "):
			kind = 0
		case strings.HasPrefix(msg, "missing ") && strings.HasSuffix(msg, " value"):
			kind = 1
			arg = strings.TrimSuffix(strings.TrimPrefix(msg, "missing "), " value")
		case strings.HasPrefix(msg, "invalid snooze comment"):
			kind = 2
		case strings.HasPrefix(msg, "invalid snooze timestamp"):
			kind = 3
		}
		line, first, last := -1, -1, -1
		if len(v.Err.Diagnostic.Pos) == 1 {
			line, first, last = v.Err.Diagnostic.Pos[0].Line, v.Err.Diagnostic.Pos[0].FirstColumn, v.Err.Diagnostic.Pos[0].LastColumn
		}
		if line < 0 || first < 0 || last < 0 {
			kind = 98
			line, first, last = 0, 0, 0
		}
		return fmt.Sprintf("(OVInvalid %s %s %s %s %s)", coqN(kind), scStr(arg), coqN(line), coqN(first), coqN(last))
	case comments.Owner:
		return fmt.Sprintf("(OVOwner %s %s)", scStr(v.Name), coqN(v.Line))
	case comments.Disable:
		return fmt.Sprintf("(OVDisable %s)", scStr(v.Match))
	case comments.Snooze:
		return fmt.Sprintf("(OVSnooze %s %s)", scTimeZ(v.Until), scStr(v.Match))
	case comments.RuleSet:
		return fmt.Sprintf("(OVRuleSet %s)", scStr(v.Value))
	}
	return "(OVInvalid 97%N \"\" 0%N 0%N 0%N)"
}

func scComment(c comments.Comment) string {
	off := c.Offset
	if off < 0 {
		off = 999999
	}
	return fmt.Sprintf("{| oc_type := %s; oc_off := %s; oc_val := %s |}", coqN(int(c.Type)), coqN(off), scVal(c))
}

func scComments(cs []comments.Comment) string {
	out := make([]string, len(cs))
	for i, c := range cs {
		out[i] = scComment(c)
	}
	return coqList(out)
}

// scJSON is a replayable projection of a comment.
func scJSON(c comments.Comment) map[string]any {
	var val string
	if c.Value != nil {
		val = c.Value.String()
	}
	return map[string]any{"type": int(c.Type), "offset": c.Offset, "value": val}
}

// ---------------------------------------------------------------------------------------------
// Line alphabet shared by the reader (C10) and grammar (C07) generators.

var scIgnoreLines = []string{
	"# pint ignore/file", "# pint ignore/line", "# pint ignore/begin", "# pint ignore/end", "# pint ignore/next-line",
}

var scCommentLines = []string{
	"# pint file/owner bob", "# pint rule/owner alice", "# pint file/disable promql/series", "# pint disable promql/series",
	"# pint file/snooze 2099-01-01 promql/rate", "# pint snooze 2099-11-28T10:24:18Z alerts/for",
	"# pint file/snooze 2000-01-01 promql/rate", "# pint snooze 2000-11-28T10:24:18+02:00 alerts/for",
	"# pint rule/set promql/series min-age 1d", "# pint disable promql/series(+tag)", "# pint disable alerts/template(prom)",
}

var scInvalidLines = []string{
	"# pint ignore/line extra", "# pint ignore/file now", "# pint file/owner", "# pint rule/owner  ", "# pint disable",
	"# pint snooze abc", "# pint snooze 2099-13-45 foo", "# pint file/snooze 2099-01-01", "# pint rule/set", "# pint file/disable\t",
	"# pint snooze 2099-01-01\tfoo bar", "# pint snooze  2099-01-01 foo",
}

var scNearMisses = []string{
	"# pintignore/line", "# pint ignore/linex", "#pint ignore/line", "#  pint   ignore/next-line  ", "# pint bamboozle xxx",
	"# pint bamboozle # pint ignore/line", "# pint # pint ignore/begin", "## pint ignore/end", "# pint\tignore/line\t", "#\tpint\tdisable\tfoo",
	"# pint ignore/li1ne", "# pint dis1able foo", "# pint1 disable foo", "#pint# pint disable x", "# pin t disable x", "# pint",
	"# pint ", "# pint ignore", "# PINT ignore/line", "# pint Ignore/line", "# pint ignore/line#", "# pint ignore/line # pint ignore/begin",
	"# pint disable foo # pint ignore/line", "#", "# ", "##", "# #", "",
}

var scNonASCII = []string{
	"# pint disable \xc3\xa9t\xc3\xa9", "# pint\xc2\xa0ignore/line", "# p\xc3\xaent ignore/line", "# pint ignor\xc3\xa9/line", "# pint disable\xe2\x80\x83foo\xe2\x80\x83",
	"\xff\xfe # pint ignore/line", "# pint disable \xff\xfe", "# pint disable foo\xc3", "\xc3# pint ignore/begin", "# pint ignore/\xcf\x80line",
	"# pint ignore/next-line\xc2\x85", "# \xd0\xbfint ignore/line", "# pint\xe3\x80\x80ignore/end", "# pint disable \xf0\x9f\x98\x80 x", "# pint ignore/line\xed\xa0\x80",
	"\xe2\x82\xac # pint file/owner \xe2\x82\xac", "# pint rule/set \xf4\x90\x80\x80", "# pint file/disable \xc2\xaa\xc2\xb5\xc2\xba\xc3\x97\xc3\xb7", "# pint\xc2\xaa ignore/line", "# pint ignore/line\xc3\x97x",
}

// scMutate applies 1-3 random byte edits (delete / insert / replace) biased towards grammar-relevant bytes.
func scMutate(r *rand.Rand, s string) string {
	b := []byte(s)
	k := 1 + r.Intn(3)
	ins := []byte("# pint/-\t \r\xc3\xa9\xffignore/linebegin")
	for ; k > 0; k-- {
		switch r.Intn(3) {
		case 0:
			if len(b) > 0 {
				i := r.Intn(len(b))
				b = append(b[:i], b[i+1:]...)
			}
		case 1:
			i := r.Intn(len(b) + 1)
			b = append(b[:i], append([]byte{ins[r.Intn(len(ins))]}, b[i:]...)...)
		case 2:
			if len(b) > 0 {
				b[r.Intn(len(b))] = ins[r.Intn(len(ins))]
			}
		}
	}
	return strings.ReplaceAll(string(b), "\n", " ")
}
