//go:build verif

package main

// C19: relaxed mode finds the same rules as strict mode, wherever they are nested.
//  (a) forest-level correspondence: real parser (both modes) vs Model.Parser on the serialised forest;
//  (b) oracle_impl 1: generated strict-valid files parsed in both modes yield the same rules;
//  (c) oracle_impl 2: generated wrappers (0-4 levels of mappings/sequences, siblings, documents) around
//      generated rule lists yield, in relaxed mode, the same rules displaced by the wrapper.

import (
	"fmt"
	"math/rand"
	"os"
	"path/filepath"
	"strings"

	"github.com/prometheus/common/model"

	"github.com/cloudflare/pint/internal/diags"
	"github.com/cloudflare/pint/internal/parser"
)

func init() { register("C19", runC19) }

type c19Rule struct {
	Type  string               `json:"type"`
	Name  string               `json:"name"`
	Expr  string               `json:"expr"`
	First int                  `json:"first"`
	Last  int                  `json:"last"`
	Err   int                  `json:"err_line"`
	NameP diags.PositionRanges `json:"name_pos,omitempty"`
	ExprP diags.PositionRanges `json:"expr_pos,omitempty"`
}

func c19Rules(f parser.File) (out []c19Rule) {
	for _, g := range f.Groups {
		for _, r := range g.Rules {
			cr := c19Rule{Type: string(r.Type()), Name: r.Name(), First: r.Lines.First, Last: r.Lines.Last}
			if r.Error.Err != nil {
				cr.Err = r.Error.Line
			}
			if r.AlertingRule != nil || r.RecordingRule != nil {
				cr.Expr = r.Expr().Value.Value
				cr.NameP = r.NameNode().Pos
				cr.ExprP = r.Expr().Value.Pos
			}
			out = append(out, cr)
		}
	}
	return out
}

func shiftPos(p diags.PositionRanges, dl, dc int) diags.PositionRanges {
	out := make(diags.PositionRanges, len(p))
	for i, x := range p {
		out[i] = diags.PositionRange{Line: x.Line + dl, FirstColumn: x.FirstColumn + dc, LastColumn: x.LastColumn + dc}
	}
	return out
}

func c19Shift(rs []c19Rule, dl, dc int) []c19Rule {
	out := make([]c19Rule, len(rs))
	for i, r := range rs {
		r.First += dl
		r.Last += dl
		if r.Err != 0 {
			r.Err += dl
		}
		r.NameP = shiftPos(r.NameP, dl, dc)
		r.ExprP = shiftPos(r.ExprP, dl, dc)
		out[i] = r
	}
	return out
}

func c19Equal(a, b []c19Rule) (bool, string) {
	if len(a) != len(b) {
		return false, fmt.Sprintf("rule count %d vs %d", len(a), len(b))
	}
	for i := range a {
		if fmt.Sprintf("%+v", a[i]) != fmt.Sprintf("%+v", b[i]) {
			return false, fmt.Sprintf("rule %d: %+v vs %+v", i, a[i], b[i])
		}
	}
	return true, ""
}

func runC19(args []string) int {
	n := argInt(args, "--n", 300)
	seed := seedFromEnv()
	r := rand.New(rand.NewSource(seed))
	rep := newReport("C19", seed)
	rep.Rule = "non-trivial := the real parser found at least one rule (with or without error) in either mode; distinct by content hash"
	cw := newCaseWriter(".", "Model.Yaml Model.Parser Run.C19", 60)
	cw.preamble = "Open Scope N_scope.\n"
	id := 0
	keepCases := n <= 1000

	schema := parser.PrometheusSchema
	names := model.UTF8Validation
	newEnv := func() {
		schema = parser.PrometheusSchema
		if r.Intn(6) == 0 {
			schema = parser.ThanosSchema
		}
		names = model.UTF8Validation
		if r.Intn(2) == 0 {
			names = model.LegacyValidation
		}
	}
	addForest := func(content string, class string) (parser.File, parser.File) {
		id++
		term, fs, fr, ps, pr := forestCase(id, []byte(content), schema, names, nil)
		if ps != "" || pr != "" {
			rep.hist("parser-panic")
			rep.Notes = append(rep.Notes, fmt.Sprintf("parser panic on case %d: %s %s (C02's business; not a C19 oracle failure)", id, ps, pr))
		}
		if term == "" {
			rep.hist("skipped:forest-too-large")
		} else {
			cw.add(term)
		}
		rep.hist("class:" + class)
		// oracle (b) on EVERY document: strict-valid => relaxed mode yields the same rules
		if ps == "" && pr == "" && strictValid(fs) {
			rep.hist("strict-valid")
			a, b := c19Rules(fs), c19Rules(fr)
			if ok, why := c19Equal(a, b); !ok {
				c := map[string]any{"content": content, "strict": a, "relaxed": b, "class": class}
				what := "strict-valid file: relaxed mode yields different rules than strict mode: " + why
				// (the tag-kind class is repaired by b22de24 + 4a0d172: no known-finding class is left, every difference is a violation)
				rep.fail(fmt.Sprint(id), what, c)
			} else if len(a) > 0 && len(rep.Samples) < 2 {
				rep.sample(map[string]any{"kind": "strict-valid", "content": content, "rules": a})
			}
		}
		// oracle (d) on EVERY document, both modes: the line range of a complete rule encloses the positions of its name
		// and expression (what "the same rules with the same lines" means for a single rule)
		if ps == "" && pr == "" {
			for mi, rs := range [][]c19Rule{c19Rules(fs), c19Rules(fr)} {
				for _, cr := range rs {
					if cr.Err != 0 || cr.Type == "invalid" {
						continue
					}
					for _, pos := range append(append(diags.PositionRanges{}, cr.NameP...), cr.ExprP...) {
						if pos.Line < cr.First || pos.Line > cr.Last {
							rep.fail(fmt.Sprint(id), fmt.Sprintf("%s mode: rule %q has lines %d-%d but its name/expr has a position on line %d",
								[]string{"strict", "relaxed"}[mi], cr.Name, cr.First, cr.Last, pos.Line),
								map[string]any{"content": content, "class": class, "rule": cr})
							break
						}
					}
				}
			}
		}
		nr := len(c19Rules(fs)) + len(c19Rules(fr))
		rep.count(content, nr > 0)
		if keepCases {
			rep.Cases[fmt.Sprint(id)] = map[string]any{"class": class, "content": content, "schema": int(schema), "names": int(names)}
		}
		return fs, fr
	}

	// (0) corpus: design-session witnesses and minimised failures first
	for _, p := range corpusFiles("C19") {
		b, err := os.ReadFile(p)
		if err != nil {
			continue
		}
		content := string(b)
		if strings.HasSuffix(p, ".wrapped.yaml") {
			// wrapper witness: must find rules in relaxed mode
			fr, _ := parseReal(b, false, parser.PrometheusSchema, model.UTF8Validation)
			if len(c19Rules(fr)) == 0 {
				rep.fail("corpus:"+filepath.Base(p), "relaxed mode finds no rule in wrapper witness", map[string]any{"content": content})
			}
		}
		addForest(content, "corpus")
	}

	// (0') directed: alias-doubling chains (`aN: &aN [*aN-1, *aN-1]`).  A short one is parsed normally; one whose unfolding
	// exceeds the limit of fix 2108dfa (1 000 000 nodes: 18+ levels) must be refused in both modes.  The forest is
	// serialised with sharing (the graph has ~60 nodes), so the model's alias pre-pass `too_big` fires in a
	// correspondence case and its saturating count is compared with the real one through the File error.
	for _, levels := range []int{8 + r.Intn(3), 18 + r.Intn(3)} {
		chain := []string{"a0: &a0 [{record: \"chain:a\", expr: up}, x]"}
		for i := 1; i <= levels; i++ {
			chain = append(chain, fmt.Sprintf("a%d: &a%d [*a%d, *a%d]", i, i, i-1, i-1))
		}
		content := strings.Join(chain, "\n") + "\n"
		id++
		term, fs, fr := forestCaseShared(id, []byte(content), parser.PrometheusSchema, model.UTF8Validation)
		if term == "" {
			rep.hist("skipped:shared-forest")
			rep.Notes = append(rep.Notes, "alias chain not serialised: "+lastSharedSkip)
			continue
		}
		cw.add(term)
		rep.hist(fmt.Sprintf("class:alias-chain-%d-levels", levels))
		refused := fs.Error.Err != nil && strings.Contains(fs.Error.Err.Error(), "expand to more than") &&
			fr.Error.Err != nil && strings.Contains(fr.Error.Err.Error(), "expand to more than")
		if levels >= 18 && !refused {
			rep.fail(fmt.Sprint(id), "a document whose aliases unfold to more than a million nodes is not refused in both modes",
				map[string]any{"content": content, "levels": levels})
		}
		if levels < 18 && (fr.Error.Err != nil || len(c19Rules(fr)) == 0) {
			rep.fail(fmt.Sprint(id), "relaxed mode finds no rule in a short alias chain (or refuses it)", map[string]any{"content": content, "levels": levels})
		}
		rep.count(content, true)
		if keepCases {
			rep.Cases[fmt.Sprint(id)] = map[string]any{"class": "alias-chain", "content": content, "schema": 0, "names": int(model.UTF8Validation)}
		}
	}

	// (1) strict-valid generated files: relaxed = strict
	nValid, nWrap, nMixed := n*4/10, n*4/10, n*2/10
	gv := newDocGen(r, 0)
	for i := 0; i < nValid; i++ {
		content := gv.ruleFile()
		newEnv()
		fs, _ := addForest(content, "strict-valid-intended")
		if !strictValid(fs) {
			rep.hist("strict-invalid-though-intended-valid")
		}
	}
	// (2) wrappers
	gw := newDocGen(r, 0.12)
	for i := 0; i < nWrap; i++ {
		items := gw.ruleItems(1+r.Intn(4), false)
		list := seqLines(items, 0)
		base := strings.Join(list, "\n") + "\n"
		levels := r.Intn(5)
		newEnv()
		if r.Intn(4) == 0 {
			// (c') YAML in YAML: the wrapped document as the value of a scalar of an outer document
			w := gw.wrapOpts(list, levels, false)
			e := gw.embed(w.Text)
			if e.Literal && e.Descends && r.Intn(3) == 0 {
				// YAML in YAML in YAML: the outer document is itself the value of a scalar of a further document; the
				// reference is again the scalar's value parsed on its own, so offsets must ACCUMULATE over the levels
				e2 := gw.embed(e.Text)
				e2.Desc = "nested:" + e.Desc + "-inside-" + e2.Desc
				w.Text, w.Desc = e.Text, w.Desc+"+"+e.Desc
				e = e2
			}
			// reference: the scalar's value parsed as a document of its own (wrapper vs bare list is the other branch)
			ref := w.Text
			if e.Literal {
				ref = e.Value
			}
			_, frRef := addForest(ref, "embedded-reference")
			_, frEmb := addForest(e.Text, "embedded-"+e.Desc)
			var a []c19Rule
			if e.Descends {
				a = c19Shift(c19Rules(frRef), e.LineShift, e.ColShift)
			}
			b := c19Rules(frEmb)
			rep.hist("embedded-oracle:" + e.Desc)
			if ok, why := c19Equal(a, b); !ok {
				c := map[string]any{"reference": ref, "embedded": e.Text, "wrapper": w.Desc, "style": e.Desc, "line_shift": e.LineShift,
					"col_shift": e.ColShift, "expected_rules": a, "found_rules": b}
				what := "YAML embedded in a " + e.Desc + " scalar: relaxed mode does not report the rules of the embedded list displaced by the wrapper: " + why
				if !e.Descends {
					what = "YAML embedded in a " + e.Desc + " scalar (lines not preserved / value too short): relaxed mode must not look inside, but reports rules: " + why
				}
				// (the duplicated-key line class is repaired by 0202885: a recurrence is a violation)
				rep.fail(fmt.Sprint(id), what, c)
			}
			continue
		}
		w := gw.wrap(list, levels)
		_, frBase := addForest(base, "bare-rule-list")
		_, frWrap := addForest(w.Text, fmt.Sprintf("wrapper-levels-%d", levels))
		// expected: the direct rules of mixed-sequence frames (outermost first: a sequence yields its own rules before the
		// nested ones), then the rules of the bare list, everything displaced by the wrapper
		var a []c19Rule
		for _, d := range w.Direct {
			fd, _ := parseReal([]byte("- record: "+d.Name+"\n  expr: "+d.Expr+"\n"), false, schema, names)
			a = append(a, c19Shift(c19Rules(fd), w.LineShift+d.RelLine, w.ColShift+d.RelCol)...)
		}
		a = append(a, c19Shift(c19Rules(frBase), w.LineShift, w.ColShift)...)
		// ... then what `groups:` keys written after the wrapping key contribute (a mapping yields its fields' rules in key order)
		for _, d := range w.After {
			fd, _ := parseReal([]byte("- record: "+d.Name+"\n  expr: "+d.Expr+"\n"), false, schema, names)
			a = append(a, c19Shift(c19Rules(fd), w.LineShift+d.RelLine, w.ColShift+d.RelCol)...)
		}
		b := c19Rules(frWrap)
		rep.hist("wrapper:" + fmt.Sprint(levels))
		if ok, why := c19Equal(a, b); !ok {
			rep.fail(fmt.Sprint(id), "wrapper changes the rules found in relaxed mode (after un-shifting): "+why,
				map[string]any{"base": base, "wrapped": w.Text, "wrapper": w.Desc, "line_shift": w.LineShift, "col_shift": w.ColShift, "base_rules_shifted": a, "wrapped_rules": b})
		}
		if len(rep.Samples) < 4 && levels >= 2 {
			rep.sample(map[string]any{"kind": "wrapper", "wrapped": w.Text, "wrapper": w.Desc, "rules": b})
		}
	}
	// (3) mixed/invalid documents: forest correspondence only (ties the error paths of the shared model)
	gm := newDocGen(r, 0.15)
	for i := 0; i < nMixed; i++ {
		content := gm.ruleFile()
		if r.Intn(3) == 0 {
			content = gm.mutateBytes(content)
		}
		newEnv()
		addForest(content, "mixed")
	}
	for _, g := range []*docGen{gv, gw, gm} {
		for k, v := range g.hist {
			rep.Histogram[k] += v
		}
	}
	cw.flush()
	rep.CaseFiles = cw.files
	for i := range rep.CaseFiles {
		rep.CaseFiles[i], _ = filepath.Abs(rep.CaseFiles[i])
	}
	rep.write("report.json")
	return 0
}
