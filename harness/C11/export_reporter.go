//go:build verif

package reporter

// Overlay export for /verif property C11 (injected by go build -overlay; never part of /repo).

func VerifIsEqual(a, b Report) bool     { return a.isEqual(b) }
func VerifIsSameIssue(a, b Report) bool { return a.isSameIssue(b) }
