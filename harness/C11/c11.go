//go:build verif

package main

import (
	"bytes"
	"cmp"
	"slices"
	"context"
	"encoding/json"
	"errors"
	"fmt"
	"io"
	"log/slog"
	"math/rand"
	"os"
	"path/filepath"
	"reflect"
	"sort"
	"strings"

	"github.com/prometheus/client_golang/prometheus"

	"github.com/cloudflare/pint/internal/checks"
	"github.com/cloudflare/pint/internal/config"
	"github.com/cloudflare/pint/internal/diags"
	"github.com/cloudflare/pint/internal/discovery"
	pgit "github.com/cloudflare/pint/internal/git"
	"github.com/cloudflare/pint/internal/parser"
	"github.com/cloudflare/pint/internal/reporter"
	"github.com/prometheus/common/model"
)

// C11: results do not depend on worker count or scheduling.
//
// Three streams of evidence:
//  A. synthetic report streams + permutations through the REAL Summary/JSON/console -> Coq correspondence
//  B. real streams: the real check pipeline (config, discovery, GetChecksForEntry, Check) run job by job
//     (= --workers 1), H1/H2 evaluated, interleavings replayed through the real Summary and renderers:
//     all must give identical output (oracle_impl) -> also exported to Coq
//  C. the real binary with --workers 1/4/16 on the same scenarios: exit, JSON and stderr must be identical.

// ------------------------------------------------------------------------------------------------
// description of a stream for Coq

type c11Diag struct {
	Msg   string `json:"msg"`
	First int    `json:"first"`
	Last  int    `json:"last"`
	Extra int    `json:"extra"`
}

type c11Rep struct {
	Path, Target, Owner string
	Rule                int
	Name                string
	Reporter            string
	Summary, Details    string
	Diags               []c11Diag
	LFirst, LLast, Sev  int
	AnchorBefore        bool
	RFirst, RLast       int // Report.Rule.Lines (sort keys since fix bc86063)
}

type c11Entry struct {
	Idx   int   `json:"idx"`
	Dup   bool  `json:"dup"`
	Dups  []int `json:"dups"`
	Diags []int `json:"diag_order"`
	Full  []c11Diag `json:"-"`
}

type c11Out struct {
	Perm     []int               `json:"perm"`
	Entries  []c11Entry          `json:"entries"`
	JSON     []reporter.JSONReport `json:"json,omitempty"`
	JSONText string              `json:"-"`
	Console  string              `json:"console,omitempty"`
	Headers  [][2]string         `json:"-"`
	Counts   map[int]int         `json:"counts"`
	ShowDups bool                `json:"show_dups"`
	MinSev   int                 `json:"min_sev"`
	HasCons  bool                `json:"-"`
	Err      string              `json:"err,omitempty"`
}

func c11Describe(stream []reporter.Report) []c11Rep {
	var rules []parser.Rule
	// distinct Pos values of the stream, ranked by the comparison cmpDiags applies to Pos since fix 1588b37
	// (slices.CompareFunc by Line, FirstColumn, LastColumn): equal id = equal Pos, id order = that order
	var poss []diags.PositionRanges
	for _, r := range stream {
		for _, dg := range r.Problem.Diagnostics {
			seen := false
			for _, q := range poss {
				if c11CmpPos(dg.Pos, q) == 0 {
					seen = true
				}
			}
			if !seen {
				poss = append(poss, dg.Pos)
			}
		}
	}
	sort.SliceStable(poss, func(i, j int) bool { return c11CmpPos(poss[i], poss[j]) < 0 })
	posID := func(p diags.PositionRanges) int {
		for i, q := range poss {
			if c11CmpPos(p, q) == 0 {
				return i
			}
		}
		panic("unranked position")
	}
	out := make([]c11Rep, len(stream))
	for i, r := range stream {
		cls := -1
		for k, q := range rules {
			if q.IsSame(r.Rule) {
				cls = k
				break
			}
		}
		if cls < 0 {
			rules = append(rules, r.Rule)
			cls = len(rules) - 1
		}
		d := c11Rep{Path: r.Path.Name, Target: r.Path.SymlinkTarget, Owner: r.Owner, Rule: cls, Name: r.Rule.Name(),
			Reporter: r.Problem.Reporter, Summary: r.Problem.Summary, Details: r.Problem.Details,
			LFirst: r.Problem.Lines.First, LLast: r.Problem.Lines.Last, Sev: int(r.Problem.Severity),
			AnchorBefore: r.Problem.Anchor == checks.AnchorBefore, RFirst: r.Rule.Lines.First, RLast: r.Rule.Lines.Last}
		for _, dg := range r.Problem.Diagnostics {
			d.Diags = append(d.Diags, c11Diag{Msg: dg.Message, First: dg.FirstColumn, Last: dg.LastColumn, Extra: posID(dg.Pos)})
		}
		out[i] = d
	}
	return out
}

func c11CmpPos(a, b diags.PositionRanges) int {
	return slices.CompareFunc(a, b, func(x, y diags.PositionRange) int {
		return cmp.Or(cmp.Compare(x.Line, y.Line), cmp.Compare(x.FirstColumn, y.FirstColumn), cmp.Compare(x.LastColumn, y.LastColumn))
	})
}

func c11CoqReport(d c11Rep) string {
	ds := make([]string, len(d.Diags))
	for i, g := range d.Diags {
		ds[i] = fmt.Sprintf("{| dg_msg := %s; dg_first := %s; dg_last := %s; dg_extra := %s |}", coqStr(g.Msg), coqZ(int64(g.First)), coqZ(int64(g.Last)), coqN(g.Extra))
	}
	return fmt.Sprintf("{| r_path := %s; r_target := %s; r_owner := %s; r_rule := %s; r_name := %s; r_reporter := %s; r_summary := %s; r_details := %s; r_diags := %s; r_lfirst := %s; r_llast := %s; r_sev := %s; r_anchor_before := %s; r_rfirst := %s; r_rlast := %s |}",
		coqStr(d.Path), coqStr(d.Target), coqStr(d.Owner), coqN(d.Rule), coqStr(d.Name), coqStr(d.Reporter), coqStr(d.Summary), coqStr(d.Details),
		coqList(ds), coqZ(int64(d.LFirst)), coqZ(int64(d.LLast)), coqZ(int64(d.Sev)), coqBool(d.AnchorBefore), coqZ(int64(d.RFirst)), coqZ(int64(d.RLast)))
}

func coqNatList(xs []int) string {
	s := make([]string, len(xs))
	for i, x := range xs {
		s[i] = coqNat(x)
	}
	return coqList(s)
}

func c11CoqArr(o c11Out, withJSON bool) string {
	es := make([]string, len(o.Entries))
	for i, e := range o.Entries {
		dn := make([]string, len(e.Diags))
		for k, x := range e.Diags {
			dn[k] = coqN(x)
		}
		es[i] = fmt.Sprintf("{| o_idx := %s; o_dup := %s; o_dups := %s; o_diags := %s |}", coqNat(e.Idx), coqBool(e.Dup), coqNatList(e.Dups), coqList(dn))
	}
	js := "None"
	if withJSON {
		items := make([]string, len(o.JSON))
		for i, j := range o.JSON {
			ls := make([]string, len(j.Lines))
			for k, l := range j.Lines {
				ls[k] = coqZ(int64(l))
			}
			items[i] = fmt.Sprintf("{| j_path := %s; j_owner := %s; j_reporter := %s; j_problem := %s; j_details := %s; j_severity := %s; j_lines := %s |}",
				coqStr(j.Path), coqStr(j.Owner), coqStr(j.Reporter), coqStr(j.Problem), coqStr(j.Details), coqStr(j.Severity), coqList(ls))
		}
		js = "(Some " + coqList(items) + ")"
	}
	cons := "None"
	if o.HasCons {
		hs := make([]string, len(o.Headers))
		for i, h := range o.Headers {
			hs[i] = coqPair(coqStr(h[0]), coqStr(h[1]))
		}
		cons = fmt.Sprintf("(Some (%s, %s, %s))", coqBool(o.ShowDups), coqZ(int64(o.MinSev)), coqList(hs))
	}
	var cs []string
	var ks []int
	for k := range o.Counts {
		ks = append(ks, k)
	}
	sort.Ints(ks)
	for _, k := range ks {
		cs = append(cs, coqPair(coqZ(int64(k)), coqZ(int64(o.Counts[k]))))
	}
	return fmt.Sprintf("{| a_perm := %s; a_out := %s; a_json := %s; a_console := %s; a_counts := %s |}", coqNatList(o.Perm), coqList(es), js, cons, coqList(cs))
}

// ------------------------------------------------------------------------------------------------
// one arrival order through the real Summary and renderers

func c11Clone(r reporter.Report, idx int) reporter.Report {
	c := r
	c.Problem.Diagnostics = append([]diags.Diagnostic(nil), r.Problem.Diagnostics...)
	c.ModifiedLines = []int{idx}
	c.Duplicates = nil
	c.IsDuplicate = false
	return c
}

func c11RunReal(stream []reporter.Report, desc []c11Rep, perm []int, console bool, showDups bool, minSev int) (out c11Out) {
	out.Perm = perm
	out.ShowDups = showDups
	out.MinSev = minSev
	defer func() {
		if e := recover(); e != nil {
			out.Err = fmt.Sprintf("panic: %v", e)
		}
	}()
	s := reporter.NewSummary(nil)
	for _, i := range perm {
		s.Report(c11Clone(stream[i], i))
	}
	out.Counts = map[int]int{}
	for k, v := range s.CountBySeverity() {
		out.Counts[int(k)] = v
	}
	s.SortReports()
	s.Dedup()
	reps := s.Reports()
	for k := range reps {
		r := &reps[k]
		e := c11Entry{Idx: r.ModifiedLines[0], Dup: r.IsDuplicate, Dups: []int{}, Diags: []int{}}
		for _, d := range r.Duplicates {
			for p := range reps {
				if d == &reps[p] {
					e.Dups = append(e.Dups, p)
				}
			}
		}
		// identify the diagnostics by content (message, columns, position id), first unused match
		orig := stream[e.Idx].Problem.Diagnostics
		used := make([]bool, len(orig))
		for _, d := range r.Problem.Diagnostics {
			for q := range orig {
				if !used[q] && orig[q].Message == d.Message && orig[q].FirstColumn == d.FirstColumn && orig[q].LastColumn == d.LastColumn &&
					(reflect.DeepEqual(orig[q].Pos, d.Pos) || (len(orig[q].Pos) == 0 && len(d.Pos) == 0)) {
					used[q] = true
					e.Diags = append(e.Diags, desc[e.Idx].Diags[q].Extra)
					e.Full = append(e.Full, desc[e.Idx].Diags[q])
					break
				}
			}
		}
		out.Entries = append(out.Entries, e)
	}
	var jb bytes.Buffer
	if err := reporter.NewJSONReporter(&jb).Submit(s); err != nil {
		out.Err = "json: " + err.Error()
		return out
	}
	out.JSONText = jb.String()
	if err := json.Unmarshal(jb.Bytes(), &out.JSON); err != nil {
		out.Err = "json decode: " + err.Error()
		return out
	}
	if console {
		var cb bytes.Buffer
		if err := reporter.NewConsoleReporter(&cb, checks.Severity(minSev), true, showDups).Submit(s); err != nil {
			out.Err = "console: " + err.Error()
			return out
		}
		out.Console = cb.String()
		out.HasCons = true
		for _, blk := range strings.Split(out.Console, "\n\n") {
			if strings.TrimSpace(blk) == "" {
				continue
			}
			ls := strings.SplitN(blk, "\n", 3)
			if len(ls) >= 2 {
				out.Headers = append(out.Headers, [2]string{ls[0], ls[1]})
			}
		}
	}
	return out
}

// projection compared across arrival orders (the property as written: problems, order, folding, JSON, console, exit)
func c11Observable(o c11Out, desc []c11Rep) string {
	var b strings.Builder
	for _, e := range o.Entries {
		d := desc[e.Idx]
		d.Rule = 0
		d.Diags = nil
		fmt.Fprintf(&b, "%+v dup=%v ndups=%d diags=%+v\n", d, e.Dup, len(e.Dups), e.Full)
	}
	b.WriteString(o.JSONText)
	b.WriteString(o.Console)
	var ks []int
	for k := range o.Counts {
		ks = append(ks, k)
	}
	sort.Ints(ks)
	for _, k := range ks {
		fmt.Fprintf(&b, "sev%d=%d ", k, o.Counts[k])
	}
	b.WriteString(o.Err)
	return b.String()
}

// ------------------------------------------------------------------------------------------------
// H1 / H2 with the REAL isEqual (mirror of Model.SummarySort.h1b / h2b)

func c11SortedDiags(d []c11Diag) []c11Diag {
	o := append([]c11Diag(nil), d...)
	sort.SliceStable(o, func(i, j int) bool {
		a, b := o[i], o[j]
		if a.First != b.First {
			return b.First < a.First
		}
		if a.Last != b.Last {
			return a.Last < b.Last
		}
		return a.Msg < b.Msg
	})
	return o
}

func c11NormEq(a, b c11Rep) bool {
	a.Diags = c11FullSortedDiags(a.Diags)
	b.Diags = c11FullSortedDiags(b.Diags)
	return reflect.DeepEqual(a, b)
}

func c11KeyEq(a, b c11Rep) bool {
	if a.Path != b.Path || a.LFirst != b.LFirst || a.LLast != b.LLast || a.Sev != b.Sev || a.Reporter != b.Reporter ||
		a.Summary != b.Summary || a.Details != b.Details {
		return false
	}
	da, db := c11FullSortedDiags(a.Diags), c11FullSortedDiags(b.Diags)
	// since fix 346020d the comparator reads the whole sorted lists (slices.CompareFunc)
	if len(da) != len(db) {
		return false
	}
	for i := range da {
		if da[i].First != db[i].First || da[i].Last != db[i].Last || da[i].Msg != db[i].Msg || da[i].Extra != db[i].Extra {
			return false
		}
	}
	// since fix bc86063: Rule.Lines, Owner, SymlinkTarget -- read only when both reports have diagnostics
	if len(da) > 0 && (a.RFirst != b.RFirst || a.RLast != b.RLast || a.Owner != b.Owner || a.Target != b.Target) {
		return false
	}
	return true
}

// cmpDiags order: columns, message, then Pos (rank)
func c11FullSortedDiags(d []c11Diag) []c11Diag {
	o := append([]c11Diag(nil), d...)
	sort.SliceStable(o, func(i, j int) bool {
		a, b := o[i], o[j]
		if a.First != b.First {
			return b.First < a.First
		}
		if a.Last != b.Last {
			return a.Last < b.Last
		}
		if a.Msg != b.Msg {
			return a.Msg < b.Msg
		}
		return a.Extra < b.Extra
	})
	return o
}

func c11Hyps(stream []reporter.Report, desc []c11Rep) (iseq []bool, h1, h2 bool) {
	n := len(stream)
	iseq = make([]bool, n*n)
	for i := range stream {
		for j := range stream {
			iseq[i*n+j] = reporter.VerifIsEqual(stream[i], stream[j])
		}
	}
	h1, h2 = true, true
	for i := 0; i < n; i++ {
		for j := 0; j < n; j++ {
			if iseq[i*n+j] && !(iseq[j*n+i] && c11NormEq(desc[i], desc[j])) {
				h1 = false
			}
			if c11KeyEq(desc[i], desc[j]) && !iseq[i*n+j] {
				h2 = false
			}
		}
	}
	return iseq, h1, h2
}

// ------------------------------------------------------------------------------------------------
// A. synthetic streams

var c11RulePool []parser.Rule

func init() {
	rec := func(name string, f, l int) parser.Rule {
		return parser.Rule{RecordingRule: &parser.RecordingRule{Record: parser.YamlNode{Value: name}}, Lines: diags.LineRange{First: f, Last: l}}
	}
	al := func(name string, f, l int) parser.Rule {
		return parser.Rule{AlertingRule: &parser.AlertingRule{Alert: parser.YamlNode{Value: name}}, Lines: diags.LineRange{First: f, Last: l}}
	}
	e1 := errors.New("boom")
	c11RulePool = []parser.Rule{
		rec("foo", 1, 3), rec("bar", 1, 3) /* IsSame as the first, other name */, al("foo", 1, 3), rec("foo", 2, 5), al("zed", 2, 5),
		{Lines: diags.LineRange{First: 1, Last: 3}, Error: parser.ParseError{Err: e1, Line: 2}},
		{Lines: diags.LineRange{First: 1, Last: 3}, Error: parser.ParseError{Err: e1, Line: 2}},
		{Lines: diags.LineRange{First: 1, Last: 3}, Error: parser.ParseError{Err: e1, Line: 3}},
	}
}

func c11GenDiag(r *rand.Rand) diags.Diagnostic {
	d := diags.Diagnostic{Message: pick(r, []string{"m1", "m2", "m3", ""}), FirstColumn: 1 + r.Intn(3), LastColumn: 2 + r.Intn(3)}
	if r.Intn(3) > 0 {
		d.Pos = diags.PositionRanges{{Line: 1 + r.Intn(3), FirstColumn: 1, LastColumn: 4 + r.Intn(2)}}
	}
	return d
}

func c11GenReport(r *rand.Rand, consoleSafe bool) reporter.Report {
	p := pick(r, []string{"a.yml", "b.yml", "a.yml"})
	tgt := p
	if r.Intn(8) == 0 {
		tgt = "t.yml"
	}
	first := 1 + r.Intn(3)
	rep := reporter.Report{
		Path:  discovery.Path{Name: p, SymlinkTarget: tgt},
		Owner: pick(r, []string{"", "", "o1", "o2"}),
		Rule:  pick(r, c11RulePool),
		Problem: checks.Problem{
			Reporter: pick(r, []string{"r/a", "r/b"}), Summary: pick(r, []string{"s1", "s2"}), Details: pick(r, []string{"", "", "d1", "d2"}),
			Lines:    diags.LineRange{First: first, Last: first + r.Intn(3)},
			Severity: checks.Severity(r.Intn(4)), Anchor: checks.Anchor(r.Intn(2)),
		},
	}
	nd := 0
	switch r.Intn(6) {
	case 0, 1:
		nd = 1
	case 2:
		nd = 2
	case 3:
		nd = 3
	}
	for i := 0; i < nd; i++ {
		rep.Problem.Diagnostics = append(rep.Problem.Diagnostics, c11GenDiag(r))
	}
	if consoleSafe && len(rep.Problem.Diagnostics) > 0 {
		rep.Problem.Anchor = checks.AnchorBefore
	}
	return rep
}

// c11Mutate returns a near copy of rep differing in one place only: the adversarial neighbourhood of
// isEqual / the sort key / isSameIssue.
func c11Mutate(r *rand.Rand, rep reporter.Report, consoleSafe bool) (reporter.Report, string) {
	c := rep
	c.Problem.Diagnostics = append([]diags.Diagnostic(nil), rep.Problem.Diagnostics...)
	ds := c.Problem.Diagnostics
	switch k := r.Intn(16); k {
	case 0:
		return c, "exact-copy"
	case 1:
		c.Problem.Details = pick(r, []string{"", "d1", "d2", "d3"})
		return c, "details"
	case 2:
		c.Owner = pick(r, []string{"", "o1", "o2"})
		return c, "owner"
	case 3:
		c.Problem.Lines.Last = c.Problem.Lines.First + r.Intn(3)
		return c, "lines.last"
	case 4:
		c.Rule = pick(r, c11RulePool)
		return c, "rule"
	case 5:
		if !consoleSafe || len(ds) == 0 {
			c.Problem.Anchor = 1 - c.Problem.Anchor
		}
		return c, "anchor"
	case 6:
		if len(ds) > 1 {
			r.Shuffle(len(ds), func(i, j int) { ds[i], ds[j] = ds[j], ds[i] })
		}
		return c, "diag-order"
	case 7:
		if len(ds) > 0 {
			i := r.Intn(len(ds))
			ds[i].Pos = diags.PositionRanges{{Line: 1 + r.Intn(3), FirstColumn: 1, LastColumn: 6}}
		}
		return c, "diag-pos"
	case 8:
		if len(ds) > 1 { // [x,y] -> [x,x]: same length, one-way inclusion (asymmetric isSameDiagnostics)
			ds[1] = ds[0]
		}
		return c, "diag-dup"
	case 9:
		if len(ds) > 0 {
			ds[r.Intn(len(ds))].Message = pick(r, []string{"m1", "m2", "m3"})
		}
		return c, "diag-msg"
	case 10:
		if len(ds) > 0 {
			ds[r.Intn(len(ds))].FirstColumn = 1 + r.Intn(3)
		}
		return c, "diag-col"
	case 11:
		if len(ds) > 1 { // change a diagnostic that is not the first after sorting
			ds[len(ds)-1] = c11GenDiag(r)
		} else if !consoleSafe || c.Problem.Anchor == checks.AnchorBefore {
			c.Problem.Diagnostics = append(ds, c11GenDiag(r))
		}
		return c, "diag-later"
	case 12:
		c.Problem.Severity = checks.Severity(r.Intn(4))
		return c, "severity"
	case 13:
		c.Problem.Summary = pick(r, []string{"s1", "s2"})
		return c, "summary"
	case 14:
		c.Path.SymlinkTarget = pick(r, []string{c.Path.Name, "t.yml"})
		return c, "target"
	default:
		c.Problem.Reporter = pick(r, []string{"r/a", "r/b"})
		return c, "reporter"
	}
}

func c11GenStream(r *rand.Rand, rep *runReport) (stream []reporter.Report, consoleSafe bool, kind string) {
	consoleSafe = r.Intn(2) == 0
	n := 2 + r.Intn(5)
	kind = "small"
	switch r.Intn(12) {
	case 0:
		n = 21 + r.Intn(25) // beyond the insertion-sort block: symMerge
		kind = "long"
	case 1:
		n = 10 + r.Intn(10)
		kind = "medium"
	}
	base := 1 + r.Intn(3)
	if kind == "long" && r.Intn(2) == 0 {
		base = 8 + r.Intn(8)
	}
	for i := 0; i < base; i++ {
		stream = append(stream, c11GenReport(r, consoleSafe))
	}
	for len(stream) < n {
		if r.Intn(5) == 0 {
			stream = append(stream, c11GenReport(r, consoleSafe))
			continue
		}
		m, what := c11Mutate(r, stream[r.Intn(len(stream))], consoleSafe)
		rep.hist("mutation=" + what)
		stream = append(stream, m)
	}
	r.Shuffle(len(stream), func(i, j int) { stream[i], stream[j] = stream[j], stream[i] })
	return stream, consoleSafe, kind
}

// ------------------------------------------------------------------------------------------------
// regression scenario for fix 1588b37 (corpus/C11/pos-tie): before it, isSameDiagnostics ignored Diagnostic.Pos and
// the two problems below folded into one, the surviving caret position depending on the schedule.
// two label blocks differing only in token/required; block 1 reports the value of ka, block 2 the value of kb:
// same line, same columns inside the value, same message, different Pos
func c11PosTieScenario(nrules int) c11Scenario {
	var b strings.Builder
	b.WriteString("groups:\n- name: g\n  rules:\n")
	for i := 0; i < nrules; i++ {
		fmt.Fprintf(&b, "  - alert: A%d\n    expr: up == 0\n    labels: {ka: abc, kb: '123'}\n", i)
	}
	cfg := "rule {\n  label \"k.*\" {\n    token = \"[a-z]+\"\n    value = \"good\"\n    required = true\n  }\n}\n" +
		"rule {\n  label \"k.*\" {\n    token = \"[0-9]+\"\n    value = \"good\"\n    required = false\n  }\n}\n"
	return c11Scenario{Files: map[string]string{"rules/0.yml": b.String()}, Config: cfg, Kind: "pos-tie-witness"}
}

// ------------------------------------------------------------------------------------------------
// B. the real pipeline, job by job

type c11Scenario struct {
	Files   map[string]string `json:"files"`
	Config  string            `json:"config"`
	Kind    string            `json:"kind"`
	Symlink string            `json:"symlink,omitempty"` // rules/<Symlink> -> 0.yml
	// ci mode: BaseFiles are committed on main, Files on a branch; pint ci compares them (rule/dependency runs for removed rules)
	BaseFiles map[string]string `json:"base_files,omitempty"`
}

func c11RuleText(r *rand.Rand, i int) string {
	var b strings.Builder
	name := fmt.Sprintf("r%d", i)
	expr := pick(r, []string{"up == 0", "up{job=\"a\"} == 0", "sum(foo) by(job) > 0", "rate(errors_total[5m]) > 0", "foo / bar", "sum(" /* syntax */, "up",
		"foo{job=~\"bar\"} > 0" /* promql/regexp */, "sum(foo) without(job) > 0", "sum(errors) / sum(requests) > 0.1" /* fragile */, "foo{job=~\"a\", instance=~\"b\"} == 1",
		"absent(foo{job=\"x\"})", "count(foo) > 0 or count(bar) > 0", "sum(rate(foo[1m])) by(instance) > 0",
		"sum(foo) by(cluster) > 0" /* aggregate keep */, "sum(foo{a=\"1\"}) by(job, instance, team) > 0" /* aggregate strip */, "sum(foo)", "count(bar) without(job, env) > 1",
		"foo{job=~\"service_.*_prod\"} > 0" /* smelly regexp */, "sum(foo{instance=~\"a.*b.*c\", job=~\".+_prod\"}) > 1", "foo{job=~\"prod.*|staging.*\"} == 0"})
	if r.Intn(2) == 0 {
		fmt.Fprintf(&b, "  - alert: %s\n    expr: %s\n", name, expr)
		if r.Intn(3) == 0 {
			fmt.Fprintf(&b, "    for: %s\n", pick(r, []string{"1m", "5m", "0s", "abc"}))
		}
		if r.Intn(6) == 0 { // flow mapping: several values on one line (position-only differences between reports)
			fmt.Fprintf(&b, "    labels: {ka: %s, kb: '%s', team: %s}\n", pick(r, []string{"abc", "ab", "good"}), pick(r, []string{"123", "12", "1234"}), pick(r, []string{"a", "b", "xyz"}))
		} else if r.Intn(2) == 0 {
			b.WriteString("    labels:\n")
			if r.Intn(2) == 0 {
				fmt.Fprintf(&b, "      team: %s\n", pick(r, []string{"a", "b", "c"}))
			}
			if r.Intn(2) == 0 {
				fmt.Fprintf(&b, "      severity: %s\n", pick(r, []string{"page", "ticket"}))
			} else {
				b.WriteString("      other: x\n")
			}
		}
		if r.Intn(2) == 0 {
			fmt.Fprintf(&b, "    annotations:\n      summary: %s\n", pick(r, []string{"x", "\"{{ $labels.job }} down\"", "\"{{ $value }}\"", "\"{{ $labels.job }} on {{ $labels.instance }} {{ $labels.missing }}\""}))
		}
	} else {
		fmt.Fprintf(&b, "  - record: %s\n    expr: %s\n", pick(r, []string{name, "job:" + name + ":sum"}), expr)
		if r.Intn(3) == 0 {
			fmt.Fprintf(&b, "    labels:\n      team: %s\n", pick(r, []string{"a", "b"}))
		}
	}
	return b.String()
}

func c11Block(r *rand.Rand, k int) string {
	sev := pick(r, []string{"info", "warning", "bug", "fatal"})
	var body string
	switch r.Intn(7) {
	case 6: // two blocks with the same key/value regexps, different token (in no message, not in String()) and required
		key := pick(r, []string{"k.*", "k.*", "ka|kb", "team|k."})
		val := pick(r, []string{"good", "a", "[0-9]+"})
		return fmt.Sprintf("rule {\n  label %q {\n    token = %q\n    value = %q\n    required = true\n    severity = %q\n  }\n}\n", key, pick(r, []string{"[a-z]+", "\\w+"}), val, sev) +
			fmt.Sprintf("rule {\n  label %q {\n    token = %q\n    value = %q\n    required = false\n    severity = %q\n  }\n}\n", key, pick(r, []string{"[0-9]+", "[a-z0-9]+"}), val, sev)
	case 0, 1, 2:
		name := pick(r, []string{"team", "team", "severity", "owner"})
		body = fmt.Sprintf("  label %q {\n    required = true\n", name)
		if r.Intn(2) == 0 {
			body += fmt.Sprintf("    value = %q\n", pick(r, []string{"a", "b", "a|b", "x.+"}))
		}
		if r.Intn(3) > 0 {
			body += fmt.Sprintf("    comment = %q\n", pick(r, []string{"first", "second", "third"}))
		}
		body += fmt.Sprintf("    severity = %q\n  }\n", sev)
	case 3:
		body = fmt.Sprintf("  annotation %q {\n    required = true\n    comment = %q\n    severity = %q\n  }\n",
			pick(r, []string{"summary", "runbook"}), pick(r, []string{"first", "second"}), sev)
	case 4:
		body = fmt.Sprintf("  for {\n    min = %q\n    comment = %q\n    severity = %q\n  }\n", pick(r, []string{"2m", "10m"}), pick(r, []string{"first", "second"}), sev)
	default:
		body = fmt.Sprintf("  label \"marker_%d\" {\n    required = true\n    severity = %q\n  }\n", k, sev)
	}
	match := ""
	if r.Intn(4) == 0 {
		match = fmt.Sprintf("  match {\n    kind = %q\n  }\n", pick(r, []string{"alerting", "recording"}))
	}
	return "rule {\n" + match + body + "}\n"
}

func c11GenScenario(r *rand.Rand) c11Scenario {
	sc := c11Scenario{Files: map[string]string{}, Kind: "random"}
	nf := 1 + r.Intn(2)
	for f := 0; f < nf; f++ {
		var b strings.Builder
		b.WriteString("groups:\n- name: g\n")
		if ng := r.Intn(9) - 2; ng > 0 { // group-level labels shared by the rules of the group
			b.WriteString("  labels:\n")
			for k := 0; k < ng; k++ {
				key := fmt.Sprintf("glabel%d", k)
				if k == 0 && r.Intn(3) == 0 {
					key = pick(r, []string{"team", "severity"}) // collides with labels some rules set themselves (override)
				}
				fmt.Fprintf(&b, "    %s: gv%d\n", key, k)
			}
		}
		b.WriteString("  rules:\n")
		n := 2 + r.Intn(7)
		for i := 0; i < n; i++ {
			b.WriteString(c11RuleText(r, f*20+i))
		}
		if r.Intn(10) == 0 {
			b.WriteString("  - record: dup\n    expr: up\n    bogus: 1\n")
		}
		content := b.String()
		if r.Intn(4) == 0 {
			content = "# pint file/owner " + pick(r, []string{"alice", "bob"}) + "\n" + content
		}
		sc.Files[fmt.Sprintf("rules/%d.yml", f)] = content
	}
	if r.Intn(4) == 0 {
		sc.Symlink = "z_link.yml" // the same rules under a second path name: ties across paths, duplicate folding
		sc.Kind = "random+symlink"
	}
	var cfg strings.Builder
	nb := 1 + r.Intn(5)
	for k := 0; k < nb; k++ {
		blk := c11Block(r, k)
		cfg.WriteString(blk)
		if r.Intn(3) == 0 { // a second block differing only in comment/value/severity text: the tie maker
			blk2 := strings.NewReplacer("first", "second", "\"a\"", "\"b\"").Replace(blk)
			if r.Intn(2) == 0 { // ... or also / only in severity: identical text from two check instances, different severity
				if r.Intn(2) == 0 {
					blk2 = strings.NewReplacer("\"a\"", "\"b\"").Replace(blk)
				}
				for _, sv := range []string{"info", "warning", "bug", "fatal"} {
					if strings.Contains(blk2, "severity = \""+sv+"\"") {
						blk2 = strings.Replace(blk2, "severity = \""+sv+"\"", "severity = \""+pick(r, []string{"info", "warning", "bug"})+"\"", 1)
						break
					}
				}
			}
			cfg.WriteString(blk2)
		}
	}
	cfg.WriteString(c11CheckSettings(r))
	if r.Intn(3) == 0 {
		cfg.WriteString(c11MultiBlocks(r))
	}
	sc.Config = cfg.String()
	return sc
}

// regression scenario for fix 346020d (corpus/C11/aggregate-keep-two): an aggregate block with two labels to keep is two check
// instances; on `sum(foo) by(cluster)` each reports one problem per rule, the two share their first diagnostic
func c11AggregateTwoScenario(nrules int) c11Scenario {
	var b strings.Builder
	b.WriteString("groups:\n- name: g\n  rules:\n")
	for i := 0; i < nrules; i++ {
		fmt.Fprintf(&b, "  - record: r%d\n    expr: sum(foo) by(cluster)\n", i)
	}
	return c11Scenario{Files: map[string]string{"rules/0.yml": b.String()}, Kind: "aggregate-keep-two-witness",
		Config: "rule {\n  aggregate \".+\" {\n    keep = [\"job\", \"instance\"]\n  }\n}\n"}
}

// c11MultiBlocks: configuration blocks under which ONE rule gets several reports of the same reporter from DIFFERENT check
// instances (one instance per label / key / pattern): the reports tie on path, lines, reporter and often on summary and
// on their first diagnostic, so that the later sort keys and the later diagnostics decide.
func c11MultiBlocks(r *rand.Rand) string {
	var b strings.Builder
	labs := func() string {
		pool := []string{"job", "instance", "cluster", "team", "env"}
		r.Shuffle(len(pool), func(i, j int) { pool[i], pool[j] = pool[j], pool[i] })
		n := 2 + r.Intn(3)
		q := make([]string, n)
		for i := range q {
			q[i] = fmt.Sprintf("%q", pool[i])
		}
		return strings.Join(q, ", ")
	}
	if r.Intn(2) == 0 {
		fmt.Fprintf(&b, "rule {\n  aggregate \".+\" {\n    keep = [%s]\n  }\n}\n", labs())
	}
	if r.Intn(2) == 0 {
		fmt.Fprintf(&b, "rule {\n  aggregate \".+\" {\n    strip = [%s]\n  }\n}\n", labs())
	}
	if r.Intn(2) == 0 { // several required labels / annotations, same severity and comment
		for _, k := range []string{"team", "env", "owner"}[:2+r.Intn(2)] {
			fmt.Fprintf(&b, "rule {\n  label %q {\n    required = true\n  }\n}\n", k)
		}
	}
	if r.Intn(2) == 0 {
		for _, k := range []string{"summary", "runbook", "dashboard"}[:2+r.Intn(2)] {
			fmt.Fprintf(&b, "rule {\n  match {\n    kind = \"alerting\"\n  }\n  annotation %q {\n    required = true\n  }\n}\n", k)
		}
	}
	if r.Intn(2) == 0 { // several reject patterns hitting the same value
		b.WriteString("rule {\n  reject \".*a.*\" {\n    label_values = true\n    annotation_values = true\n  }\n  reject \"[a-z]+\" {\n    label_values = true\n    label_keys = true\n  }\n}\n")
	}
	if r.Intn(2) == 0 {
		b.WriteString("rule {\n  for {\n    min = \"2m\"\n  }\n  keep_firing_for {\n    min = \"3m\"\n  }\n}\n")
	}
	return b.String()
}

// regression scenario for fix bc86063 (corpus/C11/group-label-reject): rule/reject on a GROUP-level label reports once per rule of
// the group at the group label's line; the reports differ only in the rule they belong to
func c11GroupLabelRejectScenario(nrules int) c11Scenario {
	var b strings.Builder
	b.WriteString("groups:\n- name: g\n  labels:\n    severity: gv0\n  rules:\n")
	for i := 0; i < nrules; i++ {
		fmt.Fprintf(&b, "  - alert: r%d\n    expr: up == 0\n", i)
	}
	return c11Scenario{Files: map[string]string{"rules/0.yml": b.String()}, Kind: "group-label-reject-witness",
		Config: "rule {\n  reject \"[a-z]+[0-9]\" {\n    label_values = true\n  }\n}\n"}
}

// c11CheckSettings: `check "<name>" { ... }` blocks with non-default values for the checks that have settings. The decoded
// settings objects are shared by all workers through the context, so whatever a check does with them is schedule relevant.
func c11CheckSettings(r *rand.Rand) string {
	var b strings.Builder
	if r.Intn(2) == 0 {
		fmt.Fprintf(&b, "check \"promql/regexp\" {\n  smelly = %v\n}\n", r.Intn(3) == 0)
	}
	if r.Intn(3) == 0 {
		b.WriteString("check \"promql/series\" {\n  lookbackRange = \"3d\"\n  lookbackStep = \"10m\"\n  ignoreMetrics = [\"foo.*\", \"bar\"]\n  ignoreLabelsValue = { \"up\" = [\"instance\"] }\n  fallbackTimeout = \"1m\"\n}\n")
	}
	return b.String()
}

// c11BulkScenario: many rules cycling through every expression / field shape the offline checks react to, under a config
// that gives every check with settings a non-default settings block and every configurable check a rule block: each
// check runs many times concurrently on similar inputs (what shared mutable state needs in order to show).
func c11BulkScenario(r *rand.Rand, nrules int, smelly bool) c11Scenario {
	exprs := []string{"foo{job=~\"service_.*_prod\"} > 0", "sum(foo{instance=~\"a.*b.*c\"}) > 1", "up == 0", "foo{job=~\"bar\"} > 0", "sum(errors) / sum(requests) > 0.1",
		"sum(rate(foo[1m])) without(job) > 0", "foo{job=~\".+_prod\", cluster=~\"eu.*west.*\"} == 0", "up", "absent(foo{job=\"x\"})", "foo / bar",
		"count(foo{job=~\"a.*b\"}) > 0 or count(bar{job=~\"c.*d\"}) > 0", "sum(foo) by(cluster) > 0", "sum(foo) by(cluster, env, job) > 0"}
	var b strings.Builder
	// groups of 6 rules with 0..8 group-level labels (data every rule of the group shares); rules add their own label keys,
	// override a group label, or leave labels alone; annotations reference own, group and missing labels
	b.WriteString("groups:\n")
	glabels := 0
	for i := 0; i < nrules; i++ {
		if i%6 == 0 {
			glabels = (i / 6) % 9
			fmt.Fprintf(&b, "- name: bulk%d\n", i/6)
			if glabels > 0 {
				b.WriteString("  labels:\n")
				for k := 0; k < glabels; k++ {
					fmt.Fprintf(&b, "    glabel%d: gv%d\n", k, k)
				}
			}
			b.WriteString("  rules:\n")
		}
		e := exprs[i%len(exprs)]
		if i%4 == 3 {
			fmt.Fprintf(&b, "  - record: job:bulk%d:sum\n    expr: %s\n", i, strings.TrimSuffix(strings.TrimSuffix(strings.TrimSuffix(e, " > 0"), " == 0"), " > 1"))
			continue
		}
		fmt.Fprintf(&b, "  - alert: Bulk%d\n    expr: %s\n", i, e)
		if i%3 == 0 {
			fmt.Fprintf(&b, "    for: %s\n", pick(r, []string{"1m", "0s", "5m"}))
		}
		switch i % 5 {
		case 0:
			b.WriteString("    labels:\n      team: a\n")
		case 1, 2: // a key of its own (not a group label)
			fmt.Fprintf(&b, "    labels:\n      own%d: \"{{ $labels.job }}-%d\"\n", i, i)
		case 3: // overrides a group label (when the group has one) and adds one
			fmt.Fprintf(&b, "    labels:\n      glabel0: mine%d\n      extra%d: x\n", i, i)
		}
		if i%2 == 0 {
			fmt.Fprintf(&b, "    annotations:\n      summary: \"{{ $labels.job }} on {{ $labels.missing }} {{ $labels.own%d }} {{ $labels.glabel1 }}\"\n", i)
		}
	}
	cfg := fmt.Sprintf("check \"promql/regexp\" {\n  smelly = %v\n}\n", smelly) +
		"check \"promql/series\" {\n  lookbackRange = \"3d\"\n  lookbackStep = \"10m\"\n  ignoreMetrics = [\"foo.*\"]\n  fallbackTimeout = \"1m\"\n}\n" +
		"rule {\n  label \"team\" {\n    required = true\n    severity = \"warning\"\n  }\n}\n" +
		"rule {\n  match {\n    kind = \"alerting\"\n  }\n  annotation \"summary\" {\n    required = true\n  }\n  for {\n    min = \"2m\"\n  }\n}\n" +
		"rule {\n  aggregate \".+\" {\n    keep = [\"job\", \"instance\"]\n  }\n  aggregate \".+\" {\n    strip = [\"cluster\", \"env\"]\n  }\n  reject \".*prod.*\" {\n    label_values = true\n  }\n  name \"Bulk.*|job:.*\" {\n  }\n}\n"
	return c11Scenario{Files: map[string]string{"rules/0.yml": b.String()}, Config: cfg, Kind: fmt.Sprintf("bulk(smelly=%v)", smelly)}
}

// c11CIScenario: a git history for `pint ci`: main has recording rules other rules depend on, the branch removes some of
// them (rule/dependency runs once per removed rule, each reading the list of ALL entries the jobs share), optionally an
// invalid rule ahead of the valid ones and edits of a few alerts.
func c11CIScenario(r *rand.Rand, nalerts int) c11Scenario {
	nrec := 3 + r.Intn(4)
	recs := make([]string, nrec)
	for i := range recs {
		recs[i] = fmt.Sprintf("job:m%d:rate5m", i)
	}
	recFile := func(keep func(i int) bool) string {
		var b strings.Builder
		b.WriteString("groups:\n- name: recording\n  rules:\n  - record: job:up:sum\n    expr: sum(up) by(job)\n")
		for i, n := range recs {
			if keep(i) {
				fmt.Fprintf(&b, "  - record: %s\n    expr: sum(rate(m%d_total[5m])) by(job)\n", n, i)
			}
		}
		return b.String()
	}
	invalidFirst := r.Intn(2) == 0
	alerts := func(edit bool) string {
		var b strings.Builder
		b.WriteString("groups:\n- name: alerts\n  rules:\n")
		if invalidFirst {
			b.WriteString("  - alert: broken\n    for: 5m\n")
		}
		for i := 0; i < nalerts; i++ {
			thr := "0.1"
			if edit && i%7 == 0 {
				thr = "0.2"
			}
			fmt.Fprintf(&b, "  - alert: Alert%d\n    expr: %s{idx=\"%d\"} / %s{idx=\"%d\"} > %s\n", i, recs[i%nrec], i, recs[(i+1)%nrec], i, thr)
		}
		return b.String()
	}
	nrem := 2 + r.Intn(nrec-1)
	cfg := "ci {\n  baseBranch = \"main\"\n}\nparser {\n  include = [\"rules/.+.yml\"]\n  relaxed = [\".*\"]\n}\n" + c11CheckSettings(r)
	return c11Scenario{Kind: fmt.Sprintf("ci(removed=%d,invalid-first=%v)", nrem, invalidFirst), Config: cfg,
		BaseFiles: map[string]string{"rules/recording.yml": recFile(func(int) bool { return true }), "rules/alerts.yml": alerts(false)},
		Files:     map[string]string{"rules/recording.yml": recFile(func(i int) bool { return i >= nrem }), "rules/alerts.yml": alerts(r.Intn(2) == 0)}}
}

// the design-session witness: two label blocks differing only in value/comment, many rules without the label
func c11TieScenario(nrules int) c11Scenario {
	var b strings.Builder
	b.WriteString("groups:\n- name: g\n  rules:\n")
	for i := 0; i < nrules; i++ {
		fmt.Fprintf(&b, "  - alert: a%d\n    expr: up == 0\n    labels:\n      other: x\n", i)
	}
	cfg := "rule {\n  label \"team\" {\n    required = true\n    value = \"a\"\n    comment = \"first\"\n  }\n}\n" +
		"rule {\n  label \"team\" {\n    required = true\n    value = \"b\"\n    comment = \"second\"\n  }\n}\n"
	return c11Scenario{Files: map[string]string{"rules/0.yml": b.String()}, Config: cfg, Kind: "tie-witness"}
}

// c11Jobs replicates cmd/pint checkRules + scanWorker without the channels: one job per (entry, check),
// in the order the producer goroutine enqueues them; a job's reports keep their order.
func c11Jobs(dir string) (jobs [][]reporter.Report, err error) {
	defer func() {
		if e := recover(); e != nil {
			err = fmt.Errorf("panic in the check pipeline: %v", e)
		}
	}()
	cfg, _, err := config.Load(".pint.hcl", true)
	if err != nil {
		return nil, err
	}
	cfg.Parser.Exclude = append(cfg.Parser.Exclude, ".pint.hcl")
	cfg.SetDisabledChecks(nil)
	schema := parser.PrometheusSchema
	if cfg.Parser.Schema == config.SchemaThanos {
		schema = parser.ThanosSchema
	}
	names := model.UTF8Validation
	if cfg.Parser.Names == config.NamesLegacy {
		names = model.LegacyValidation
	}
	finder := discovery.NewGlobFinder([]string{"rules"},
		pgit.NewPathFilter(config.MustCompileRegexes(cfg.Parser.Include...), config.MustCompileRegexes(cfg.Parser.Exclude...), config.MustCompileRegexes(cfg.Parser.Relaxed...)),
		schema, names, cfg.Owners.CompileAllowed())
	entries, err := finder.Find()
	if err != nil {
		return nil, err
	}
	ctx := context.WithValue(context.Background(), config.CommandKey, config.LintCommand)
	gen := config.NewPrometheusGenerator(cfg, prometheus.NewRegistry())
	defer gen.Stop()
	if err = gen.GenerateStatic(); err != nil {
		return nil, err
	}
	for _, s := range cfg.Check {
		settings, _ := s.Decode()
		ctx = context.WithValue(ctx, checks.SettingsKey(s.Name), settings)
	}
	for _, entry := range entries {
		switch {
		case entry.PathError != nil && entry.State == discovery.Removed:
			continue
		case entry.Rule.Error.Err != nil && entry.State == discovery.Removed:
			continue
		}
		for _, check := range cfg.GetChecksForEntry(ctx, gen, entry) {
			var job []reporter.Report
			for _, problem := range check.Check(ctx, entry, entries) {
				job = append(job, reporter.Report{Path: entry.Path, ModifiedLines: entry.ModifiedLines, Rule: entry.Rule, Problem: problem, Owner: entry.Owner})
			}
			jobs = append(jobs, job)
		}
	}
	return jobs, nil
}

// c11Interleave draws an arrival order consistent with per-job order: any merge of the job sequences.
func c11Interleave(r *rand.Rand, jobs [][]int, mode int) []int {
	js := make([][]int, 0, len(jobs))
	for _, j := range jobs {
		if len(j) > 0 {
			js = append(js, j)
		}
	}
	if mode == 1 { // jobs complete in reverse order
		var out []int
		for i := len(js) - 1; i >= 0; i-- {
			out = append(out, js[i]...)
		}
		return out
	}
	if mode == 2 { // jobs complete in a random order, each job's reports contiguous
		r.Shuffle(len(js), func(i, j int) { js[i], js[j] = js[j], js[i] })
		var out []int
		for _, j := range js {
			out = append(out, j...)
		}
		return out
	}
	pos := make([]int, len(js))
	var out []int
	live := len(js)
	for live > 0 {
		k := r.Intn(len(js))
		if pos[k] >= len(js[k]) {
			continue
		}
		out = append(out, js[k][pos[k]])
		pos[k]++
		if pos[k] == len(js[k]) {
			live--
		}
	}
	return out
}

func c11FilterStderr(s string) string {
	var out []string
	for _, l := range strings.Split(s, "\n") {
		if strings.HasPrefix(l, "level=") {
			continue
		}
		out = append(out, l)
	}
	return strings.Join(out, "\n")
}

// ------------------------------------------------------------------------------------------------

func c11WriteScenario(dir string, sc c11Scenario) {
	os.RemoveAll(dir)
	if sc.BaseFiles != nil {
		for p, c := range sc.BaseFiles {
			writeFile(filepath.Join(dir, p), c)
		}
		writeFile(filepath.Join(dir, ".pint.hcl"), sc.Config)
		git(dir, "init", "-q", "--initial-branch=main", ".")
		git(dir, "add", ".")
		git(dir, "commit", "-q", "-m", "base")
		git(dir, "checkout", "-q", "-b", "feature")
		for p := range sc.BaseFiles {
			if _, ok := sc.Files[p]; !ok {
				os.Remove(filepath.Join(dir, p))
			}
		}
		for p, c := range sc.Files {
			writeFile(filepath.Join(dir, p), c)
		}
		git(dir, "add", "-A", ".")
		git(dir, "commit", "-q", "-m", "change")
		return
	}
	for p, c := range sc.Files {
		writeFile(filepath.Join(dir, p), c)
	}
	writeFile(filepath.Join(dir, ".pint.hcl"), sc.Config)
	if sc.Symlink != "" {
		must(os.Symlink("0.yml", filepath.Join(dir, "rules", sc.Symlink)))
	}
}

func c11IdentityPerm(n int) []int {
	p := make([]int, n)
	for i := range p {
		p[i] = i
	}
	return p
}

type c11Synth struct {
	Stream []c11Rep `json:"stream"`
	Outs   []c11Out `json:"arrangements"`
	H1     bool     `json:"h1"`
	H2     bool     `json:"h2"`
}

func runC11(args []string) int {
	n := argInt(args, "--n", 100)         // synthetic streams
	nperm := argInt(args, "--perms", 12)  // permutations per stream
	nscen := argInt(args, "--scen", 20)   // real-pipeline scenarios
	nbin := argInt(args, "--bin", 6)      // scenarios also run through the binary with several worker counts
	race := argInt(args, "--race", 0)     // thorough: run a -race build of pint (PINT_RACE_BIN) over worker counts
	seed := seedFromEnv()
	r := rand.New(rand.NewSource(seed))
	rep := newReport("C11", seed)
	rep.Rule = "case = one report stream with its arrival orders run through the real Summary.Report/SortReports/Dedup/CountBySeverity and the JSON/console reporters; " +
		"synthetic streams are built from a few base reports plus single-field near-copies (details, owner, lines, rule, anchor, diagnostic order/position/duplication/message/column, severity, summary, target, reporter); " +
		"real streams come from the real config/discovery/check pipeline on generated rule files and configs with tie-making rule blocks, replayed under job-order-preserving interleavings; " +
		"non-trivial = at least two reports of the stream tie on >= 5 of the 7 scalar sort keys; distinct = the described stream"
	slog.SetDefault(slog.New(slog.NewTextHandler(io.Discard, nil)))
	cwd, _ := os.Getwd()
	cw := newCaseWriter(cwd, "Run.C11", 10)
	cw.preamble = "Open Scope N_scope.\n"
	caseID := 0

	// files the console reporter reads for synthetic AnchorAfter reports
	sdir := filepath.Join(cwd, "synth")
	var content strings.Builder
	for i := 1; i <= 60; i++ {
		fmt.Fprintf(&content, "L%d\n", i)
	}
	for _, p := range []string{"a.yml", "b.yml", "t.yml"} {
		writeFile(filepath.Join(sdir, p), content.String())
	}

	emit := func(kind string, stream []reporter.Report, outs []c11Out, jsonFor int, scen any) {
		desc := c11Describe(stream)
		iseq, h1, h2 := c11Hyps(stream, desc)
		rs := make([]string, len(desc))
		for i, d := range desc {
			rs[i] = c11CoqReport(d)
		}
		bs := make([]string, len(iseq))
		for i, b := range iseq {
			bs[i] = coqBool(b)
		}
		as := make([]string, len(outs))
		for i, o := range outs {
			as[i] = c11CoqArr(o, i < jsonFor)
		}
		cw.add(fmt.Sprintf("{| c_id := %s; c_stream := %s; c_iseq := %s; c_h1 := %s; c_h2 := %s; c_arr := %s |}",
			coqN(caseID), coqList(rs), coqList(bs), coqBool(h1), coqBool(h2), coqList(as)))
		// non-triviality: two reports tie on >= 5 of the 7 scalar keys
		nontrivial := false
		for i := range desc {
			for j := i + 1; j < len(desc); j++ {
				a, b := desc[i], desc[j]
				t := 0
				for _, e := range []bool{a.Path == b.Path, a.LFirst == b.LFirst, a.LLast == b.LLast, a.Sev == b.Sev, a.Reporter == b.Reporter, a.Summary == b.Summary, a.Details == b.Details} {
					if e {
						t++
					}
				}
				if t >= 5 {
					nontrivial = true
				}
			}
		}
		rep.count(fmt.Sprintf("%+v", desc), nontrivial)
		rep.hist("kind=" + kind)
		rep.hist(fmt.Sprintf("%s:H1=%v,H2=%v", kind, h1, h2))
		switch l := len(stream); {
		case l <= 1:
			rep.hist("len<=1")
		case l <= 8:
			rep.hist("len=2..8")
		case l <= 20:
			rep.hist("len=9..20")
		default:
			rep.hist("len>20(symMerge)")
		}
		if len(rep.Cases) < 400 {
			rep.Cases[fmt.Sprint(caseID)] = map[string]any{"kind": kind, "stream": desc, "h1": h1, "h2": h2, "arrangements": outs, "scenario": scen}
		}
		caseID++
	}

	// ---- corpus: Summary-level witnesses (design session) -------------------------------------
	must(os.Chdir(sdir))
	{
		base := reporter.Report{Path: discovery.Path{Name: "a.yml", SymlinkTarget: "a.yml"}, Rule: c11RulePool[0],
			Problem: checks.Problem{Reporter: "r/a", Summary: "s1", Lines: diags.LineRange{First: 1, Last: 3}, Severity: checks.Warning, Anchor: checks.AnchorBefore}}
		a, b := base, base
		a.Problem.Details, b.Problem.Details = "first", "second"
		c, d := base, base
		d.Problem.Lines.Last = 2
		e, f := base, base
		e.Owner, f.Owner = "o1", "o2"
		x := diags.Diagnostic{Message: "m1", FirstColumn: 1, LastColumn: 2}
		y := diags.Diagnostic{Message: "m2", FirstColumn: 1, LastColumn: 2}
		g, h := base, base
		g.Problem.Diagnostics = []diags.Diagnostic{x, x}
		h.Problem.Diagnostics = []diags.Diagnostic{x, y}
		for _, st := range [][]reporter.Report{{a, b}, {c, d}, {e, f}, {g, h}, {a, b, c, d, e, f, g, h}} {
			desc := c11Describe(st)
			var outs []c11Out
			perms := [][]int{c11IdentityPerm(len(st))}
			rev := c11IdentityPerm(len(st))
			for i, j := 0, len(rev)-1; i < j; i, j = i+1, j-1 {
				rev[i], rev[j] = rev[j], rev[i]
			}
			perms = append(perms, rev)
			for _, p := range perms {
				outs = append(outs, c11RunReal(st, desc, p, true, false, 0))
			}
			emit("corpus", st, outs, len(outs), nil)
		}
	}

	// ---- A. synthetic ------------------------------------------------------------------------
	for k := 0; k < n; k++ {
		stream, consoleSafe, kind := c11GenStream(r, rep)
		desc := c11Describe(stream)
		_, h1, h2 := c11Hyps(stream, desc)
		var outs []c11Out
		np := nperm
		if kind == "long" {
			np = nperm/3 + 1
		}
		showDups := r.Intn(2) == 0
		minSev := r.Intn(3)
		var first string
		differs := false
		for q := 0; q < np; q++ {
			p := c11IdentityPerm(len(stream))
			if q > 0 {
				r.Shuffle(len(p), func(i, j int) { p[i], p[j] = p[j], p[i] })
			}
			o := c11RunReal(stream, desc, p, consoleSafe, showDups, minSev)
			if o.Err != "" {
				rep.fail(fmt.Sprint(caseID), "real Summary/renderers failed on a synthetic stream: "+o.Err, map[string]any{"stream": desc, "perm": p})
			}
			obs := c11Observable(o, desc)
			if q == 0 {
				first = obs
			} else if obs != first {
				differs = true
			}
			outs = append(outs, o)
		}
		if differs {
			rep.hist("synthetic:output-depends-on-arrival")
			if h1 && h2 {
				// the theorem says this cannot happen for the model: the implementation deviates
				rep.fail(fmt.Sprint(caseID), "H1 and H2 hold (real isEqual) yet the rendered result depends on the arrival order",
					c11Synth{Stream: desc, Outs: outs, H1: h1, H2: h2})
			}
		}
		emit("synthetic-"+kind, stream, outs, 3, nil)
	}

	// ---- B/C. real pipeline --------------------------------------------------------------------
	bulkN, ciN := 66, 40
	if race > 0 { // thorough: big enough for lost updates to become visible in the output, not only to the race detector
		bulkN, ciN = 330, 1500
	}
	// two label blocks with different String() (value) whose problems on a rule without the label have identical text and
	// differ only in severity
	sevTie := c11TieScenario(12)
	sevTie.Config = "rule {\n  label \"team\" {\n    required = true\n    value = \"a\"\n    severity = \"warning\"\n  }\n}\n" +
		"rule {\n  label \"team\" {\n    required = true\n    value = \"b\"\n    severity = \"bug\"\n  }\n}\n"
	sevTie.Kind = "severity-tie-witness"
	scens := []c11Scenario{c11TieScenario(6), c11TieScenario(40), sevTie, c11PosTieScenario(1), c11PosTieScenario(12),
		c11BulkScenario(r, bulkN, false), c11BulkScenario(r, bulkN, true), c11CIScenario(r, ciN), c11AggregateTwoScenario(1), c11AggregateTwoScenario(16), c11GroupLabelRejectScenario(2), c11GroupLabelRejectScenario(14)}
	nfixed := len(scens)
	for len(scens) < nscen {
		if len(scens)%6 == 5 {
			scens = append(scens, c11CIScenario(r, 10+r.Intn(40)))
			continue
		}
		scens = append(scens, c11GenScenario(r))
	}
	// scenarios in which every check runs many times concurrently: always through the binary, more repetitions, race build
	heavy := func(sc c11Scenario) bool {
		return sc.BaseFiles != nil || strings.HasPrefix(sc.Kind, "bulk") || strings.HasSuffix(sc.Kind, "witness")
	}
	raceBin := os.Getenv("PINT_RACE_BIN")
	type binOut struct {
		Workers int    `json:"workers"`
		Exit    int    `json:"exit"`
		JSON    string `json:"json"`
		Stderr  string `json:"stderr"`
	}
	runBinary := func(si int, dir string, sc c11Scenario, inProcessJSON *string) {
		args := func(w int, jp string) []string {
			if sc.BaseFiles != nil {
				return []string{"--no-color", "--offline", "-c", ".pint.hcl", "--workers", fmt.Sprint(w), "ci", "--json", jp}
			}
			return []string{"--no-color", "-c", ".pint.hcl", "--workers", fmt.Sprint(w), "lint", "--json", jp, "rules"}
		}
		var ref *binOut
		runs := []int{1, 4, 16, 16, 64}
		full := race > 0 && si < nfixed // thorough: the fixed heavy scenarios get the long repetitions and the whole race matrix
		if heavy(sc) {
			runs = []int{1, 2, 4, 16, 64, 16, 4, 2, 64, 16}
			if full {
				runs = append(runs, 2, 4, 8, 16, 32, 64, 16, 4, 2, 16, 64, 8, 4, 2, 16)
			}
		}
		for _, w := range runs {
			jp := filepath.Join(dir, fmt.Sprintf("out_%d.json", w))
			os.Remove(jp)
			rc, _, se := runPint(dir, args(w, jp)...)
			jb, _ := os.ReadFile(jp)
			bo := binOut{Workers: w, Exit: rc, JSON: string(jb), Stderr: c11FilterStderr(se)}
			rep.hist("binary-run")
			if sc.BaseFiles != nil {
				rep.hist("binary-run(ci)")
			}
			if rc < 0 || rc > 1 {
				rep.fail(fmt.Sprintf("scen%d-w%d", si, w), fmt.Sprintf("pint crashed or timed out with --workers %d (exit %d)", w, rc), map[string]any{"scenario": sc, "stderr": se})
				break
			}
			if ref == nil {
				ref = &bo
				// the in-process replica of the pipeline must agree with the binary (validates stream recording)
				if inProcessJSON != nil && strings.TrimSpace(bo.JSON) != strings.TrimSpace(*inProcessJSON) {
					rep.Notes = append(rep.Notes, fmt.Sprintf("scenario %d: in-process JSON differs from the binary's --workers 1 JSON", si))
					rep.hist("real:inprocess!=binary")
				}
				continue
			}
			if bo.Exit != ref.Exit || bo.JSON != ref.JSON || bo.Stderr != ref.Stderr {
				what := fmt.Sprintf("pint output differs between --workers 1 and --workers %d", w)
				c := map[string]any{"scenario": sc, "run_a": ref, "run_b": bo}
				rep.fail(fmt.Sprintf("scen%d-w%d", si, w), what, c)
				break
			}
		}
		// data races: a -race build of the same tree; any report of the detector is a failure with the scenario as replay
		if raceBin == "" || !(heavy(sc) || race > 0) {
			return
		}
		ws, procs := []int{4, 16}, []string{""}
		if full {
			ws, procs = []int{1, 2, 4, 16, 64}, []string{"1", "4", "16"}
		}
		for _, w := range ws {
			for _, pr := range procs {
				env := append([]string{"NO_COLOR=1", "GITHUB_ACTION=", "GITHUB_BASE_REF=", "GITHUB_EVENT_NAME=", "GITHUB_REF=", "GORACE=halt_on_error=0"}, gitEnv...)
				if pr != "" {
					env = append(env, "GOMAXPROCS="+pr)
				}
				rc, _, se := runCmd(dir, 0+300e9, env, raceBin, args(w, filepath.Join(dir, "race.json"))...)
				rep.hist("race-run")
				if strings.Contains(se, "DATA RACE") || rc == 66 {
					k := strings.Index(se, "WARNING: DATA RACE")
					if k < 0 {
						k = 0
					}
					end := k + 2500
					if end > len(se) {
						end = len(se)
					}
					rep.fail(fmt.Sprintf("scen%d-race", si), fmt.Sprintf("data race reported by the race detector with --workers %d GOMAXPROCS=%q", w, pr),
						map[string]any{"scenario": sc, "race_report": se[k:end]})
					return
				}
			}
		}
	}
	base := filepath.Join(cwd, "scen")
	for si, sc := range scens {
		dir := filepath.Join(base, fmt.Sprintf("s%03d", si))
		c11WriteScenario(dir, sc)
		must(os.Chdir(dir))
		if sc.BaseFiles != nil { // pint ci: no in-process replica of the git finder; binary and race runs only
			rep.count(fmt.Sprintf("%+v", sc), true)
			rep.hist("kind=ci(binary only)")
			runBinary(si, dir, sc, nil)
			continue
		}
		jobs, err := c11Jobs(dir)
		if err != nil {
			rep.hist("real:pipeline-error")
			rep.Notes = append(rep.Notes, fmt.Sprintf("scenario %d: %v", si, err))
			continue
		}
		var stream []reporter.Report
		var jidx [][]int
		for _, j := range jobs {
			var ix []int
			for _, rr := range j {
				ix = append(ix, len(stream))
				stream = append(stream, rr)
			}
			jidx = append(jidx, ix)
		}
		if len(stream) > 60 && !heavy(sc) {
			rep.hist("real:stream-too-long-skipped")
			continue
		}
		desc := c11Describe(stream)
		for _, d := range desc {
			rep.hist("real-reporter=" + d.Reporter)
		}
		_, h1, h2 := c11Hyps(stream, desc)
		// J-loc, measured only (it is FALSE for problems located on group-level data, see corpus/C11/group-label-reject): reports for the same file and line range come from
		// entries that agree on symlink target, owner and rule identity
		jloc := true
		for i := range desc {
			for j := range desc {
				a, b := desc[i], desc[j]
				if a.Path == b.Path && a.LFirst == b.LFirst && a.LLast == b.LLast && (a.Target != b.Target || a.Owner != b.Owner || a.Rule != b.Rule) {
					jloc = false
				}
			}
		}
		rep.hist(fmt.Sprintf("real:J-loc=%v", jloc))
		// which reporters give ONE rule several reports from DIFFERENT jobs (check instances) in this scenario, and whether
		// two of them tie on the seven scalar keys and share the first diagnostic (what the pre-346020d comparator could not order)
		jobOf := make([]int, len(stream))
		for jn, ix := range jidx {
			for _, k := range ix {
				jobOf[k] = jn
			}
		}
		multi, tieFirst := map[string]bool{}, map[string]bool{}
		for i := range desc {
			for j := i + 1; j < len(desc); j++ {
				a, b := desc[i], desc[j]
				if jobOf[i] == jobOf[j] || a.Path != b.Path || a.Rule != b.Rule || a.Reporter != b.Reporter {
					continue
				}
				multi[a.Reporter] = true
				da, db := c11FullSortedDiags(a.Diags), c11FullSortedDiags(b.Diags)
				if a.LFirst == b.LFirst && a.LLast == b.LLast && a.Sev == b.Sev && a.Summary == b.Summary && a.Details == b.Details &&
					len(da) > 0 && len(db) > 0 && da[0] == db[0] && !reflect.DeepEqual(da, db) {
					tieFirst[a.Reporter] = true
				}
			}
		}
		for k := range multi {
			rep.hist("real:several-jobs-report-one-rule:" + k)
		}
		for k := range tieFirst {
			rep.hist("real:tie-on-keys-and-first-diagnostic:" + k)
		}
		np := nperm
		if !(h1 && h2) {
			np = nperm * 4 // hypotheses fail on a real stream: search harder
		}
		if len(stream) > 40 {
			np = 6
		}
		var outs []c11Out
		var first string
		var firstOut c11Out
		for q := 0; q < np; q++ {
			p := c11IdentityPerm(len(stream))
			if q > 0 {
				p = c11Interleave(r, jidx, q%4)
			}
			o := c11RunReal(stream, desc, p, true, false, int(checks.Warning))
			obs := c11Observable(o, desc)
			if q == 0 {
				first, firstOut = obs, o
			} else if obs != first {
				what := fmt.Sprintf("the result of the real check pipeline depends on the arrival order of reports (H1=%v H2=%v): workers=1 order vs an interleaving give different output", h1, h2)
				c := map[string]any{"scenario": sc, "stream": desc, "order_a": firstOut, "order_b": o}
				rep.fail(fmt.Sprintf("scen%d", si), what, c)
				rep.hist("real:output-depends-on-arrival")
				outs = append(outs, o)
				break
			}
			o.HasCons = false // console text of real streams is compared by the oracle only
			outs = append(outs, o)
		}
		if len(stream) <= 45 {
			emit("real", stream, outs, 2, sc)
		} else {
			rep.count(fmt.Sprintf("%+v", desc), true)
			rep.hist("kind=real(oracle only)")
			rep.hist(fmt.Sprintf("real:H1=%v,H2=%v", h1, h2))
		}
		// C. the binary across worker counts
		if si < nbin || heavy(sc) {
			runBinary(si, dir, sc, &firstOut.JSONText)
		}
	}
	must(os.Chdir(cwd))
	cw.flush()
	rep.CaseFiles = cw.files
	for k, c := range rep.Cases {
		if m, ok := c.(map[string]any); ok && m["kind"] == "real" && len(rep.Samples) < 2 {
			_ = k
			rep.sample(map[string]any{"kind": "real", "scenario": m["scenario"], "stream_len": len(m["stream"].([]c11Rep)), "h1": m["h1"], "h2": m["h2"]})
		}
	}
	rep.write(filepath.Join(cwd, "report.json"))
	os.RemoveAll(base)
	return 0
}

func init() { register("C11", runC11) }
