//go:build verif

package main

// Structured generators: PromQL expressions (type-directed text, validated by the REAL parser) over
// 3 metrics x 5 labels, and small databases (label-subset grid; db_total ones carry every label).

import (
	"fmt"
	"math/rand"
	"strings"

	"github.com/prometheus/prometheus/model/labels"
	promParser "github.com/prometheus/prometheus/promql/parser"
)

var (
	pqLabels  = []string{"a", "b", "c", "job", "d"}
	pqMetrics = []string{"foo", "bar", "baz"}
	pqValues  = []string{"1", "2"}
)

type pqGen struct {
	r     *rand.Rand
	depth int
	bias  string // "C04" or "C12": C12 leans towards joins / set operators / comparisons of constants
	hist  func(string)
}

func (g *pqGen) p(n int) bool { return g.r.Intn(n) == 0 }

func (g *pqGen) label() string { return pick(g.r, pqLabels) }

func (g *pqGen) labelSubset(max int, allowName bool) []string {
	n := g.r.Intn(max + 1)
	seen := map[string]bool{}
	out := []string{}
	for i := 0; i < n; i++ {
		l := g.label()
		if allowName && g.p(12) {
			l = "__name__"
		}
		if !seen[l] {
			seen[l] = true
			out = append(out, l)
		}
	}
	return out
}

func (g *pqGen) selector() string {
	m := pick(g.r, pqMetrics)
	n := g.r.Intn(3)
	if g.p(3) {
		n = 0
	}
	ms := []string{}
	used := map[string]bool{}
	for i := 0; i < n; i++ {
		l := g.label()
		if used[l] {
			// one matcher per label name: Node.String() sorts matchers, and absent() treats duplicated names specially
			continue
		}
		used[l] = true
		switch g.r.Intn(12) {
		case 0, 1, 2, 3:
			ms = append(ms, fmt.Sprintf(`%s="%s"`, l, pick(g.r, pqValues)))
		case 4:
			ms = append(ms, fmt.Sprintf(`%s=""`, l))
		case 5:
			ms = append(ms, fmt.Sprintf(`%s!=""`, l))
		case 6:
			ms = append(ms, fmt.Sprintf(`%s!="%s"`, l, pick(g.r, pqValues)))
		case 7:
			ms = append(ms, fmt.Sprintf(`%s=~"1|2"`, l))
		case 8:
			ms = append(ms, fmt.Sprintf(`%s=~".*"`, l))
		case 9:
			ms = append(ms, fmt.Sprintf(`%s=~".+"`, l))
		case 10:
			ms = append(ms, fmt.Sprintf(`%s!~"%s"`, l, pick(g.r, pqValues)))
		case 11:
			ms = append(ms, fmt.Sprintf(`%s=~"%s|"`, l, pick(g.r, pqValues)))
		}
	}
	g.hist("node:selector")
	if g.p(15) {
		// {__name__="foo", ...} form
		ms = append([]string{fmt.Sprintf(`__name__="%s"`, m)}, ms...)
		return "{" + strings.Join(ms, ", ") + "}"
	}
	if len(ms) == 0 {
		return m
	}
	return m + "{" + strings.Join(ms, ", ") + "}"
}

func (g *pqGen) number() string {
	return pick(g.r, []string{"0", "1", "2", "5", "1", "2", "0.5", "10"})
}

func (g *pqGen) matrix(d int) string {
	off := ""
	if g.p(6) {
		off = " offset 5m"
	}
	if d > 0 && g.p(4) {
		g.hist("node:subquery")
		return "(" + g.vec(d-1) + ")[5m:1m]" + off
	}
	g.hist("node:matrix")
	return g.selector() + "[5m]" + off
}

var pqAggOps = []string{"sum", "min", "max", "avg", "count", "group", "stddev", "stdvar"}
var pqPreserve1 = []string{"abs", "ceil", "floor", "exp", "ln", "sqrt", "sgn", "timestamp", "deg", "rad", "log2", "round", "sort", "sort_desc", "cos", "tanh"}
var pqRangeFns = []string{"rate", "increase", "delta", "irate", "idelta", "deriv", "changes", "resets", "avg_over_time", "count_over_time",
	"last_over_time", "max_over_time", "min_over_time", "present_over_time", "sum_over_time", "stddev_over_time", "stdvar_over_time"}
var pqTimeFns = []string{"hour", "minute", "month", "year", "day_of_month", "day_of_week", "day_of_year", "days_in_month"}
var pqArith = []string{"+", "-", "*", "/", "%", "^"}
var pqCmp = []string{"==", "!=", ">", "<", ">=", "<="}

func (g *pqGen) grouping(kw string, allowName bool) string {
	return fmt.Sprintf("%s(%s)", kw, strings.Join(g.labelSubset(3, allowName), ", "))
}

func (g *pqGen) aggregation(d int) string {
	inner := g.vec(d - 1)
	mod := ""
	switch g.r.Intn(5) {
	case 0:
	case 1, 2:
		mod = g.grouping("by", true)
	default:
		mod = g.grouping("without", true)
	}
	var head, body string
	switch g.r.Intn(14) {
	case 0:
		head, body = "quantile", "0.5, "+inner
	case 1:
		head, body = pick(g.r, []string{"topk", "bottomk"}), "1, "+inner
	case 2:
		dst := pick(g.r, []string{"cv", "a", "job", "cv", "a", "__name__"})
		lit := fmt.Sprintf(`"%s"`, dst)
		if g.p(5) {
			lit = "(" + lit + ")" // the parser accepts a parenthesised string literal
		}
		head, body = "count_values", fmt.Sprintf(`%s, %s`, lit, inner)
	default:
		head, body = pick(g.r, pqAggOps), inner
	}
	g.hist("node:agg:" + head)
	if mod != "" {
		g.hist("agg:" + strings.SplitN(mod, "(", 2)[0])
	}
	if mod == "" {
		return fmt.Sprintf("%s(%s)", head, body)
	}
	if g.p(2) {
		return fmt.Sprintf("%s %s (%s)", head, mod, body)
	}
	return fmt.Sprintf("%s(%s) %s", head, body, mod)
}

func (g *pqGen) call(d int) string {
	switch g.r.Intn(16) {
	case 0, 1, 2, 3:
		f := pick(g.r, pqPreserve1)
		g.hist("node:call:preserve")
		return fmt.Sprintf("%s(%s)", f, g.vec(d-1))
	case 4, 5, 6:
		f := pick(g.r, pqRangeFns)
		g.hist("node:call:range")
		return fmt.Sprintf("%s(%s)", f, g.matrix(d-1))
	case 7:
		g.hist("node:call:clamp")
		switch g.r.Intn(3) {
		case 0:
			return fmt.Sprintf("clamp(%s, 0, 5)", g.vec(d-1))
		case 1:
			return fmt.Sprintf("clamp_min(%s, %s)", g.vec(d-1), g.scalar(0))
		default:
			return fmt.Sprintf("clamp_max(%s, 1)", g.vec(d-1))
		}
	case 8, 9:
		g.hist("node:call:absent")
		if g.p(3) {
			return fmt.Sprintf("absent_over_time(%s)", g.matrix(0))
		}
		if g.p(3) {
			return fmt.Sprintf("absent(%s)", g.vec(d-1))
		}
		return fmt.Sprintf("absent(%s)", g.selector())
	case 10, 11:
		g.hist("node:call:label_replace")
		dst := pick(g.r, pqLabels)
		if g.p(2) {
			// replacement x regex grid: a regex that matches every / some / no series, with and without a replacement
			return fmt.Sprintf(`label_replace(%s, "%s", "%s", "%s", "%s")`, g.vec(d-1), dst,
				pick(g.r, []string{"$1", "$1", "", "", "x"}), g.label(), pick(g.r, []string{"(.*)", "(.*)", "(1)", "(2)", "(nomatch)", ".*"}))
		}
		return fmt.Sprintf(`label_join(%s, "%s", "-", "%s", "%s")`, g.vec(d-1), dst, g.label(), g.label())
	case 12, 13:
		g.hist("node:call:vector")
		return fmt.Sprintf("vector(%s)", g.scalar(d-1))
	case 14:
		g.hist("node:call:timelike")
		if g.p(2) {
			return pick(g.r, pqTimeFns) + "()"
		}
		return fmt.Sprintf("%s(%s)", pick(g.r, pqTimeFns), g.vec(d-1))
	default:
		g.hist("node:call:quantile_over_time")
		return fmt.Sprintf("quantile_over_time(0.5, %s)", g.matrix(d-1))
	}
}

func (g *pqGen) matching(l, r string) string {
	labs := g.labelSubset(2, false)
	switch g.r.Intn(5) {
	case 0, 1:
		return ""
	case 2, 3:
		return fmt.Sprintf(" on(%s)", strings.Join(labs, ", "))
	default:
		return fmt.Sprintf(" ignoring(%s)", strings.Join(labs, ", "))
	}
}

func (g *pqGen) binary(d int) string {
	l := g.vec(d - 1)
	r := g.vec(d - 1)
	k := g.r.Intn(10)
	if g.bias == "C12" && k < 2 {
		k = 7
	}
	switch {
	case k < 3: // arithmetic
		op := pick(g.r, pqArith)
		if (op == "%" || op == "^") && strings.Contains(l, "vector(") && strings.Contains(r, "vector(") {
			op = "*" // math.Mod/Pow on two statically known operands are outside the model (shared oracle)
		}
		m := g.matching(l, r)
		if g.p(3) {
			m += " " + pick(g.r, []string{"group_left", "group_right"})
			if !g.p(3) {
				m += "(" + strings.Join(g.labelSubset(2, false), ", ") + ")"
			}
			g.hist("node:bin:group")
		} else {
			g.hist("node:bin:arith")
		}
		return fmt.Sprintf("%s %s%s %s", l, op, m, r)
	case k < 5: // comparison
		op := pick(g.r, pqCmp)
		if g.p(4) {
			op += " bool"
		}
		m := g.matching(l, r)
		if g.p(5) {
			m += " " + pick(g.r, []string{"group_left", "group_right"})
			if g.p(2) {
				m += "(" + strings.Join(g.labelSubset(2, false), ", ") + ")"
			}
		}
		g.hist("node:bin:cmp")
		return fmt.Sprintf("%s %s%s %s", l, op, m, r)
	default:
		op := pick(g.r, []string{"and", "and", "or", "unless", "unless"})
		g.hist("node:bin:" + op)
		return fmt.Sprintf("%s %s%s %s", l, op, g.matching(l, r), r)
	}
}

func (g *pqGen) vecScalar(d int) string {
	v := g.vec(d - 1)
	s := g.scalar(d - 1)
	var op string
	if g.p(2) {
		op = pick(g.r, pqCmp)
		if g.p(4) {
			op += " bool"
		}
		g.hist("node:vs:cmp")
	} else {
		op = pick(g.r, pqArith)
		if (op == "%" || op == "^") && strings.Contains(v, "vector(") {
			op = "-"
		}
		g.hist("node:vs:arith")
	}
	if g.p(3) {
		return fmt.Sprintf("%s %s %s", s, op, v)
	}
	return fmt.Sprintf("%s %s %s", v, op, s)
}

// constVec: an always-returning vector with a known value, the food of calculateStaticReturn.
func (g *pqGen) constVec() string {
	switch g.r.Intn(4) {
	case 0:
		return fmt.Sprintf("vector(%s)", g.number())
	case 1:
		return fmt.Sprintf("vector(%s %s %s)", g.number(), pick(g.r, []string{"+", "-", "*"}), g.number())
	case 2:
		return fmt.Sprintf("(vector(%s))", g.number())
	default:
		return fmt.Sprintf("vector(%s) %s %s", g.number(), pick(g.r, []string{"+", "-", "*"}), g.number())
	}
}

func (g *pqGen) vec(d int) string {
	if d <= 0 {
		if g.p(8) {
			return g.constVec()
		}
		return g.selector()
	}
	k := g.r.Intn(20)
	switch {
	case k < 3:
		return g.selector()
	case k < 7:
		return g.aggregation(d)
	case k < 10:
		return g.call(d)
	case k < 15:
		return g.binary(d)
	case k < 17:
		return g.vecScalar(d)
	case k < 18:
		g.hist("node:paren")
		return "(" + g.vec(d-1) + ")"
	case k < 19:
		g.hist("node:unary")
		return "-" + g.vec(d-1)
	default:
		g.hist("node:constcmp")
		op := pick(g.r, pqCmp)
		if g.p(5) {
			op += " bool"
		}
		if g.p(2) {
			return fmt.Sprintf("%s %s %s", g.constVec(), op, g.number())
		}
		return fmt.Sprintf("%s %s %s", g.constVec(), op, g.constVec())
	}
}

func (g *pqGen) scalar(d int) string {
	if d <= 0 {
		return g.number()
	}
	switch g.r.Intn(10) {
	case 0:
		g.hist("node:scalar()")
		if g.p(3) {
			// several result branches in a scalar operand: parseBinOps copies the vector side once per branch
			g.hist("node:scalar(multi-branch)")
			return fmt.Sprintf("scalar(%s or %s)", g.selector(), g.selector())
		}
		return fmt.Sprintf("scalar(%s)", g.selector())
	case 1:
		return pick(g.r, []string{"time()", "pi()"})
	case 2:
		return fmt.Sprintf("%s %s %s", g.number(), pick(g.r, []string{"+", "-", "*", "/"}), g.number())
	case 3:
		return "(" + g.number() + ")"
	case 4:
		return "-(" + g.number() + ")"
	default:
		return g.number()
	}
}

// ---------------------------------------------------------------------------------------------
// databases

func (g *pqGen) db(total bool, size int) *pqDB {
	db := &pqDB{Total: total}
	seen := map[string]bool{}
	for _, m := range pqMetrics {
		n := g.r.Intn(size + 1)
		if total && n == 0 && !g.p(3) {
			n = 1
		}
		for i := 0; i < n; i++ {
			ls := map[string]string{"__name__": m}
			for _, l := range pqLabels {
				if total || g.r.Intn(3) > 0 {
					ls[l] = pick(g.r, pqValues)
				}
			}
			k := lsetKey(ls)
			if seen[k] {
				continue
			}
			seen[k] = true
			db.Series = append(db.Series, pqSeries{Labels: ls, Value: float64(g.r.Intn(4))})
		}
	}
	return db
}

// witnessDB: a database DIRECTED by the expression: one series per selector of the expression, satisfying its matchers,
// every other label at the same default value (so that series of different selectors join on every label and
// `scalar(a or b)` sees one series); sample values descend (variant 0) or ascend (variant 1) in selector order so that
// value comparisons between operands go both ways.  Total iff no matcher forces a label to be absent.
func witnessDB(root promParser.Node, variant int) *pqDB {
	db := &pqDB{Total: true}
	sels := []*promParser.VectorSelector{}
	for _, n := range pqNodes(root) {
		if vs, ok := n.(*promParser.VectorSelector); ok {
			sels = append(sels, vs)
		}
	}
	// default value of a label: the first non-empty value an equality matcher of the expression asks for
	def := map[string]string{}
	for _, vs := range sels {
		for _, m := range vs.LabelMatchers {
			if m.Type == labels.MatchEqual && m.Value != "" && def[m.Name] == "" {
				def[m.Name] = m.Value
			}
		}
	}
	seen := map[string]bool{}
	for i, vs := range sels {
		ls := map[string]string{}
		for _, l := range pqLabels {
			ls[l] = "1"
			if def[l] != "" {
				ls[l] = def[l]
			}
		}
		ok := true
		for _, m := range vs.LabelMatchers {
			found := false
			for _, cand := range []string{ls[m.Name], "1", "2", "foo", "bar", "baz", ""} {
				if cand == "" && m.Name != "__name__" && ls[m.Name] != "" && m.Matches(ls[m.Name]) {
					found = true
					break
				}
				if m.Matches(cand) {
					if cand == "" {
						delete(ls, m.Name)
					} else {
						ls[m.Name] = cand
					}
					found = true
					break
				}
			}
			ok = ok && found
		}
		if !ok || ls["__name__"] == "" {
			continue
		}
		for _, l := range pqLabels {
			if _, has := ls[l]; !has {
				db.Total = false
			}
		}
		k := lsetKey(ls)
		if seen[k] {
			continue
		}
		seen[k] = true
		v := float64(len(sels) - i)
		if variant == 1 {
			v = float64(i + 1)
		}
		db.Series = append(db.Series, pqSeries{Labels: ls, Value: v})
	}
	return db
}

// ---------------------------------------------------------------------------------------------
// systematic strata: small exhaustive grids around the anchored mechanisms (boundaries of calculateStaticReturn,
// on()-set-operator verdicts, canJoin over every combination of label-removing / label-guaranteeing operands).

func pqSystematic() []string {
	out := []string{}
	// S1: static comparison folding, all operators x {<, =, >} x operand shapes
	for _, op := range pqCmp {
		for _, xy := range [][2]string{{"1", "2"}, {"2", "2"}, {"2", "1"}} {
			x, y := xy[0], xy[1]
			out = append(out,
				fmt.Sprintf("vector(%s) %s %s", x, op, y),
				fmt.Sprintf("%s %s vector(%s)", x, op, y),
				fmt.Sprintf("vector(%s) %s vector(%s)", x, op, y),
				fmt.Sprintf("vector(%s) %s bool %s", x, op, y),
				fmt.Sprintf("(vector(%s) + 1) %s (%s + 1)", x, op, y),
			)
		}
	}
	// S2: set operators with on() / default matching and always-returning / conditional / droppable operands
	ls := []string{"foo", "vector(1)", "vector(1) > 0", "vector(1) > 2"}
	rs := []string{"bar", "vector(1)", "vector(1) > 0", "vector(1) > 2", `(vector(1) and bar{a=""})`, "absent(bar)", "sum(bar)", "vector(1) == bool 2"}
	for _, op := range []string{"unless", "or", "and"} {
		for _, m := range []string{" on()", ""} {
			for _, l := range ls {
				for _, r := range rs {
					out = append(out, fmt.Sprintf("(%s) %s%s (%s)", l, op, m, r))
				}
			}
		}
	}
	// S3: joins over label-removing / label-guaranteeing operands
	operand := func(m string) []string {
		return []string{m, m + `{a="1"}`, m + `{a=""}`, "sum by(a) (" + m + ")", "sum without(a) (" + m + ")", "sum(" + m + ")",
			`label_replace(sum by(b) (` + m + `), "a", "x", "", "")`, "abs(sum by(b) (" + m + `{a="1"}))`}
	}
	for _, op := range []string{"and", "unless", "*", "* group_left", "* group_right", "> bool"} {
		for _, m := range []string{"on(a)", "ignoring(a)", "on(a, b)", ""} {
			for _, l := range operand("foo") {
				for _, r := range operand("bar") {
					head, tail := op, ""
					if strings.Contains(op, " group_") || strings.HasSuffix(op, " bool") {
						parts := strings.SplitN(op, " ", 2)
						head, tail = parts[0], " "+parts[1]
					}
					if strings.HasSuffix(op, " bool") {
						out = append(out, fmt.Sprintf("%s %s%s %s %s", l, head, tail, m, r))
					} else {
						out = append(out, fmt.Sprintf("%s %s %s%s %s", l, head, m, tail, r))
					}
				}
			}
		}
	}
	// S4: group_left / group_right with labels copied from the "one" side
	small := func(m string) []string {
		return []string{m, "sum by(a) (" + m + ")", "sum without(b) (" + m + ")", "sum by(a, b) (" + m + ")"}
	}
	for _, g := range []string{"group_left(b)", "group_right(b)", "group_left(b, c)", "group_right(c)"} {
		for _, m := range []string{"on(a)", "ignoring(b, c)"} {
			for _, l := range small("foo") {
				for _, r := range small("bar") {
					out = append(out, fmt.Sprintf("%s * %s %s %s", l, m, g, r))
				}
			}
		}
	}
	return out
}

// pqShapes: operands over metric m covering the label bookkeeping states of a Source for label a (and b):
// not fixed / fixed x included / guaranteed / excluded / absent from every list.
func pqShapes(m string) []string {
	return []string{
		m,
		m + `{a="1"}`,
		m + `{a=""}`,
		m + `{a="1", b="2", c="1"}`,
		"sum(" + m + ")",
		"sum by(a) (" + m + ")",
		"sum by(a, b) (" + m + `{a="1"})`,
		"sum without(a) (" + m + ")",
		"sum without(a) (" + m + `{a="1", b="2"})`,
		"(" + m + " * on(a) baz)",
		"(" + m + " * ignoring(a) baz)",
		`label_replace(sum(` + m + `), "a", "x", "", "")`,
		`count_values("a", ` + m + ")",
		"absent(" + m + `{a="1", job="x"})`,
		"(" + m + `{a="1", b="2", c="1"} > scalar(bar or baz))`,
		"(" + m + " or sum by(a) (bar))",
	}
}

// pqSystematicAlways: strata small enough to be complete in every tier.
func pqSystematicAlways() []string {
	out := []string{}
	// S5: aggregation over every operand shape: by(...) in both orders, without(...), topk, count_values
	// (maybeIncludeLabel / restrictIncludedLabels / restrictGuaranteedLabels / FixedLabels / excludeMetricName)
	outers := []string{"sum by(a, b) (%s)", "sum by(b, a) (%s)", "sum by(b) (%s)", "sum by(__name__, b) (%s)", "sum without(a) (%s)", "sum without(b) (%s)",
		"topk(1, %s)", `count_values("b", %s)`, `count_values("__name__", %s) by(a)`, `count_values("__name__", %s) without(a)`}
	for _, o := range outers {
		for _, in := range pqShapes("foo") {
			out = append(out, fmt.Sprintf(o, in))
		}
	}
	// S6: twice-shaped operands as the driving side of joins (canJoin reads Included/Guaranteed/Excluded/Fixed)
	twice := []string{}
	for _, o := range []string{"sum by(b) (%s)", "sum without(c) (%s)", "abs(%s)", "sum without(a, d, job) (%s)"} {
		for _, in := range []string{`foo{a="1"}`, `sum by(a, b) (foo{a="1"})`, `sum without(a) (foo{a="1", b="2"})`, `(foo{a="1", b="2", c="1"} > scalar(bar or baz))`,
			`(foo{a="1"} * on(a, b) baz)`} {
			twice = append(twice, fmt.Sprintf(o, in))
		}
	}
	for _, op := range []string{"and", "*"} {
		for _, m := range []string{"", " on(b)", " ignoring(c)"} {
			for _, l := range twice {
				for _, r := range []string{"sum by(b) (bar)", "sum by(b, c) (bar)"} {
					out = append(out, fmt.Sprintf("%s %s%s %s", l, op, m, r))
				}
			}
		}
	}
	// S8: joins of label-complementary aggregations: without(L) on one side, by(all labels minus L) on the other, so that
	// both sides carry the same label names and the join really matches; positive matchers on the removed labels.
	for _, lr := range [][2]string{
		{`sum without(a) (foo{a="1"})`, "sum by(b, c, d, job) (bar)"},
		{`sum without(a, b) (foo{a="1", b="2"})`, "sum by(c, d, job) (bar)"},
		{`sum without(b, a) (foo{a="1", b="2"})`, "sum by(c, d, job) (bar)"},
		{`min without(a) (foo{a="1", c="1"})`, "sum by(b, c, d, job) (bar)"},
		{`sum by(b, c) (foo{a="1"})`, "sum by(b, c) (bar)"},
		{`sum by(c, b) (foo{a="1", b="2"})`, "sum by(b, c) (bar)"},
	} {
		for _, op := range []string{"and", "*", "unless"} {
			out = append(out, fmt.Sprintf("%s %s %s", lr[0], op, lr[1]), fmt.Sprintf("%s %s %s", lr[1], op, lr[0]))
		}
	}
	// S9: label_replace / label_join: destination existing or new x replacement empty / constant / captured x regex matching
	// every, some or no series (a series whose source label does not match keeps its labels untouched)
	for _, v := range []string{"foo", "sum by(a, b) (foo)", "sum(foo)"} {
		for _, dst := range []string{"a", "d"} {
			for _, repl := range []string{"", "$1", "x"} {
				for _, re := range []string{"(.*)", "(1)", "(nomatch)"} {
					out = append(out, fmt.Sprintf(`label_replace(%s, "%s", "%s", "b", "%s")`, v, dst, repl, re))
				}
			}
			out = append(out, fmt.Sprintf(`label_replace(%s, ("%s"), "x", "b", "(.*)")`, v, dst), fmt.Sprintf(`label_join(%s, (("%s")), "-", "b")`, v, dst),
				fmt.Sprintf(`count_values(("%s"), %s)`, dst, v), fmt.Sprintf(`count_values(("__name__"), %s) by(%s)`, v, dst))
			out = append(out, fmt.Sprintf(`label_join(%s, "%s", "", "c")`, v, dst), fmt.Sprintf(`label_join(%s, "%s", "-", "b", "c")`, v, dst),
				fmt.Sprintf(`label_join(%s, "%s", "")`, v, dst))
		}
	}
	// S10: vector/vector operations nested as an operand of a join: what the inner operation does to the labels the outer
	// matching needs (on(l) / ignoring(l) of set operators keep the left-hand series untouched; arithmetic does not)
	for _, inner := range []string{"foo and ignoring(a) bar", "foo or ignoring(a) bar", "foo unless ignoring(a) bar", "foo * ignoring(a) bar",
		"foo and on(a) bar", "foo or on(a) bar", "foo unless on(b) bar", "foo * on(a) bar"} {
		for _, outer := range []string{"* on(a)", "and on(a)", "* ignoring(b)"} {
			out = append(out, fmt.Sprintf("baz %s (%s)", outer, inner), fmt.Sprintf("(%s) %s baz", inner, outer))
		}
	}
	// S11: matchers that may or may not admit the empty value (only `l=""` removes l) on a side of a join / aggregation on l
	for _, sel := range []string{`foo{a=~"1|"}`, `foo{a=~".*"}`, `foo{a=~".+"}`, `foo{a!~"2"}`, `foo{a!="2"}`, `foo{a=""}`} {
		for _, f := range []string{"%s and on(a) bar", "bar and on(a) %s", "%s * on(a) bar", "bar * on(a) group_left() %s", "sum by(a) (%s)", "%s"} {
			out = append(out, fmt.Sprintf(f, sel))
		}
	}
	// S12: group_left/group_right(l) copying l from the "one" side (also over a "many" side that removed l), nested as an
	// operand of an outer operation matching on l
	for _, inner := range []string{"bar * on(a) group_right(c) sum without(c) (foo)", "sum without(c) (foo) * on(a) group_left(c) bar",
		"bar * on(a) group_right(c) foo", "foo * on(a) group_left(c) sum by(a, c) (bar)", "sum by(a) (foo) * on(a) group_left(c) bar"} {
		for _, outer := range []string{"* on(c)", "and on(c)", "* on(c) group_left()"} {
			out = append(out, fmt.Sprintf("baz %s (%s)", outer, inner), fmt.Sprintf("(%s) %s baz", inner, outer))
		}
		out = append(out, inner, "sum by(c) ("+inner+")")
	}
	// S13: group_left/group_right with ignoring(...) (or on(...)) on arithmetic and comparison operators -- the result keeps the
	// labels of the "many" side, ignored ones included -- nested as an operand of an outer join on an ignored label
	for _, op := range []string{"/", "*", ">", "> bool"} {
		inners := []string{}
		for _, mod := range []string{"ignoring(a) group_left()", "ignoring(a, c) group_left()", "ignoring(a) group_left(d)", "on(b) group_left()"} {
			inners = append(inners, fmt.Sprintf("foo %s %s sum without(a) (bar)", op, mod))
		}
		inners = append(inners, fmt.Sprintf("sum without(a) (bar) %s ignoring(a) group_right() foo", op))
		for _, in := range inners {
			out = append(out, fmt.Sprintf("baz * on(a, b) (%s)", in), fmt.Sprintf("baz and on(a) (%s)", in), fmt.Sprintf("(%s) * on(a) group_left() baz", in))
		}
	}
	// S14: by(...) lists in every order over operands that removed one of the listed labels, under an outer join on a label
	// listed before / after the removed one
	for _, in := range []string{"sum without(a) (foo)", `foo{a=""}`, "(foo * ignoring(a) bar)"} {
		for _, ll := range [][2]string{{"a, b", "b"}, {"b, a", "b"}, {"a, b, c", "b"}, {"a, b, c", "c"}, {"b, a, c", "b"}, {"b, a, c", "c"}, {"c, a, b", "b"}, {"c, a, b", "c"}} {
			out = append(out, fmt.Sprintf("baz * on(%s) group_left() sum by(%s) (%s)", ll[1], ll[0], in),
				fmt.Sprintf("baz and on(%s) sum by(%s) (%s)", ll[1], ll[0], in))
		}
	}
	// S7: absent()/absent_over_time() over dead, always-returning and ordinary operands, bare and as the deciding
	// operand of on() set operators
	for _, in := range []string{"foo", `foo{a="1"}`, "vector(1)", "vector(1) > 2", "foo unless on() vector(1)", "foo and on(a) sum(bar)", "sum(foo)"} {
		out = append(out, "absent("+in+")", "foo unless on() absent("+in+")", "absent("+in+") or on() foo", "absent("+in+") and on() vector(1)")
	}
	out = append(out, "absent_over_time(foo[5m])", "foo unless on() absent_over_time(foo[5m])", `absent_over_time(foo{a="1"}[5m]) or on() bar`)
	return out
}
