//go:build verif

package main

// AST serialiser (real Prometheus parser AST -> Coq term of PintV.Model.PromQL.expr) and projection of
// utils.Source (observable fields only) -> Coq term of PintV.Model.Source.source.

import (
	"fmt"
	"math"
	"regexp"
	"sort"
	"strconv"
	"strings"

	"github.com/prometheus/prometheus/model/labels"
	promParser "github.com/prometheus/prometheus/promql/parser"

	"github.com/cloudflare/pint/internal/parser/utils"
)

func coqFloat(v float64) string {
	switch {
	case math.IsNaN(v):
		return "nan"
	case math.IsInf(v, 1):
		return "infinity"
	case math.IsInf(v, -1):
		return "neg_infinity"
	case v == 0 && math.Signbit(v):
		return "(-0)%float"
	case v == math.Trunc(v) && math.Abs(v) < 1e15:
		return fmt.Sprintf("(%d)%%float", int64(v))
	}
	return "(" + strconv.FormatFloat(v, 'x', -1, 64) + ")%float"
}

func coqMatchType(t labels.MatchType) string {
	switch t {
	case labels.MatchEqual:
		return "MEq"
	case labels.MatchNotEqual:
		return "MNe"
	case labels.MatchRegexp:
		return "MRe"
	default:
		return "MNre"
	}
}

func coqVType(t promParser.ValueType) string {
	switch t {
	case promParser.ValueTypeNone:
		return "VNone"
	case promParser.ValueTypeScalar:
		return "VScalar"
	case promParser.ValueTypeVector:
		return "VVector"
	case promParser.ValueTypeMatrix:
		return "VMatrix"
	case promParser.ValueTypeString:
		return "VString"
	}
	return "VUnset"
}

var aggNames = map[promParser.ItemType]string{
	promParser.SUM: "ASum", promParser.MIN: "AMin", promParser.MAX: "AMax", promParser.AVG: "AAvg",
	promParser.GROUP: "AGroup", promParser.STDDEV: "AStddev", promParser.STDVAR: "AStdvar",
	promParser.COUNT: "ACount", promParser.COUNT_VALUES: "ACountValues", promParser.QUANTILE: "AQuantile",
	promParser.TOPK: "ATopk", promParser.BOTTOMK: "ABottomk",
}

var binNames = map[promParser.ItemType]string{
	promParser.ADD: "OAdd", promParser.SUB: "OSub", promParser.MUL: "OMul", promParser.DIV: "ODiv",
	promParser.MOD: "OMod", promParser.POW: "OPow", promParser.ATAN2: "OAtan2",
	promParser.EQLC: "OEql", promParser.NEQ: "ONeq", promParser.LTE: "OLte", promParser.LSS: "OLss",
	promParser.GTE: "OGte", promParser.GTR: "OGtr",
	promParser.LAND: "OAnd", promParser.LOR: "OOr", promParser.LUNLESS: "OUnless",
}

func coqCard(c promParser.VectorMatchCardinality) string {
	switch c {
	case promParser.CardOneToOne:
		return "OneToOne"
	case promParser.CardManyToOne:
		return "ManyToOne"
	case promParser.CardOneToMany:
		return "OneToMany"
	default:
		return "ManyToMany"
	}
}

// coqExpr serialises the parser's AST.  ok=false when the tree holds a node outside the modelled AST.
func coqExpr(node promParser.Node) (string, bool) {
	switch n := node.(type) {
	case *promParser.NumberLiteral:
		return "(ENum " + coqFloat(n.Val) + ")", true
	case *promParser.StringLiteral:
		return "(EStr " + coqStr(n.Val) + ")", true
	case *promParser.VectorSelector:
		ms := make([]string, 0, len(n.LabelMatchers))
		for _, lm := range n.LabelMatchers {
			ms = append(ms, fmt.Sprintf("{| m_type := %s; m_name := %s; m_value := %s |}", coqMatchType(lm.Type), coqStr(lm.Name), coqStr(lm.Value)))
		}
		return "(ESel " + coqList(ms) + ")", true
	case *promParser.MatrixSelector:
		s, ok := coqExpr(n.VectorSelector)
		return "(EMatrix " + s + ")", ok
	case *promParser.SubqueryExpr:
		s, ok := coqExpr(n.Expr)
		return "(ESubq " + s + ")", ok
	case *promParser.ParenExpr:
		s, ok := coqExpr(n.Expr)
		return "(EParen " + s + ")", ok
	case *promParser.UnaryExpr:
		s, ok := coqExpr(n.Expr)
		return "(EUnary " + coqBool(n.Op == promParser.SUB) + " " + s + ")", ok
	case *promParser.AggregateExpr:
		op, known := aggNames[n.Op]
		if !known {
			op = "AOther"
		}
		p := "None"
		ok := true
		if n.Param != nil {
			ps, pok := coqExpr(n.Param)
			p = "(Some " + ps + ")"
			ok = ok && pok
		}
		s, eok := coqExpr(n.Expr)
		return fmt.Sprintf("(EAgg %s %s %s %s %s)", op, coqBool(n.Without), coqStrList(n.Grouping), p, s), ok && eok
	case *promParser.Call:
		ats := make([]string, len(n.Func.ArgTypes))
		for i, t := range n.Func.ArgTypes {
			ats[i] = coqVType(t)
		}
		args := make([]string, len(n.Args))
		ok := true
		for i, a := range n.Args {
			s, aok := coqExpr(a)
			args[i] = s
			ok = ok && aok
		}
		return fmt.Sprintf("(ECall %s %s %s)", coqStr(n.Func.Name), coqList(ats), coqList(args)), ok
	case *promParser.BinaryExpr:
		op, known := binNames[n.Op]
		if !known {
			return "", false
		}
		vm := "None"
		if n.VectorMatching != nil {
			vm = fmt.Sprintf("(Some {| vm_card := %s; vm_on := %s; vm_labels := %s; vm_include := %s |})",
				coqCard(n.VectorMatching.Card), coqBool(n.VectorMatching.On),
				coqStrList(n.VectorMatching.MatchingLabels), coqStrList(n.VectorMatching.Include))
		}
		l, lok := coqExpr(n.LHS)
		r, rok := coqExpr(n.RHS)
		return fmt.Sprintf("(EBin %s %s %s %s %s)", op, coqBool(n.ReturnBool), vm, l, r), lok && rok
	}
	return "", false
}

// ---------------------------------------------------------------------------------------------
// Source projection

func coqSType(t utils.SourceType) string {
	switch t {
	case utils.NumberSource:
		return "TNumber"
	case utils.StringSource:
		return "TString"
	case utils.SelectorSource:
		return "TSelector"
	case utils.FuncSource:
		return "TFunc"
	case utils.AggregateSource:
		return "TAggregate"
	}
	return "TUnknown"
}

var deadLabelRe = regexp.MustCompile("the `([^`]*)` label")

// deadLabel extracts the label name a join verdict mentions (none for comparison/unless/or verdicts).
func deadLabel(s utils.Source) (string, bool) {
	if !s.IsDead {
		return "", false
	}
	m := deadLabelRe.FindStringSubmatch(s.IsDeadReason)
	if m == nil {
		return "", false
	}
	return m[1], true
}

func sortedCopy(xs []string) []string {
	o := append([]string{}, xs...)
	sort.Strings(o)
	return o
}

func coqSource(s utils.Source) string {
	joins := make([]string, len(s.Joins))
	for i, j := range s.Joins {
		joins[i] = coqSource(j.Src)
	}
	unless := make([]string, len(s.Unless))
	for i, j := range s.Unless {
		unless[i] = coqSource(j.Src)
	}
	call := "None"
	if s.Call != nil {
		call = "(Some " + coqPair(coqStr(s.Call.Func.Name), coqNat(len(s.Call.Args))) + ")"
	}
	dl, has := deadLabel(s)
	num := s.ReturnedNumber
	if !s.KnownReturn {
		num = 0
	}
	return fmt.Sprintf("(mkSource %s %s %s None %s %s %s %s %s %s %s %s %s %s %s %s %s %s)",
		coqSType(s.Type), coqVType(s.Returns), coqStr(s.Operation), call,
		coqList(joins), coqList(unless),
		coqStrList(s.IncludedLabels), coqStrList(s.ExcludedLabels), coqStrList(s.GuaranteedLabels),
		coqFloat(num), coqBool(s.FixedLabels), coqBool(s.IsDead), coqOpt(has, coqStr(dl)),
		coqBool(s.AlwaysReturns), coqBool(s.KnownReturn), coqBool(s.IsConditional), coqBool(s.IsReturnBool))
}

func coqSources(src []utils.Source) string {
	o := make([]string, len(src))
	for i, s := range src {
		o[i] = coqSource(s)
	}
	return coqList(o)
}

// jsonSource is the replayable description of one Source.
type jsonSource struct {
	Type       string       `json:"type"`
	Returns    string       `json:"returns"`
	Operation  string       `json:"operation,omitempty"`
	Included   []string     `json:"included,omitempty"`
	Excluded   []string     `json:"excluded,omitempty"`
	Guaranteed []string     `json:"guaranteed,omitempty"`
	Fixed      bool         `json:"fixed"`
	Dead       bool         `json:"dead"`
	DeadReason string       `json:"dead_reason,omitempty"`
	Always     bool         `json:"always_returns,omitempty"`
	Known      bool         `json:"known_return,omitempty"`
	Number     float64      `json:"number,omitempty"`
	Cond       bool         `json:"conditional,omitempty"`
	Joins      []jsonSource `json:"joins,omitempty"`
	Unless     []jsonSource `json:"unless,omitempty"`
}

func toJSONSource(s utils.Source) jsonSource {
	j := jsonSource{Type: coqSType(s.Type), Returns: string(s.Returns), Operation: s.Operation,
		Included: s.IncludedLabels, Excluded: s.ExcludedLabels, Guaranteed: s.GuaranteedLabels, Fixed: s.FixedLabels,
		Dead: s.IsDead, DeadReason: s.IsDeadReason, Always: s.AlwaysReturns, Known: s.KnownReturn, Cond: s.IsConditional}
	if s.KnownReturn && !math.IsNaN(s.ReturnedNumber) && !math.IsInf(s.ReturnedNumber, 0) {
		j.Number = s.ReturnedNumber
	}
	for _, x := range s.Joins {
		j.Joins = append(j.Joins, toJSONSource(x.Src))
	}
	for _, x := range s.Unless {
		j.Unless = append(j.Unless, toJSONSource(x.Src))
	}
	return j
}

func toJSONSources(src []utils.Source) []jsonSource {
	o := make([]jsonSource, len(src))
	for i, s := range src {
		o[i] = toJSONSource(s)
	}
	return o
}

var _ = strings.Join
