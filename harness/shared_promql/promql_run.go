//go:build verif

package main

// Shared runner of C04 and C12: analyser correspondence data (real parser + utils.LabelsSource + the real
// alerts/template and promql/impossible checks), node-by-node engine results for the semantics validation,
// and the implementation-level oracles of both properties.

import (
	"context"
	"fmt"
	"math/rand"
	"os"
	"path/filepath"
	"regexp"
	"sort"
	"strings"

	"github.com/prometheus/common/model"
	"github.com/prometheus/prometheus/model/labels"
	"github.com/prometheus/prometheus/promql"
	promParser "github.com/prometheus/prometheus/promql/parser"

	"github.com/cloudflare/pint/internal/checks"
	"github.com/cloudflare/pint/internal/discovery"
	"github.com/cloudflare/pint/internal/parser"
	"github.com/cloudflare/pint/internal/parser/utils"
)

var pqTemplateVars = []string{"a", "b", "c", "job", "d", "cv", "__name__"}

type pqNodeEval struct {
	Expr   string   `json:"expr"`
	Result pqResult `json:"result"`
}

type pqCase struct {
	ID          int          `json:"id"`
	Expr        string       `json:"expr"`
	Sources     []jsonSource `json:"sources"`
	TmplMissing []string     `json:"template_reports_missing"`
	Impossible  []string     `json:"impossible_problems"`
	DB          *pqDB        `json:"db,omitempty"`
	Node        string       `json:"node,omitempty"`
	NodeResult  *pqResult    `json:"node_result,omitempty"`
	Detail      string       `json:"detail,omitempty"`
}

var tmplMissingRe = regexp.MustCompile("Template is using `([^`]*)` label but the query results won't have this label")

// realChecks runs the REAL alerts/template and promql/impossible checks on a synthetic alert whose
// annotation references every label of the universe.
func realChecks(expr string) (missing []string, impossible []string, err error) {
	var tb strings.Builder
	for _, v := range pqTemplateVars {
		fmt.Fprintf(&tb, "{{ $labels.%s }} ", v)
	}
	content := "groups:\n- name: g\n  rules:\n  - alert: A\n    expr: '" + strings.ReplaceAll(expr, "'", "''") +
		"'\n    annotations:\n      summary: '" + tb.String() + "'\n"
	p := parser.NewParser(false, parser.PrometheusSchema, model.UTF8Validation)
	file := p.Parse(strings.NewReader(content))
	if file.Error.Err != nil {
		return nil, nil, fmt.Errorf("synthetic rule does not parse: %v", file.Error.Err)
	}
	n := 0
	for gi := range file.Groups {
		group := file.Groups[gi]
		for _, rule := range group.Rules {
			n++
			if rule.Error.Err != nil {
				return nil, nil, fmt.Errorf("synthetic rule error: %v", rule.Error.Err)
			}
			if rule.AlertingRule == nil || rule.AlertingRule.Expr.SyntaxError != nil {
				return nil, nil, fmt.Errorf("synthetic rule has a syntax error")
			}
			entry := discovery.Entry{
				Path:          discovery.Path{Name: "fake.yml", SymlinkTarget: "fake.yml"},
				ModifiedLines: rule.Lines.Expand(),
				Rule:          rule,
				Group:         &group,
				File:          &file,
			}
			ctx := context.Background()
			for _, pr := range checks.NewTemplateCheck().Check(ctx, entry, nil) {
				if pr.Summary != "template uses non-existent label" {
					continue
				}
				for _, d := range pr.Diagnostics {
					if m := tmplMissingRe.FindStringSubmatch(d.Message); m != nil {
						missing = append(missing, m[1])
					}
				}
			}
			for _, pr := range checks.NewImpossibleCheck().Check(ctx, entry, nil) {
				msg := ""
				if len(pr.Diagnostics) > 0 {
					msg = pr.Diagnostics[0].Message
				}
				impossible = append(impossible, pr.Summary+": "+msg)
			}
		}
	}
	if n != 1 {
		return nil, nil, fmt.Errorf("synthetic file has %d rules", n)
	}
	sort.Strings(missing)
	return missing, impossible, nil
}

// ---------------------------------------------------------------------------------------------
// AST predicates (known-finding classes) and the Go mirror of Model.PromSem.must_have

func constish(node promParser.Node) bool {
	switch n := node.(type) {
	case *promParser.NumberLiteral:
		return true
	case *promParser.ParenExpr:
		return constish(n.Expr)
	case *promParser.UnaryExpr:
		return constish(n.Expr)
	case *promParser.Call:
		if n.Func.Name == "vector" && len(n.Args) == 1 {
			return constish(n.Args[0])
		}
		return n.Func.Name == "pi"
	case *promParser.BinaryExpr:
		return constish(n.LHS) && constish(n.RHS)
	}
	return false
}

func anyNode(node promParser.Node, f func(promParser.Node) bool) bool {
	for _, n := range pqNodes(node) {
		if f(n) {
			return true
		}
	}
	return false
}

// K1: a comparison with the bool modifier that the analyser's static comparison folding marks dead.
func classK1(expr string, node promParser.Node) bool {
	return anyNode(node, func(n promParser.Node) bool {
		b, ok := n.(*promParser.BinaryExpr)
		if !ok || !b.Op.IsComparisonOperator() || !b.ReturnBool {
			return false
		}
		for _, s := range utils.LabelsSource(expr, b) {
			if s.IsDead {
				return true
			}
		}
		return false
	})
}

// staticApplies: calculateStaticReturn is applied to some (ls, rs) pair of this node.
func staticApplies(expr string, b *promParser.BinaryExpr) bool {
	for _, ls := range utils.LabelsSource(expr, b.LHS) {
		for _, rs := range utils.LabelsSource(expr, b.RHS) {
			if ls.AlwaysReturns && rs.AlwaysReturns && ls.KnownReturn && rs.KnownReturn {
				return true
			}
		}
	}
	return false
}

// modPowStatic: math.Mod / math.Pow / atan2 evaluated by the analyser on two statically known operands
// (shared oracle of the model; such expressions are not emitted as correspondence cases).
func modPowStatic(expr string, node promParser.Node) bool {
	return anyNode(node, func(n promParser.Node) bool {
		b, ok := n.(*promParser.BinaryExpr)
		if !ok || (b.Op != promParser.MOD && b.Op != promParser.POW && b.Op != promParser.ATAN2) {
			return false
		}
		return staticApplies(expr, b)
	})
}

// constValOK mirrors Model.PromSem.const_val (the guard of C12_static_partial): a syntactically constant operand
// through which the analyser's ReturnedNumber IS the value.
func constValOK(node promParser.Node) bool {
	switch n := node.(type) {
	case *promParser.NumberLiteral:
		return true
	case *promParser.ParenExpr:
		return constValOK(n.Expr)
	case *promParser.Call:
		return n.Func.Name == "vector" && len(n.Args) == 1 && constValOK(n.Args[0])
	case *promParser.BinaryExpr:
		switch n.Op {
		case promParser.ADD, promParser.SUB, promParser.MUL, promParser.DIV:
		default:
			return false
		}
		if n.VectorMatching != nil && (n.VectorMatching.Card != promParser.CardOneToOne || n.VectorMatching.On) {
			return false
		}
		return constValOK(n.LHS) && constValOK(n.RHS)
	}
	return false
}

// K6: a static-folding verdict on a comparison whose operands are not both syntactically constant in the sense of
// constValOK: a statically known value passed through an operator that changes the value but not the analyser's
// ReturnedNumber (unary minus, functions, count/group/stddev/stdvar, on()/group_x arithmetic, arithmetic with an
// unknown operand, an inner comparison).  It is the complement of the guard of theorem C12_static_partial.
func classK6(expr string, node promParser.Node) bool {
	return anyNode(node, func(n promParser.Node) bool {
		b, ok := n.(*promParser.BinaryExpr)
		if !ok || !b.Op.IsComparisonOperator() || !staticApplies(expr, b) {
			return false
		}
		if constValOK(b.LHS) && constValOK(b.RHS) {
			return false
		}
		for _, s := range utils.LabelsSource(expr, b) {
			if s.IsDead {
				return true
			}
		}
		return false
	})
}

// K7: an `unless on()` / `or on()` verdict ("... always returns something") whose deciding operand contains an
// operator that can drop every series although the analyser keeps AlwaysReturns: a vector/vector binary
// operation, clamp(), topk/bottomk.  (absent()/absent_over_time() left the class with fix f3c0f95: the call
// resets AlwaysReturns.)
func classK7(node promParser.Node) bool {
	return anyNode(node, func(n promParser.Node) bool {
		b, ok := n.(*promParser.BinaryExpr)
		if !ok || b.VectorMatching == nil || !b.VectorMatching.On || len(b.VectorMatching.MatchingLabels) != 0 {
			return false
		}
		var decider promParser.Node
		switch b.Op {
		case promParser.LUNLESS:
			decider = b.RHS // "the unless query always returns something"
		case promParser.LOR:
			decider = b.LHS // "the left hand side always returns something"
		default:
			return false
		}
		return anyNode(decider, func(m promParser.Node) bool {
			switch x := m.(type) {
			case *promParser.BinaryExpr:
				return x.VectorMatching != nil
			case *promParser.Call:
				return x.Func.Name == "clamp"
			case *promParser.AggregateExpr:
				return x.Op == promParser.TOPK || x.Op == promParser.BOTTOMK
			}
			return false
		})
	})
}

// ---------------------------------------------------------------------------------------------
// Per-VERDICT attribution of the liveness classes K1, K2, K6, K7: a dead source is traced down to the node that
// introduced its dead flag, and the class predicate is evaluated at THAT node only (its operator, modifiers and
// operands), so a defect elsewhere in an expression that merely contains such a construct is not attributed to the class.

// verdictNode: the deepest node below `n` (following the source's position) at which the branch `s` is already dead.
func verdictNode(expr string, n promParser.Node, s utils.Source) (promParser.Node, utils.Source) {
	cur, at := n, s
	for {
		var next promParser.Node
		var nextSrc utils.Source
		for _, c := range promParser.Children(cur) {
			if c == nil {
				continue
			}
			_, isCall := cur.(*promParser.Call)
			for _, cs := range utils.LabelsSource(expr, c) {
				// parseCall re-positions the sources of an argument at the argument itself
				if cs.IsDead && (cs.Position == at.Position || (isCall && c.PositionRange() == at.Position && cs.IsDeadReason == at.IsDeadReason)) {
					next, nextSrc = c, cs
					break
				}
			}
			if next != nil {
				break
			}
		}
		if next == nil {
			return cur, at
		}
		cur, at = next, nextSrc
	}
}

func k7Decider(decider promParser.Node) bool {
	return anyNode(decider, func(m promParser.Node) bool {
		switch x := m.(type) {
		case *promParser.BinaryExpr:
			return x.VectorMatching != nil
		case *promParser.Call:
			return x.Func.Name == "clamp"
		case *promParser.AggregateExpr:
			return x.Op == promParser.TOPK || x.Op == promParser.BOTTOMK
		}
		return false
	})
}

// verdictClass: the liveness class ("K1", "K2", "K6", "K7" or "") of the dead flag of branch `s` of node `n`.
func verdictClass(expr string, n promParser.Node, s utils.Source) string {
	if !s.IsDead {
		return ""
	}
	m, at := verdictNode(expr, n, s)
	for m != nil {
		if p, ok := m.(*promParser.ParenExpr); ok {
			m = p.Expr
			continue
		}
		break
	}
	b, ok := m.(*promParser.BinaryExpr)
	if !ok {
		return ""
	}
	reason := at.IsDeadReason
	switch {
	case strings.Contains(reason, "which is not possible"):
		if !b.Op.IsComparisonOperator() {
			return ""
		}
		if b.ReturnBool {
			return "K1"
		}
		if !(constValOK(b.LHS) && constValOK(b.RHS)) {
			return "K6"
		}
	case strings.HasPrefix(reason, "the left hand side always"):
		if b.Op != promParser.LOR || b.VectorMatching == nil {
			return ""
		}
		if !(b.VectorMatching.On && len(b.VectorMatching.MatchingLabels) == 0) {
			return "K2"
		}
		if k7Decider(b.LHS) {
			return "K7"
		}
	case strings.Contains(reason, "`unless` query always returns"):
		if b.Op == promParser.LUNLESS && k7Decider(b.RHS) {
			return "K7"
		}
	}
	return ""
}

// ---- Go mirrors of the proved-fragment predicates of Model/PromClass.v and Model/PromAlways.v (cross-checked per case) ----

func plainMatch(vm *promParser.VectorMatching) bool {
	return vm == nil || (vm.Card == promParser.CardOneToOne && !vm.On)
}

var exactMapFuncs = map[string]bool{}

func init() {
	for _, f := range []string{"abs", "sgn", "acos", "acosh", "asin", "asinh", "atan", "atanh", "cos", "cosh", "sin", "sinh", "tan", "tanh",
		"ceil", "floor", "round", "deg", "rad", "ln", "log10", "log2", "sqrt", "exp", "timestamp", "clamp_max", "clamp_min", "sort", "sort_desc"} {
		exactMapFuncs[f] = true
	}
}

func isSetOp(op promParser.ItemType) bool {
	return op == promParser.LAND || op == promParser.LOR || op == promParser.LUNLESS
}

func argIsSeries(c *promParser.Call, i int) bool {
	if len(c.Func.ArgTypes) == 0 {
		return false
	}
	t := c.Func.ArgTypes[min(i, len(c.Func.ArgTypes)-1)]
	return t == promParser.ValueTypeVector || t == promParser.ValueTypeMatrix
}

// scalarLike mirrors PromAlways.scalar_like
func scalarLike(e promParser.Node) bool {
	switch n := e.(type) {
	case *promParser.NumberLiteral:
		return true
	case *promParser.ParenExpr:
		return scalarLike(n.Expr)
	case *promParser.UnaryExpr:
		return scalarLike(n.Expr)
	case *promParser.Call:
		return n.Func.Name == "scalar" || n.Func.Name == "time" || n.Func.Name == "pi"
	case *promParser.BinaryExpr:
		return n.VectorMatching == nil && !isSetOp(n.Op) && scalarLike(n.LHS) && scalarLike(n.RHS)
	}
	return false
}

// k7FreeVec mirrors PromAlways.k7_free_vec
func k7FreeVec(e promParser.Node) bool {
	switch n := e.(type) {
	case *promParser.VectorSelector:
		return true
	case *promParser.ParenExpr:
		return k7FreeVec(n.Expr)
	case *promParser.UnaryExpr:
		return k7FreeVec(n.Expr)
	case *promParser.AggregateExpr:
		switch n.Op {
		case promParser.TOPK, promParser.BOTTOMK, promParser.LIMITK, promParser.LIMIT_RATIO:
			return false
		}
		return k7FreeVec(n.Expr)
	case *promParser.Call:
		switch {
		case n.Func.Name == "vector", n.Func.Name == "absent", n.Func.Name == "absent_over_time":
			return true
		case contains(pqTimeFnsAll, n.Func.Name):
			if len(n.Args) == 0 {
				return true
			}
			return len(n.Args) == 1 && argIsSeries(n, 0) && k7FreeVec(n.Args[0])
		case exactMapFuncs[n.Func.Name]:
			return len(n.Args) == 1 && argIsSeries(n, 0) && k7FreeVec(n.Args[0])
		}
		return false
	case *promParser.BinaryExpr:
		return n.VectorMatching == nil && !isSetOp(n.Op) &&
			((k7FreeVec(n.LHS) && scalarLike(n.RHS)) || (scalarLike(n.LHS) && k7FreeVec(n.RHS)))
	}
	return false
}

var pqTimeFnsAll = []string{"days_in_month", "day_of_month", "day_of_week", "day_of_year", "hour", "minute", "month", "year"}

// k3Free mirrors PromAlways.k3_free
func k3Free(e promParser.Node) bool {
	switch n := e.(type) {
	case *promParser.VectorSelector:
		return true
	case *promParser.MatrixSelector:
		return k3Free(n.VectorSelector)
	case *promParser.SubqueryExpr:
		return k3Free(n.Expr)
	case *promParser.ParenExpr:
		return k3Free(n.Expr)
	case *promParser.UnaryExpr:
		return k3Free(n.Expr)
	case *promParser.AggregateExpr:
		switch n.Op {
		case promParser.COUNT_VALUES, promParser.LIMITK, promParser.LIMIT_RATIO:
			return false
		}
		return k3Free(n.Expr)
	case *promParser.BinaryExpr:
		return n.VectorMatching == nil && !isSetOp(n.Op) &&
			((k3Free(n.LHS) && scalarLike(n.RHS)) || (scalarLike(n.LHS) && k3Free(n.RHS)))
	}
	return false
}

// joinLabelOK mirrors PromClass.join_label_ok with U = __name__ :: label universe
func joinLabelOK(vm *promParser.VectorMatching, many promParser.Node, l string) bool {
	inU := l == "__name__" || contains(pqLabels, l)
	return (mustHave(many, l) && (vm.On || l != "__name__")) ||
		(!vm.On && len(vm.Include) == 0 && k3Free(many) && inU && l != "__name__")
}

// classRows mirrors Model.PromClass.class_rows: one row per binary node in pre-order --
// [k1_class; k2_class; k6_class; k7_op lhs; k7_op rhs] ++ (for a vector/vector node) k3_mech per label of pqTemplateVars.
// The correspondence check compares it with the Gallina definitions on every case (tag "classes"), so the guard
// predicates of theorem C12_impossible_sound are the predicates this harness classifies with.
func classRows(root promParser.Node) string {
	rows := []string{}
	for _, n := range pqNodes(root) {
		b, ok := n.(*promParser.BinaryExpr)
		if !ok {
			continue
		}
		cmp := b.Op.IsComparisonOperator()
		vm := b.VectorMatching
		row := []string{
			coqBool(cmp && b.ReturnBool),
			coqBool(b.Op == promParser.LOR && vm != nil && !(vm.On && len(vm.MatchingLabels) == 0)),
			coqBool(cmp && !(constValOK(b.LHS) && constValOK(b.RHS))),
			coqBool(k7Decider(b.LHS)),
			coqBool(k7Decider(b.RHS)),
			// proved-fragment predicates (Model.PromClass.in_fragment / join_label_ok)
			coqBool(plainMatch(vm) && constValOK(b.LHS) && constValOK(b.RHS)),
			coqBool(k7FreeVec(b.LHS)),
			coqBool(k7FreeVec(b.RHS)),
		}
		if vm != nil {
			many := b.LHS
			if vm.Card == promParser.CardOneToMany {
				many = b.RHS
			}
			row = append(row, coqBool(k3Free(many)))
			for _, l := range pqTemplateVars {
				row = append(row, coqBool(k3Mechanism(b, many, l)))
			}
		}
		rows = append(rows, coqList(row))
	}
	return coqList(rows)
}

// verdictClassOf: first known class among the dead branches `cands` of node `n`, in the priority order given.
func verdictClassOf(expr string, n promParser.Node, cands []utils.Source, order []string) string {
	found := map[string]bool{}
	for _, s := range cands {
		if c := verdictClass(expr, n, s); c != "" {
			found[c] = true
		}
	}
	for _, c := range order {
		if found[c] {
			return c
		}
	}
	return ""
}

var c04ClassID = map[string]string{"K1": "C04-live-bool-K1", "K2": "C04-live-or-K2", "K6": "C04-live-static-value-K6", "K7": "C04-live-always-returns-K7"}
var c12ClassID = map[string]string{"K1": "C12-bool-K1", "K2": "C12-or-K2", "K6": "C12-static-value-K6", "K7": "C12-always-returns-K7"}

// orRHSDead: n is an `or` whose right-hand sources were all marked dead at this node.
func orRHSDead(expr string, b *promParser.BinaryExpr) bool {
	if b.Op != promParser.LOR {
		return false
	}
	srcs := utils.LabelsSource(expr, b)
	rhs := utils.LabelsSource(expr, b.RHS)
	if len(rhs) == 0 || len(srcs) < len(rhs) {
		return false
	}
	tail := srcs[len(srcs)-len(rhs):]
	for i, s := range tail {
		if !s.IsDead || rhs[i].IsDead {
			return false
		}
	}
	return true
}

// K2: an `or` whose RHS is flagged because the LHS "always returns", except `or on()` (all signatures coincide).
func classK2(expr string, node promParser.Node) bool {
	return anyNode(node, func(n promParser.Node) bool {
		b, ok := n.(*promParser.BinaryExpr)
		if !ok || b.Op != promParser.LOR || b.VectorMatching == nil {
			return false
		}
		if b.VectorMatching.On && len(b.VectorMatching.MatchingLabels) == 0 {
			return false
		}
		srcs := utils.LabelsSource(expr, b)
		rhs := utils.LabelsSource(expr, b.RHS)
		if len(srcs) < len(rhs) {
			return false
		}
		for _, s := range srcs[len(srcs)-len(rhs):] {
			if s.IsDead && strings.HasPrefix(s.IsDeadReason, "the left hand side always") {
				return true
			}
		}
		return false
	})
}

func contains(xs []string, x string) bool {
	for _, y := range xs {
		if x == y {
			return true
		}
	}
	return false
}

var keepNameFuncs = map[string]bool{"last_over_time": true, "sort": true, "sort_desc": true}
var preserveFuncs = map[string]bool{}

func init() {
	for _, f := range append(append(append([]string{}, pqPreserve1...), pqRangeFns...), "clamp", "clamp_min", "clamp_max", "quantile_over_time") {
		preserveFuncs[f] = true
	}
}

// mustHave mirrors Model.PromSem.must_have: under db_total every series of every result of `node` carries `l`.
func mustHave(node promParser.Node, l string) bool {
	switch n := node.(type) {
	case *promParser.VectorSelector:
		return l == "__name__" || contains(pqLabels, l)
	case *promParser.MatrixSelector:
		return mustHave(n.VectorSelector, l)
	case *promParser.SubqueryExpr:
		return mustHave(n.Expr, l)
	case *promParser.ParenExpr:
		return mustHave(n.Expr, l)
	case *promParser.UnaryExpr:
		return l != "__name__" && mustHave(n.Expr, l)
	case *promParser.AggregateExpr:
		switch n.Op {
		case promParser.TOPK, promParser.BOTTOMK:
			return mustHave(n.Expr, l)
		case promParser.COUNT_VALUES:
			return false
		}
		if n.Without {
			return l != "__name__" && !contains(n.Grouping, l) && mustHave(n.Expr, l)
		}
		return contains(n.Grouping, l) && mustHave(n.Expr, l)
	case *promParser.Call:
		if preserveFuncs[n.Func.Name] {
			for i, a := range n.Args {
				t := n.Func.ArgTypes[min(i, len(n.Func.ArgTypes)-1)]
				if t == promParser.ValueTypeVector || t == promParser.ValueTypeMatrix {
					return (l != "__name__" || keepNameFuncs[n.Func.Name]) && mustHave(a, l)
				}
			}
		}
		return false
	case *promParser.BinaryExpr:
		vm := n.VectorMatching
		if vm == nil {
			if l == "__name__" {
				return false
			}
			if n.LHS.Type() == promParser.ValueTypeVector {
				return mustHave(n.LHS, l)
			}
			if n.RHS.Type() == promParser.ValueTypeVector {
				return mustHave(n.RHS, l)
			}
			return false
		}
		switch n.Op {
		case promParser.LAND, promParser.LUNLESS:
			return mustHave(n.LHS, l)
		case promParser.LOR:
			return mustHave(n.LHS, l) && mustHave(n.RHS, l)
		}
		if l == "__name__" {
			return false
		}
		switch vm.Card {
		case promParser.CardOneToOne:
			if vm.On {
				return contains(vm.MatchingLabels, l) && mustHave(n.LHS, l)
			}
			return !contains(vm.MatchingLabels, l) && mustHave(n.LHS, l)
		case promParser.CardManyToOne:
			return !contains(vm.Include, l) && mustHave(n.LHS, l)
		case promParser.CardOneToMany:
			return !contains(vm.Include, l) && mustHave(n.RHS, l)
		}
	}
	return false
}

// ---------------------------------------------------------------------------------------------

func sameSeriesSets(a, b []map[string]string) bool {
	ka := map[string]bool{}
	for _, s := range a {
		ka[lsetKey(s)] = true
	}
	kb := map[string]bool{}
	for _, s := range b {
		kb[lsetKey(s)] = true
	}
	if len(ka) != len(kb) {
		return false
	}
	for k := range ka {
		if !kb[k] {
			return false
		}
	}
	return true
}

func consistent(s utils.Source, ls map[string]string) bool {
	for l := range ls {
		if !s.CanHaveLabel(l) {
			return false
		}
	}
	return true
}

type pqRunner struct {
	prop string
	rep  *runReport
	eng  *promql.Engine
	keep bool // keep replayable cases in the report
}

func (pr *pqRunner) failure(id, what string, c pqCase, known string) {
	if known != "" {
		pr.rep.failKnown(id, what, c, known)
		pr.rep.hist("oracle:known:" + known)
	} else {
		pr.rep.fail(id, what, c)
		pr.rep.hist("oracle:VIOLATION")
	}
}

// oracleC04 checks the property at every vector-valued node of the expression on one database.
func (pr *pqRunner) oracleC04(base pqCase, expr string, root promParser.Node, nodes []promParser.Node, results []pqResult, db *pqDB, reported []string) {
	for i, n := range nodes {
		res := results[i]
		if res.Kind != "vector" {
			continue
		}
		srcs := utils.LabelsSource(expr, n)
		c := base
		c.DB = db
		c.Node = n.String()
		c.NodeResult = &results[i]
		c.Sources = toJSONSources(srcs)
		for _, ls := range res.Series {
			okLive, okAny := false, false
			for _, s := range srcs {
				if consistent(s, ls) {
					okAny = true
					if !s.IsDead {
						okLive = true
					}
				}
			}
			if okLive {
				continue
			}
			known := ""
			what := fmt.Sprintf("C04: the engine returns series %s for `%s` but it is consistent with no live result branch of the analyser", lsetKey(ls), n.String())
			if okAny {
				// consistent with a branch wrongly marked dead: liveness classes of C12, decided per verdict (the dead
				// branches this very series is consistent with, each traced to the node that marked it dead)
				cands := []utils.Source{}
				for _, s := range srcs {
					if s.IsDead && consistent(s, ls) {
						cands = append(cands, s)
					}
				}
				known = c04ClassID[verdictClassOf(expr, n, cands, []string{"K2", "K1", "K6", "K7"})]
			}
			pr.failure(fmt.Sprintf("%d", base.ID), what, c, known)
			break
		}
		// single-branch clause through the REAL alerts/template report (top-level node only)
		if i == 0 && len(srcs) == 1 {
			for _, l := range reported {
				for _, ls := range res.Series {
					if _, has := ls[l]; has {
						pr.failure(fmt.Sprintf("%d", base.ID),
							fmt.Sprintf("C04: alerts/template reports label `%s` as non-existent for the single-branch query `%s` but the engine returns %s", l, expr, lsetKey(ls)),
							c, "")
						break
					}
				}
			}
		}
	}
}

// deadInherited: an operand whose result branches flow into n's branches already has only dead branches
// (for a vector/vector operation that is the "many" side only: the other side ends up in Joins/Unless).
func deadInherited(expr string, n promParser.Node) bool {
	kids := promParser.Children(n)
	if b, ok := n.(*promParser.BinaryExpr); ok && b.VectorMatching != nil && b.Op != promParser.LOR {
		if b.VectorMatching.Card == promParser.CardOneToMany {
			kids = []promParser.Node{b.RHS}
		} else {
			kids = []promParser.Node{b.LHS}
		}
	}
	for _, c := range kids {
		if c == nil {
			continue
		}
		if allDead(utils.LabelsSource(expr, c)) {
			return true
		}
	}
	return false
}

func allDead(srcs []utils.Source) bool {
	if len(srcs) == 0 {
		return false
	}
	for _, s := range srcs {
		if !s.IsDead {
			return false
		}
	}
	return true
}

// oracleC12 checks, at every node, the dead-code verdicts that can be attributed to that node.
func (pr *pqRunner) oracleC12(base pqCase, expr string, nodes []promParser.Node, results []pqResult, db *pqDB) {
	if !db.Total {
		return
	}
	index := map[promParser.Node]int{}
	for i, n := range nodes {
		index[n] = i
	}
	for i, n := range nodes {
		res := results[i]
		if res.Kind == "error" || res.Kind == "string" || res.Kind == "matrix" {
			continue
		}
		srcs := utils.LabelsSource(expr, n)
		c := base
		c.DB = db
		c.Node = n.String()
		c.NodeResult = &results[i]
		c.Sources = toJSONSources(srcs)
		id := fmt.Sprintf("%d", base.ID)
		// (A) every branch of the node is dead => the node returns nothing.  Only where the verdict is INTRODUCED:
		// a parent inherits the flags of a dead operand (absent(<dead>) is not dead since fix f3c0f95).
		if allDead(srcs) && !deadInherited(expr, n) {
			pr.rep.hist("c12:all-branches-dead")
			if bb, ok := stripParens(n).(*promParser.BinaryExpr); ok {
				kind, frag := "", false
				switch {
				case bb.Op.IsComparisonOperator():
					kind, frag = "static", !bb.ReturnBool && plainMatch(bb.VectorMatching) && constValOK(bb.LHS) && constValOK(bb.RHS)
				case bb.Op == promParser.LUNLESS && bb.VectorMatching != nil:
					kind, frag = "unless-on", bb.VectorMatching.On && len(bb.VectorMatching.MatchingLabels) == 0 && k7FreeVec(bb.RHS)
				}
				if kind != "" {
					cls := verdictClassOf(expr, n, srcs, []string{"K1", "K6", "K2", "K7"})
					switch {
					case cls != "":
						pr.rep.hist("verdict:" + kind + ":in-known-class")
					case frag:
						pr.rep.hist("verdict:" + kind + ":proved-fragment")
					default:
						pr.rep.hist("verdict:" + kind + ":tested-only")
					}
				}
			}
			if res.Kind == "scalar" || len(res.Series) > 0 {
				// per verdict: every branch is dead; the claim fails because at least one of these verdicts is wrong
				known := c12ClassID[verdictClassOf(expr, n, srcs, []string{"K1", "K6"})]
				if known == "" {
					known = pr.joinClassNode(expr, n)
				}
				if known == "" {
					known = c12ClassID[verdictClassOf(expr, n, srcs, []string{"K2", "K7"})]
				}
				pr.failure(id, fmt.Sprintf("C12: every result branch of `%s` is reported dead (%s) but the engine returns %d series / a scalar",
					n.String(), srcs[0].IsDeadReason, len(res.Series)), c, known)
				continue
			}
		}
		b, ok := n.(*promParser.BinaryExpr)
		if !ok || b.VectorMatching == nil {
			continue
		}
		li, ri := index[b.LHS], index[b.RHS]
		if results[li].Kind != "vector" || results[ri].Kind != "vector" {
			continue
		}
		// (d) `or`: RHS dead => the RHS contributes nothing
		if b.Op == promParser.LOR {
			if orRHSDead(expr, b) {
				pr.rep.hist("c12:or-rhs-dead")
				{
					rhsN := len(utils.LabelsSource(expr, b.RHS))
					cls := verdictClassOf(expr, b, srcs[len(srcs)-rhsN:], []string{"K2", "K7", "K1", "K6"})
					switch {
					case cls != "":
						pr.rep.hist("verdict:or-rhs:in-known-class")
					case b.VectorMatching.On && len(b.VectorMatching.MatchingLabels) == 0 && k7FreeVec(b.LHS):
						pr.rep.hist("verdict:or-rhs:proved-fragment")
					default:
						pr.rep.hist("verdict:or-rhs:tested-only")
					}
				}
				if !sameSeriesSets(res.Series, results[li].Series) {
					// per verdict: the right-hand branches marked dead at this very node
					rhsN := len(utils.LabelsSource(expr, b.RHS))
					known := c12ClassID[verdictClassOf(expr, b, srcs[len(srcs)-rhsN:], []string{"K2", "K7", "K1", "K6"})]
					pr.failure(id, fmt.Sprintf("C12: the right hand side of `%s` is reported dead but it contributes series to the result", n.String()), c, known)
				}
			}
			continue
		}
		// (b) join verdicts added at this node: the last k entries of Joins/Unless of every branch
		var other promParser.Node = b.RHS
		var many promParser.Node = b.LHS
		if b.VectorMatching.Card == promParser.CardOneToMany {
			other, many = b.LHS, b.RHS
		}
		k := len(utils.LabelsSource(expr, other))
		if k == 0 || len(srcs) == 0 {
			continue
		}
		// Branches are grouped by branchKey (position of the sub-expression they describe + their label sets): the copies
		// parseBinOps makes of the vector side (one per branch of a scalar operand) describe the same series, so a verdict
		// on one copy is a verdict on that sub-expression.  canJoin reads nothing but the label sets, hence branches with
		// equal keys get the same verdict unless the label bookkeeping is corrupted (e.g. an empty name left behind).
		anyFlagged := false
		joinFragment := true
		jclass := ""
		manyGroups := map[string]bool{}
		for _, s := range srcs {
			own := s.Joins
			if b.Op == promParser.LUNLESS {
				own = s.Unless
			}
			if _, ok := manyGroups[branchKey(s)]; !ok {
				manyGroups[branchKey(s)] = false
			}
			if len(own) < k {
				continue
			}
			otherGroups := map[string]bool{}
			for _, j := range own[len(own)-k:] {
				if _, ok := otherGroups[branchKey(j.Src)]; !ok {
					otherGroups[branchKey(j.Src)] = false
				}
				if !j.Src.IsDead {
					continue
				}
				// dead without a label: dead for another reason (inherited from below), not a verdict of this node
				if l, ok := deadLabel(j.Src); ok {
					anyFlagged = true
					otherGroups[branchKey(j.Src)] = true
					if c := joinClass(b, many, l); c != "" {
						jclass = c
					}
					if !joinLabelOK(b.VectorMatching, many, l) {
						joinFragment = false
					}
				}
			}
			srcFlagged := true
			for _, f := range otherGroups {
				srcFlagged = srcFlagged && f
			}
			if srcFlagged {
				manyGroups[branchKey(s)] = true
			}
		}
		allFlagged := true
		for _, f := range manyGroups {
			allFlagged = allFlagged && f
		}
		if anyFlagged && !allFlagged {
			pr.rep.hist("c12:join-partially-flagged(unattributed)")
		}
		if !(anyFlagged && allFlagged) {
			continue
		}
		pr.rep.hist("c12:join-all-flagged")
		// where does this verdict stand: known class / inside the fragment of theorem C12_impossible_sound / tested only
		switch {
		case jclass != "":
			pr.rep.hist("verdict:join:in-known-class")
		case b.Op != promParser.LOR && joinFragment:
			pr.rep.hist("verdict:join:proved-fragment")
		default:
			pr.rep.hist("verdict:join:tested-only")
		}
		bad := false
		if b.Op == promParser.LUNLESS {
			bad = !sameSeriesSets(res.Series, results[index[many]].Series)
		} else {
			bad = len(res.Series) > 0
		}
		if bad {
			known := ""
			switch {
			case jclass != "":
				known = jclass
			case pr.joinClassNode(expr, b.LHS) != "":
				known = pr.joinClassNode(expr, b.LHS)
			case pr.joinClassNode(expr, b.RHS) != "":
				known = pr.joinClassNode(expr, b.RHS)
			}
			pr.failure(id, fmt.Sprintf("C12: every join of `%s` is reported as never matching but the operation returns %d series (operand contributes)",
				n.String(), len(res.Series)), c, known)
		}
	}
}

func stripParens(n promParser.Node) promParser.Node {
	for {
		p, ok := n.(*promParser.ParenExpr)
		if !ok {
			return n
		}
		n = p.Expr
	}
}

// branchKey identifies a result branch for the attribution of join verdicts: position, FixedLabels and the three label
// lists as sets of real (non-empty) names.
func branchKey(s utils.Source) string {
	norm := func(xs []string) []string {
		seen := map[string]bool{}
		out := []string{}
		for _, x := range xs {
			if x != "" && !seen[x] {
				seen[x] = true
				out = append(out, x)
			}
		}
		sort.Strings(out)
		return out
	}
	return fmt.Sprintf("%d-%d|%v|%q|%q|%q", s.Position.Start, s.Position.End, s.FixedLabels,
		norm(s.IncludedLabels), norm(s.ExcludedLabels), norm(s.GuaranteedLabels))
}

// stringLit mirrors Model.PromQL.lit_val / source.go's stringLiteralValue: a string literal seen through parentheses.
func stringLit(n promParser.Node) (string, bool) {
	for {
		switch e := n.(type) {
		case *promParser.ParenExpr:
			n = e.Expr
		case *promParser.StringLiteral:
			return e.Val, true
		default:
			return "", false
		}
	}
}

// safeLabelsSource runs the analyser and reports a panic instead of dying with it.
func safeLabelsSource(expr string, root promParser.Node) (srcs []utils.Source, panicked string) {
	defer func() {
		if r := recover(); r != nil {
			panicked = fmt.Sprint(r)
		}
	}()
	return utils.LabelsSource(expr, root), ""
}

// k3Mechanism: one of the mechanisms of known finding K3 can explain why the analyser believes the driving side
// `many` of operation `b` may carry label `l` although it need not:
//
//	M1 includeLabel of on(...) / group_x(...) labels: `l` is an on() label of `b` itself or an on()/group_x() label of a
//	   vector/vector operation inside `many`;
//	M2 functions re-guarantee the labels of their innermost selector: a call inside `many` with a positive matcher on `l`
//	   below it;
//	M3 label_replace/label_join guarantee their destination even when the replacement is empty;
//	M4 count_values guarantees its label.
//
// A join verdict on a label none of them explains (a label left in GuaranteedLabels/IncludedLabels by anything else)
// is outside the class.
func k3Mechanism(b *promParser.BinaryExpr, many promParser.Node, l string) bool {
	if b.VectorMatching != nil && b.VectorMatching.On && contains(b.VectorMatching.MatchingLabels, l) {
		return true
	}
	posMatcher := func(n promParser.Node) bool {
		return anyNode(n, func(m promParser.Node) bool {
			vs, ok := m.(*promParser.VectorSelector)
			if !ok {
				return false
			}
			for _, lm := range vs.LabelMatchers {
				if lm.Name == l && (lm.Type == labels.MatchEqual || lm.Type == labels.MatchRegexp) {
					return true
				}
			}
			return false
		})
	}
	return anyNode(many, func(n promParser.Node) bool {
		switch x := n.(type) {
		case *promParser.BinaryExpr:
			if x.VectorMatching != nil && ((x.VectorMatching.On && contains(x.VectorMatching.MatchingLabels, l)) || contains(x.VectorMatching.Include, l)) {
				return true
			}
		case *promParser.Call:
			if (x.Func.Name == "label_replace" || x.Func.Name == "label_join") && len(x.Args) > 1 {
				if v, ok := stringLit(x.Args[1]); ok && v == l {
					return true
				}
			}
			switch x.Func.Name {
			case "vector", "scalar", "absent", "absent_over_time", "label_replace", "label_join", "sort", "sort_desc", "time", "pi":
			default:
				return posMatcher(x)
			}
		case *promParser.AggregateExpr:
			if v, ok := stringLit(x.Param); ok && x.Op == promParser.COUNT_VALUES && v == l {
				return true
			}
		}
		return false
	})
}

// k3Label: the class predicate of known finding K3 for one join verdict of operation `b` on label `l`: the "many"
// side is not guaranteed to carry `l` (complement of the guard of C12_join_partial) AND one of the K3 mechanisms
// accounts for the analyser's belief that it may.
func k3Label(b *promParser.BinaryExpr, many promParser.Node, l string) bool {
	return l != "" && !mustHave(many, l) && k3Mechanism(b, many, l)
}

// joinClass: the known-finding class (or "") of one join verdict of operation `b` on label `l`.
func joinClass(b *promParser.BinaryExpr, many promParser.Node, l string) string {
	if k3Label(b, many, l) {
		return "C12-must-have-K3"
	}
	return ""
}

// joinClassNode: some join verdict inside `node` falls into a known class (K3: it rests on a label the "many" side is
// not guaranteed to carry and a K3 mechanism explains the belief).
func (pr *pqRunner) joinClassNode(expr string, node promParser.Node) string {
	found := ""
	anyNode(node, func(n promParser.Node) bool {
		b, ok := n.(*promParser.BinaryExpr)
		if !ok || b.VectorMatching == nil || b.Op == promParser.LOR {
			return false
		}
		many := b.LHS
		other := b.RHS
		if b.VectorMatching.Card == promParser.CardOneToMany {
			many, other = b.RHS, b.LHS
		}
		k := len(utils.LabelsSource(expr, other))
		for _, s := range utils.LabelsSource(expr, b) {
			own := s.Joins
			if b.Op == promParser.LUNLESS {
				own = s.Unless
			}
			if len(own) < k {
				continue
			}
			for _, j := range own[len(own)-k:] {
				if l, ok := deadLabel(j.Src); ok {
					if c := joinClass(b, many, l); c != "" {
						found = c
						return true
					}
				}
			}
		}
		return false
	})
	return found
}

func countDead(srcs []utils.Source) int {
	n := 0
	for _, s := range srcs {
		s.WalkSources(func(x utils.Source) {
			if x.IsDead {
				n++
			}
		})
	}
	return n
}

func runPromql(prop string, args []string) int {
	n := argInt(args, "--n", 200)
	ndb := argInt(args, "--dbs", 5)
	depth := argInt(args, "--depth", 3)
	seed := seedFromEnv()
	r := rand.New(rand.NewSource(seed))
	rep := newReport(prop, seed)
	rep.Rule = "case = (expression accepted by the real PromQL parser, database); evaluations = engine evaluations of sub-expression nodes; " +
		"non-trivial = expression with >= 1 operator node (aggregation/call/binary) whose top-level engine result is a non-empty vector on the database; " +
		"distinct = (expression text, database)"
	pr := &pqRunner{prop: prop, rep: rep, eng: newPQEngine(), keep: n <= 3000}
	g := &pqGen{r: r, bias: prop, hist: rep.hist}
	cwd, _ := os.Getwd()
	perFile := 60
	if n > 3000 {
		perFile = 24 // thorough tier: depth-4 expressions x 8 databases; keep every case file well inside the per-file time limit
	}
	cw := newCaseWriter(cwd, "Run."+prop, perFile)
	cw.preamble = "From Coq Require Import Floats.\nFrom PintV Require Import Model.PromQL Model.Source Model.PromSem.\nOpen Scope list_scope.\n"

	exprs := []string{}
	for _, line := range corpusLines(prop) {
		exprs = append(exprs, line)
	}
	// systematic strata: everything in the thorough tier, a seed-dependent fifth in the quick tier
	sys := pqSystematic()
	stride := argInt(args, "--sys-stride", 5)
	for i, e := range sys {
		if stride <= 1 || i%stride == int(seed%int64(stride)) {
			exprs = append(exprs, e)
		}
	}
	// small strata around the label bookkeeping of parseAggregation / parseBinOps: always complete
	exprs = append(exprs, pqSystematicAlways()...)
	rep.Histogram["expr:systematic"] = len(exprs) - len(corpusLines(prop))
	ncorpus := len(exprs)
	for len(exprs) < ncorpus+n {
		d := 1 + r.Intn(depth)
		exprs = append(exprs, g.vec(d))
	}
	id := 0
	seenExpr := map[string]bool{}
	for ei, expr := range exprs {
		root, err := promParser.ParseExpr(expr)
		if err != nil {
			rep.hist("parser:rejected")
			continue
		}
		if seenExpr[expr] {
			rep.hist("expr:duplicate")
			continue
		}
		seenExpr[expr] = true
		term, ok := coqExpr(root)
		if !ok {
			rep.hist("ast:outside-model")
			continue
		}
		if modPowStatic(expr, root) {
			rep.hist("skipped:mod-pow-on-static-operands")
			continue
		}
		rep.hist("parser:accepted")
		if ei < ncorpus {
			rep.hist("expr:corpus")
		}
		srcs, panicked := safeLabelsSource(expr, root)
		if panicked != "" {
			// the analyser crashes on an expression the real parser accepts: neither check can say anything true about it
			rep.hist("analyser:PANIC")
			pr.failure(fmt.Sprintf("%d", id), fmt.Sprintf("%s: utils.LabelsSource panics on `%s`, which the PromQL parser accepts (%s): alerts/template and promql/impossible crash instead of reporting", prop, expr, panicked),
				pqCase{ID: id, Expr: expr, Detail: panicked}, "")
			id++
			continue
		}
		missing, impossible, err := realChecks(expr)
		if err != nil {
			rep.Notes = append(rep.Notes, fmt.Sprintf("%s: %v", expr, err))
			rep.hist("realchecks:error")
			continue
		}
		rep.hist(fmt.Sprintf("sources:%d", min(len(srcs), 4)))
		if countDead(srcs) > 0 {
			rep.hist("expr:has-dead-source")
		}
		if len(missing) > 0 {
			rep.hist("expr:template-reports-missing-label")
		}
		nodes := pqNodes(root)
		base := pqCase{ID: id, Expr: expr, Sources: toJSONSources(srcs), TmplMissing: missing, Impossible: impossible}
		// must_have mirror table
		mh := []string{}
		for _, l := range pqTemplateVars {
			if mustHave(root, l) {
				mh = append(mh, l)
			}
		}
		dbTerms := []string{}
		anyTotalNonEmpty := false
		texts := make([]string, len(nodes))
		for i, nd := range nodes {
			texts[i] = pqNodeText(expr, nd)
		}
		for di := 0; di < ndb; di++ {
			total := prop == "C12" || di%2 == 1
			db := g.db(total, 1+di%3)
			if ndb >= 3 && di >= ndb-2 {
				// the last two databases are directed by the expression (every selector matches something)
				db = witnessDB(root, di-(ndb-2))
				rep.hist(fmt.Sprintf("db:witness(total=%v)", db.Total))
			}
			results := make([]pqResult, len(nodes))
			rterms := make([]string, len(nodes))
			for i, nd := range nodes {
				results[i] = pqEval(pr.eng, db, texts[i])
				rterms[i] = coqResult(results[i])
				rep.hist("result:" + results[i].Kind)
				// strata of the node-by-node validation of Model/PromSem.v: node kind x (empty | non-empty) engine result
				if results[i].Kind == "vector" || results[i].Kind == "matrix" {
					ne := "empty"
					if len(results[i].Series) > 0 {
						ne = "non-empty"
					}
					rep.hist("sem-validated:" + pqNodeKind(nd) + ":" + ne)
				}
			}
			nontrivial := len(nodes) > 1 && results[0].Kind == "vector" && len(results[0].Series) > 0
			for range nodes {
				rep.count(expr+"|"+coqDB(db), nontrivial)
			}
			if total && results[0].Kind == "vector" && len(results[0].Series) > 0 {
				anyTotalNonEmpty = true
			}
			if prop == "C04" {
				pr.oracleC04(base, expr, root, nodes, results, db, missing)
			} else {
				pr.oracleC12(base, expr, nodes, results, db)
			}
			dbTerms = append(dbTerms, fmt.Sprintf("{| d_total := %s; d_series := %s; d_results := %s |}", coqBool(db.Total), coqDB(db), coqList(rterms)))
			if di == 0 {
				rep.sample(map[string]any{"expr": expr, "db": db, "result": results[0], "sources": base.Sources, "template_missing": missing, "impossible": impossible})
			}
		}
		if prop == "C12" && len(impossible) > countDead(srcs) && anyTotalNonEmpty {
			pr.failure(fmt.Sprintf("%d", id), "C12: promql/impossible reports more dead-code problems than the analyser has dead sources, and the query returns series", base, "")
		}
		if pr.keep {
			rep.Cases[fmt.Sprintf("%d", id)] = base
		}
		cw.add(fmt.Sprintf("{| c_id := %s; c_expr := %s;\n   c_sources := %s;\n   c_tmpl_vars := %s; c_tmpl_missing := %s; c_impossible := %s; c_musthave := %s;\n   c_classes := %s;\n   c_dbs := %s |}",
			coqN(id), term, coqSources(srcs), coqStrList(pqTemplateVars), coqStrList(missing), coqN(len(impossible)), coqStrList(mh), classRows(root), coqList(dbTerms)))
		id++
	}
	cw.flush()
	rep.CaseFiles = cw.files
	rep.write(filepath.Join(cwd, "report.json"))
	fmt.Printf("%s: %d expressions, %d node evaluations, %d oracle failures (%d known)\n", prop, id, rep.Evaluations, len(rep.OracleFails), sumKnown(rep.Known))
	return 0
}

// pqNodeText: the query text handed to the engine for one sub-expression.  Normally the printer's rendering of the node;
// but Node.String() DROPS the whole matching clause of `x op ignoring() group_left(l) y` (an empty ignoring() list is not
// printed, and the group modifier goes with it), so a node containing such an operation is evaluated from its own
// slice of the original text instead.
func pqNodeText(expr string, nd promParser.Node) string {
	lossy := anyNode(nd, func(n promParser.Node) bool {
		// the printer may reorder the matchers of a selector; the order matters to absent() when a name is matched twice
		if vs, ok := n.(*promParser.VectorSelector); ok {
			seen := map[string]bool{}
			for _, m := range vs.LabelMatchers {
				if seen[m.Name] {
					return true
				}
				seen[m.Name] = true
			}
			return false
		}
		b, ok := n.(*promParser.BinaryExpr)
		if !ok || b.VectorMatching == nil {
			return false
		}
		vm := b.VectorMatching
		return !vm.On && len(vm.MatchingLabels) == 0 && (vm.Card == promParser.CardManyToOne || vm.Card == promParser.CardOneToMany)
	})
	if lossy {
		pos := nd.PositionRange()
		if int(pos.Start) >= 0 && int(pos.End) <= len(expr) && pos.Start < pos.End {
			txt := expr[pos.Start:pos.End]
			if re, err := promParser.ParseExpr(txt); err == nil {
				if e, ok := nd.(promParser.Expr); ok && re.Type() == e.Type() {
					return txt
				}
			}
		}
	}
	return nd.String()
}

// pqNodeKind names the local rule of Model/PromSem.v a node is validated against.
func pqNodeKind(n promParser.Node) string {
	switch x := n.(type) {
	case *promParser.VectorSelector:
		for _, m := range x.LabelMatchers {
			if m.Type == labels.MatchRegexp || m.Type == labels.MatchNotRegexp {
				return "selector(regex:inclusion)"
			}
		}
		return "selector"
	case *promParser.MatrixSelector:
		return "matrix"
	case *promParser.SubqueryExpr:
		return "subquery"
	case *promParser.ParenExpr:
		return "paren"
	case *promParser.UnaryExpr:
		return "unary"
	case *promParser.AggregateExpr:
		mod := "by"
		if x.Without {
			mod = "without"
		} else if len(x.Grouping) == 0 {
			mod = "all"
		}
		return "agg:" + x.Op.String() + ":" + mod
	case *promParser.Call:
		return "call:" + x.Func.Name
	case *promParser.BinaryExpr:
		if x.VectorMatching == nil || x.LHS.Type() != promParser.ValueTypeVector || x.RHS.Type() != promParser.ValueTypeVector {
			return "binary-scalar:" + x.Op.String()
		}
		m := "ignoring"
		if x.VectorMatching.On {
			m = "on"
		}
		return "binary:" + x.Op.String() + ":" + x.VectorMatching.Card.String() + ":" + m
	}
	return "other"
}

func sumKnown(m map[string]int) int {
	n := 0
	for _, v := range m {
		n += v
	}
	return n
}

// corpusLines reads /verif/corpus/<prop>/*.promql (one expression per line, # comments).
func corpusLines(prop string) []string {
	dir := filepath.Join(verifRoot(), "corpus", prop)
	ents, err := os.ReadDir(dir)
	if err != nil {
		return nil
	}
	out := []string{}
	for _, e := range ents {
		if !strings.HasSuffix(e.Name(), ".promql") {
			continue
		}
		b, err := os.ReadFile(filepath.Join(dir, e.Name()))
		if err != nil {
			continue
		}
		for _, l := range strings.Split(string(b), "\n") {
			l = strings.TrimSpace(l)
			if l == "" || strings.HasPrefix(l, "#") {
				continue
			}
			out = append(out, l)
		}
	}
	return out
}

func verifRoot() string {
	if v := os.Getenv("VERIF_ROOT"); v != "" {
		return v
	}
	return "/verif"
}
