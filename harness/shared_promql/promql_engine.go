//go:build verif

package main

// In-memory storage.Queryable + vendored PromQL engine driver: evaluates EVERY sub-expression of a query
// at one instant.  A series is simply present (samples every 30s over the whole window) or absent, so
// offsets, ranges and subqueries see the same presence everywhere.

import (
	"context"
	"fmt"
	"sort"
	"strings"
	"time"

	"github.com/prometheus/prometheus/model/histogram"
	"github.com/prometheus/prometheus/model/labels"
	"github.com/prometheus/prometheus/promql"
	promParser "github.com/prometheus/prometheus/promql/parser"
	"github.com/prometheus/prometheus/storage"
	"github.com/prometheus/prometheus/tsdb/chunkenc"
	"github.com/prometheus/prometheus/tsdb/chunks"
	"github.com/prometheus/prometheus/util/annotations"
)

type pqSample struct {
	t int64
	f float64
}

func (s pqSample) T() int64                       { return s.t }
func (s pqSample) F() float64                     { return s.f }
func (s pqSample) H() *histogram.Histogram        { return nil }
func (s pqSample) FH() *histogram.FloatHistogram  { return nil }
func (s pqSample) Type() chunkenc.ValueType       { return chunkenc.ValFloat }
func (s pqSample) Copy() chunks.Sample            { return pqSample{s.t, s.f} }

// pqSeries: one stored series; labels include __name__.
type pqSeries struct {
	Labels map[string]string `json:"labels"`
	Value  float64           `json:"value"`
}

type pqDB struct {
	Series []pqSeries `json:"series"`
	Total  bool       `json:"db_total"`
}

const (
	pqEvalTS   = int64(1_700_000_000_000) // ms
	pqWindowMS = int64(3 * 3600 * 1000)
	pqStepMS   = int64(30_000)
)

func (s pqSeries) lset() labels.Labels { return labels.FromMap(s.Labels) }

type pqQueryable struct{ db *pqDB }

func (q pqQueryable) Querier(mint, maxt int64) (storage.Querier, error) {
	return pqQuerier{db: q.db, mint: mint, maxt: maxt}, nil
}

type pqQuerier struct {
	db         *pqDB
	mint, maxt int64
}

func (q pqQuerier) LabelValues(context.Context, string, *storage.LabelHints, ...*labels.Matcher) ([]string, annotations.Annotations, error) {
	return nil, nil, nil
}

func (q pqQuerier) LabelNames(context.Context, *storage.LabelHints, ...*labels.Matcher) ([]string, annotations.Annotations, error) {
	return nil, nil, nil
}
func (q pqQuerier) Close() error { return nil }

func (q pqQuerier) Select(_ context.Context, _ bool, _ *storage.SelectHints, matchers ...*labels.Matcher) storage.SeriesSet {
	var out []storage.Series
	for _, s := range q.db.Series {
		ls := s.lset()
		ok := true
		for _, m := range matchers {
			if !m.Matches(ls.Get(m.Name)) {
				ok = false
				break
			}
		}
		if !ok {
			continue
		}
		var samples []chunks.Sample
		for t := pqEvalTS - pqWindowMS; t <= pqEvalTS+pqStepMS; t += pqStepMS {
			if t >= q.mint && t <= q.maxt {
				samples = append(samples, pqSample{t, s.Value})
			}
		}
		out = append(out, storage.NewListSeries(ls, samples))
	}
	sort.Slice(out, func(i, j int) bool { return labels.Compare(out[i].Labels(), out[j].Labels()) < 0 })
	return &pqSeriesSet{series: out, idx: -1}
}

type pqSeriesSet struct {
	series []storage.Series
	idx    int
}

func (s *pqSeriesSet) Next() bool                        { s.idx++; return s.idx < len(s.series) }
func (s *pqSeriesSet) At() storage.Series                { return s.series[s.idx] }
func (s *pqSeriesSet) Err() error                        { return nil }
func (s *pqSeriesSet) Warnings() annotations.Annotations { return nil }

func newPQEngine() *promql.Engine {
	return promql.NewEngine(promql.EngineOpts{
		MaxSamples:               5_000_000,
		Timeout:                  20 * time.Second,
		LookbackDelta:            5 * time.Minute,
		NoStepSubqueryIntervalFn: func(int64) int64 { return 60_000 },
		EnableAtModifier:         true,
		EnableNegativeOffset:     true,
	})
}

// pqResult: engine result of one node, label sets only.
type pqResult struct {
	Kind   string              `json:"kind"` // scalar | string | vector | matrix | error
	Series []map[string]string `json:"series,omitempty"`
	Err    string              `json:"err,omitempty"`
	Scalar float64             `json:"scalar,omitempty"`
}

func lsetMap(l labels.Labels) map[string]string {
	m := map[string]string{}
	l.Range(func(x labels.Label) { m[x.Name] = x.Value })
	return m
}

func lsetKey(m map[string]string) string {
	ks := sortedKeys(m)
	var b strings.Builder
	for _, k := range ks {
		fmt.Fprintf(&b, "%s=%q,", k, m[k])
	}
	return b.String()
}

func sortSeries(xs []map[string]string) {
	sort.Slice(xs, func(i, j int) bool { return lsetKey(xs[i]) < lsetKey(xs[j]) })
}

func pqEval(eng *promql.Engine, db *pqDB, q string) pqResult {
	ctx, cancel := context.WithTimeout(context.Background(), 20*time.Second)
	defer cancel()
	qry, err := eng.NewInstantQuery(ctx, pqQueryable{db}, nil, q, time.UnixMilli(pqEvalTS))
	if err != nil {
		return pqResult{Kind: "error", Err: err.Error()}
	}
	defer qry.Close()
	res := qry.Exec(ctx)
	if res.Err != nil {
		return pqResult{Kind: "error", Err: res.Err.Error()}
	}
	switch v := res.Value.(type) {
	case promql.Scalar:
		return pqResult{Kind: "scalar", Scalar: v.V}
	case promql.String:
		return pqResult{Kind: "string"}
	case promql.Vector:
		out := pqResult{Kind: "vector", Series: []map[string]string{}}
		for _, s := range v {
			out.Series = append(out.Series, lsetMap(s.Metric))
		}
		sortSeries(out.Series)
		return out
	case promql.Matrix:
		out := pqResult{Kind: "matrix", Series: []map[string]string{}}
		for _, s := range v {
			out.Series = append(out.Series, lsetMap(s.Metric))
		}
		sortSeries(out.Series)
		return out
	}
	return pqResult{Kind: "error", Err: "unknown value type"}
}

// pqNodes lists the sub-expressions in the pre-order used by Run/C04.v ([sem_check]):
// node, then its expression children left to right (the aggregation parameter and ALL call arguments included).
func pqNodes(node promParser.Node) []promParser.Node {
	out := []promParser.Node{node}
	switch n := node.(type) {
	case *promParser.MatrixSelector:
		out = append(out, pqNodes(n.VectorSelector)...)
	case *promParser.SubqueryExpr:
		out = append(out, pqNodes(n.Expr)...)
	case *promParser.ParenExpr:
		out = append(out, pqNodes(n.Expr)...)
	case *promParser.UnaryExpr:
		out = append(out, pqNodes(n.Expr)...)
	case *promParser.AggregateExpr:
		if n.Param != nil {
			out = append(out, pqNodes(n.Param)...)
		}
		out = append(out, pqNodes(n.Expr)...)
	case *promParser.Call:
		for _, a := range n.Args {
			out = append(out, pqNodes(a)...)
		}
	case *promParser.BinaryExpr:
		out = append(out, pqNodes(n.LHS)...)
		out = append(out, pqNodes(n.RHS)...)
	}
	return out
}

func coqLabelset(m map[string]string) string {
	ks := sortedKeys(m)
	items := make([]string, len(ks))
	for i, k := range ks {
		items[i] = coqPair(coqStr(k), coqStr(m[k]))
	}
	return coqList(items)
}

func coqResult(r pqResult) string {
	switch r.Kind {
	case "scalar":
		return "RScalar"
	case "string":
		return "RStr"
	case "vector", "matrix":
		items := make([]string, len(r.Series))
		for i, s := range r.Series {
			items[i] = coqLabelset(s)
		}
		if r.Kind == "vector" {
			return "(RVec " + coqList(items) + ")"
		}
		return "(RMat " + coqList(items) + ")"
	}
	return "RErr"
}

func coqDB(db *pqDB) string {
	items := make([]string, len(db.Series))
	for i, s := range db.Series {
		items[i] = coqLabelset(s.Labels)
	}
	return coqList(items)
}
