//go:build verif

package main

// C13 — slicing a range query is invisible in its result.
//
// Phases (corpus first, then generated):
//   guard   : Prometheus.RangeQuery with steps > 4h (slice size rounds to 0) under a watchdog
//   e2e     : real Prometheus.RangeQuery against the in-process fake server (presence model, random delays)
//   slice / append / overlaps / merge / gaps : function-level correspondence cases
//   pipe    : function-level pipeline (sliceRange -> Append -> Expand -> permuted concat -> Merge -> sort)
// Oracle (property as written): the merged result equals the maximal runs of present points of ONE unsliced
// evaluation on the same step grid, for the arrival order at hand; the query terminates.

import (
	"context"
	"encoding/json"
	"fmt"
	"hash/fnv"
	"math/rand"
	"net/http"
	"net/http/httptest"
	"os"
	"path/filepath"
	"regexp"
	"runtime"
	"sort"
	"strconv"
	"strings"
	"sync"
	"sync/atomic"
	"time"

	"github.com/prometheus/client_golang/prometheus"
	"github.com/prometheus/common/model"
	"github.com/prometheus/prometheus/model/labels"

	"github.com/cloudflare/pint/internal/promapi"
)

func init() { register("C13", runC13) }

const c13Sec = int64(time.Second)
const c13Ms = int64(time.Millisecond)

type c13R struct {
	FP uint64 `json:"fp"`
	S  int64  `json:"start_ns"`
	E  int64  `json:"end_ns"`
}

type c13TR struct {
	S int64 `json:"start_ns"`
	E int64 `json:"end_ns"`
}

func c13T(ns int64) time.Time { return time.Unix(0, ns).UTC() }

func c13N(u uint64) string { return strconv.FormatUint(u, 10) + "%N" }

func c13CoqR(r c13R) string {
	return "(mkR " + c13N(r.FP) + " " + coqZ(r.S) + " " + coqZ(r.E) + ")"
}

func c13CoqRs(rs []c13R) string {
	out := make([]string, len(rs))
	for i, r := range rs {
		out[i] = c13CoqR(r)
	}
	return coqList(out)
}

func c13CoqTR(t c13TR) string { return coqPair(coqZ(t.S), coqZ(t.E)) }

func c13CoqTRs(ts []c13TR) string {
	out := make([]string, len(ts))
	for i, t := range ts {
		out[i] = c13CoqTR(t)
	}
	return coqList(out)
}

// ---------------------------------------------------------------------------------------------
// series vocabulary

var c13Labels []labels.Labels
var c13FPs []uint64

func c13InitSeries() {
	for k := 0; k < 4; k++ {
		ls := labels.FromStrings("__name__", "m", "s", strconv.Itoa(k))
		c13Labels = append(c13Labels, ls)
		c13FPs = append(c13FPs, ls.Hash())
	}
	// label sets with DIFFERENT label-name sets (nested, overlapping, disjoint, empty): what a response to
	// `count(x) by (...)`, `x or y`, `{__name__=~".+"}` carries.  Indices 4.. ; 0..3 share one name set.
	for _, kv := range [][]string{
		{"__name__", "m"},                       // 4: subset of 0..3
		{"__name__", "m", "s", "0", "job", "a"}, // 5: superset of 0
		{"__name__", "m", "job", "a"},           // 6: overlaps 0..3 and 5
		{"job", "a"},                            // 7: no metric name (aggregation result)
		{},                                      // 8: empty label set (count(x))
		{"instance", "i1", "zone", "z"},         // 9: disjoint from all others
		{"__name__", "m", "s", "0", "job", "a", "env", "p"}, // 10: superset of 5
		{"zone", "z"}, // 11: subset of 9
	} {
		ls := labels.FromStrings(kv...)
		c13Labels = append(c13Labels, ls)
		c13FPs = append(c13FPs, ls.Hash())
	}
	seen := map[uint64]bool{}
	for _, f := range c13FPs {
		if seen[f] {
			panic("C13 harness: fingerprint collision inside the series vocabulary")
		}
		seen[f] = true
	}
}

// c13PickSeries chooses ns distinct vocabulary indices in a random order; the stratum says how the label-name sets relate.
func c13PickSeries(r *rand.Rand, hist func(string)) []int {
	switch r.Intn(5) {
	case 0:
		hist("labelsets=same-names")
		p := r.Perm(4)
		return p[:1+r.Intn(3)]
	case 1:
		hist("labelsets=nested-chain")
		chain := [][]int{{4, 0, 5, 10}, {8, 7, 6, 5, 10}, {8, 11, 9}, {4, 6, 5}}[r.Intn(4)]
		idx := r.Perm(len(chain))[:2+r.Intn(len(chain)-1)]
		out := make([]int, len(idx))
		for i, j := range idx {
			out[i] = chain[j]
		}
		return out
	case 2:
		hist("labelsets=disjoint")
		opts := [][]int{{9, 0}, {9, 7}, {11, 4, 7}, {9, 6, 8}}[r.Intn(4)]
		out := append([]int(nil), opts...)
		r.Shuffle(len(out), func(i, j int) { out[i], out[j] = out[j], out[i] })
		return out
	default:
		hist("labelsets=mixed")
		p := r.Perm(len(c13Labels))
		return p[:2+r.Intn(4)]
	}
}

func c13LabelsOf(fp uint64) labels.Labels {
	for i, f := range c13FPs {
		if f == fp {
			return c13Labels[i]
		}
	}
	return labels.FromStrings("__name__", "unknown", "fp", strconv.FormatUint(fp, 10))
}

func c13ToMTR(rs []c13R) promapi.MetricTimeRanges {
	out := make(promapi.MetricTimeRanges, 0, len(rs))
	for _, r := range rs {
		out = append(out, promapi.MetricTimeRange{Fingerprint: r.FP, Labels: c13LabelsOf(r.FP), Start: c13T(r.S), End: c13T(r.E)})
	}
	return out
}

func c13FromMTR(m promapi.MetricTimeRanges) []c13R {
	out := make([]c13R, 0, len(m))
	for _, r := range m {
		out = append(out, c13R{FP: r.Fingerprint, S: r.Start.UnixNano(), E: r.End.UnixNano()})
	}
	return out
}

// ---------------------------------------------------------------------------------------------
// watchdog: a non-terminating slicing loop appends forever; turn that into a reported failing input

type c13Watch struct {
	rep      *runReport
	cur      atomic.Value // string
	curCase  atomic.Value // any (json-able)
	deadline atomic.Int64 // unix nano, 0 = none
	done     chan struct{}
}

func (w *c13Watch) enter(id string, c any, limit time.Duration) {
	w.cur.Store(id)
	w.curCase.Store(&c)
	w.deadline.Store(time.Now().Add(limit).UnixNano())
}

func (w *c13Watch) leave() { w.deadline.Store(0) }

func (w *c13Watch) run() {
	var ms runtime.MemStats
	tick := time.NewTicker(25 * time.Millisecond)
	defer tick.Stop()
	for {
		select {
		case <-w.done:
			return
		case <-tick.C:
		}
		dl := w.deadline.Load()
		if dl == 0 {
			continue
		}
		runtime.ReadMemStats(&ms)
		why := ""
		if ms.HeapAlloc > 2<<30 {
			why = fmt.Sprintf("heap grew to %d MiB", ms.HeapAlloc>>20)
		} else if time.Now().UnixNano() > dl {
			why = "time limit exceeded"
		}
		if why == "" {
			continue
		}
		id, _ := w.cur.Load().(string)
		var c any
		if p, ok := w.curCase.Load().(*any); ok {
			c = *p
		}
		w.rep.OracleFails = append(w.rep.OracleFails, oracleFail{ID: id,
			What: "the range query machinery does not terminate on this input (" + why + "): unbounded slicing loop", Case: c})
		w.rep.Notes = append(w.rep.Notes, "run aborted by the watchdog at "+id)
		w.rep.CaseFiles = nil
		w.rep.write("report.json")
		os.Exit(0)
	}
}

// ---------------------------------------------------------------------------------------------
// presence model

type c13Series struct {
	K      int               `json:"series"`
	FP     uint64            `json:"fp"`
	Labels map[string]string `json:"labels,omitempty"`
	Ivs    []c13TR           `json:"present_intervals"`
}

func c13MkSeries(k int, ivs []c13TR) c13Series {
	k = k % len(c13Labels)
	return c13Series{K: k, FP: c13FPs[k], Labels: c13Labels[k].Map(), Ivs: ivs}
}

func c13Present(ivs []c13TR, ns int64) bool {
	for _, iv := range ivs {
		if iv.S <= ns && ns <= iv.E {
			return true
		}
	}
	return false
}

func c13CoqSeries(ss []c13Series) string {
	out := make([]string, len(ss))
	for i, s := range ss {
		out[i] = coqPair(c13N(s.FP), c13CoqTRs(s.Ivs))
	}
	return coqList(out)
}

// reference: maximal runs of consecutive present points of the grid a, a+step, ... <= b (all ns)
func c13Runs(ss []c13Series, a, b, step int64) []c13R {
	var out []c13R
	for _, s := range ss {
		var cur *c13R
		for t := a; t <= b; t += step {
			if c13Present(s.Ivs, t) {
				if cur == nil {
					cur = &c13R{FP: s.FP, S: t, E: t}
				} else {
					cur.E = t
				}
			} else if cur != nil {
				cur.E += step - c13Sec
				out = append(out, *cur)
				cur = nil
			}
		}
		if cur != nil {
			cur.E += step - c13Sec
			out = append(out, *cur)
		}
	}
	return out
}

func c13Canon(rs []c13R) []c13R {
	out := append([]c13R(nil), rs...)
	sort.SliceStable(out, func(i, j int) bool {
		if out[i].FP != out[j].FP {
			return out[i].FP < out[j].FP
		}
		if out[i].S != out[j].S {
			return out[i].S < out[j].S
		}
		return out[i].E < out[j].E
	})
	return out
}

func c13EqRs(a, b []c13R) bool {
	if len(a) != len(b) {
		return false
	}
	for i := range a {
		if a[i] != b[i] {
			return false
		}
	}
	return true
}

// presence generator over a grid [g0, g0+step, ...] of n points with slice boundaries every `per` points
func c13GenPresence(r *rand.Rand, g0, step int64, n, per int, hist func(string)) []c13TR {
	if n <= 0 {
		return nil
	}
	pt := func(i int) int64 { return g0 + int64(i)*step }
	regime := r.Intn(8)
	var ivs []c13TR
	addPts := func(present []bool) {
		i := 0
		for i < len(present) {
			if !present[i] {
				i++
				continue
			}
			j := i
			for j+1 < len(present) && present[j+1] {
				j++
			}
			ivs = append(ivs, c13TR{pt(i), pt(j)})
			i = j + 1
		}
	}
	switch regime {
	case 0:
		hist("presence=always")
		ivs = append(ivs, c13TR{pt(0) - step, pt(n-1) + step})
	case 1:
		hist("presence=never")
	case 2:
		hist("presence=flicker")
		p := []float64{0.1, 0.5, 0.9}[r.Intn(3)]
		pr := make([]bool, n)
		if n <= 300 {
			for i := range pr {
				pr[i] = r.Float64() < p
			}
		} else {
			// large grids: constant background, flicker only in windows around slice boundaries (bounded case size)
			bg := r.Intn(2) == 0
			for i := range pr {
				pr[i] = bg
			}
			for w := 0; w < 4; w++ {
				c := r.Intn(n/per+1) * per
				for i := c - 8; i < c+8; i++ {
					if i >= 0 && i < n {
						pr[i] = r.Float64() < p
					}
				}
			}
		}
		addPts(pr)
	case 3:
		hist("presence=runs-on-slice-boundaries")
		// runs starting/ending at slice starts, slice ends and one point around them
		k := 1 + r.Intn(4)
		for ; k > 0; k-- {
			b1 := r.Intn(n/per+1)*per + r.Intn(3) - 1
			b2 := r.Intn(n/per+1)*per + r.Intn(3) - 1
			if b1 > b2 {
				b1, b2 = b2, b1
			}
			if b1 < 0 {
				b1 = 0
			}
			ivs = append(ivs, c13TR{pt(b1), pt(b2)})
		}
	case 4:
		hist("presence=blips-shorter-than-step")
		k := 1 + r.Intn(6)
		for ; k > 0; k-- {
			i := r.Intn(n)
			switch r.Intn(3) {
			case 0: // between two grid points: never sampled
				ivs = append(ivs, c13TR{pt(i) + c13Ms, pt(i) + step - c13Ms})
			case 1: // exactly one point
				ivs = append(ivs, c13TR{pt(i) - step/3, pt(i) + step/3})
			default: // two points
				ivs = append(ivs, c13TR{pt(i), pt(i) + step})
			}
		}
	case 5:
		hist("presence=single-missing-sample-at-boundary")
		pr := make([]bool, n)
		for i := range pr {
			pr[i] = true
		}
		k := 1 + r.Intn(3)
		for ; k > 0; k-- {
			b := r.Intn(n/per+1)*per + r.Intn(2) - 1 // last point of a slice or first of the next
			if b >= 0 && b < n {
				pr[b] = false
			}
		}
		addPts(pr)
	case 7:
		hist("presence=whole-slices")
		// present during whole slices only: the set of series differs from one slice response to the next and
		// every run starts/ends exactly at a slice boundary (or one point off)
		nsl := n/per + 1
		for k := 0; k < nsl; k++ {
			if r.Intn(2) == 0 {
				continue
			}
			a, b := k*per+r.Intn(3)/2, (k+1)*per-1-r.Intn(3)/2
			if b >= n {
				b = n - 1
			}
			if a <= b {
				ivs = append(ivs, c13TR{pt(a), pt(b)})
			}
		}
	default:
		hist("presence=long-runs")
		pos := 0
		for pos < n {
			l := 1 + r.Intn(3*per+1)
			gap := 1 + r.Intn(per+1)
			end := pos + l - 1
			if end >= n {
				end = n - 1
			}
			// interval ends between grid points now and then
			jit := int64(0)
			if r.Intn(3) == 0 {
				jit = step / 2
			}
			ivs = append(ivs, c13TR{pt(pos) - jit, pt(end) + jit})
			pos = end + 1 + gap
		}
	}
	return ivs
}

// ---------------------------------------------------------------------------------------------
// fake server (presence model)

type c13E2E struct {
	ID       int         `json:"id"`
	Start    int64       `json:"start_ns"`
	End      int64       `json:"end_ns"`
	Lookback int64       `json:"lookback_ns"`
	Step     int64       `json:"step_ns"`
	Series   []c13Series `json:"series"`
	Requests []c13TR     `json:"requests_seen,omitempty"`
	ReqSteps []int64     `json:"request_steps_ns,omitempty"`
	Final    []c13R      `json:"result,omitempty"`
	FinalLs  []string    `json:"result_labels,omitempty"`
	Expected []c13R      `json:"expected_unsliced,omitempty"`
	PermResp bool        `json:"server_permutes_series_order_per_response,omitempty"`
	Repeats  int         `json:"times_the_query_is_asked"`
	FastAt   int64       `json:"slice_answered_first_contains_ns,omitempty"`
	History  []c13Hist   `json:"later_queries_on_the_same_client,omitempty"`
	Known    string      `json:"known_finding_class,omitempty"`
	Repeated [][]c13R    `json:"result_of_repeated_call,omitempty"`
	Err      string      `json:"error,omitempty"`
	mu       sync.Mutex
}

// a later query on the same client (same cache) that differs from the case's query in exactly one parameter
type c13Hist struct {
	Kind     string      `json:"differs_in"`
	Expr     string      `json:"expr"`
	Start    int64       `json:"start_ns"`
	End      int64       `json:"end_ns"`
	Lookback int64       `json:"lookback_ns"`
	Step     int64       `json:"step_ns"`
	Series   []c13Series `json:"series,omitempty"` // only when the expression differs
	Result   []c13R      `json:"result,omitempty"`
	Expected []c13R      `json:"expected_unsliced,omitempty"`
}

// start of the first slice RangeQuery asks for (independent reference: Go's Duration.Round / Time.Round)
func c13FirstStart(start, end, dur, step int64) int64 {
	size := int64(time.Duration(2 * time.Hour).Round(time.Duration(step)))
	if size <= 0 || size > dur || end-start <= step {
		return start
	}
	g := c13RoundTo(start, size)
	if g > start {
		g -= size
	}
	return g
}

type c13Server struct {
	mu    sync.Mutex
	cases map[string]*c13E2E
	seed  int64
}

func (s *c13Server) ServeHTTP(w http.ResponseWriter, r *http.Request) {
	if err := r.ParseForm(); err != nil {
		fpWriteError(w, 400, "bad_data", err.Error())
		return
	}
	if !strings.HasSuffix(r.URL.Path, "/api/v1/query_range") {
		fpWriteError(w, 404, "not_found", "unsupported path "+r.URL.Path)
		return
	}
	q := r.Form.Get("query")
	s.mu.Lock()
	c := s.cases[q]
	s.mu.Unlock()
	if c == nil {
		fpWriteError(w, 400, "bad_data", "unknown query "+q)
		return
	}
	startMs, err1 := fpParseTimeMs(r.Form.Get("start"))
	endMs, err2 := fpParseTimeMs(r.Form.Get("end"))
	stepMs, err3 := fpParseDurationMs(r.Form.Get("step"))
	if err1 != nil || err2 != nil || err3 != nil || stepMs <= 0 {
		fpWriteError(w, 400, "bad_data", "invalid parameters")
		return
	}
	if endMs < startMs {
		fpWriteError(w, 400, "bad_data", "end timestamp must not be before start time")
		return
	}
	c.mu.Lock()
	c.Requests = append(c.Requests, c13TR{startMs * c13Ms, endMs * c13Ms})
	c.ReqSteps = append(c.ReqSteps, stepMs*c13Ms)
	c.mu.Unlock()
	// random per-slice delay => arrival order of the slice responses varies
	h := fnv.New64a()
	fmt.Fprintf(h, "%d/%d/%d", s.seed, c.ID, startMs)
	if c.FastAt != 0 {
		// designated arrival order: the slice containing FastAt answers at once, all others clearly later
		if !(startMs*c13Ms <= c.FastAt && c.FastAt <= endMs*c13Ms) {
			time.Sleep(time.Duration(4000+h.Sum64()%3000) * time.Microsecond)
		}
	} else {
		time.Sleep(time.Duration(h.Sum64()%4000) * time.Microsecond)
	}
	var out []fpSeries
	for _, ser := range c.Series {
		var ts []int64
		for t := startMs; t <= endMs; t += stepMs {
			if c13Present(ser.Ivs, t*c13Ms) {
				ts = append(ts, t)
			}
		}
		if len(ts) > 0 {
			out = append(out, fpSeries{Metric: c13Labels[ser.K%len(c13Labels)].Map(), TsMs: ts})
		}
	}
	if c.PermResp && len(out) > 1 {
		// a different series order in every response (the API promises no order across requests)
		pr := rand.New(rand.NewSource(int64(h.Sum64() >> 1)))
		pr.Shuffle(len(out), func(i, j int) { out[i], out[j] = out[j], out[i] })
	}
	// every response in a different legal rendering (key order, whitespace, optional members, number formats)
	fpWriteMatrixV(w, out, fpVariantFrom(h.Sum64()>>7))
}

type c13AbsRange struct {
	start, end time.Time
	dur, step  time.Duration
}

func (ar c13AbsRange) Start() time.Time    { return ar.start }
func (ar c13AbsRange) End() time.Time      { return ar.end }
func (ar c13AbsRange) Dur() time.Duration  { return ar.dur }
func (ar c13AbsRange) Step() time.Duration { return ar.step }
func (ar c13AbsRange) String() string {
	return fmt.Sprintf("%d-%d/%d/%d", ar.start.UnixNano(), ar.end.UnixNano(), ar.dur, ar.step)
}

// c13SafeNs keeps an instant at least 0.1ms away from a half-millisecond, so that the float64 wire format
// (formatTime) and the server's rounding to milliseconds are unambiguous.
func c13SafeNs(ns int64) int64 {
	r := ns % 1000000
	if r < 0 {
		r += 1000000
	}
	if r > 400000 && r < 600000 {
		return ns - r + 400000
	}
	return ns
}

func c13WireNs(ns int64) int64 {
	x := ns + 500000
	q := x / 1000000
	if x%1000000 < 0 {
		q--
	}
	return q * 1000000
}

// runs one end-to-end case; returns (oracle failure text or "")
func c13RunE2E(srv *c13Server, url string, c *c13E2E, watch *c13Watch) string {
	name := fmt.Sprintf("c13_case_%d", c.ID)
	srv.mu.Lock()
	srv.cases[name] = c
	srv.mu.Unlock()
	// the client as pint builds it: a FailoverGroup, whose StartWorkers gives its servers the shared query CACHE
	fg := promapi.NewFailoverGroup("fake", url,
		[]*promapi.Prometheus{promapi.NewPrometheus("fake", url, "", nil, 30*time.Second, 8, 100000, nil)},
		true, "up", []*regexp.Regexp{}, []*regexp.Regexp{}, nil)
	reg := prometheus.NewRegistry()
	fg.StartWorkers(reg)
	defer fg.Close(reg)
	params := c13AbsRange{start: c13T(c.Start), end: c13T(c.End), dur: time.Duration(c.Lookback), step: time.Duration(c.Step)}
	watch.enter(fmt.Sprintf("e2e-%d", c.ID), c, 60*time.Second)
	res, err := fg.RangeQuery(context.Background(), name, params)
	watch.leave()
	c.mu.Lock()
	firstReqs := len(c.Requests)
	c.mu.Unlock()
	if err != nil {
		c.Err = err.Error()
		return "RangeQuery failed against a healthy server: " + err.Error()
	}
	c.Final = c13FromMTR(res.Series.Ranges)
	// the same question again on the same client (pint watch asks every iteration; other rules ask the same probe): the
	// answers - now served from the cache - must be the same, and no answer handed to a caller may change afterwards
	type handed struct {
		res  *promapi.RangeQueryResult
		snap []c13R
	}
	all := []handed{{res, append([]c13R(nil), c.Final...)}}
	repeatFail := ""
	for k := 1; k < c.Repeats; k++ {
		watch.enter(fmt.Sprintf("e2e-%d", c.ID), c, 60*time.Second)
		again, err2 := fg.RangeQuery(context.Background(), name, params)
		watch.leave()
		if err2 != nil {
			repeatFail = fmt.Sprintf("the same range query asked again (call %d) fails: %v", k+1, err2)
			break
		}
		all = append(all, handed{again, c13FromMTR(again.Series.Ranges)})
		if !c13EqRs(c13Canon(all[k].snap), c13Canon(c.Final)) {
			c.Repeated = append(c.Repeated, all[k].snap)
			repeatFail = fmt.Sprintf("the same range query asked again on the same client (call %d, answered from the query cache) "+
				"returns different presence intervals than the first time", k+1)
			break
		}
	}
	c.mu.Lock()
	ownReqs, ownSteps := len(c.Requests), len(c.ReqSteps)
	c.mu.Unlock()
	// a HISTORY on the same client: queries that share everything with the case's query but one parameter (step, end,
	// start, expression).  Each must equal ITS OWN unsliced reference: whatever determines the answer must be part of the
	// identity under which slices are cached.
	for hi := range c.History {
		h := &c.History[hi]
		if repeatFail != "" {
			break
		}
		if h.Expr == "" {
			h.Expr = name
		}
		ser := c.Series
		if h.Series != nil {
			ser = h.Series
			srv.mu.Lock()
			srv.cases[h.Expr] = &c13E2E{ID: c.ID, Series: h.Series, PermResp: c.PermResp}
			srv.mu.Unlock()
		}
		watch.enter(fmt.Sprintf("e2e-%d", c.ID), c, 60*time.Second)
		hres, herr := fg.RangeQuery(context.Background(), h.Expr,
			c13AbsRange{start: c13T(h.Start), end: c13T(h.End), dur: time.Duration(h.Lookback), step: time.Duration(h.Step)})
		watch.leave()
		if herr != nil {
			repeatFail = fmt.Sprintf("a later query on the same client (differs in %s) fails: %v", h.Kind, herr)
			break
		}
		h.Result = c13FromMTR(hres.Series.Ranges)
		h.Expected = c13Canon(c13Runs(ser, c13FirstStart(h.Start, h.End, h.Lookback, h.Step), c13WireNs(h.End), h.Step))
		all = append(all, handed{hres, append([]c13R(nil), h.Result...)})
		if !c13EqRs(c13Canon(h.Result), h.Expected) {
			repeatFail = fmt.Sprintf("a later query on the same client that differs from an earlier one only in its %s "+
				"does not return the runs of its own unsliced evaluation (answered with slices cached for the other query?)", h.Kind)
		}
	}
	c.mu.Lock()
	c.Requests, c.ReqSteps = c.Requests[:ownReqs], c.ReqSteps[:ownSteps]
	c.mu.Unlock()
	if repeatFail == "" {
		for k, hd := range all {
			if !c13EqRs(c13FromMTR(hd.res.Series.Ranges), hd.snap) {
				repeatFail = fmt.Sprintf("the result handed to the caller of call %d was modified afterwards by a later query", k+1)
			}
		}
	}
	c.mu.Lock()
	// slices asked again by the repeated calls (cache misses) are the same requests, not new ones
	kept := c.Requests[:firstReqs:firstReqs]
	for _, rq := range c.Requests[firstReqs:] {
		dup := false
		for _, o := range c.Requests[:firstReqs] {
			if o == rq {
				dup = true
			}
		}
		if !dup {
			kept = append(kept, rq)
		}
	}
	c.Requests = kept
	sort.Slice(c.Requests, func(i, j int) bool { return c.Requests[i].S < c.Requests[j].S })
	c.mu.Unlock()
	// every result range must carry the label set of a served series, and its fingerprint must be that label set's
	served := map[uint64]labels.Labels{}
	for _, ser := range c.Series {
		served[ser.FP] = c13Labels[ser.K%len(c13Labels)]
	}
	badLabels := ""
	for _, rg := range res.Series.Ranges {
		c.FinalLs = append(c.FinalLs, rg.Labels.String())
		want, ok := served[rg.Fingerprint]
		switch {
		case !ok:
			badLabels = "a result range belongs to a series the server never returned: " + rg.Labels.String()
		case !labels.Equal(want, rg.Labels):
			badLabels = "a result range carries labels " + rg.Labels.String() + " but the fingerprint of series " + want.String()
		case rg.Labels.Hash() != rg.Fingerprint:
			badLabels = "a result range's fingerprint is not the hash of its labels " + rg.Labels.String()
		}
	}
	if len(c.Requests) == 0 {
		return "RangeQuery sent no query_range request"
	}
	for _, st := range c.ReqSteps {
		if st != c.Step {
			return fmt.Sprintf("a slice was requested with step %s but the query's step is %s: the slices are not evaluated on the step grid of the unsliced query",
				time.Duration(st), time.Duration(c.Step))
		}
	}
	first := c.Requests[0].S
	c.Expected = c13Canon(c13Runs(c.Series, first, c13WireNs(c.End), c.Step))
	if first > c13WireNs(c.Start) {
		return "the slices do not cover the requested start of the range"
	}
	if !c13EqRs(c13Canon(c.Final), c.Expected) {
		what := "merged ranges of the sliced query differ from the runs of one unsliced evaluation on the same step grid"
		if badLabels != "" {
			what += " (" + badLabels + ")"
		}
		return what
	}
	if badLabels != "" {
		return badLabels
	}
	if repeatFail != "" {
		return repeatFail
	}
	// result order: sort.Stable by (labels, start) => per series ascending starts
	last := map[uint64]int64{}
	for _, r := range c.Final {
		if p, ok := last[r.FP]; ok && r.S < p {
			return "result ranges of one series are not sorted by start"
		}
		last[r.FP] = r.S
	}
	return ""
}

func c13CoqE2E(c *c13E2E) string {
	return fmt.Sprintf("CE2E %s %s %s %s %s %s %s %s", coqN(c.ID), coqZ(c.Start), coqZ(c.End), coqZ(c.Lookback), coqZ(c.Step),
		c13CoqSeries(c.Series), c13CoqTRs(c.Requests), c13CoqRs(c.Final))
}

// ---------------------------------------------------------------------------------------------
// generators

// c13GenHistory: one or two later queries on the same client, each differing from the case's query in one parameter
func c13GenHistory(r *rand.Rand, c *c13E2E, hist func(string)) []c13Hist {
	name := fmt.Sprintf("c13_case_%d", c.ID)
	var out []c13Hist
	size := int64(time.Duration(2 * time.Hour).Round(time.Duration(c.Step)))
	for k := 1 + r.Intn(2); k > 0; k-- {
		h := c13Hist{Expr: name, Start: c.Start, End: c.End, Lookback: c.Lookback, Step: c.Step}
		switch r.Intn(5) {
		case 4:
			// the end moved by less than a step (what two calls of time.Now() do)
			h.End = c13SafeNs(c.End - (1+r.Int63n(c.Step/c13Ms))*c13Ms)
			if h.End <= h.Start+c.Step {
				continue
			}
			h.Lookback = h.End - h.Start
			h.Kind = "end-by-less-than-a-step"
		case 0:
			// another step; prefer one with the same slice size (the slices then have the same boundaries)
			var same, other []int64
			for _, st := range c13Steps {
				if st == c.Step || (c.End-c.Start)/st > 20000 {
					continue
				}
				if int64(time.Duration(2*time.Hour).Round(time.Duration(st))) == size {
					same = append(same, st)
				} else {
					other = append(other, st)
				}
			}
			switch {
			case len(same) > 0 && (len(other) == 0 || r.Intn(4) != 0):
				h.Step = same[r.Intn(len(same))]
			case len(other) > 0:
				h.Step = other[r.Intn(len(other))]
			default:
				continue
			}
			h.Kind = "step"
		case 1:
			d := (1 + r.Int63n(5)) * c.Step
			if c.End-d <= c.Start+c.Step {
				continue
			}
			h.End = c13SafeNs(c.End - d - r.Int63n(2)*c13Ms*int64(r.Intn(900)))
			h.Lookback = h.End - h.Start
			h.Kind = "end"
		case 2:
			d := (1 + r.Int63n(5)) * c.Step
			if c.Start+d >= c.End-c.Step {
				continue
			}
			h.Start = c.Start + d
			h.Lookback = h.End - h.Start
			h.Kind = "start"
		default:
			// another expression over the same window: the same series one step later
			h.Expr = name + "_b"
			for _, s := range c.Series {
				s2 := c13MkSeries(s.K, nil)
				for _, iv := range s.Ivs {
					s2.Ivs = append(s2.Ivs, c13TR{iv.S + c.Step, iv.E + 2*c.Step})
				}
				h.Series = append(h.Series, s2)
			}
			if h.Series == nil {
				continue
			}
			h.Kind = "expression"
		}
		hist("e2e-history=differs-in-" + h.Kind)
		out = append(out, h)
	}
	return out
}

var c13Steps = []int64{1 * c13Sec, 1500 * c13Ms, 2 * c13Sec, 7 * c13Sec, 15 * c13Sec, 30 * c13Sec, 60 * c13Sec, 300 * c13Sec,
	420 * c13Sec, 660 * c13Sec, 3600 * c13Sec, 5400 * c13Sec, 3 * 3600 * c13Sec, 4 * 3600 * c13Sec}

// a base instant in 2022..2026, whole seconds
func c13Base(r *rand.Rand) int64 {
	return (1640995200 + r.Int63n(4*365*86400)) * c13Sec
}

// Go's Time.Round on ns since the Unix epoch (used only to aim generated starts at boundaries)
func c13RoundTo(ns, d int64) int64 { return c13T(ns).Round(time.Duration(d)).UnixNano() }

func c13GenStart(r *rand.Rand, size int64, hist func(string)) int64 {
	b := c13RoundTo(c13Base(r), size)
	switch r.Intn(8) {
	case 0:
		hist("start=on-boundary")
		return b
	case 1:
		hist("start=boundary+1ms")
		return b + c13Ms
	case 2:
		hist("start=boundary-1ms")
		return b - c13Ms
	case 3:
		hist("start=half-slice")
		return b + size/2/c13Ms*c13Ms
	case 4:
		hist("start=half-slice-1ms")
		return b + size/2/c13Ms*c13Ms - c13Ms
	case 5:
		hist("start=boundary+1s")
		return b + c13Sec
	default:
		hist("start=random")
		return b + r.Int63n(size/c13Ms+1)*c13Ms
	}
}

func c13GenLookback(r *rand.Rand, step, size int64, maxSlices int, hist func(string)) int64 {
	switch r.Intn(10) {
	case 0:
		hist("lookback<step")
		return 1 + r.Int63n(step)
	case 1:
		hist("lookback=step")
		return step
	case 2:
		hist("lookback=step+1ns")
		return step + 1
	case 3:
		hist("lookback<slice")
		return step + 1 + r.Int63n(size)
	case 4:
		hist("lookback=k*slice")
		return size * int64(1+r.Intn(maxSlices))
	case 5:
		hist("lookback=k*slice+-1s")
		return size*int64(1+r.Intn(maxSlices)) + []int64{-c13Sec, c13Sec, -1, 1, -c13Ms, c13Ms}[r.Intn(6)]
	default:
		hist("lookback=random")
		return size + r.Int63n(size*int64(maxSlices))
	}
}

func c13Delta(r *rand.Rand, step int64) int64 {
	ds := []int64{0, 1, -1, c13Sec, -c13Sec, step, -step, step + 1, -step - 1, step - 1, -step + 1, step - c13Sec, c13Sec - step,
		step + c13Sec, -step - c13Sec, 2 * step, -2 * step, 2*step - c13Sec, c13Sec - 2*step}
	if r.Intn(5) == 0 {
		return r.Int63n(4*step+1) - 2*step
	}
	return ds[r.Intn(len(ds))]
}

// aligned range over grid indices [i..j]: start = g0+i*step, end = g0+j*step+step-1s
func c13Aligned(fp uint64, g0, step int64, i, j int) c13R {
	return c13R{FP: fp, S: g0 + int64(i)*step, E: g0 + int64(j)*step + step - c13Sec}
}

// ---------------------------------------------------------------------------------------------

func runC13(args []string) int {
	n := argInt(args, "--n", 300)
	seed := seedFromEnv()
	r := rand.New(rand.NewSource(seed))
	rep := newReport("C13", seed)
	rep.Rule = "a case is non-trivial when it exercises a decision: pipeline/e2e cases with >=2 slices and >=1 run of present " +
		"samples crossing a slice boundary; Overlaps cases where the ranges are within 2 steps of touching; merge cases with " +
		">=1 merge; append cases with >=1 extension; slice cases with >=2 slices"
	c13InitSeries()
	cw := newCaseWriter(".", "Common.GoTime Model.Range Model.RangeRef Run.C13", 250)
	keep := n <= 1000
	watch := &c13Watch{rep: rep, done: make(chan struct{})}
	go watch.run()
	id := 0
	next := func() int { id++; return id }
	hist := rep.hist

	srv := &c13Server{cases: map[string]*c13E2E{}, seed: seed}
	hs := httptest.NewServer(srv)
	defer hs.Close()

	e2e := func(c *c13E2E, tag string) {
		if c.Repeats == 0 {
			c.Repeats = 2 + c.ID%2
		}
		if c.History == nil && tag == "e2e" {
			c.History = c13GenHistory(r, c, hist)
		}
		what := c13RunE2E(srv, hs.URL, c, watch)
		boundary := false
		if len(c.Requests) >= 2 {
			for _, x := range c.Expected {
				for _, q := range c.Requests[1:] {
					if x.S < q.S && q.S <= x.E {
						boundary = true
					}
				}
			}
		}
		hist(fmt.Sprintf("e2e-slices=%s", c13Bucket(len(c.Requests))))
		rep.count(fmt.Sprintf("e2e/%d/%d/%d/%v", c.Start, c.End, c.Step, c.Series), boundary)
		if keep || what != "" {
			rep.Cases[strconv.Itoa(c.ID)] = c
		}
		rep.sample(map[string]any{"kind": tag, "start_ns": c.Start, "end_ns": c.End, "step_ns": c.Step, "slices": len(c.Requests), "ranges": len(c.Final)})
		if what != "" && c.Known != "" {
			rep.failKnown(strconv.Itoa(c.ID), what, c, c.Known)
			return
		}
		if what != "" {
			rep.fail(strconv.Itoa(c.ID), what, c)
			return
		}
		cw.add(c13CoqE2E(c))
	}

	// ---- corpus + guard: steps whose slice size rounds to zero (design witness: lookbackStep = "5h") -----------------
	for _, f := range c13CorpusFiles() {
		var c c13E2E
		b, err := os.ReadFile(f)
		must(err)
		must(json.Unmarshal(b, &c))
		c.ID = next()
		for i := range c.Series {
			c.Series[i] = c13MkSeries(c.Series[i].K, c.Series[i].Ivs)
		}
		hist("corpus")
		e2e(&c, "corpus:"+filepath.Base(f))
	}
	for k := 0; k < 3; k++ {
		step := (5 + int64(r.Intn(20))) * 3600 * c13Sec
		if k == 0 {
			step = 4*3600*c13Sec + c13Sec
		}
		start := c13Base(r)
		lb := step*int64(2+r.Intn(4)) + r.Int63n(step)
		c := &c13E2E{ID: next(), Start: start, End: c13SafeNs(start + lb), Lookback: lb, Step: step}
		c.Series = []c13Series{c13MkSeries(0, c13GenPresence(r, start, step, int(lb/step)+1, 1, func(string) {}))}
		hist("e2e=step>4h(guard)")
		e2e(c, "guard")
	}

	// ---- end to end --------------------------------------------------------------------------------------------------
	nE2E := n / 5
	if nE2E < 10 {
		nE2E = 10
	}
	if nE2E > 400 {
		nE2E = 400
	}
	for k := 0; k < nE2E; k++ {
		step := c13Steps[r.Intn(len(c13Steps))]
		size := int64(time.Duration(2 * time.Hour).Round(time.Duration(step)))
		hist(fmt.Sprintf("e2e-step=%s", time.Duration(step)))
		maxSl := 12
		if step < 15*c13Sec {
			maxSl = 2 // keep responses small: 7200 points per slice at 1s
		}
		start := c13GenStart(r, size, hist)
		lb := c13GenLookback(r, step, size, maxSl, hist)
		if lb < size && r.Intn(2) == 0 {
			lb = size + r.Int63n(size*int64(maxSl))
		}
		end := c13SafeNs(start + lb)
		dur := end - start
		switch r.Intn(8) {
		case 0:
			hist("e2e=ns-precision-end")
			end = end/c13Ms*c13Ms + r.Int63n(800001) - 400000
			if end <= start {
				end = start + 1
			}
			dur = end - start
		case 1:
			hist("e2e=dur!=end-start")
			dur = end - start + r.Int63n(2001) - 1000 // RelativeRange calls time.Now() twice
			if dur <= 0 {
				dur = 1
			}
		}
		minimal := false
		var minB int64
		if step >= 15*c13Sec && size >= 2*step && r.Intn(6) == 0 {
			// minimal configurations: exactly two slices (the window starts x before a slice boundary and is y < x longer than
			// one slice); with one series these give concatenated lists of 1, 2 or 3 ranges - the smallest inputs on which
			// the cross-slice merge has anything to do
			hist("e2e=minimal-two-slices")
			minimal = true
			b := c13RoundTo(c13Base(r), size)
			minB = b
			x := (1 + r.Int63n(size/step)) * step
			if x >= size {
				x = size - step
			}
			y := r.Int63n(x/c13Ms) * c13Ms
			start, end = b-x, c13SafeNs(b-x+size+y)
			dur = end - start
		}
		c := &c13E2E{ID: next(), Start: start, End: end, Lookback: dur, Step: step, PermResp: r.Intn(2) == 0}
		g0 := c13RoundTo(start, size) - size
		np := int((end-g0)/step) + 2
		per := int(size / step)
		if per < 1 {
			per = 1
		}
		flapSlice := -1
		lo, hi := int((start-g0+step-1)/step), int((end-g0)/step)
		if !minimal && per >= 20 && r.Intn(5) == 0 {
			var full []int
			for k := 1; k*per <= hi; k++ {
				if (k-1)*per >= lo && (k+1)*per-1 <= hi {
					full = append(full, k)
				}
			}
			if len(full) > 0 {
				flapSlice = full[r.Intn(len(full))]
			}
		}
		if flapSlice >= 0 {
			// a series flapping inside ONE slice (several isolated samples) and seen once or twice in earlier slices, nothing
			// touching a slice boundary or another run: no range merges with any other, the busy slice answers first
			hist("e2e=flapping-in-one-slice-answered-first")
			pt := func(i int) int64 { return g0 + int64(i)*step }
			m := []int{3, 5, 6, 7}[r.Intn(4)]
			extra := 1 + r.Intn([]int{1, 3, 2, 1}[map[int]int{3: 0, 5: 1, 6: 2, 7: 3}[m]])
			ns := 1 + r.Intn(2)
			picked := r.Perm(len(c13Labels))[:ns]
			for si, kx := range picked {
				var ivs []c13TR
				if si == 0 {
					for t := 0; t < m; t++ {
						ivs = append(ivs, c13TR{pt(flapSlice*per + 2 + 2*t), pt(flapSlice*per + 2 + 2*t)})
					}
					for u := 0; u < extra; u++ {
						i := (flapSlice-1)*per + 3 + 4*u
						ivs = append(ivs, c13TR{pt(i), pt(i)})
					}
				} else {
					i := (flapSlice-1)*per + 5
					ivs = append(ivs, c13TR{pt(i), pt(i)})
				}
				c.Series = append(c.Series, c13MkSeries(kx, ivs))
			}
			c.FastAt = pt(flapSlice*per + 1)
		} else if minimal {
			// one series: present throughout, or up to / from one point around the boundary, or with the boundary point missing
			pt := func(i int) int64 { return g0 + int64(i)*step }
			bi := int((minB - g0) / step) // index of the boundary between the two slices
			var ivs []c13TR
			switch r.Intn(4) {
			case 0:
				ivs = []c13TR{{pt(0), pt(np)}}
			case 1:
				ivs = []c13TR{{pt(0), pt(bi - 1 + r.Intn(3))}}
			case 2:
				ivs = []c13TR{{pt(bi - 1 + r.Intn(3)), pt(np)}}
			default:
				ivs = []c13TR{{pt(0), pt(bi - 1)}, {pt(bi + 1), pt(np)}}
			}
			c.Series = append(c.Series, c13MkSeries(r.Intn(len(c13Labels)), ivs))
		} else {
			for _, k := range c13PickSeries(r, hist) {
				c.Series = append(c.Series, c13MkSeries(k, c13GenPresence(r, g0, step, np, per, hist)))
			}
		}
		hist(fmt.Sprintf("e2e-series=%d", len(c.Series)))
		e2e(c, "e2e")
	}

	// ---- sliceRange ----------------------------------------------------------------------------------------------------
	for k := 0; k < n; k++ {
		step := c13Steps[r.Intn(len(c13Steps))]
		size := int64(time.Duration(2 * time.Hour).Round(time.Duration(step)))
		switch r.Intn(6) {
		case 0:
			size = step * int64(1+r.Intn(10))
			hist("slice-size=k*step")
		case 1:
			size = 1 + r.Int63n(4*3600*c13Sec) // adversarial: unrelated to step
			hist("slice-size=arbitrary")
		default:
			hist("slice-size=round(2h,step)")
		}
		start := c13GenStart(r, size, func(string) {})
		if r.Intn(4) == 0 {
			start += r.Int63n(c13Ms) // ns precision
		}
		lb := c13GenLookback(r, step, size, 40, func(string) {})
		if r.Intn(4) == 0 {
			lb += r.Int63n(c13Sec)
		}
		end := start + lb
		if (end-start)/size > 300 {
			end = start + size*300
		}
		cid := next()
		cs := map[string]any{"kind": "sliceRange", "start_ns": start, "end_ns": end, "resolution_ns": step, "slice_ns": size}
		watch.enter(fmt.Sprintf("slice-%d", cid), cs, 30*time.Second)
		out := promapi.VerifSliceRange(c13T(start), c13T(end), time.Duration(step), time.Duration(size))
		watch.leave()
		var obs []c13TR
		for _, s := range out {
			obs = append(obs, c13TR{s.Start.UnixNano(), s.End.UnixNano()})
		}
		rep.count(fmt.Sprintf("slice/%d/%d/%d/%d", start, end, step, size), len(obs) >= 2)
		hist("slices=" + c13Bucket(len(obs)))
		if keep {
			cs["observed"] = obs
			rep.Cases[strconv.Itoa(cid)] = cs
		}
		cw.add(fmt.Sprintf("CSlice %s %s %s %s %s %s", coqN(cid), coqZ(start), coqZ(end), coqZ(step), coqZ(size), c13CoqTRs(obs)))
	}

	// ---- Overlaps ------------------------------------------------------------------------------------------------------
	ovCase := func(a, b c13R, step int64, kind string) {
		cid := next()
		tr, ok := promapi.Overlaps(c13ToMTR([]c13R{a})[0], c13ToMTR([]c13R{b})[0], time.Duration(step))
		obs := "None"
		if ok {
			obs = "(Some " + c13CoqTR(c13TR{tr.Start.UnixNano(), tr.End.UnixNano()}) + ")"
		}
		near := a.FP == b.FP && a.S-b.E <= 2*step && b.S-a.E <= 2*step
		rep.count(fmt.Sprintf("ov/%v/%v/%d", a, b, step), near)
		hist("overlaps=" + kind + fmt.Sprintf("/%v", ok))
		if keep {
			rep.Cases[strconv.Itoa(cid)] = map[string]any{"kind": "Overlaps", "a": a, "b": b, "step_ns": step, "observed_ok": ok,
				"observed": c13TR{tr.Start.UnixNano(), tr.End.UnixNano()}}
		}
		cw.add(fmt.Sprintf("COverlaps %s %s %s %s %s", coqN(cid), c13CoqR(a), c13CoqR(b), coqZ(step), obs))
	}
	ovSteps := []int64{c13Sec, 1500 * c13Ms, 2 * c13Sec, 60 * c13Sec, 420 * c13Sec}
	if n > 1000 {
		// thorough: all aligned pairs with indices < 7, every step
		for _, step := range ovSteps {
			g0 := c13RoundTo(c13Base(r), step)
			for a1 := 0; a1 < 7; a1++ {
				for a2 := a1; a2 < 7; a2++ {
					for b1 := 0; b1 < 7; b1++ {
						for b2 := b1; b2 < 7; b2++ {
							ovCase(c13Aligned(c13FPs[0], g0, step, a1, a2), c13Aligned(c13FPs[0], g0, step, b1, b2), step, "aligned")
						}
					}
				}
			}
		}
	}
	for k := 0; k < 2*n; k++ {
		step := ovSteps[r.Intn(len(ovSteps))]
		g0 := c13RoundTo(c13Base(r), step)
		switch r.Intn(5) {
		case 0, 1: // aligned pairs, small indices
			a1 := r.Intn(8)
			a2 := a1 + r.Intn(8-a1)
			b1 := r.Intn(8)
			b2 := b1 + r.Intn(8-b1)
			ovCase(c13Aligned(c13FPs[0], g0, step, a1, a2), c13Aligned(c13FPs[0], g0, step, b1, b2), step, "aligned")
		case 2: // the two hole families and their mirror images
			b1 := r.Intn(3)
			b2 := b1 + 2 + r.Intn(4)
			var a c13R
			if r.Intn(2) == 0 {
				a = c13Aligned(c13FPs[0], g0, step, b1, b1+r.Intn(b2-b1-1))
			} else {
				a = c13Aligned(c13FPs[0], g0, step, b1+2+r.Intn(b2-b1-1), b2)
			}
			b := c13Aligned(c13FPs[0], g0, step, b1, b2)
			if r.Intn(2) == 0 {
				a, b = b, a
			}
			ovCase(a, b, step, "hole-family")
		case 3: // adversarial deltas around every threshold
			s1 := g0 + c13Delta(r, step)
			e1 := s1 + int64(r.Intn(4))*step + c13Delta(r, step)
			s2 := s1 + c13Delta(r, step)
			e2 := e1 + c13Delta(r, step)
			if r.Intn(3) == 0 {
				s2 = e1 + c13Delta(r, step)
				e2 = s2 + int64(r.Intn(4))*step
			}
			fb := c13FPs[0]
			if r.Intn(10) == 0 {
				fb = c13FPs[1]
			}
			ovCase(c13R{c13FPs[0], s1, e1}, c13R{fb, s2, e2}, step, "adversarial")
		default:
			s1 := g0 + r.Int63n(20*step)
			s2 := g0 + r.Int63n(20*step)
			ovCase(c13R{c13FPs[0], s1, s1 + r.Int63n(10*step)}, c13R{c13FPs[0], s2, s2 + r.Int63n(10*step)}, step, "random")
		}
	}

	// ---- AppendSampleToRanges + ExpandRangesEnd ---------------------------------------------------------------------------
	for k := 0; k < n; k++ {
		step := ovSteps[r.Intn(len(ovSteps))]
		g0 := c13RoundTo(c13Base(r), step)
		var dst []c13R
		for i := r.Intn(3); i > 0; i-- {
			a1 := r.Intn(10)
			dst = append(dst, c13R{c13FPs[r.Intn(2)], g0 + int64(a1)*step, g0 + int64(a1+r.Intn(3))*step})
		}
		type call struct {
			FP   uint64  `json:"fp"`
			Vals []int64 `json:"sample_ns"`
		}
		var calls []call
		kind := r.Intn(4)
		for s := 1 + r.Intn(3); s > 0; s-- {
			c := call{FP: c13FPs[r.Intn(3)]}
			m := r.Intn(14)
			p := []float64{0.3, 0.7, 0.95}[r.Intn(3)]
			for i := 0; i < m; i++ {
				if r.Float64() > p {
					continue
				}
				ts := g0 + int64(i)*step
				switch kind {
				case 1: // jitter (ms precision: model.Time)
					ts += (r.Int63n(step/c13Ms+1) - step/c13Ms/2) * c13Ms
				case 2: // boundaries of the +-step windows
					ts += []int64{0, c13Ms, -c13Ms, 0, 0}[r.Intn(5)]
				}
				c.Vals = append(c.Vals, ts)
			}
			if kind == 3 && len(c.Vals) > 1 {
				r.Shuffle(len(c.Vals), func(i, j int) { c.Vals[i], c.Vals[j] = c.Vals[j], c.Vals[i] })
			}
			calls = append(calls, c)
		}
		hist([]string{"append=ascending-grid", "append=jitter", "append=window-edges", "append=shuffled"}[kind])
		cid := next()
		m := c13ToMTR(dst)
		ext := 0
		for _, c := range calls {
			vals := make([]model.SamplePair, 0, len(c.Vals))
			for _, ts := range c.Vals {
				vals = append(vals, model.SamplePair{Timestamp: model.TimeFromUnixNano(ts), Value: 1})
			}
			before := len(m)
			m = promapi.AppendSampleToRanges(m, c13LabelsOf(c.FP), vals, time.Duration(step))
			if len(m)-before < len(vals) {
				ext++
			}
		}
		obs := c13FromMTR(m)
		promapi.ExpandRangesEnd(m, time.Duration(step))
		obsX := c13FromMTR(m)
		rep.count(fmt.Sprintf("append/%v/%v/%d", dst, calls, step), ext > 0)
		if keep {
			rep.Cases[strconv.Itoa(cid)] = map[string]any{"kind": "AppendSampleToRanges", "dst": dst, "calls": calls, "step_ns": step, "observed": obs}
		}
		cc := make([]string, len(calls))
		for i, c := range calls {
			vs := make([]string, len(c.Vals))
			for j, v := range c.Vals {
				vs[j] = coqZ(v)
			}
			cc[i] = coqPair(c13N(c.FP), coqList(vs))
		}
		cw.add(fmt.Sprintf("CAppend %s %s %s %s %s %s", coqN(cid), c13CoqRs(dst), coqList(cc), coqZ(step), c13CoqRs(obs), c13CoqRs(obsX)))
	}

	// ---- MergeRanges ---------------------------------------------------------------------------------------------------
	for k := 0; k < n; k++ {
		step := ovSteps[r.Intn(len(ovSteps))]
		g0 := c13RoundTo(c13Base(r), step)
		var src []c13R
		kind := r.Intn(4)
		nfp := 1 + r.Intn(3)
		switch kind {
		case 0: // pipeline-shaped: disjoint aligned runs, pieces of runs cut at "slice boundaries", shuffled
			for f := 0; f < nfp; f++ {
				pos := r.Intn(3)
				for m := r.Intn(7); m > 0; m-- {
					l := r.Intn(4)
					src = append(src, c13Aligned(c13FPs[f], g0, step, pos, pos+l))
					pos += l + 1 + r.Intn(3)/2*(1+r.Intn(3)) // touching (gap 0) two times out of three
				}
			}
			r.Shuffle(len(src), func(i, j int) { src[i], src[j] = src[j], src[i] })
		case 1: // aligned, overlapping, any shape (includes the hole configurations)
			for m := r.Intn(8); m > 0; m-- {
				a1 := r.Intn(10)
				src = append(src, c13Aligned(c13FPs[r.Intn(nfp)], g0, step, a1, a1+r.Intn(5)))
			}
		case 2: // adversarial, unaligned
			for m := r.Intn(8); m > 0; m-- {
				s := g0 + int64(r.Intn(8))*step + c13Delta(r, step)
				src = append(src, c13R{c13FPs[r.Intn(nfp)], s, s + int64(r.Intn(4))*step + c13Delta(r, step)})
			}
		default: // chains that need several passes: nested hulls sharing endpoints
			a1 := 2 + r.Intn(3)
			for m := 1 + r.Intn(6); m > 0; m-- {
				switch r.Intn(3) {
				case 0:
					src = append(src, c13Aligned(c13FPs[0], g0, step, a1, a1+r.Intn(6)))
				case 1:
					src = append(src, c13Aligned(c13FPs[0], g0, step, a1-r.Intn(3), a1+6))
				default:
					x := r.Intn(12)
					src = append(src, c13Aligned(c13FPs[0], g0, step, x, x+r.Intn(2)))
				}
			}
		}
		hist([]string{"merge=pipeline-shaped", "merge=aligned-overlapping", "merge=adversarial", "merge=nested-chains"}[kind])
		cid := next()
		cs := map[string]any{"kind": "MergeRanges", "source": src, "step_ns": step}
		watch.enter(fmt.Sprintf("merge-%d", cid), cs, 30*time.Second)
		out, had := promapi.MergeRanges(c13ToMTR(src), time.Duration(step))
		watch.leave()
		obs := c13FromMTR(out)
		rep.count(fmt.Sprintf("merge/%v/%d", src, step), had)
		if keep {
			cs["observed"] = obs
			cs["observed_had_merged"] = had
			rep.Cases[strconv.Itoa(cid)] = cs
		}
		cw.add(fmt.Sprintf("CMerge %s %s %s %s %s", coqN(cid), c13CoqRs(src), coqZ(step), c13CoqRs(obs), coqBool(had)))
	}

	// ---- FindGaps ------------------------------------------------------------------------------------------------------
	for k := 0; k < n/2; k++ {
		step := ovSteps[r.Intn(len(ovSteps))]
		g0 := c13RoundTo(c13Base(r), step)
		gen := func(m int) []c13R {
			var out []c13R
			pos := r.Intn(3)
			for ; m > 0; m-- {
				l := r.Intn(5)
				x := c13Aligned(c13FPs[r.Intn(2)], g0, step, pos, pos+l)
				if r.Intn(4) == 0 {
					x.S += c13Delta(r, step) / 2
				}
				out = append(out, x)
				pos += l + 1 + r.Intn(4)
			}
			return out
		}
		ranges := gen(r.Intn(4))
		base := gen(r.Intn(4))
		if r.Intn(3) == 0 {
			base = []c13R{c13Aligned(c13FPs[0], g0, step, 0, 40)}
		}
		from := g0 + int64(r.Intn(4))*step + []int64{0, 0, c13Ms, step / 2}[r.Intn(4)]
		until := from + int64(r.Intn(30))*step + []int64{0, 1, -1, c13Sec}[r.Intn(4)]
		var gaps0 []c13TR
		if r.Intn(5) == 0 {
			gaps0 = append(gaps0, c13TR{from - 2*step, from - step})
		}
		str := promapi.SeriesTimeRanges{Ranges: c13ToMTR(ranges), Step: time.Duration(step)}
		for _, g := range gaps0 {
			str.Gaps = append(str.Gaps, promapi.TimeRange{Start: c13T(g.S), End: c13T(g.E)})
		}
		cid := next()
		str.FindGaps(promapi.SeriesTimeRanges{Ranges: c13ToMTR(base), Step: time.Duration(step)}, c13T(from), c13T(until))
		var obs []c13TR
		for _, g := range str.Gaps {
			obs = append(obs, c13TR{g.Start.UnixNano(), g.End.UnixNano()})
		}
		rep.count(fmt.Sprintf("gaps/%v/%v/%d/%d/%d", ranges, base, step, from, until), len(obs) > 0)
		hist("gaps=" + c13Bucket(len(obs)))
		if keep {
			rep.Cases[strconv.Itoa(cid)] = map[string]any{"kind": "FindGaps", "ranges": ranges, "baseline": base, "gaps": gaps0,
				"step_ns": step, "from_ns": from, "until_ns": until, "observed": obs}
		}
		cw.add(fmt.Sprintf("CGaps %s %s %s %s %s %s %s %s", coqN(cid), c13CoqRs(ranges), c13CoqRs(base), c13CoqTRs(gaps0),
			coqZ(step), coqZ(from), coqZ(until), c13CoqTRs(obs)))
	}

	// ---- streamSampleStream: the decoder callback (one reused variable, labels -> fingerprint, Append) ------------------------
	for k := 0; k < n/2; k++ {
		step := ovSteps[r.Intn(len(ovSteps))]
		g0 := c13RoundTo(c13Base(r), step)
		idx := c13PickSeries(r, hist)
		if r.Intn(8) == 0 {
			idx = append(idx, idx[0]) // the same label set twice in one response
		}
		var out []fpSeries
		var elems []string
		table := map[int]bool{}
		var tab []string
		var js []map[string]any
		for _, ix := range idx {
			var ts []int64
			var tz []string
			p := []float64{0.3, 0.6, 0.95}[r.Intn(3)]
			for i := 0; i < 12; i++ {
				if r.Float64() < p {
					t := (g0 + int64(i)*step) / c13Ms
					ts = append(ts, t)
					tz = append(tz, coqZ(t*c13Ms))
				}
			}
			if len(ts) == 0 {
				continue // a series without samples does not occur in a response
			}
			m := c13Labels[ix].Map()
			out = append(out, fpSeries{Metric: m, TsMs: ts})
			ks := sortedKeys(m)
			kv := make([]string, len(ks))
			for i, kk := range ks {
				kv[i] = coqPair(coqStr(kk), coqStr(m[kk]))
			}
			elems = append(elems, coqPair(coqList(kv), coqList(tz)))
			if !table[ix] {
				table[ix] = true
				tab = append(tab, coqPair(coqList(kv), c13N(c13FPs[ix])))
			}
			js = append(js, map[string]any{"metric": m, "sample_ms": ts})
		}
		rec := httptest.NewRecorder()
		variant := fpVariantFrom(r.Uint64())
		hist(fmt.Sprintf("stream-data-key-order=%d", variant.DataOrder))
		fpWriteMatrixV(rec, out, variant)
		body := rec.Body.Bytes()
		cid := next()
		res, err := promapi.VerifStreamSampleStream(body, time.Duration(step))
		cs := map[string]any{"kind": "streamSampleStream", "step_ns": step, "response_series": js, "response_body": string(body)}
		if err != nil {
			rep.fail(strconv.Itoa(cid), "streamSampleStream rejects a well-formed matrix response: "+err.Error(), cs)
			continue
		}
		obs := c13FromMTR(res)
		names := map[int]bool{}
		for _, o := range out {
			names[len(o.Metric)] = true
		}
		rep.count(fmt.Sprintf("stream/%v/%d/%s", idx, step, body), len(out) >= 2 && len(names) >= 2)
		hist(fmt.Sprintf("stream-series=%d", len(out)))
		if keep {
			cs["observed"] = obs
			rep.Cases[strconv.Itoa(cid)] = cs
		}
		cw.add(fmt.Sprintf("CStream %s %s %s %s %s", coqN(cid), coqZ(step), coqList(elems), coqList(tab), c13CoqRs(obs)))
	}

	// ---- function-level pipeline -----------------------------------------------------------------------------------------
	for k := 0; k < n; k++ {
		step := c13Steps[r.Intn(len(c13Steps)-2)]
		var size int64
		if step >= 60*c13Sec && r.Intn(3) == 0 {
			size = int64(time.Duration(2 * time.Hour).Round(time.Duration(step)))
			hist("pipe-size=round(2h,step)")
		} else {
			size = step * int64(1+r.Intn(12))
			hist("pipe-size=k*step")
		}
		start := c13GenStart(r, size, hist)
		lb := c13GenLookback(r, step, size, 10, hist)
		end := start + lb
		if r.Intn(6) == 0 {
			end += r.Int63n(c13Ms) // ns-precision end
			hist("pipe=ns-precision-end")
		}
		per := int(size / step)
		g0 := c13RoundTo(start, size) - size
		np := int((end-g0)/step) + 2
		var ss []c13Series
		for _, k := range c13PickSeries(r, hist) {
			ss = append(ss, c13MkSeries(k, c13GenPresence(r, g0, step, np, per, hist)))
		}
		cid := next()
		cs := map[string]any{"kind": "pipeline", "start_ns": start, "end_ns": end, "step_ns": step, "slice_ns": size, "series": ss}
		watch.enter(fmt.Sprintf("pipe-%d", cid), cs, 60*time.Second)
		sl := promapi.VerifSliceRange(c13T(start), c13T(end), time.Duration(step), time.Duration(size))
		perm := r.Perm(len(sl))
		if r.Intn(5) == 0 {
			sort.Ints(perm)
		}
		per1 := make([]promapi.MetricTimeRanges, len(sl))
		for i, s := range sl {
			var dst promapi.MetricTimeRanges
			for _, ser := range ss {
				var vals []model.SamplePair
				for t := s.Start.UnixNano(); t <= s.End.UnixNano(); t += step {
					if c13Present(ser.Ivs, t) {
						vals = append(vals, model.SamplePair{Timestamp: model.TimeFromUnixNano(t), Value: 1})
					}
				}
				if len(vals) > 0 {
					dst = promapi.AppendSampleToRanges(dst, c13Labels[ser.K], vals, time.Duration(step))
				}
			}
			promapi.ExpandRangesEnd(dst, time.Duration(step))
			per1[i] = dst
		}
		var all promapi.MetricTimeRanges
		for _, p := range perm {
			all = append(all, per1[p]...)
		}
		if len(all) > 1 {
			all, _ = promapi.MergeRanges(all, time.Duration(step))
		}
		sort.Stable(all)
		watch.leave()
		final := c13FromMTR(all)
		var obsSl []c13TR
		for _, s := range sl {
			obsSl = append(obsSl, c13TR{s.Start.UnixNano(), s.End.UnixNano()})
		}
		want := c13Canon(c13Runs(ss, obsSl[0].S, end, step))
		boundary := false
		for _, x := range want {
			for _, q := range obsSl[1:] {
				if x.S < q.S && q.S <= x.E {
					boundary = true
				}
			}
		}
		rep.count(fmt.Sprintf("pipe/%d/%d/%d/%d/%v/%v", start, end, step, size, ss, perm), boundary)
		hist("pipe-slices=" + c13Bucket(len(sl)))
		cs["arrival_order"] = perm
		cs["observed_slices"] = obsSl
		cs["result"] = final
		cs["expected_unsliced"] = want
		if keep {
			rep.Cases[strconv.Itoa(cid)] = cs
		}
		if !c13EqRs(c13Canon(final), want) {
			rep.fail(strconv.Itoa(cid), "function-level pipeline (sliceRange, AppendSampleToRanges, ExpandRangesEnd, MergeRanges, sort) "+
				"differs from the runs of one unsliced evaluation on the same step grid", cs)
			continue
		}
		ps := make([]string, len(perm))
		for i, p := range perm {
			ps[i] = coqNat(p)
		}
		cw.add(fmt.Sprintf("CPipe %s %s %s %s %s %s %s %s %s", coqN(cid), coqZ(start), coqZ(end), coqZ(step), coqZ(size),
			c13CoqSeries(ss), coqList(ps), c13CoqTRs(obsSl), c13CoqRs(final)))
	}

	close(watch.done)
	cw.flush()
	for _, f := range cw.files {
		abs, _ := filepath.Abs(f)
		rep.CaseFiles = append(rep.CaseFiles, abs)
	}
	rep.write("report.json")
	return 0
}

func c13Bucket(n int) string {
	switch {
	case n <= 1:
		return strconv.Itoa(n)
	case n <= 3:
		return "2-3"
	case n <= 10:
		return "4-10"
	default:
		return ">10"
	}
}

func c13CorpusFiles() []string {
	dir := filepath.Join(filepath.Dir(filepath.Dir(c13Self())), "corpus", "C13")
	if v := os.Getenv("VERIF_ROOT"); v != "" {
		dir = filepath.Join(v, "corpus", "C13")
	}
	m, _ := filepath.Glob(filepath.Join(dir, "*.json"))
	sort.Strings(m)
	return m
}

// the harness binary lives in /verif/.build/, the corpus in /verif/corpus/
func c13Self() string {
	p, err := os.Executable()
	if err != nil {
		return "/verif/.build/x"
	}
	return p
}
