//go:build verif

package promapi

import "time"

// VerifSliceRange exposes the unexported sliceRange to the C13 harness (overlay, never part of /repo).
func VerifSliceRange(start, end time.Time, resolution, sliceSize time.Duration) []TimeRange {
	return sliceRange(start, end, resolution, sliceSize)
}
