//go:build verif

package promapi

import (
	"bytes"
	"time"
)

// VerifSliceRange exposes the unexported sliceRange to the C13 harness (overlay, never part of /repo).
func VerifSliceRange(start, end time.Time, resolution, sliceSize time.Duration) []TimeRange {
	return sliceRange(start, end, resolution, sliceSize)
}

// VerifStreamSampleStream runs the unexported streaming decoder of a query_range response body (before ExpandRangesEnd).
func VerifStreamSampleStream(body []byte, step time.Duration) (MetricTimeRanges, error) {
	r, _, err := streamSampleStream(bytes.NewReader(body), step)
	return r, err
}
