//go:build verif

package config

import "github.com/cloudflare/pint/internal/promapi"

// C15NewFailoverGroup builds the failover group exactly as pint does for a `prometheus {}` block
// (defaults applied, uri first, then the failover list in order, required => strict errors).
func C15NewFailoverGroup(pc PrometheusConfig) *promapi.FailoverGroup {
	pc.applyDefaults()
	return newFailoverGroup(pc)
}
