//go:build verif

package main

// C15 — failover on unavailability only; outages degrade to warnings.
//
// Every case = (endpoint, required, fault mode per upstream).  The REAL client (config.newFailoverGroup ->
// promapi.FailoverGroup -> Prometheus workers -> net/http) is run against in-process fake upstreams:
//   run A: one call of FailoverGroup.Query/RangeQuery/Config/Flags/Metadata on a fresh group;
//   run B: a real online check that starts with that endpoint, on another fresh group.
// Observed: answering upstream, returned error class, per-upstream request counts, problem severity.
// The observations are written as Coq terms (model comparison happens in coqc) and judged here by the
// property oracle for the nine fault modes the property lists.

import (
	"context"
	"encoding/json"
	"errors"
	"fmt"
	"io"
	"log/slog"
	"math/rand"
	"net/http"
	"os"
	"sort"
	"strconv"
	"strings"
	"sync"
	"sync/atomic"
	"time"

	"github.com/prometheus/client_golang/prometheus"
	"github.com/prometheus/common/model"

	"github.com/cloudflare/pint/internal/checks"
	"github.com/cloudflare/pint/internal/config"
	"github.com/cloudflare/pint/internal/discovery"
	"github.com/cloudflare/pint/internal/parser"
	"github.com/cloudflare/pint/internal/promapi"
)

func init() { register("C15", runC15) }

var c15Endpoints = []string{"query", "range", "config", "flags", "metadata"}

func c15ConfigLike(ep string) bool { return ep == "config" || ep == "flags" || ep == "metadata" }

// c15Mode describes what one upstream does.
type c15Mode struct {
	Name      string `json:"name"`
	Transport string `json:"transport,omitempty"` // refused | timeout | reset   (no HTTP response)
	Status    int    `json:"status,omitempty"`
	Body      string `json:"body,omitempty"`    // good | wrongtype | badyaml | json | text | empty | truncated | truncated_conn | emptyobj | array
	JStatus   string `json:"jstatus,omitempty"` // for Body=json
	ErrType   string `json:"errtype,omitempty"`
	ErrMsg    string `json:"errmsg,omitempty"`
	Listed    bool   `json:"listed"` // one of the nine modes named by the property
	// Class the property assigns to a listed mode: "answer" | "unavailable" | "query_error" | "not_found"
	Class string `json:"class,omitempty"`
}

const c15TooExpensive = "query processing would load too many samples into memory in query execution"

var c15Listed = []c15Mode{
	{Name: "healthy", Status: 200, Body: "good", Listed: true, Class: "answer"},
	{Name: "refused", Transport: "refused", Listed: true, Class: "unavailable"},
	{Name: "timeout", Transport: "timeout", Listed: true, Class: "unavailable"},
	{Name: "http500", Status: 500, Body: "text", Listed: true, Class: "unavailable"},
	{Name: "json_server_error", Status: 500, Body: "json", JStatus: "error", ErrType: "server_error", ErrMsg: "boom", Listed: true, Class: "unavailable"},
	{Name: "bad_data400", Status: 400, Body: "json", JStatus: "error", ErrType: "bad_data", ErrMsg: "bad query", Listed: true, Class: "query_error"},
	{Name: "execution422", Status: 422, Body: "json", JStatus: "error", ErrType: "execution", ErrMsg: "exec failed", Listed: true, Class: "query_error"},
	{Name: "notfound404", Status: 404, Body: "text", Listed: true, Class: "not_found"},
	{Name: "truncated200", Status: 200, Body: "truncated", Listed: true, Class: "query_error"},
}

// Extra modes: compared with the model (so the classification table is exercised beyond the nine
// listed modes) but never judged by the property oracle, because the property lists its modes.
var c15Extra = []c15Mode{
	{Name: "reset", Transport: "reset"},
	// three more plain 5xx answers: the property statement says "server (5xx) errors", so they are judged as unavailable too
	{Name: "http503_text", Status: 503, Body: "text", Listed: true, Class: "unavailable"},
	{Name: "http502_empty", Status: 502, Body: "empty", Listed: true, Class: "unavailable"},
	{Name: "http500_truncated", Status: 500, Body: "truncated", Listed: true, Class: "unavailable"},
	{Name: "json503_unavailable", Status: 503, Body: "json", JStatus: "error", ErrType: "unavailable", ErrMsg: "not ready"},
	{Name: "json503_timeout", Status: 503, Body: "json", JStatus: "error", ErrType: "timeout", ErrMsg: "query timed out"},
	{Name: "json500_internal", Status: 500, Body: "json", JStatus: "error", ErrType: "internal", ErrMsg: "oops"},
	{Name: "json500_bad_data", Status: 500, Body: "json", JStatus: "error", ErrType: "bad_data", ErrMsg: "x"},
	{Name: "json500_emptyobj", Status: 500, Body: "emptyobj"},
	{Name: "json200_server_error", Status: 200, Body: "json", JStatus: "error", ErrType: "server_error", ErrMsg: "x"},
	{Name: "json200_bad_data", Status: 200, Body: "json", JStatus: "error", ErrType: "bad_data", ErrMsg: "x"},
	{Name: "json200_canceled", Status: 200, Body: "json", JStatus: "error", ErrType: "canceled", ErrMsg: "x"},
	{Name: "json400_server_error", Status: 400, Body: "json", JStatus: "error", ErrType: "server_error", ErrMsg: "x"},
	{Name: "json422_too_expensive", Status: 422, Body: "json", JStatus: "error", ErrType: "execution", ErrMsg: c15TooExpensive},
	{Name: "json404_not_found", Status: 404, Body: "json", JStatus: "error", ErrType: "not_found", ErrMsg: "nope"},
	{Name: "http400_text", Status: 400, Body: "text"},
	{Name: "http429_empty", Status: 429, Body: "empty"},
	{Name: "http302_text", Status: 302, Body: "text"},
	{Name: "http204_empty", Status: 204, Body: "empty"},
	{Name: "text200", Status: 200, Body: "text"},
	{Name: "empty200", Status: 200, Body: "empty"},
	{Name: "emptyobj200", Status: 200, Body: "emptyobj"},
	{Name: "wrongtype200", Status: 200, Body: "wrongtype"},
	{Name: "badyaml200", Status: 200, Body: "badyaml"},
	{Name: "truncated_conn200", Status: 200, Body: "truncated_conn"},
	{Name: "json200_client_error", Status: 200, Body: "json", JStatus: "error", ErrType: "client_error", ErrMsg: "x"},
	{Name: "json500_bad_response", Status: 500, Body: "json", JStatus: "error", ErrType: "bad_response", ErrMsg: "x"},
	{Name: "json500_execution", Status: 500, Body: "json", JStatus: "error", ErrType: "execution", ErrMsg: "x"},
	{Name: "json503_unsupported", Status: 503, Body: "json", JStatus: "error", ErrType: "unsupported", ErrMsg: "x"},
}

func c15Marker(i int) string { return fmt.Sprintf("u%d", i) }

// c15GoodBody is the healthy answer of upstream idx for an endpoint.  Every upstream's answer carries a
// distinct marker so that "the answer is returned unchanged" is observable.
func c15GoodBody(ep string, idx int, r *http.Request) string {
	m := c15Marker(idx)
	switch ep {
	case "query":
		return fmt.Sprintf(`{"status":"success","data":{"resultType":"vector","result":[{"metric":{"__name__":"up","upstream":%q},"value":[1700000000,"0"]}]}}`, m)
	case "range":
		start := r.Form.Get("start")
		if start == "" {
			start = "1700000000"
		}
		return fmt.Sprintf(`{"status":"success","data":{"resultType":"matrix","result":[{"metric":{"__name__":"up","upstream":%q},"values":[[%s,"1"]]}]}}`, m, start)
	case "config":
		y, _ := json.Marshal(fmt.Sprintf("global:\n  external_labels:\n    upstream: %s\n", m))
		return fmt.Sprintf(`{"status":"success","data":{"yaml":%s}}`, y)
	case "flags":
		return fmt.Sprintf(`{"status":"success","data":{"upstream":%q}}`, m)
	case "metadata":
		return fmt.Sprintf(`{"status":"success","data":{"foo_total":[{"type":"gauge","help":%q,"unit":""}]}}`, m)
	}
	panic("endpoint " + ep)
}

func c15WrongTypeBody(ep string, idx int, r *http.Request) string {
	switch ep {
	case "query":
		return `{"status":"success","data":{"resultType":"matrix","result":[]}}`
	case "range":
		return `{"status":"success","data":{"resultType":"vector","result":[]}}`
	}
	return c15GoodBody(ep, idx, r) // the other decoders do not look at a result type
}

func c15BadYamlBody(ep string, idx int, r *http.Request) string {
	if ep == "config" {
		return `{"status":"success","data":{"yaml":"global: [this is: not a mapping\n"}}`
	}
	return c15GoodBody(ep, idx, r)
}

func c15Handler(ep string, idx int, m c15Mode) http.HandlerFunc {
	return func(w http.ResponseWriter, r *http.Request) {
		_ = r.ParseForm()
		body := ""
		cut := 0
		ct := "application/json"
		switch m.Body {
		case "good":
			body = c15GoodBody(ep, idx, r)
		case "wrongtype":
			body = c15WrongTypeBody(ep, idx, r)
		case "badyaml":
			body = c15BadYamlBody(ep, idx, r)
		case "json":
			b, _ := json.Marshal(map[string]string{"status": m.JStatus, "errorType": m.ErrType, "error": m.ErrMsg})
			body = string(b)
		case "text":
			ct = "text/plain"
			body = http.StatusText(m.Status) + "\n"
		case "empty":
			body = ""
		case "emptyobj":
			body = "{}"
		case "truncated":
			g := c15GoodBody(ep, idx, r)
			body = g[:len(g)*2/3]
		case "truncated_conn":
			g := c15GoodBody(ep, idx, r)
			body = g[:len(g)*2/3]
			cut = len(g) - len(body)
		default:
			panic("body " + m.Body)
		}
		if m.Status == 302 {
			// a redirect the client must not follow to a working answer: no Location header
			w.Header().Set("Content-Type", ct)
			w.WriteHeader(302)
			_, _ = w.Write([]byte(body))
			return
		}
		staticHandler(m.Status, ct, body, cut)(w, r)
	}
}

// fixed, 2h-aligned window of the direct range calls: cache keys do not depend on the wall clock, so a second
// identical call is identical for the cache too; 1h = one slice, 6h = exactly three slices
const c15T0 = 1700006400 // divisible by 7200
const c15Slices = 3

type c15AbsRange struct {
	start, end time.Time
	step       time.Duration
}

func (r c15AbsRange) Start() time.Time    { return r.start }
func (r c15AbsRange) End() time.Time      { return r.end }
func (r c15AbsRange) Dur() time.Duration  { return r.end.Sub(r.start) }
func (r c15AbsRange) Step() time.Duration { return r.step }
func (r c15AbsRange) String() string      { return fmt.Sprintf("abs/%d/%s", r.start.Unix(), r.end.Sub(r.start)) }

func c15Range(multi bool) c15AbsRange {
	d := time.Hour
	if multi {
		d = c15Slices * 2 * time.Hour
	}
	return c15AbsRange{start: time.Unix(c15T0, 0), end: time.Unix(c15T0, 0).Add(d), step: time.Minute}
}

// c15NewUpstreamSeq: an upstream whose behaviour is m1 until *phase becomes 1 and m2 afterwards (HTTP-level modes only),
// and whose fault applies to one slice of a range query only when sliceFault >= 0.
func c15NewUpstreamSeq(ep, ep2 string, idx int, m1, m2 c15Mode, phase *atomic.Int32, sliceFault int) *fakeUpstream {
	// refused / reset are socket-level fakes and cannot change; a timeout is a handler that never answers, so an upstream
	// can time out during the first call and answer during the second (or the other way round)
	socketLevel := func(m c15Mode) bool { return m.Transport == "refused" || m.Transport == "reset" }
	modeHandler := func(e string, m c15Mode) http.HandlerFunc {
		if m.Transport == "timeout" {
			return sleepingHandler(15 * time.Second)
		}
		return c15Handler(e, idx, m)
	}
	if m1.Transport == "refused" && !socketLevel(m2) {
		// down (connection refused) during the first call, back on the same address for the second
		return newRefusedThenHTTPUpstream(modeHandler(ep2, m2))
	}
	if socketLevel(m1) || socketLevel(m2) {
		return c15NewUpstream(ep, idx, m1)
	}
	healthy := c15Handler(ep, idx, c15Listed[0])
	h1, h2 := modeHandler(ep, m1), modeHandler(ep2, m2)
	return newHTTPUpstream(func(w http.ResponseWriter, r *http.Request) {
		if sliceFault >= 0 {
			_ = r.ParseForm()
			if st, err := strconv.ParseFloat(r.Form.Get("start"), 64); err == nil && int(st-c15T0)/7200 != sliceFault {
				healthy(w, r)
				return
			}
		}
		if phase.Load() == 0 {
			h1(w, r)
		} else {
			h2(w, r)
		}
	})
}

func c15NewUpstream(ep string, idx int, m c15Mode) *fakeUpstream {
	switch m.Transport {
	case "refused":
		return newRefusedUpstream()
	case "reset":
		return newResetUpstream()
	case "timeout":
		return newHTTPUpstream(sleepingHandler(15 * time.Second))
	}
	return newHTTPUpstream(c15Handler(ep, idx, m))
}

// ---------------------------------------------------------------------------------------------
// observations

type c15Obs struct {
	OK          bool     `json:"ok"`
	AnswerIdx   int      `json:"answer_idx"`   // upstream whose URI is in the result (-1 none)
	Marker      string   `json:"marker"`       // payload marker of the returned answer
	ErrIdx      int      `json:"err_idx"`      // upstream named by FailoverGroupError.URI() (-1 none)
	ErrKind     string   `json:"err_kind"`     // api:<errorType> | unsupported | nonapi | "" (ok)
	Unavailable bool     `json:"unavailable"`  // promapi.IsUnavailableError(err)
	Strict      bool     `json:"strict"`       // FailoverGroupError.IsStrict()
	Wrapped     bool     `json:"wrapped"`      // error is a *FailoverGroupError
	ErrText     string   `json:"err_text"`     // for humans only
	Client      []int    `json:"client_counts"` // RoundTrip calls per upstream
	Server      []int    `json:"server_counts"` // requests/connections seen by each fake upstream (-1 = cannot be seen)
	Problems    []string `json:"problems"`      // run B: "<summary>|<severity>" of every problem of the online check
	ClientB     []int    `json:"client_counts_check"`
	Panic       string   `json:"panic,omitempty"`
	Second      *c15Second `json:"second_call,omitempty"` // a second identical call on the same group (client state: cache, unsupported flags)
	RawServer   []int    `json:"server_counts_raw,omitempty"` // multi-slice: per-upstream request counts before clipping to 0/1
	Spurious    string   `json:"-"` // a request to an upstream that is not in timeout mode hit the client deadline (overloaded machine)
}

// c15Second: what a second identical call on the same failover group did.
type c15Second struct {
	OK        bool   `json:"ok"`
	AnswerIdx int    `json:"answer_idx"`
	Marker    string `json:"marker"`
	ErrIdx    int    `json:"err_idx"`
	ErrKind   string `json:"err_kind"`
	Client    []int  `json:"client_counts"` // additional RoundTrips per upstream
}

type c15Case struct {
	ID       int       `json:"id"`
	Endpoint string    `json:"endpoint"`
	Required bool      `json:"required"`
	Modes    []c15Mode `json:"modes"`
	Obs      c15Obs    `json:"observed"`
	Judged   bool      `json:"judged"` // all modes are listed ones => judged by the property oracle
	// MultiSlice: range endpoint with a 5h window (3-4 slices fetched concurrently, the others are cancelled when one
	// fails): per-upstream request counts then depend on the schedule, so they are clipped to 0/1 before comparison.
	MultiSlice bool    `json:"multi_slice,omitempty"`
	// SliceFault (multi-slice range only): per upstream, the index of the ONE slice its fault mode applies to (the other
	// slices of that upstream are answered healthily); -1 / absent = the mode applies to every slice.
	SliceFault []int `json:"slice_fault,omitempty"`
	// Modes2: what every upstream does during the SECOND call on the same group (a fault SEQUENCE: an upstream that
	// recovers or fails between two identical requests); nil = unchanged.  Only HTTP-level modes change.
	Modes2 []c15Mode `json:"modes_second_call,omitempty"`
	// Endpoint2: the second call asks a DIFFERENT API of the same group ("" = the same endpoint): the client state one
	// API left behind (cache entries, "this server does not support …" flags) must not leak into another API.
	Endpoint2 string `json:"endpoint_second_call,omitempty"`
	// PublicURI: the prometheus block sets `publicURI`, so every upstream of the group reports the SAME public address in
	// its results; which upstream answered is then read off the payload marker.  Anything keyed by the public address
	// instead of the upstream's own address (cache entries …) would be shared between the upstreams of the group.
	PublicURI bool `json:"public_uri,omitempty"`
	Binary   *c15BinObs `json:"binary_run,omitempty"`
}

const c15RetryBatch = 24

const c15ClientTimeout = "500ms" // pint adds one second to it for the request context
const c15BinaryTimeout = "1500ms" // separate process under load: more head room

func c15IndexOf(uris []string, u string) int {
	for i, x := range uris {
		if x == u {
			return i
		}
	}
	return -1
}

// c15Upstreams starts the fake upstreams of a case (shared by run A and run B).
func c15Upstreams(c *c15Case, phase *atomic.Int32) []*fakeUpstream {
	ups := make([]*fakeUpstream, len(c.Modes))
	for i, m := range c.Modes {
		m2, sf := m, -1
		if c.Modes2 != nil {
			m2 = c.Modes2[i]
		}
		if i < len(c.SliceFault) {
			sf = c.SliceFault[i]
		}
		ep2 := c.Endpoint
		if c.Endpoint2 != "" {
			ep2 = c.Endpoint2
		}
		ups[i] = c15NewUpstreamSeq(c.Endpoint, ep2, i, m, m2, phase, sf)
	}
	return ups
}

const c15PublicURI = "http://prom.example.com"

// c15MarkerIdx: the upstream a payload marker ("u<k>") belongs to, -1 if it is not a single marker
func c15MarkerIdx(marker string, n int) int {
	for i := 0; i < n; i++ {
		if marker == c15Marker(i) {
			return i
		}
	}
	return -1
}

func c15BuildGroup(ep string, modes []c15Mode, required bool, ups []*fakeUpstream, public ...bool) (*promapi.FailoverGroup, []*fakeUpstream, []*countingTransport, []string, func()) {
	uris := make([]string, len(modes))
	for i := range modes {
		uris[i] = ups[i].URL
	}
	pc := config.PrometheusConfig{Name: "prom", URI: uris[0], Failover: uris[1:], Timeout: c15ClientTimeout, Required: required, Concurrency: 2, RateLimit: 1000}
	if len(public) > 0 && public[0] {
		pc.PublicURI = c15PublicURI
	}
	fg := config.C15NewFailoverGroup(pc)
	cts := make([]*countingTransport, len(modes))
	servers := fg.C15Servers()
	// counters are attached by URI, so they do not assume anything about the order of fg's server list
	for _, s := range servers {
		i := c15IndexOf(uris, s.C15URI())
		if i < 0 {
			continue
		}
		ct := &countingTransport{}
		cts[i] = ct
		s.C15WrapTransport(func(inner http.RoundTripper) http.RoundTripper { ct.inner = inner; return ct })
	}
	reg := prometheus.NewRegistry()
	fg.StartWorkers(reg)
	cleanup := func() { fg.Close(reg) }
	return fg, ups, cts, uris, cleanup
}

// c15CheckRun: run B (the online check on a second fresh group over the same fake upstreams) is possible unless a fault
// is tied to one slice of the direct call's window, or an upstream came back from "refused" (it cannot refuse again)
func c15CheckRun(c *c15Case) bool {
	if c.SliceFault != nil {
		return false
	}
	for i, m := range c.Modes2 {
		if c.Modes[i].Transport == "refused" && m.Transport != "refused" {
			return false
		}
	}
	return true
}

func c15Spurious(cts []*countingTransport, modes []c15Mode, modes2 ...[]c15Mode) string {
	for i, c := range cts {
		may := modes[i].Transport == "timeout"
		for _, m2 := range modes2 {
			if i < len(m2) && m2[i].Transport == "timeout" {
				may = true
			}
		}
		if c != nil && c.timeouts.Load() > 0 && !may {
			return fmt.Sprintf("upstream %d (%s) timed out", i, modes[i].Name)
		}
	}
	return ""
}

func c15Counts(cts []*countingTransport) []int {
	out := make([]int, len(cts))
	for i, c := range cts {
		if c == nil {
			out[i] = -1
		} else {
			out[i] = int(c.n.Load())
		}
	}
	return out
}

func c15ErrKind(err error) string {
	if err == nil {
		return ""
	}
	if errors.Is(err, promapi.ErrUnsupported) {
		return "unsupported"
	}
	var ae promapi.APIError
	if errors.As(err, &ae) {
		return "api:" + string(ae.ErrorType)
	}
	return "nonapi"
}

// run A: one direct call.
func c15RunDirect(c *c15Case, phase *atomic.Int32, shared []*fakeUpstream, obs *c15Obs) {
	ep, modes, required, multi := c.Endpoint, c.Modes, c.Required, c.MultiSlice
	fg, ups, cts, uris, cleanup := c15BuildGroup(ep, modes, required, shared, c.PublicURI)
	defer cleanup()
	ctx := context.Background()
	// call performs the endpoint's FailoverGroup method once: (error, answering upstream, marker of the answer)
	callEp := ep
	call := func() (err error, answerIdx int, marker string) {
		answerIdx = -1
		switch callEp {
		case "query":
			var qr *promapi.QueryResult
			qr, err = fg.Query(ctx, "up")
			if err == nil && qr != nil {
				answerIdx = c15IndexOf(uris, qr.URI)
				for _, s := range qr.Series {
					marker += s.Labels.Get("upstream")
				}
			}
		case "range":
			var rr *promapi.RangeQueryResult
			rr, err = fg.RangeQuery(ctx, "up", c15Range(multi))
			if err == nil && rr != nil {
				answerIdx = c15IndexOf(uris, rr.URI)
				seen := map[string]bool{}
				for _, s := range rr.Series.Ranges {
					if u := s.Labels.Get("upstream"); !seen[u] {
						seen[u] = true
						marker += u
					}
				}
			}
		case "config":
			var cr *promapi.ConfigResult
			cr, err = fg.Config(ctx, 0)
			if err == nil && cr != nil {
				answerIdx = c15IndexOf(uris, cr.URI)
				marker = cr.Config.Global.ExternalLabels["upstream"]
			}
		case "flags":
			var fr *promapi.FlagsResult
			fr, err = fg.Flags(ctx)
			if err == nil && fr != nil {
				answerIdx = c15IndexOf(uris, fr.URI)
				marker = fr.Flags["upstream"]
			}
		case "metadata":
			var mr *promapi.MetadataResult
			mr, err = fg.Metadata(ctx, "foo_total")
			if err == nil && mr != nil {
				answerIdx = c15IndexOf(uris, mr.URI)
				for _, m := range mr.Metadata {
					marker += m.Help
				}
			}
		}
		if c.PublicURI && err == nil {
			answerIdx = c15MarkerIdx(marker, len(modes)) // every upstream reports the same public address
		}
		return err, answerIdx, marker
	}
	obs.ErrIdx = -1
	var err error
	err, obs.AnswerIdx, obs.Marker = call()
	obs.OK = err == nil
	if err != nil {
		obs.ErrKind = c15ErrKind(err)
		obs.Unavailable = promapi.IsUnavailableError(err)
		obs.ErrText = err.Error()
		var fe *promapi.FailoverGroupError
		if errors.As(err, &fe) {
			obs.Wrapped = true
			obs.Strict = fe.IsStrict()
			obs.ErrIdx = c15IndexOf(uris, fe.URI())
		}
	}
	obs.Client = c15Counts(cts)
	rawClient := append([]int{}, obs.Client...)
	obs.Server = make([]int, len(ups))
	for i, u := range ups {
		// refused: nothing reaches a handler; reset: net/http may transparently re-dial when the RST arrives before
		// the request was written, so the number of accepted connections is not a function of the call
		if modes[i].Transport == "refused" || modes[i].Transport == "reset" {
			obs.Server[i] = -1
		} else {
			obs.Server[i] = int(u.hits.Load())
		}
	}
	// second identical call on the same group, unless it would wait for timeouts again
	// (range queries use a fixed absolute window, so their cache keys are the same in both calls)
	if multi {
		obs.RawServer = append([]int{}, obs.Server...)
		clip := func(xs []int) {
			for i := range xs {
				if xs[i] > 1 {
					xs[i] = 1
				}
			}
		}
		clip(obs.Client)
		clip(obs.Server)
	}
	second := true
	if c.Modes2 == nil {
		for _, m := range modes {
			if m.Transport == "timeout" {
				second = false
			}
		}
	}
	if second {
		phase.Store(1)
		for _, u := range ups {
			if u.comeBack != nil {
				u.comeBack()
			}
		}
		if c.Endpoint2 != "" {
			callEp = c.Endpoint2
		}
		err2, idx2, marker2 := call()
		sc := &c15Second{OK: err2 == nil, AnswerIdx: idx2, Marker: marker2, ErrIdx: -1, ErrKind: c15ErrKind(err2)}
		var fe *promapi.FailoverGroupError
		if err2 != nil && errors.As(err2, &fe) {
			sc.ErrIdx = c15IndexOf(uris, fe.URI())
		}
		after := c15Counts(cts)
		for i := range after {
			d := after[i] - rawClient[i]
			if multi && d > 1 {
				d = 1
			}
			sc.Client = append(sc.Client, d)
		}
		obs.Second = sc
	}
	obs.Spurious = c15Spurious(cts, modes, c.Modes2)
}

const c15Rules = `
- alert: Foo
  expr: foo_total > 5
  labels:
    job: foo
`

var (
	c15EntryOnce sync.Once
	c15Entry     discovery.Entry
)

func c15GetEntry() discovery.Entry {
	c15EntryOnce.Do(func() {
		p := parser.NewParser(false, parser.PrometheusSchema, model.UTF8Validation)
		file := p.Parse(strings.NewReader(c15Rules))
		if file.Error.Err != nil {
			panic(file.Error.Err)
		}
		for _, g := range file.Groups {
			for _, rule := range g.Rules {
				g := g
				c15Entry = discovery.Entry{
					Path:          discovery.Path{Name: "fake.yml", SymlinkTarget: "fake.yml"},
					ModifiedLines: rule.Lines.Expand(),
					Rule:          rule,
					Group:         &g,
					File:          &file,
				}
				return
			}
		}
		panic("no rule parsed")
	})
	return c15Entry
}

// c15CheckFor returns the real online check whose first API call is the endpoint.
func c15CheckFor(ep string, fg *promapi.FailoverGroup) checks.RuleChecker {
	switch ep {
	case "query":
		return checks.NewCostCheck(fg, 0, 0, 0, 0, "", checks.Bug)
	case "range":
		return checks.NewAlertsCheck(fg, time.Hour, time.Minute, time.Minute*5, 0, "", checks.Information)
	case "config":
		return checks.NewAlertsExternalLabelsCheck(fg)
	case "flags":
		return checks.NewRangeQueryCheck(fg, 0, "", checks.Warning)
	case "metadata":
		return checks.NewCounterCheck(fg)
	}
	panic(ep)
}

// run B: the real online check.
func c15RunCheck(ep string, modes []c15Mode, required bool, shared []*fakeUpstream, obs *c15Obs) {
	fg, _, cts, _, cleanup := c15BuildGroup(ep, modes, required, shared)
	defer cleanup()
	entry := c15GetEntry()
	func() {
		defer func() {
			if r := recover(); r != nil {
				obs.Panic = fmt.Sprint(r)
			}
		}()
		problems := c15CheckFor(ep, fg).Check(context.Background(), entry, []discovery.Entry{entry})
		for _, p := range problems {
			obs.Problems = append(obs.Problems, p.Summary+"|"+p.Severity.String())
		}
	}()
	sort.Strings(obs.Problems)
	obs.ClientB = c15Counts(cts)
	if sp := c15Spurious(cts, modes); sp != "" {
		obs.Spurious = sp
	}
}

var c15SpuriousRuns atomic.Int64

func c15Run(c *c15Case) {
	// an observation polluted by a spurious client timeout (machine overloaded) is discarded and taken again
	for attempt := 0; attempt < 4; attempt++ {
		c.Obs = c15Obs{}
		var phase atomic.Int32
		ups := c15Upstreams(c, &phase)
		c15RunDirect(c, &phase, ups, &c.Obs) // server-side counts are read here, before run B
		phase.Store(0)
		if c15CheckRun(c) { // the checks use their own (relative) windows: a per-slice fault has no meaning for them
			c15RunCheck(c.Endpoint, c.Modes, c.Required, ups, &c.Obs)
		}
		for _, u := range ups {
			u.Close()
		}
		if c.Obs.Spurious == "" {
			return
		}
		c15SpuriousRuns.Add(1)
		time.Sleep(200 * time.Millisecond)
	}
}

// ---------------------------------------------------------------------------------------------
// run C (sampled): the real pint BINARY, configured through .pint.hcl (uri, failover, timeout, required),
// linting one rule file with exactly one online check enabled.

type c15BinObs struct {
	Exit     int      `json:"exit"`
	Problems []string `json:"problems"` // "<reporter>|<summary>|<severity>"
	Server   []int    `json:"server_counts"`
	Stderr   string   `json:"stderr_tail,omitempty"`
}

var c15BinCheck = map[string]string{"query": "query/cost", "range": "alerts/count", "config": "alerts/external_labels", "flags": "promql/range_query", "metadata": "promql/counter"}

func c15RunBinary(dir string, c *c15Case) *c15BinObs {
	ups := make([]*fakeUpstream, len(c.Modes))
	uris := make([]string, len(c.Modes))
	for i, m := range c.Modes {
		ups[i] = c15NewUpstream(c.Endpoint, i, m)
		uris[i] = ups[i].URL
		defer ups[i].Close()
	}
	var cfg strings.Builder
	fmt.Fprintf(&cfg, "prometheus \"prom\" {\n  uri = %q\n", uris[0])
	if len(uris) > 1 {
		fo := make([]string, len(uris)-1)
		for i, u := range uris[1:] {
			fo[i] = fmt.Sprintf("%q", u)
		}
		fmt.Fprintf(&cfg, "  failover = [%s]\n", strings.Join(fo, ", "))
	}
	fmt.Fprintf(&cfg, "  timeout = %q\n  required = %v\n}\n", c15BinaryTimeout, c.Required)
	fmt.Fprintf(&cfg, "checks {\n  enabled = [%q]\n}\n", c15BinCheck[c.Endpoint])
	switch c.Endpoint {
	case "query":
		cfg.WriteString("rule {\n  cost {}\n}\n")
	case "range":
		cfg.WriteString("rule {\n  alerts {\n    range = \"1h\"\n    step = \"1m\"\n    resolve = \"5m\"\n  }\n}\n")
	}
	writeFile(dir+"/.pint.hcl", cfg.String())
	writeFile(dir+"/rules.yml", "groups:\n- name: g\n  rules:\n  - alert: Foo\n    expr: foo_total > 5\n    labels:\n      job: foo\n")
	rc, _, se := runPint(dir, "--no-color", "-c", ".pint.hcl", "lint", "--json", "out.json", "--min-severity", "info", "rules.yml")
	o := &c15BinObs{Exit: rc}
	if len(se) > 400 {
		se = se[len(se)-400:]
	}
	o.Stderr = se
	if b, err := os.ReadFile(dir + "/out.json"); err == nil {
		var js []struct {
			Reporter string `json:"reporter"`
			Problem  string `json:"problem"`
			Severity string `json:"severity"`
		}
		if json.Unmarshal(b, &js) == nil {
			for _, j := range js {
				o.Problems = append(o.Problems, j.Reporter+"|"+j.Problem+"|"+j.Severity)
			}
		}
	}
	sort.Strings(o.Problems)
	for i, u := range ups {
		if c.Modes[i].Transport == "refused" {
			o.Server = append(o.Server, -1)
		} else {
			o.Server = append(o.Server, int(u.hits.Load()))
		}
	}
	return o
}

// c15BinOracle: the property on the binary run — answering upstream reached, later ones never contacted,
// all-unavailable => exactly one `unable to run checks` problem, Warning / Bug iff required.
func c15BinOracle(c *c15Case, o *c15BinObs) []string {
	var bad []string
	n := len(c.Modes)
	first := n
	for i, m := range c.Modes {
		if c15Expect(c.Endpoint, m) != "next" {
			first = i
			break
		}
	}
	for i := 0; i < n; i++ {
		if o.Server[i] < 0 {
			continue
		}
		if i > first && o.Server[i] != 0 {
			bad = append(bad, fmt.Sprintf("pint binary: upstream %d (%s) received %d request(s) although upstream %d answers/fails the query", i, c.Modes[i].Name, o.Server[i], first))
		}
		if i <= first && o.Server[i] == 0 {
			bad = append(bad, fmt.Sprintf("pint binary: upstream %d (%s) was never contacted", i, c.Modes[i].Name))
		}
	}
	var unable []string
	for _, p := range o.Problems {
		f := strings.Split(p, "|")
		if len(f) == 3 && f[1] == "unable to run checks" {
			unable = append(unable, f[2])
		}
	}
	allUnavailable := first == n
	for _, m := range c.Modes {
		if m.Class != "unavailable" {
			allUnavailable = false
		}
	}
	if allUnavailable {
		want := "Warning"
		if c.Required {
			want = "Bug"
		}
		if len(unable) != 1 || unable[0] != want || len(o.Problems) != 1 {
			bad = append(bad, fmt.Sprintf("pint binary: every upstream unavailable (required=%v): expected exactly one `unable to run checks` problem of severity %s, got %v (exit %d) %s", c.Required, want, o.Problems, o.Exit, o.Stderr))
		}
	}
	if first < n && c15Expect(c.Endpoint, c.Modes[first]) == "answer" && len(unable) > 0 {
		bad = append(bad, fmt.Sprintf("pint binary: upstream %d answers but pint reported %v", first, o.Problems))
	}
	if o.Exit < 0 || o.Exit > 1 {
		bad = append(bad, fmt.Sprintf("pint binary: exit status %d: %s", o.Exit, o.Stderr))
	}
	return bad
}

// ---------------------------------------------------------------------------------------------
// property oracle (the property as written, for the nine listed modes)

// expected class of a listed mode at an endpoint: "answer" | "next" (go on to the next upstream) | "stop"
func c15Expect(ep string, m c15Mode) string {
	switch m.Class {
	case "answer":
		return "answer"
	case "unavailable":
		return "next"
	case "not_found":
		// a 404 on the status/metadata APIs means "this server has no such API" (DESIGN §6 C15: failover
		// also continues on unsupported for config/flags/metadata); on the query APIs it is a query error.
		if c15ConfigLike(ep) {
			return "next"
		}
		return "stop"
	}
	return "stop"
}

func c15Oracle(c *c15Case) []string {
	var bad []string
	o := c.Obs
	if o.Panic != "" {
		bad = append(bad, "online check crashed: "+o.Panic)
	}
	n := len(c.Modes)
	first := n // first upstream that answers or stops the loop
	for i, m := range c.Modes {
		if c15Expect(c.Endpoint, m) != "next" {
			first = i
			break
		}
	}
	unable := []string{}
	for _, p := range o.Problems {
		if strings.HasPrefix(p, "unable to run checks|") {
			unable = append(unable, strings.TrimPrefix(p, "unable to run checks|"))
		}
	}
	// per-upstream contact counts: every upstream up to `first` exactly once, later ones never
	for i := 0; i < n; i++ {
		want := 0
		if i <= first {
			want = 1
		}
		if o.Client[i] != want {
			bad = append(bad, fmt.Sprintf("upstream %d (%s) was contacted %d time(s) by the client, the property requires %d", i, c.Modes[i].Name, o.Client[i], want))
		}
		if o.Server[i] >= 0 && o.Server[i] != want {
			bad = append(bad, fmt.Sprintf("upstream %d (%s) received %d request(s), the property requires %d", i, c.Modes[i].Name, o.Server[i], want))
		}
		if i > first && i < len(o.ClientB) && o.ClientB[i] != 0 {
			bad = append(bad, fmt.Sprintf("online check: upstream %d (%s) contacted %d time(s) although upstream %d already answered/failed the query", i, c.Modes[i].Name, o.ClientB[i], first))
		}
	}
	switch {
	case first < n && c15Expect(c.Endpoint, c.Modes[first]) == "answer":
		if !o.OK || o.AnswerIdx != first || o.Marker != c15Marker(first) {
			bad = append(bad, fmt.Sprintf("expected the unchanged answer of upstream %d (first reachable), got ok=%v answer_idx=%d marker=%q err=%q", first, o.OK, o.AnswerIdx, o.Marker, o.ErrText))
		}
		if len(unable) > 0 {
			bad = append(bad, fmt.Sprintf("request was answered by upstream %d but the online check reported %v", first, o.Problems))
		}
		if c.MultiSlice && first < len(o.RawServer) && o.RawServer[first] >= 0 && o.RawServer[first] != c15Slices {
			bad = append(bad, fmt.Sprintf("range query over %d slices: the answering upstream %d received %d request(s)", c15Slices, first, o.RawServer[first]))
		}
	case first < n: // query error: returned as is, from that upstream
		if o.OK || o.ErrIdx != first {
			bad = append(bad, fmt.Sprintf("expected the error of upstream %d (%s) returned as is, got ok=%v err_idx=%d kind=%s", first, c.Modes[first].Name, o.OK, o.ErrIdx, o.ErrKind))
		}
		if !o.OK && o.Unavailable {
			bad = append(bad, fmt.Sprintf("a query error (%s) is classified as unavailability (%s)", c.Modes[first].Name, o.ErrKind))
		}
		if want := c.Modes[first].ErrType; want != "" && !o.OK && o.ErrKind != "api:"+want {
			bad = append(bad, fmt.Sprintf("query error %s came back as %s, not as is", want, o.ErrKind))
		}
	default: // nobody answered
		if o.OK {
			bad = append(bad, "no upstream is reachable but the request succeeded")
		}
		allUnavailable := true
		for _, m := range c.Modes {
			if m.Class != "unavailable" {
				allUnavailable = false
			}
		}
		if allUnavailable {
			want := "Warning"
			if c.Required {
				want = "Bug"
			}
			if c15CheckRun(c) && (len(o.Problems) != 1 || len(unable) != 1 || unable[0] != want) {
				bad = append(bad, fmt.Sprintf("every upstream is unavailable (required=%v): expected exactly one `unable to run checks` problem of severity %s, got %v", c.Required, want, o.Problems))
			}
			if !o.Unavailable {
				bad = append(bad, "every upstream is unavailable but the returned error is not classified unavailable: "+o.ErrKind)
			}
		}
	}
	return append(bad, c15OracleSecond(c, first)...)
}

// c15OracleSecond: the property on the SECOND call of a fault sequence (modes may have changed in between).
// A1 = upstream that answered the first call (its answer may legitimately be served from the cache, whatever it does
// now); otherwise the request must again be answered by the first upstream in configured order that is reachable NOW:
// an upstream that failed before and recovered must be asked again (errors leave no trace), an upstream that answered a
// DIFFERENT upstream's request must not be used in its place, later upstreams are not contacted.
func c15OracleSecond(c *c15Case, first int) []string {
	sc := c.Obs.Second
	if sc == nil {
		return nil
	}
	n := len(c.Modes)
	modes2 := c.Modes2
	if modes2 == nil {
		modes2 = c.Modes
	}
	for _, m := range modes2 {
		if !m.Listed {
			return nil
		}
	}
	ep2 := c.Endpoint
	if c.Endpoint2 != "" {
		ep2 = c.Endpoint2
	}
	a1 := -1
	if ep2 == c.Endpoint && first < n && c15Expect(c.Endpoint, c.Modes[first]) == "answer" {
		a1 = first
	}
	// a status API that answered 404 is remembered as unsupported by design: not judged (the SAME API only: what one
	// API answered says nothing about another one)
	if ep2 == c.Endpoint && c15ConfigLike(c.Endpoint) {
		for i := 0; i <= first && i < n; i++ {
			if c.Modes[i].Class == "not_found" {
				return nil
			}
		}
	}
	exp := n
	for i, m := range modes2 {
		if i == a1 || c15Expect(ep2, m) != "next" {
			exp = i
			break
		}
	}
	if exp == a1 && c15Expect(ep2, modes2[a1]) != "answer" {
		return nil // the cached answer of an upstream that went down afterwards: the property does not say
	}
	var bad []string
	names := func(ms []c15Mode) []string {
		out := make([]string, len(ms))
		for i, m := range ms {
			out[i] = m.Name
		}
		return out
	}
	pre := fmt.Sprintf("second call (%s, modes now %v)", ep2, names(modes2))
	for i := 0; i < n && i < len(sc.Client); i++ {
		switch {
		case i > exp && sc.Client[i] != 0:
			bad = append(bad, fmt.Sprintf("%s: upstream %d (%s) contacted although upstream %d answers/fails the query", pre, i, modes2[i].Name, exp))
		case i <= exp && sc.Client[i] > 1:
			// (0 is not judged: the property does not forbid remembering a failure of an upstream that is still failing;
			// what it requires — a recovered upstream answers again — is judged on the result below)
			bad = append(bad, fmt.Sprintf("%s: upstream %d (%s) contacted %d times for one request", pre, i, modes2[i].Name, sc.Client[i]))
		}
	}
	switch {
	case exp < n && (exp == a1 || c15Expect(ep2, modes2[exp]) == "answer"):
		if !sc.OK || sc.AnswerIdx != exp || sc.Marker != c15Marker(exp) {
			bad = append(bad, fmt.Sprintf("%s: expected the unchanged answer of upstream %d (first reachable), got ok=%v answer_idx=%d marker=%q kind=%s", pre, exp, sc.OK, sc.AnswerIdx, sc.Marker, sc.ErrKind))
		}
	case exp < n:
		if sc.OK || sc.ErrIdx != exp {
			bad = append(bad, fmt.Sprintf("%s: expected the error of upstream %d (%s) returned as is, got ok=%v err_idx=%d kind=%s", pre, exp, modes2[exp].Name, sc.OK, sc.ErrIdx, sc.ErrKind))
		}
		if want := modes2[exp].ErrType; want != "" && !sc.OK && sc.ErrKind != "api:"+want {
			bad = append(bad, fmt.Sprintf("%s: query error %s came back as %s, not as is", pre, want, sc.ErrKind))
		}
	default:
		if sc.OK {
			bad = append(bad, pre+": no upstream is reachable but the request succeeded")
		}
	}
	return bad
}

// ---------------------------------------------------------------------------------------------
// Coq terms

func c15CoqResponse(ep string, m c15Mode) string {
	switch m.Transport {
	case "refused":
		return "(RTransport TRefused)"
	case "timeout":
		return "(RTransport TTimeout)"
	case "reset":
		return "(RTransport TReset)"
	}
	body := ""
	switch m.Body {
	case "good":
		body = `(BJson "success" "" "" PGood)`
	case "wrongtype":
		body = `(BJson "success" "" "" PWrongType)`
	case "badyaml":
		body = `(BJson "success" "" "" PBadYaml)`
	case "json":
		body = fmt.Sprintf("(BJson %s %s %s PNone)", coqStr(m.JStatus), coqStr(m.ErrType), coqStr(m.ErrMsg))
	case "emptyobj":
		body = `(BJson "" "" "" PNone)`
	case "text", "empty", "truncated", "truncated_conn":
		body = "BUndecodable"
	default:
		panic(m.Body)
	}
	return fmt.Sprintf("(RHttp %d %s)", m.Status, body)
}

func c15CoqEndpoint(ep string) string {
	return map[string]string{"query": "EQuery", "range": "ERange", "config": "EConfig", "flags": "EFlags", "metadata": "EMetadata"}[ep]
}

func c15CoqInts(xs []int) string {
	out := make([]string, len(xs))
	for i, x := range xs {
		out[i] = coqZ(int64(x))
	}
	return coqList(out)
}

func c15CoqCase(c *c15Case) string {
	ups := make([]string, len(c.Modes))
	for i, m := range c.Modes {
		ups[i] = fmt.Sprintf("(mk_upstream %s %s false None)", c15CoqResponse(c.Endpoint, m), coqStr(c15Marker(i)))
	}
	o := c.Obs
	ep2 := c.Endpoint
	if c.Endpoint2 != "" {
		ep2 = c.Endpoint2
	}
	var r2 []string
	for _, m := range c.Modes2 {
		r2 = append(r2, c15CoqResponse(ep2, m))
	}
	return fmt.Sprintf("{| c_id := %s; c_ep := %s; c_required := %s; c_ups := %s; c_resps2 := %s; c_ep2 := %s; c_check_run := %s; "+
		"o_ok := %s; o_answer_idx := %s; o_marker := %s; o_err_idx := %s; o_err_kind := %s; o_unavailable := %s; o_strict := %s; "+
		"o_client := %s; o_server := %s; o_problems := %s; o_client_check := %s; o_second := %s |}",
		coqN(c.ID), c15CoqEndpoint(c.Endpoint), coqBool(c.Required), coqList(ups), coqList(r2), c15CoqEndpoint(ep2), coqBool(c15CheckRun(c)),
		coqBool(o.OK), coqZ(int64(o.AnswerIdx)), coqStr(o.Marker), coqZ(int64(o.ErrIdx)), coqStr(o.ErrKind), coqBool(o.Unavailable), coqBool(o.Strict),
		c15CoqInts(o.Client), c15CoqInts(o.Server), coqStrList(o.Problems), c15CoqInts(o.ClientB), c15CoqSecond(o.Second))
}

func c15CoqSecond(s *c15Second) string {
	if s == nil {
		return "None"
	}
	return fmt.Sprintf("(Some (mk_second %s %s %s %s %s %s))", coqBool(s.OK), coqZ(int64(s.AnswerIdx)), coqStr(s.Marker), coqZ(int64(s.ErrIdx)), coqStr(s.ErrKind), c15CoqInts(s.Client))
}

// ---------------------------------------------------------------------------------------------
// case generation

func c15Enumerate(tier string, r *rand.Rand, nExtra int) []c15Case {
	if tier == "search" {
		return c15SearchCases(r, nExtra)
	}
	var cases []c15Case
	add := func(ep string, req bool, ms ...c15Mode) {
		judged := true
		for _, m := range ms {
			if !m.Listed {
				judged = false
			}
		}
		cases = append(cases, c15Case{Endpoint: ep, Required: req, Modes: append([]c15Mode{}, ms...), Judged: judged})
	}
	L := c15Listed
	isNext := func(ep string, m c15Mode) bool { return c15Expect(ep, m) == "next" }
	flip := 0
	req := func() bool { flip++; return flip%2 == 0 }
	for ei, ep := range c15Endpoints {
		// one upstream: all 9
		for _, a := range L {
			add(ep, req(), a)
		}
		for ai, a := range L {
			for bi, b := range L {
				if tier == "thorough" || isNext(ep, a) || (ai+bi)%5 == ei {
					add(ep, req(), a, b)
				}
				for ci, c := range L {
					full := tier == "thorough"
					// quick: everything reachable (both earlier upstreams skipped), plus a rotating sample of the rest
					nTimeouts := 0
					for _, m := range []c15Mode{a, b, c} {
						if m.Transport == "timeout" {
							nTimeouts++
						}
					}
					// quick: everything reachable (both earlier upstreams skipped; assignments with several
					// timeouts only as a 1-in-3 sample, they cost seconds each), plus a rotating sample of the rest
					reach := isNext(ep, a) && isNext(ep, b) && (nTimeouts <= 1 || (ai+bi+ci+ei)%3 == 0)
					if full || reach || (ai*7+bi*3+ci)%45 == ei*9 {
						add(ep, req(), a, b, c)
					}
				}
			}
		}
	}
	// every all-unavailable assignment with both values of `required`
	n0 := len(cases)
	for i := 0; i < n0; i++ {
		c := cases[i]
		all := true
		for _, m := range c.Modes {
			if m.Class != "unavailable" {
				all = false
			}
		}
		if all {
			add(c.Endpoint, !c.Required, c.Modes...)
		}
	}
	// extra modes: each one alone, behind an unavailable upstream, and in front of a healthy one; plus random mixes
	for _, ep := range c15Endpoints {
		for _, x := range c15Extra {
			add(ep, req(), x)
			add(ep, req(), x, L[0])
			add(ep, req(), L[1+r.Intn(4)], x, L[0])
		}
	}
	// multi-slice range queries (no timeout modes: each slice would wait separately)
	for ai, a := range L {
		for bi, b := range L {
			if a.Transport == "timeout" || b.Transport == "timeout" {
				continue
			}
			if bi == 0 {
				add("range", req(), a)
				cases[len(cases)-1].MultiSlice = true
			}
			if isNext("range", a) || tier == "thorough" || (ai+bi)%4 == 0 {
				add("range", req(), a, b)
				cases[len(cases)-1].MultiSlice = true
				add("range", req(), L[1], a, b)
				cases[len(cases)-1].MultiSlice = true
			}
		}
	}
	// multi-slice range queries in which the fault hits ONE slice of an upstream (first, middle, last): the whole
	// request must fail over (or stop) exactly as if the upstream had failed entirely, and the answer must be entirely
	// the answering upstream's (no slices of the half-working upstream mixed in)
	for ai, a := range L {
		if a.Transport != "" || a.Name == "healthy" {
			continue
		}
		for sf := 0; sf < c15Slices; sf++ {
			mk := func(sfs []int, ms ...c15Mode) {
				add("range", req(), ms...)
				cases[len(cases)-1].MultiSlice = true
				cases[len(cases)-1].SliceFault = sfs
			}
			mk([]int{sf}, a)
			mk([]int{sf, -1}, a, L[0])
			mk([]int{-1, sf, -1}, L[1], a, L[0])
			if tier == "thorough" || (ai+sf)%2 == 0 {
				mk([]int{-1, sf}, L[0], a)
				mk([]int{sf, (sf + 1) % c15Slices, -1}, a, L[3], L[0])
				mk([]int{sf, -1}, a, L[5])
			}
		}
	}
	// fault SEQUENCES: two identical calls on the same group, an upstream changing its (HTTP-level) behaviour in between
	var H []c15Mode
	for _, m := range L {
		if m.Transport == "" {
			H = append(H, m)
		}
	}
	for ei, ep := range c15Endpoints {
		for ai, a := range H {
			for bi, b := range H {
				if ai == bi {
					continue
				}
				seq := func(m1, m2 []c15Mode) {
					add(ep, req(), m1...)
					cases[len(cases)-1].Modes2 = append([]c15Mode{}, m2...)
				}
				seq([]c15Mode{a, L[0]}, []c15Mode{b, L[0]})
				if tier == "thorough" || (ai+bi+ei)%3 == 0 {
					seq([]c15Mode{L[3], a}, []c15Mode{L[3], b})
					seq([]c15Mode{L[1], a, L[0]}, []c15Mode{L[1], b, L[0]})
				}
				if tier == "thorough" || (ai*3+bi+ei)%7 == 0 {
					seq([]c15Mode{a, b}, []c15Mode{b, a})
					seq([]c15Mode{a, L[0], L[0]}, []c15Mode{b, L[4], L[0]})
					seq([]c15Mode{a}, []c15Mode{b})
				}
			}
		}
	}
	// recovery after a TIMEOUT (a handler that never answers, then answers): the remembered outcome of a timed-out request
	// must not keep the recovered upstream from being asked again — every endpoint, every position
	tmo := L[2]
	for _, ep := range c15Endpoints {
		seq := func(m1, m2 []c15Mode) {
			add(ep, req(), m1...)
			cases[len(cases)-1].Modes2 = append([]c15Mode{}, m2...)
		}
		seq([]c15Mode{tmo}, []c15Mode{L[0]})
		seq([]c15Mode{tmo, L[0]}, []c15Mode{L[0], L[0]})
		seq([]c15Mode{tmo, tmo}, []c15Mode{L[0], L[0]})
		seq([]c15Mode{L[3], tmo, L[0]}, []c15Mode{L[3], L[0], L[0]})
		seq([]c15Mode{tmo, L[0]}, []c15Mode{L[5], L[0]})
		seq([]c15Mode{L[0], L[0]}, []c15Mode{tmo, L[0]})
		// … and after CONNECTION REFUSED (the port starts listening for the second call)
		seq([]c15Mode{L[1]}, []c15Mode{L[0]})
		seq([]c15Mode{L[1], L[0]}, []c15Mode{L[0], L[0]})
		seq([]c15Mode{L[1], L[1]}, []c15Mode{L[0], L[0]})
		seq([]c15Mode{L[3], L[1], L[0]}, []c15Mode{L[3], L[0], L[0]})
		seq([]c15Mode{L[1], L[0]}, []c15Mode{L[6], L[0]})
		if tier == "thorough" {
			seq([]c15Mode{tmo, L[3]}, []c15Mode{L[3], L[0]})
			seq([]c15Mode{tmo}, []c15Mode{tmo})
			seq([]c15Mode{L[1], tmo, L[0]}, []c15Mode{L[1], L[0], L[0]})
		}
	}
	// cross-API sequences: the first call asks one API, the second call another API of the same group.  Whatever the first
	// API answered (404 = "this API is not supported here", errors, a cached answer) must not change how the second API
	// is served: every ordered pair of the three status/metadata APIs, plus pairs with the query APIs
	pairs := [][2]string{{"config", "flags"}, {"config", "metadata"}, {"flags", "config"}, {"flags", "metadata"}, {"metadata", "config"}, {"metadata", "flags"},
		{"query", "config"}, {"flags", "query"}, {"query", "range"}, {"metadata", "range"}}
	if tier == "thorough" {
		pairs = nil
		for _, a := range c15Endpoints {
			for _, b := range c15Endpoints {
				if a != b {
					pairs = append(pairs, [2]string{a, b})
				}
			}
		}
	}
	for _, pr := range pairs {
		for _, a := range H {
			x := func(m1, m2 []c15Mode) {
				add(pr[0], req(), m1...)
				cases[len(cases)-1].Modes2 = append([]c15Mode{}, m2...)
				cases[len(cases)-1].Endpoint2 = pr[1]
			}
			x([]c15Mode{a}, []c15Mode{L[0]})
			x([]c15Mode{a, L[0]}, []c15Mode{L[0], L[0]})
			if a.Name != "healthy" {
				x([]c15Mode{a, L[0]}, []c15Mode{a, L[0]})
			}
		}
	}
	all := append(append([]c15Mode{}, L...), c15Extra...)
	for i := 0; i < nExtra; i++ {
		k := 1 + r.Intn(3)
		ms := make([]c15Mode, k)
		for j := range ms {
			ms[j] = all[r.Intn(len(all))]
		}
		add(c15Endpoints[r.Intn(5)], r.Intn(2) == 0, ms...)
		if r.Intn(3) == 0 {
			m2 := make([]c15Mode, k)
			for j := range m2 {
				m2[j] = ms[j]
				if ms[j].Transport == "" && r.Intn(2) == 0 {
					for {
						m2[j] = all[r.Intn(len(all))]
						if m2[j].Transport == "" {
							break
						}
					}
				}
			}
			cases[len(cases)-1].Modes2 = m2
		}
	}
	for i := range cases {
		cases[i].ID = i
		// every third case whose modes (both calls) are all listed ones runs with `publicURI` set on the block
		listed := cases[i].Judged
		for _, m := range cases[i].Modes2 {
			listed = listed && m.Listed
		}
		if listed && i%3 == 0 {
			cases[i].PublicURI = true
		}
	}
	return cases
}

// c15SearchCases (search mode: an obligation is already broken and a failing INPUT is wanted): random assignments of the
// LISTED modes only (every case is judged by the property oracle), no timeouts beyond one per case, a third of them as
// fault sequences; nothing is written for the model.
func c15SearchCases(r *rand.Rand, n int) []c15Case {
	var cases []c15Case
	L := c15Listed
	for i := 0; i < n; i++ {
		k := 1 + r.Intn(3)
		ms := make([]c15Mode, k)
		timeouts := 0
		for j := range ms {
			for {
				ms[j] = L[r.Intn(len(L))]
				if ms[j].Transport != "timeout" || timeouts == 0 {
					break
				}
			}
			if ms[j].Transport == "timeout" {
				timeouts++
			}
		}
		c := c15Case{ID: i, Endpoint: c15Endpoints[r.Intn(5)], Required: r.Intn(2) == 0, Modes: ms, Judged: true, PublicURI: r.Intn(2) == 0}
		if r.Intn(3) == 0 {
			m2 := append([]c15Mode{}, ms...)
			for j := range m2 {
				if (m2[j].Transport == "" || (m2[j].Transport == "timeout" && timeouts <= 1)) && r.Intn(2) == 0 {
					for {
						m2[j] = L[r.Intn(len(L))]
						if m2[j].Transport == "" {
							break
						}
					}
				}
			}
			c.Modes2 = m2
			if r.Intn(3) == 0 {
				if e2 := c15Endpoints[r.Intn(5)]; e2 != c.Endpoint {
					c.Endpoint2 = e2
				}
			}
		} else if c.Endpoint == "range" && timeouts == 0 && r.Intn(2) == 0 {
			c.MultiSlice = true
			if r.Intn(2) == 0 {
				c.SliceFault = make([]int, k)
				for j := range c.SliceFault {
					c.SliceFault[j] = r.Intn(c15Slices+1) - 1
				}
			}
		}
		cases = append(cases, c)
	}
	return cases
}

// c15ProbeBadURL: an upstream whose URI does not parse.  Since fix 6f3f221 config.Load rejects such a configuration
// (uri, every failover entry and discovery prometheusQuery.uri are url.Parse'd), so this state is unreachable from an
// ACCEPTED configuration; promapi.doRequest now returns the *url.Error instead of dereferencing nil.  That error is no
// APIError, so IsUnavailableError is true and the loop goes on — in the model it is the class of a transport error
// (ENonApi) with no request sent.  Observed here on a group built without validation and recorded in the notes
// (outside the nine listed modes: not judged, not compared).
func c15ProbeBadURL(rep *runReport) {
	defer func() {
		if r := recover(); r != nil {
			rep.Notes = append(rep.Notes, fmt.Sprintf("probe unparsable upstream URI: PANIC %v", r))
		}
	}()
	good := newHTTPUpstream(c15Handler("query", 1, c15Listed[0]))
	defer good.Close()
	pc := config.PrometheusConfig{Name: "prom", URI: "http://exa mple.com/%zz", Failover: []string{good.URL}, Timeout: c15ClientTimeout, Concurrency: 2, RateLimit: 1000}
	fg := config.C15NewFailoverGroup(pc)
	reg := prometheus.NewRegistry()
	fg.StartWorkers(reg)
	defer fg.Close(reg)
	qr, err := fg.Query(context.Background(), "up")
	res := "error " + fmt.Sprint(err)
	if err == nil && qr != nil {
		res = "answered by " + qr.URI
	}
	pc2 := pc
	pc2.Failover = nil
	fg2 := config.C15NewFailoverGroup(pc2)
	reg2 := prometheus.NewRegistry()
	fg2.StartWorkers(reg2)
	defer fg2.Close(reg2)
	_, err2 := fg2.Query(context.Background(), "up")
	rep.Notes = append(rep.Notes, fmt.Sprintf("probe unparsable upstream URI (unreachable from accepted configs since 6f3f221): [badurl, healthy] -> %s (healthy upstream got %d request); [badurl] alone -> IsUnavailableError=%v kind=%s",
		res, good.hits.Load(), promapi.IsUnavailableError(err2), c15ErrKind(err2)))
}

func runC15(args []string) int {
	slog.SetDefault(slog.New(slog.NewTextHandler(io.Discard, nil)))
	tier := argStr(args, "--tier", "quick")
	nExtra := argInt(args, "--n", 150)
	workers := argInt(args, "--workers", 48)
	seed := seedFromEnv()
	r := rand.New(rand.NewSource(seed))
	rep := newReport("C15", seed)
	rep.Rule = "case = (endpoint of 5, required, fault mode per upstream, 1..3 upstreams) run against the real client (config.newFailoverGroup + promapi) with in-process fake upstreams: " +
		"one direct FailoverGroup call and one real online check; the nine listed modes are enumerated (thorough: all 9+81+729 assignments x 5 endpoints; quick: all assignments in which every upstream is reached plus a rotating sample), " +
		"extra modes (not judged by the oracle) exercise the classification table; a second call on the same group follows (same behaviour, or — fault sequences — after the upstreams changed their HTTP-level behaviour); " +
		"range queries use a fixed 2h-aligned window over one slice or three slices, the fault on every slice or on one slice only; non-trivial = at least one faulty upstream is contacted; distinct = (endpoint, required, mode names, second-call mode names, slice faults)"
	cwd, _ := os.Getwd()
	cases := c15Enumerate(tier, r, nExtra)

	if rp := argStr(args, "--replay", ""); rp != "" {
		return c15Replay(rp, cwd)
	}

	if argStr(args, "--probe", "") != "" {
		for i := range cases {
			if !cases[i].Judged && len(cases[i].Modes) == 1 {
				c15Run(&cases[i])
				fmt.Printf("%-9s %-24s ok=%v kind=%-22s unavail=%v client=%v problems=%v text=%q\n", cases[i].Endpoint, cases[i].Modes[0].Name, cases[i].Obs.OK, cases[i].Obs.ErrKind, cases[i].Obs.Unavailable, cases[i].Obs.Client, cases[i].Obs.Problems, cases[i].Obs.ErrText)
			}
		}
		return 0
	}

	t0 := time.Now()
	if tier != "search" {
		c15ProbeBadURL(rep)
	}
	// run C: a sample of the judged cases through the real pint binary, concurrently with runs A/B
	nBin := argInt(args, "--binary", 60)
	binDone := make(chan struct{})
	binNote := ""
	binObs := map[int]*c15BinObs{}
	if os.Getenv("PINT_BIN") != "" && nBin > 0 {
		var cand []int
		for i := range cases {
			if cases[i].Judged && !cases[i].MultiSlice && cases[i].Modes2 == nil {
				cand = append(cand, i)
			}
		}
		r.Shuffle(len(cand), func(a, b int) { cand[a], cand[b] = cand[b], cand[a] })
		allDown := func(c *c15Case) bool {
			for _, m := range c.Modes {
				if m.Class != "unavailable" {
					return false
				}
			}
			return true
		}
		// half of the sample: all-unavailable assignments (that is where the severity clause lives)
		var down, rest []int
		for _, i := range cand {
			if allDown(&cases[i]) {
				down = append(down, i)
			} else {
				rest = append(rest, i)
			}
		}
		if len(down) > nBin/2 {
			down = down[:nBin/2]
		}
		binIdx := append(down, rest...)
		if len(binIdx) > nBin {
			binIdx = binIdx[:nBin]
		}
		var binRetries atomic.Int64
		go func() {
			defer close(binDone)
			tb := time.Now()
			obs := make([]*c15BinObs, len(binIdx))
			parallel(len(binIdx), 12, func(j int) {
				src := &cases[binIdx[j]] // runs A/B write src.Obs concurrently: copy the immutable inputs only
				c := c15Case{ID: src.ID, Endpoint: src.Endpoint, Required: src.Required, Modes: src.Modes, Judged: true}
				dir := fmt.Sprintf("%s/bin/%04d", cwd, c.ID)
				o := c15RunBinary(dir, &c)
				// again before reporting (timing head room); bounded: once c15RetryBatch/2 cases needed it, failures are reported as observed
				for k := 0; k < 2 && len(c15BinOracle(&c, o)) > 0 && binRetries.Add(1) <= c15RetryBatch; k++ {
					time.Sleep(300 * time.Millisecond)
					o = c15RunBinary(dir, &c)
				}
				obs[j] = o
			})
			for j, i := range binIdx {
				binObs[i] = obs[j]
			}
			binNote = fmt.Sprintf("pint binary runs: %d in %.1fs (concurrent with the in-process runs)", len(binIdx), time.Since(tb).Seconds())
		}()
	} else {
		close(binDone)
	}

	// slowest first (every contacted timeout costs 1.5 s twice), so the tail of the parallel run is short
	order := make([]int, len(cases))
	for i := range order {
		order[i] = i
	}
	nTimeouts := func(c *c15Case) int {
		n := 0
		for _, m := range c.Modes {
			if m.Transport == "timeout" {
				n++
			}
		}
		return n
	}
	sort.SliceStable(order, func(a, b int) bool { return nTimeouts(&cases[order[a]]) > nTimeouts(&cases[order[b]]) })
	parallel(len(cases), workers, func(i int) { c15Run(&cases[order[i]]) })
	// A judged case that fails the oracle is run again (up to two more times, with far fewer cases in parallel)
	// before it is reported: the only timing dependence is a healthy upstream needing longer than the client
	// timeout on an overloaded machine.
	// Bounded: at most c15RetryBatch failing cases (cheapest first: fewest timeout upstreams) are re-run per round; as
	// soon as one of them fails again the failure is CONFIRMED and the remaining ones are reported as observed — a
	// change that breaks hundreds of cases must not cost hundreds of timeouts before it is reported.
	retried := 0
	confirmed := false
	tried := map[int]bool{}
	for round := 0; round < 40 && !confirmed; round++ {
		var again []int
		for i := range cases {
			if cases[i].Judged && !tried[i] && len(c15Oracle(&cases[i])) > 0 {
				again = append(again, i)
			}
		}
		if len(again) == 0 {
			break
		}
		sort.SliceStable(again, func(a, b int) bool { return nTimeouts(&cases[again[a]]) < nTimeouts(&cases[again[b]]) })
		if len(again) > c15RetryBatch {
			again = again[:c15RetryBatch]
		}
		for k := 0; k < 2; k++ {
			var still []int
			for _, i := range again {
				if len(c15Oracle(&cases[i])) > 0 {
					still = append(still, i)
				}
			}
			if len(still) == 0 {
				break
			}
			retried += len(still)
			parallel(len(still), 24, func(j int) { c15Run(&cases[still[j]]) })
		}
		for _, i := range again {
			tried[i] = true
			if len(c15Oracle(&cases[i])) > 0 {
				confirmed = true
			}
		}
	}
	notRerun := 0
	if confirmed {
		for i := range cases {
			if cases[i].Judged && !tried[i] && len(c15Oracle(&cases[i])) > 0 {
				notRerun++
			}
		}
	}
	<-binDone
	if binNote != "" {
		rep.Notes = append(rep.Notes, binNote)
	}
	for i, o := range binObs {
		cases[i].Binary = o
	}
	rep.Notes = append(rep.Notes, fmt.Sprintf("ran %d cases in %.1fs with %d workers; %d re-runs of oracle-failing cases (confirmed=%v, oracle-failing but not re-run and not reported: %d); %d observations discarded because a non-timeout upstream hit the client deadline", len(cases), time.Since(t0).Seconds(), workers, retried, confirmed, notRerun, c15SpuriousRuns.Load()))

	cw := newCaseWriter(cwd, "Run.C15", 400)
	if tier == "search" {
		cw = nil
	}
	keep := len(cases) <= 1500
	for i := range cases {
		c := &cases[i]
		names := make([]string, len(c.Modes))
		contactedFaulty := false
		for j, m := range c.Modes {
			names[j] = m.Name
			if m.Name != "healthy" && j < len(c.Obs.Client) && c.Obs.Client[j] > 0 {
				contactedFaulty = true
			}
			rep.hist(fmt.Sprintf("mode@%d:%s", j, m.Name))
		}
		key := fmt.Sprintf("%s/%v/%v/%s", c.Endpoint, c.Required, c.MultiSlice, strings.Join(names, ","))
		if c.Modes2 != nil {
			key += "=>" + c.Endpoint2 + ":"
			if c.Endpoint2 != "" {
				rep.hist("second call on another API of the same group")
			}
			for _, m := range c.Modes2 {
				key += m.Name + ","
			}
			rep.hist("fault_sequence(second call with changed modes)")
		}
		if c.PublicURI {
			key += "+publicURI"
			rep.hist("publicURI set (answering upstream read off the marker)")
		}
		if c.SliceFault != nil {
			key += fmt.Sprint("@", c.SliceFault)
			rep.hist("range_fault_on_one_slice")
		}
		if c.Obs.Second != nil {
			rep.hist("second_call_observed")
		}
		rep.count(key, contactedFaulty)
		rep.hist("endpoint:" + c.Endpoint)
		rep.hist(fmt.Sprintf("upstreams:%d", len(c.Modes)))
		if c.MultiSlice {
			rep.hist("range_multi_slice")
		}
		if c.Judged {
			rep.hist("judged_by_oracle")
		} else {
			rep.hist("extra_modes_model_only")
		}
		switch {
		case c.Obs.OK:
			rep.hist(fmt.Sprintf("outcome:answered_by_%d", c.Obs.AnswerIdx))
		case c.Obs.Unavailable:
			rep.hist("outcome:all_unavailable")
		default:
			rep.hist("outcome:error_" + c.Obs.ErrKind)
		}
		if cw != nil {
			cw.add(c15CoqCase(c))
		}
		if keep || !c.Judged || c.Binary != nil {
			rep.Cases[fmt.Sprint(c.ID)] = c
		}
		if i%97 == 0 {
			rep.sample(c)
		}
		if c.Binary != nil {
			rep.hist("binary_runs")
			if bad := c15BinOracle(c, c.Binary); len(bad) > 0 {
				rep.fail(fmt.Sprint(c.ID)+"/binary", fmt.Sprintf("%s %v required=%v: %s", c.Endpoint, names, c.Required, strings.Join(bad, "; ")), c)
				rep.Cases[fmt.Sprint(c.ID)] = c
			}
		}
		if c.Judged {
			// once a failure is confirmed by re-runs only re-run cases are reported (the others are counted in the notes)
			if bad := c15Oracle(c); len(bad) > 0 && (!confirmed || tried[i]) {
				rep.fail(fmt.Sprint(c.ID), fmt.Sprintf("%s %v required=%v: %s", c.Endpoint, names, c.Required, strings.Join(bad, "; ")), c)
				rep.Cases[fmt.Sprint(c.ID)] = c
			}
		}
	}
	if cw != nil {
		cw.flush()
		rep.CaseFiles = cw.files
	}
	rep.write("report.json")
	fmt.Printf("C15: %d cases, %d oracle failures, %.1fs\n", len(cases), len(rep.OracleFails), time.Since(t0).Seconds())
	return 0
}

// c15Replay re-runs one stored case (a replay file written by bin/check, or a bare case object) through the
// implementation and the property oracle, and writes a one-case file for the model comparison.
func c15Replay(path, cwd string) int {
	b, err := os.ReadFile(path)
	must(err)
	var wrap struct {
		Case json.RawMessage `json:"case"`
	}
	raw := b
	if json.Unmarshal(b, &wrap) == nil && len(wrap.Case) > 0 {
		raw = wrap.Case
	}
	var c c15Case
	if err := json.Unmarshal(raw, &c); err != nil || c.Endpoint == "" || len(c.Modes) == 0 {
		fmt.Printf("replay: %s does not contain a C15 case (endpoint + modes); content:\n%s\n", path, string(b))
		return 0
	}
	stored := c.Obs
	c.Judged = true
	for _, m := range c.Modes {
		if !m.Listed {
			c.Judged = false
		}
	}
	c15Run(&c)
	show := func(v any) string { x, _ := json.MarshalIndent(v, "  ", " "); return string(x) }
	fmt.Printf("case: endpoint=%s required=%v modes=", c.Endpoint, c.Required)
	for _, m := range c.Modes {
		fmt.Printf("%s ", m.Name)
	}
	fmt.Printf("\nstored observation:\n  %s\nimplementation now:\n  %s\n", show(stored), show(c.Obs))
	if c.Judged {
		if bad := c15Oracle(&c); len(bad) > 0 {
			fmt.Printf("oracle: PROPERTY FAILS on the current tree:\n  - %s\n", strings.Join(bad, "\n  - "))
		} else {
			fmt.Println("oracle: property holds on the current tree for this case")
		}
	} else {
		fmt.Println("oracle: case uses modes outside the nine listed ones (not judged)")
	}
	cw := newCaseWriter(cwd, "Run.C15", 10)
	cw.add(c15CoqCase(&c))
	cw.flush()
	fmt.Printf("model case file: %s\n", cw.files[0])
	return 0
}
