//go:build verif

package promapi

import "net/http"

// Verification-only accessors (compiled in through go build -overlay; /repo is not modified).

func C15DecodeErrorType(s string) string { return string(decodeErrorType(s)) }

func C15IsUnsupportedError(err error) bool { return isUnsupportedError(err) }

func C15TryDecodingAPIError(resp *http.Response) error { return tryDecodingAPIError(resp) }

// C15Servers returns the upstreams of a failover group in their configured order.
func (fg *FailoverGroup) C15Servers() []*Prometheus { return fg.servers }

// C15WrapTransport lets the harness count client-side contact attempts per upstream.
func (prom *Prometheus) C15WrapTransport(f func(http.RoundTripper) http.RoundTripper) {
	prom.client.Transport = f(prom.client.Transport)
}

func (prom *Prometheus) C15URI() string { return prom.unsafeURI }
