//go:build verif

package main

func init() { register("C12", func(args []string) int { return runPromql("C12", args) }) }
