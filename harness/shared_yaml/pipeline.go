//go:build verif

package main

// In-process lint pipeline (what `pint lint --offline` does for one file, default config) and runs of the
// real pint binary with all four renderers.  Shared by C02 (crash / renderability / line ranges) and C01.

import (
	"bytes"
	"context"
	"encoding/json"
	"encoding/xml"
	"errors"
	"fmt"
	"io"
	"log/slog"
	"os"
	"path/filepath"
	"regexp"
	"strconv"
	"strings"
	"time"

	"github.com/prometheus/client_golang/prometheus"
	"github.com/prometheus/common/model"

	"github.com/cloudflare/pint/internal/checks"
	"github.com/cloudflare/pint/internal/config"
	"github.com/cloudflare/pint/internal/diags"
	"github.com/cloudflare/pint/internal/discovery"
	pintgit "github.com/cloudflare/pint/internal/git"
	"github.com/cloudflare/pint/internal/output"
	"github.com/cloudflare/pint/internal/parser"
	"github.com/cloudflare/pint/internal/reporter"
)

type probObs struct {
	Reporter string `json:"reporter"`
	Severity string `json:"severity"`
	First    int    `json:"first"`
	Last     int    `json:"last"`
	Summary  string `json:"summary,omitempty"`
	DiagLo   int    `json:"diag_lo,omitempty"` // smallest / largest line of any diagnostic position (0 = none)
	DiagHi   int    `json:"diag_hi,omitempty"`
	// InjectDiagnostics on this problem's diagnostics (only when it has some): the lines of every diagnostic's
	// positions, and the source line numbers the real function printed (InjPanic: it panicked)
	DiagLines [][]int `json:"diag_lines,omitempty"`
	InjLines  []int   `json:"inject_lines,omitempty"`
	InjPanic  bool    `json:"inject_panic,omitempty"`
	InjRun    bool    `json:"inject_run,omitempty"`
}

var reInjLine = regexp.MustCompile(`^ *(\d+) \| `)

// injectObserved runs the real diags.InjectDiagnostics (no colour) and extracts the printed source line numbers.
func injectObserved(content string, ds []diags.Diagnostic) (lines []int, panicked bool) {
	defer func() {
		if recover() != nil {
			panicked = true
		}
	}()
	out := diags.InjectDiagnostics(content, ds, output.None)
	for _, l := range strings.Split(out, "\n") {
		if m := reInjLine.FindStringSubmatch(l); m != nil {
			n, _ := strconv.Atoi(m[1])
			lines = append(lines, n)
		}
	}
	return lines, false
}

type entryObs struct {
	PathErr   int      `json:"path_err"` // 0 none, >0 ParseError line, -1 other kind of path error
	PathErrOK bool     `json:"path_err_present"`
	RuleErr   int      `json:"rule_err"`
	RuleErrOK bool     `json:"rule_err_present"`
	Kind      int      `json:"kind"` // 0 invalid 1 alerting 2 recording
	Checks    []string `json:"checks"`
}

type pipeResult struct {
	Panic      string            `json:"panic,omitempty"`
	Timeout    bool              `json:"timeout,omitempty"`
	FindErr    string            `json:"find_err,omitempty"`
	Entries    []entryObs        `json:"entries"`
	Problems   []probObs         `json:"problems"`
	Render     map[string]string `json:"render_errors,omitempty"`
	Plain      bool              `json:"plain"`       // no file comments, no ignore diagnostics (the Routing model applies)
	TotalLines int               `json:"total_lines"` // File.TotalLines of the entries (-1 = no entry carried a File)
}

func init() { slog.SetDefault(slog.New(slog.NewTextHandler(io.Discard, nil))) }

var defaultCfg = func() config.Config {
	cfg, _, err := config.Load("/nonexistent/.pint.hcl", false)
	if err != nil {
		panic(err)
	}
	cfg.DisableOnlineChecks()
	return cfg
}()

func physLines(content []byte) int {
	if len(content) == 0 {
		return 0
	}
	n := bytes.Count(content, []byte("\n"))
	if content[len(content)-1] != '\n' {
		n++
	}
	return n
}

// runPipeline runs discovery + routing + every enabled offline check + the four renderers in-process.
func runPipeline(path string, strict bool, schema parser.Schema, names model.ValidationScheme, timeout time.Duration) pipeResult {
	done := make(chan pipeResult, 1)
	go func() {
		res := pipeResult{Render: map[string]string{}}
		defer func() {
			if r := recover(); r != nil {
				res.Panic = fmt.Sprint(r)
			}
			done <- res
		}()
		var relaxed []*regexp.Regexp
		if !strict {
			relaxed = []*regexp.Regexp{regexp.MustCompile(".*")}
		}
		finder := discovery.NewGlobFinder([]string{path}, pintgit.NewPathFilter(nil, nil, relaxed), schema, names, nil)
		entries, err := finder.Find()
		if err != nil {
			res.FindErr = err.Error()
			return
		}
		ctx := context.WithValue(context.Background(), config.CommandKey, config.LintCommand)
		cfg := defaultCfg
		gen := config.NewPrometheusGenerator(cfg, prometheus.NewRegistry())
		defer gen.Stop()
		res.Plain = true
		res.TotalLines = -1
		fileContent, _ := os.ReadFile(path)
		var reports []reporter.Report
		for _, entry := range entries {
			if entry.File != nil {
				res.TotalLines = entry.File.TotalLines
			}
			eo := entryObs{}
			if entry.PathError != nil {
				var pe parser.ParseError
				eo.PathErrOK = true
				if errors.As(entry.PathError, &pe) {
					eo.PathErr = pe.Line
				} else {
					eo.PathErr = -1
					res.Plain = false
				}
			}
			if entry.File != nil && (len(entry.File.Comments) > 0 || len(entry.File.Diagnostics) > 0) {
				res.Plain = false
			}
			if entry.Rule.Error.Err != nil {
				eo.RuleErrOK = true
				eo.RuleErr = entry.Rule.Error.Line
			}
			switch {
			case entry.Rule.AlertingRule != nil:
				eo.Kind = 1
			case entry.Rule.RecordingRule != nil:
				eo.Kind = 2
			}
			for _, check := range cfg.GetChecksForEntry(ctx, gen, entry) {
				eo.Checks = append(eo.Checks, check.Reporter())
				for _, p := range check.Check(ctx, entry, entries) {
					reports = append(reports, reporter.Report{Path: entry.Path, ModifiedLines: entry.ModifiedLines, Rule: entry.Rule, Problem: p, Owner: entry.Owner})
					po := probObs{Reporter: p.Reporter, Severity: p.Severity.String(), First: p.Lines.First, Last: p.Lines.Last, Summary: p.Summary}
					for _, d := range p.Diagnostics {
						for _, pr := range d.Pos {
							if po.DiagLo == 0 || pr.Line < po.DiagLo {
								po.DiagLo = pr.Line
							}
							if pr.Line > po.DiagHi {
								po.DiagHi = pr.Line
							}
						}
					}
					if len(p.Diagnostics) > 0 {
						for _, d := range p.Diagnostics {
							var ls []int
							for _, pr := range d.Pos {
								ls = append(ls, pr.Line)
							}
							po.DiagLines = append(po.DiagLines, ls)
						}
						po.InjRun = true
						po.InjLines, po.InjPanic = injectObserved(string(fileContent), p.Diagnostics)
					}
					res.Problems = append(res.Problems, po)
				}
			}
			res.Entries = append(res.Entries, eo)
		}
		summary := reporter.NewSummary(nil)
		summary.Report(reports...)
		summary.SortReports()
		render := func(name string, f func() error) {
			defer func() {
				if r := recover(); r != nil {
					res.Render[name] = "panic: " + fmt.Sprint(r)
				}
			}()
			if err := f(); err != nil {
				res.Render[name] = "error: " + err.Error()
			}
		}
		var b1, b2, b3, b4 bytes.Buffer
		render("console", func() error {
			return reporter.NewConsoleReporter(&b1, checks.Information, true, true).Submit(summary)
		})
		render("json", func() error { return reporter.NewJSONReporter(&b2).Submit(summary) })
		render("checkstyle", func() error { return reporter.NewCheckStyleReporter(&b3).Submit(summary) })
		render("teamcity", func() error { return reporter.NewTeamCityReporter(&b4).Submit(summary) })
		if res.Render["json"] == "" && !json.Valid(b2.Bytes()) {
			res.Render["json"] = "invalid JSON produced"
		}
		if res.Render["checkstyle"] == "" {
			var v any
			if err := xml.Unmarshal(b3.Bytes(), &v); err != nil && !strings.Contains(err.Error(), "unknown type") {
				res.Render["checkstyle"] = "invalid XML produced: " + err.Error()
			}
		}
	}()
	select {
	case r := <-done:
		return r
	case <-time.After(timeout):
		return pipeResult{Timeout: true}
	}
}

// lineProblems lists what is wrong with a result for a file of n physical lines (the C02 oracle).
func (r pipeResult) lineViolations(n int) []string {
	var out []string
	for _, p := range r.Problems {
		if p.First < 1 || p.Last < p.First || p.Last > n {
			out = append(out, fmt.Sprintf("%s %s lines %d-%d outside the file (1..%d)", p.Reporter, p.Severity, p.First, p.Last, n))
		}
		if p.DiagHi != 0 && (p.DiagLo < 1 || p.DiagHi > n) {
			out = append(out, fmt.Sprintf("%s diagnostic position lines %d..%d outside the file (1..%d)", p.Reporter, p.DiagLo, p.DiagHi, n))
		}
	}
	return out
}

// ---- the real binary ----

type binResult struct {
	Exit      int      `json:"exit"`
	Crash     string   `json:"crash,omitempty"`
	Timeout   bool     `json:"timeout,omitempty"`
	JSONLines [][2]int `json:"json_lines,omitempty"`
	XMLLines  []int    `json:"xml_lines,omitempty"`
	TCLines   []int    `json:"tc_lines,omitempty"`
	BadOut    string   `json:"bad_output,omitempty"`
}

var (
	reCrash  = regexp.MustCompile(`(?m)^(panic: .*|fatal error: .*|goroutine \d+ \[running\]:)`)
	reTCName = regexp.MustCompile(`testStarted name='[^']*:(\d+)'`)
	reXMLLn  = regexp.MustCompile(`<error line="(-?\d+)"`)
)

func writeBinConfig(dir string, strict bool, schema parser.Schema, names model.ValidationScheme) string {
	var b strings.Builder
	b.WriteString("parser {\n")
	if strict {
		b.WriteString("  relaxed = []\n")
	} else {
		b.WriteString("  relaxed = [\".*\"]\n")
	}
	if schema == parser.ThanosSchema {
		b.WriteString("  schema = \"thanos\"\n")
	}
	if names == model.LegacyValidation {
		b.WriteString("  names = \"legacy\"\n")
	}
	b.WriteString("}\n")
	p := filepath.Join(dir, fmt.Sprintf("cfg_%v_%d_%d.hcl", strict, schema, names))
	if _, err := os.Stat(p); err != nil {
		must(os.WriteFile(p, []byte(b.String()), 0o644))
	}
	return p
}

// runBinary runs the real pint: once with console+JSON+checkstyle, once with TeamCity.
func runBinary(dir, file string, strict bool, schema parser.Schema, names model.ValidationScheme) binResult {
	cfg := writeBinConfig(dir, strict, schema, names)
	res := binResult{}
	base := strings.TrimSuffix(file, filepath.Ext(file))
	jp, xp := base+".out.json", base+".out.xml"
	os.Remove(jp)
	os.Remove(xp)
	rc, so, se := runPint(dir, "-c", cfg, "--offline", "-l", "error", "lint", "--min-severity", "info", "--json", jp, "--checkstyle", xp, file)
	check := func(rc int, so, se string) {
		if rc == -1 {
			res.Timeout = true
		}
		if m := reCrash.FindString(so + "\n" + se); m != "" {
			res.Crash = m
			if i := strings.Index(se, m); i >= 0 {
				end := i + 1500
				if end > len(se) {
					end = len(se)
				}
				res.Crash = se[i:end]
			}
		}
		if rc != 0 && rc != 1 && rc != -1 && res.Crash == "" {
			res.Crash = fmt.Sprintf("unexpected exit status %d: %s", rc, tail(se, 400))
		}
	}
	res.Exit = rc
	check(rc, so, se)
	if res.Crash == "" && !res.Timeout {
		if b, err := os.ReadFile(jp); err == nil {
			var reps []struct {
				Lines []int `json:"lines"`
			}
			if err := json.Unmarshal(b, &reps); err != nil {
				res.BadOut = "JSON report does not parse: " + err.Error()
			}
			for _, r := range reps {
				for k := 1; k < len(r.Lines); k++ {
					if r.Lines[k] != r.Lines[k-1]+1 {
						res.BadOut = fmt.Sprintf("JSON report `lines` is not a strictly increasing run of consecutive lines: %v", r.Lines)
					}
				}
				if len(r.Lines) > 0 {
					res.JSONLines = append(res.JSONLines, [2]int{r.Lines[0], r.Lines[len(r.Lines)-1]})
				} else {
					res.JSONLines = append(res.JSONLines, [2]int{0, 0})
				}
			}
		} else if !strings.Contains(se, "no matching files") {
			res.BadOut = "JSON report missing: " + tail(se, 300)
		}
		if b, err := os.ReadFile(xp); err == nil {
			var v struct {
				XMLName xml.Name `xml:"checkstyle"`
			}
			if err := xml.Unmarshal(b, &v); err != nil {
				res.BadOut = "checkstyle report does not parse: " + err.Error()
			}
			for _, m := range reXMLLn.FindAllStringSubmatch(string(b), -1) {
				n, _ := strconv.Atoi(m[1])
				res.XMLLines = append(res.XMLLines, n)
			}
		}
	}
	rc2, so2, se2 := runPint(dir, "-c", cfg, "--offline", "-l", "error", "lint", "--min-severity", "info", "--teamcity", file)
	check(rc2, so2, se2)
	for _, m := range reTCName.FindAllStringSubmatch(so2+se2, -1) {
		n, _ := strconv.Atoi(m[1])
		res.TCLines = append(res.TCLines, n)
	}
	os.Remove(jp)
	os.Remove(xp)
	return res
}

func tail(s string, n int) string {
	if len(s) <= n {
		return s
	}
	return s[len(s)-n:]
}

func (b binResult) violations(n int) []string {
	var out []string
	if b.Crash != "" {
		out = append(out, "pint binary crashed: "+b.Crash)
	}
	if b.Timeout {
		out = append(out, "pint binary hung (timeout)")
	}
	if b.BadOut != "" {
		out = append(out, b.BadOut)
	}
	for _, l := range b.JSONLines {
		if l[0] < 1 || l[1] < l[0] || l[1] > n {
			out = append(out, fmt.Sprintf("JSON report lines %d-%d outside the file (1..%d)", l[0], l[1], n))
		}
	}
	for _, l := range b.XMLLines {
		if l < 1 || l > n {
			out = append(out, fmt.Sprintf("checkstyle line %d outside the file (1..%d)", l, n))
		}
	}
	for _, l := range b.TCLines {
		if l < 1 || l > n {
			out = append(out, fmt.Sprintf("TeamCity line %d outside the file (1..%d)", l, n))
		}
	}
	return out
}
