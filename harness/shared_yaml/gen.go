//go:build verif

package main

// Structure-aware generator of Prometheus rule documents (shared by C19, C02, C01).
// Every field of file/group/rule is independently valid / invalid value / wrong YAML type / duplicated /
// missing / empty / unknown key / aliased / merge-key injected; plus byte and line mutations.

import (
	"fmt"
	"math/rand"
	"strings"
)

type docGen struct {
	r      *rand.Rand
	pBad   float64 // probability that a field gets a defect
	hist   map[string]int
	anchor int
	// anchors set on group-level values of the file being generated (kind -> names), for aliases in LATER groups
	grpAnchors map[string][]string
}

func newDocGen(r *rand.Rand, pBad float64) *docGen {
	return &docGen{r: r, pBad: pBad, hist: map[string]int{}}
}

func (g *docGen) note(k string) { g.hist[k]++ }

func (g *docGen) chance(p float64) bool { return g.r.Float64() < p }

var (
	genAlertNames  = []string{"Foo", "HighErrorRate", "InstanceDown", "A_b:c", "Job_Down"}
	genRecordNames = []string{"job:up:sum", "foo", "instance:node_cpu:rate5m", "a:b", "up_total"}
	genExprs       = []string{"up == 0", "sum(rate(http_requests_total[5m])) by (job)", "up", "foo > 1", "count(up{job=\"a\"}) by (instance) > 2",
		"1", "vector(1)", "rate(errors_total[5m]) / rate(requests_total[5m]) > 0.1", "absent(up{job='x'})"}
	genBadExprs    = []string{"sum(", "up ==", "foo bar", "rate(x[5z])", "sum by (", "{", "up{job=}", "1 +"}
	genDurs        = []string{"5m", "0s", "1h", "1h30m", "30s", "1d", "0"}
	genBadDurs     = []string{"abc", "5", "1.5m", "-5m", "5 m", "m5", "1h1h"}
	genLabelNames  = []string{"severity", "team", "job", "a_b", "x1", "instance"}
	genBadLNames   = []string{"1abc", "__name__", "a-b", "a b", "a.b", "", "é"}
	genLabelValues = []string{"page", "warning", "a b", "x", "{{ $labels.job }}", "1m", "ok value", "{{ $value }}"}
	genCycleTmpl   = []string{"{{ $a := .Value }}{{ $b := $a }}{{ $a := $b }}{{ $a }}", "{{ $x := $labels }}{{ $y := $x }}{{ $x = $y }}{{ $x.job }}"}
	genAnnNames    = []string{"summary", "description", "runbook_url", "dashboard"}
	genAnnValues   = []string{"Instance {{ $labels.instance }} down", "plain text", "{{ $value }} too high", "http://example.com/x"}
	genBadTmpl     = []string{"{{ $labels.job", "{{ end }}", "{{ .Foo | nope }}", "{{ if }}x{{ end }}"}
	genWrongTypes  = []string{"5", "true", "~", "[a, b]", "{a: b}", "1.5", "", "2024-01-01", "!!binary aGVsbG8=", "0x10",
		"!!null x", "!!null 5m", "!!str [a]", "!!map foo", "!!seq foo", "!!null [a]", "!!null {a: b}"}
	genUnknownKeys = []string{"bogus", "Expr", "severity", "alerts", "name", "rules", "groups", "interval"}
)

// scalarStyle renders a value as a YAML scalar in one of several styles. Returns the lines for `key: value`
// given the key text; multi-line styles produce several lines (already indented relative to the key).
func (g *docGen) keyValue(key, val string, allowBlock bool) []string {
	needsQuote := val == "" || strings.ContainsAny(val, ":#{}[]&*!|>'\"%@`,") || strings.HasPrefix(val, " ") || strings.HasSuffix(val, " ") ||
		val == "~" || val == "true" || val == "false" || val == "null" || isNumeric(val) || strings.HasPrefix(val, "-") || strings.HasPrefix(val, "?")
	style := g.r.Intn(10)
	switch {
	case allowBlock && style == 0 && val != "" && !strings.HasPrefix(val, " "):
		g.note("style:literal")
		return []string{key + ": |", "  " + val}
	case allowBlock && style == 1 && val != "" && !strings.HasPrefix(val, " "):
		g.note("style:literal-strip")
		return []string{key + ": |-", "  " + val}
	case allowBlock && style == 2 && val != "" && !strings.HasPrefix(val, " "):
		g.note("style:folded")
		return []string{key + ": >-", "  " + val}
	case allowBlock && style == 3 && strings.Contains(val, " ") && !needsQuote:
		// multi-line plain scalar (continuation line)
		i := strings.Index(val, " ")
		g.note("style:plain-multiline")
		return []string{key + ": " + val[:i], "  " + val[i+1:]}
	case style == 4 && !strings.ContainsAny(val, "'"):
		g.note("style:single")
		return []string{key + ": '" + val + "'"}
	case style == 5 && !strings.ContainsAny(val, "\"\\"):
		g.note("style:double")
		return []string{key + ": \"" + val + "\""}
	}
	if needsQuote {
		if !strings.ContainsAny(val, "\"\\") {
			return []string{key + ": \"" + val + "\""}
		}
		return []string{key + ": '" + strings.ReplaceAll(val, "'", "''") + "'"}
	}
	return []string{key + ": " + val}
}

func isNumeric(s string) bool {
	if s == "" {
		return false
	}
	for _, c := range s {
		if (c < '0' || c > '9') && c != '.' && c != '_' {
			return false
		}
	}
	return true
}

// field produces the lines of one scalar field with an independently chosen defect.
// Returns nil when the field is omitted.
func (g *docGen) scalarField(key string, good, bad []string, required bool, allowBlock bool) (lines []string) {
	if !g.chance(g.pBad) {
		if !required && g.chance(0.5) {
			return nil
		}
		return g.keyValue(key, pick(g.r, good), allowBlock)
	}
	switch g.r.Intn(8) {
	case 0:
		g.note("defect:" + key + ":missing")
		return nil
	case 1:
		g.note("defect:" + key + ":bad-value")
		if len(bad) == 0 {
			return g.keyValue(key, pick(g.r, good), allowBlock)
		}
		return g.keyValue(key, pick(g.r, bad), allowBlock)
	case 2, 3:
		t := pick(g.r, genWrongTypes)
		g.note("defect:" + key + ":type")
		if t == "" {
			return []string{key + ":"}
		}
		return []string{key + ": " + t}
	case 4:
		g.note("defect:" + key + ":duplicated")
		a := g.keyValue(key, pick(g.r, good), allowBlock)
		b := g.keyValue(key, pick(g.r, good), false)
		return append(a, b...)
	case 5:
		g.note("defect:" + key + ":empty")
		return []string{key + ": \"\""}
	case 6:
		g.note("defect:" + key + ":unknown-key-added")
		a := g.keyValue(key, pick(g.r, good), allowBlock)
		return append(a, pick(g.r, genUnknownKeys)+": x")
	default:
		g.note("defect:" + key + ":null")
		return []string{key + ": " + pick(g.r, []string{"~", "null", ""})}
	}
}

func (g *docGen) mapField(key string, names, badNames, values, badValues []string, required bool) (lines []string) {
	n := 1 + g.r.Intn(3)
	if !g.chance(g.pBad) {
		if !required && g.chance(0.4) {
			return nil
		}
		if g.chance(0.15) {
			// flow style
			var kv []string
			used := map[string]bool{}
			for i := 0; i < n; i++ {
				k := pick(g.r, names)
				if used[k] {
					continue
				}
				used[k] = true
				kv = append(kv, k+": \""+strings.ReplaceAll(pick(g.r, values), "\"", "'")+"\"")
			}
			g.note("style:flow-map")
			return []string{key + ": {" + strings.Join(kv, ", ") + "}"}
		}
		lines = []string{key + ":"}
		used := map[string]bool{}
		for i := 0; i < n; i++ {
			k := pick(g.r, names)
			if used[k] {
				continue
			}
			used[k] = true
			val := pick(g.r, values)
			if key == "annotations" && g.chance(0.03) {
				val = pick(g.r, genCycleTmpl)
				g.note("special:template-variable-alias-cycle")
			}
			for _, l := range g.keyValue(k, val, true) {
				lines = append(lines, "  "+l)
			}
		}
		return lines
	}
	switch g.r.Intn(9) {
	case 0:
		g.note("defect:" + key + ":type")
		t := pick(g.r, []string{"5", "true", "abc", "[a, b]", "~", "", "[]", "{}"})
		if t == "" {
			return []string{key + ":"}
		}
		return []string{key + ": " + t}
	case 1:
		g.note("defect:" + key + ":bad-name")
		bn := pick(g.r, badNames)
		if bn == "" {
			bn = "\"\""
		}
		return []string{key + ":", "  " + pick(g.r, names) + ": a", "  " + bn + ": b"}
	case 2:
		g.note("defect:" + key + ":value-type")
		return []string{key + ":", "  " + pick(g.r, names) + ": " + pick(g.r, []string{"5", "true", "~", "[a]", "{a: b}", "1.5", ""})}
	case 3:
		g.note("defect:" + key + ":dup-name")
		k := pick(g.r, names)
		return []string{key + ":", "  " + k + ": a", "  " + pick(g.r, names) + "2: c", "  " + k + ": b"}
	case 4:
		g.note("defect:" + key + ":duplicated")
		return []string{key + ":", "  " + pick(g.r, names) + ": a", key + ":", "  " + pick(g.r, names) + ": b"}
	case 5:
		g.note("defect:" + key + ":bad-value")
		if len(badValues) == 0 {
			return []string{key + ":", "  " + pick(g.r, names) + ": a"}
		}
		return []string{key + ":", "  " + pick(g.r, names) + ": '" + pick(g.r, badValues) + "'"}
	case 6:
		g.note("defect:" + key + ":nested-map")
		return []string{key + ":", "  " + pick(g.r, names) + ":", "    x: y"}
	case 7:
		g.note("defect:" + key + ":non-scalar-key")
		return []string{key + ":", "  ? [a, b]", "  : c"}
	default:
		g.note("defect:" + key + ":missing")
		return nil
	}
}

// ruleLines returns the block-style lines of one rule mapping (no leading "- ").
func (g *docGen) ruleLines() []string {
	alert := g.chance(0.5)
	var fields [][]string
	if alert {
		fields = append(fields, g.scalarField("alert", genAlertNames, []string{"", "foo bar"}, true, false))
		fields = append(fields, g.scalarField("expr", genExprs, genBadExprs, true, true))
		fields = append(fields, g.scalarField("for", genDurs, genBadDurs, false, false))
		if g.chance(0.3) {
			fields = append(fields, g.scalarField("keep_firing_for", genDurs, genBadDurs, false, false))
		}
		fields = append(fields, g.mapField("labels", genLabelNames, genBadLNames, genLabelValues, genBadTmpl, false))
		fields = append(fields, g.mapField("annotations", genAnnNames, genBadLNames, genAnnValues, genBadTmpl, false))
	} else {
		fields = append(fields, g.scalarField("record", genRecordNames, []string{"foo bar", "foo{bar}", "1up", "a-b", "é:x", "foo{job=\"a\"}"}, true, false))
		fields = append(fields, g.scalarField("expr", genExprs, genBadExprs, true, true))
		fields = append(fields, g.mapField("labels", genLabelNames, genBadLNames, genLabelValues, nil, false))
	}
	if g.chance(g.pBad) {
		switch g.r.Intn(6) {
		case 0:
			g.note("defect:rule:both-alert-record")
			if alert {
				fields = append(fields, []string{"record: foo:bar"})
			} else {
				fields = append(fields, []string{"alert: Foo"})
			}
		case 1:
			if !alert {
				g.note("defect:rule:for-on-recording")
				fields = append(fields, []string{pick(g.r, []string{"for: 5m", "for: 0s", "for: 0", "keep_firing_for: 1m", "keep_firing_for: 0s"})})
			}
		case 2:
			if !alert {
				g.note("defect:rule:annotations-on-recording")
				fields = append(fields, []string{pick(g.r, []string{"annotations:\n  a: b", "annotations: {}", "annotations: ~"})})
			}
		case 3:
			g.note("defect:rule:unknown-key")
			fields = append(fields, []string{pick(g.r, genUnknownKeys) + ": " + pick(g.r, []string{"x", "5", "[a]", "{a: b}"})})
		case 4:
			g.note("defect:rule:non-string-key")
			fields = append(fields, []string{pick(g.r, []string{"5: x", "true: x", "~: x", "? [a]\n: x", "1.5: y"})})
		case 5:
			g.note("defect:rule:empty")
			return []string{"{}"}
		}
	}
	// shuffle field order sometimes
	if g.chance(0.3) {
		g.r.Shuffle(len(fields), func(i, j int) { fields[i], fields[j] = fields[j], fields[i] })
		g.note("style:shuffled-keys")
	}
	var out []string
	for _, f := range fields {
		for _, l := range f {
			out = append(out, strings.Split(l, "\n")...)
		}
	}
	if len(out) == 0 {
		return []string{"{}"}
	}
	if g.chance(0.1) {
		// a plain (non pint) comment and a blank line inside the rule
		i := g.r.Intn(len(out))
		if !insideBlock(out, i) {
			out = append(out[:i:i], append([]string{"# a comment"}, out[i:]...)...)
			g.note("style:comment-in-rule")
		}
	}
	return out
}

// insideBlock reports whether inserting before line i would land inside a block scalar / continuation.
func insideBlock(lines []string, i int) bool {
	if i == 0 {
		return false
	}
	return strings.HasPrefix(lines[i], " ")
}

// seqLines renders items (each a list of lines) as a block sequence at the given indent.
func seqLines(items [][]string, indent int) []string {
	pad := strings.Repeat(" ", indent)
	var out []string
	for _, it := range items {
		for i, l := range it {
			if i == 0 {
				out = append(out, pad+"- "+l)
			} else if l == "" {
				out = append(out, "")
			} else {
				out = append(out, pad+"  "+l)
			}
		}
	}
	return out
}

func indentLines(lines []string, indent int) []string {
	pad := strings.Repeat(" ", indent)
	out := make([]string, len(lines))
	for i, l := range lines {
		if l == "" {
			out[i] = ""
		} else {
			out[i] = pad + l
		}
	}
	return out
}

// ruleItems generates n rule items; some as flow mappings, anchors/aliases, merge keys.
func (g *docGen) ruleItems(n int, fancy bool) [][]string {
	var items [][]string
	var anchors []string
	for i := 0; i < n; i++ {
		switch {
		case fancy && g.chance(0.08):
			g.note("style:flow-rule")
			if g.chance(0.5) {
				items = append(items, []string{fmt.Sprintf("{record: %s, expr: %s}", pick(g.r, []string{"a:b", "foo", "x:y:z"}), pick(g.r, []string{"up", "sum(up)", "1"}))})
			} else {
				items = append(items, []string{fmt.Sprintf("{alert: %s, expr: %s, for: %s}", pick(g.r, genAlertNames), pick(g.r, []string{"up", "sum(up)", "1"}), pick(g.r, genDurs))})
			}
		case fancy && len(anchors) > 0 && g.chance(0.1):
			g.note("style:alias-rule")
			items = append(items, []string{"*" + pick(g.r, anchors)})
		case fancy && len(anchors) > 0 && g.chance(0.1):
			g.note("style:merge-rule")
			it := []string{"<<: *" + pick(g.r, anchors)}
			if g.chance(0.1) {
				// two merge keys in one mapping (yaml refuses to decode that)
				it = append(it, "<<: *"+pick(g.r, anchors))
				g.note("style:merge-key-twice")
			}
			if g.chance(0.6) {
				extra := g.keyValue(pick(g.r, []string{"expr", "for", "alert", "record"}), pick(g.r, []string{"up", "1m", "Over"}), false)
				if g.chance(0.5) {
					it = append(it, extra...)
				} else {
					// merge key written last: the merged nodes (earlier lines) follow nodes of later lines
					it = append(extra, it...)
					g.note("style:merge-key-last")
				}
			}
			items = append(items, it)
		case fancy && g.chance(0.15):
			g.anchor++
			name := fmt.Sprintf("r%d", g.anchor)
			anchors = append(anchors, name)
			g.note("style:anchored-rule")
			// `- &a` followed by the mapping on following lines
			rl := g.ruleLines()
			if rl[0] == "{}" {
				items = append(items, rl)
			} else {
				items = append(items, append([]string{"&" + name}, indentLines(rl, 0)...))
			}
		default:
			items = append(items, g.ruleLines())
		}
		if g.chance(0.08) {
			items[len(items)-1] = append(items[len(items)-1], "")
		}
	}
	return items
}

// fixAnchorItem: an item whose first line is "&name" must be printed as "- &name" + newline + indented mapping.
// seqLines already does this because following lines are indented by 2.

// groupValue decorates the lines of one group-level `key: value` (first line `key:` or `key: scalar`): sometimes the value
// gets an anchor, sometimes the whole value is replaced by an alias of the same key's value in an EARLIER group
// (`rules: *shared`, `labels: *common`, `interval: *iv`).
func (g *docGen) groupValue(key string, lines []string) []string {
	if len(lines) == 0 || g.grpAnchors == nil || !strings.HasPrefix(lines[0], key+":") {
		return lines
	}
	if names := g.grpAnchors[key]; len(names) > 0 && g.chance(0.4) {
		g.note("style:group-" + key + "-alias")
		return []string{key + ": *" + pick(g.r, names)}
	}
	if g.chance(0.2) {
		rest := strings.TrimPrefix(lines[0], key+":")
		if strings.HasPrefix(rest, " {") || strings.HasPrefix(rest, " [") || strings.HasPrefix(rest, " |") || strings.HasPrefix(rest, " >") || strings.HasPrefix(rest, " &") || strings.HasPrefix(rest, " *") {
			return lines
		}
		g.anchor++
		name := fmt.Sprintf("g%s%d", key, g.anchor)
		g.grpAnchors[key] = append(g.grpAnchors[key], name)
		g.note("style:group-" + key + "-anchor")
		out := append([]string{key + ": &" + name + rest}, lines[1:]...)
		return out
	}
	return lines
}

func (g *docGen) groupLines(idx int) []string {
	var out []string
	name := fmt.Sprintf("group%d", idx)
	var parts [][]string
	// name
	if !g.chance(g.pBad) {
		parts = append(parts, g.keyValue("name", name, false))
	} else {
		switch g.r.Intn(6) {
		case 0:
			g.note("defect:group:name-missing")
		case 1:
			g.note("defect:group:name-empty")
			parts = append(parts, []string{"name: \"\""})
		case 2:
			g.note("defect:group:name-type")
			parts = append(parts, []string{"name: " + pick(g.r, []string{"5", "true", "~", "[a]", "{a: b}", ""})})
		case 3:
			g.note("defect:group:name-duplicate-of-other")
			parts = append(parts, []string{"name: group0"})
		case 4:
			g.note("defect:group:name-key-twice")
			parts = append(parts, []string{"name: " + name, "name: " + name + "x"})
		case 5:
			g.note("defect:group:name-alias")
			if idx > 0 && g.chance(0.5) {
				parts = append(parts, []string{"name: *gn0"})
			} else {
				parts = append(parts, []string{"name: &gn" + fmt.Sprint(idx) + " " + name})
			}
		}
	}
	if g.chance(0.4) {
		parts = append(parts, g.groupValue("interval", g.scalarField("interval", genDurs[:6], genBadDurs, false, false)))
	}
	if g.chance(0.15) {
		parts = append(parts, g.scalarField("query_offset", genDurs[:6], genBadDurs, false, false))
	}
	if g.chance(0.2) {
		if !g.chance(g.pBad) {
			parts = append(parts, []string{"limit: " + pick(g.r, []string{"0", "10", "100"})})
		} else {
			g.note("defect:group:limit")
			parts = append(parts, []string{"limit: " + pick(g.r, []string{"abc", "1.5", "\"5\"", "~", "[1]", "-1", "0x10", "true", "1e3", "99999999999999999999"})})
		}
	}
	if g.chance(0.25) {
		parts = append(parts, g.groupValue("labels", g.mapField("labels", genLabelNames, genBadLNames, genLabelValues, nil, true)))
	}
	if g.chance(g.pBad * 0.5) {
		g.note("defect:group:unknown-key")
		parts = append(parts, []string{pick(g.r, []string{"bogus: 1", "partial_response_strategy: warn", "partial_response_strategy: bogus", "source_tenants: [a]", "Name: x"})})
	}
	// rules
	switch {
	case !g.chance(g.pBad):
		n := g.r.Intn(4)
		if g.chance(0.1) {
			n = 0
		}
		if n == 0 {
			g.note("style:empty-rules")
			parts = append(parts, []string{pick(g.r, []string{"rules: []", "rules:", "rules: ~"})})
		} else {
			items := g.ruleItems(n, true)
			ind := pick(g.r, []int{0, 2})
			parts = append(parts, g.groupValue("rules", append([]string{"rules:"}, seqLines(items, ind)...)))
		}
	default:
		switch g.r.Intn(5) {
		case 0:
			g.note("defect:group:rules-missing")
		case 1:
			g.note("defect:group:rules-type")
			parts = append(parts, []string{"rules: " + pick(g.r, []string{"5", "abc", "{a: b}", "true", "{}", "{x: [{record: \"nested:a\", expr: up}]}"})})
		case 2:
			g.note("defect:group:rules-twice")
			parts = append(parts, append([]string{"rules:"}, seqLines(g.ruleItems(1, false), 2)...))
			if g.chance(0.5) {
				parts = append(parts, append([]string{"rules:"}, seqLines(g.ruleItems(1, false), 2)...))
			} else {
				parts = append(parts, []string{"rules: " + pick(g.r, []string{"5", "{a: b}", "~", "{x: [{record: \"nested:b\", expr: up}]}"})})
			}
		case 3:
			g.note("defect:group:rule-item-type")
			parts = append(parts, []string{"rules:", "  - " + pick(g.r, []string{"abc", "5", "~", "[a, b]", "", "true"})})
		case 4:
			g.note("defect:group:rules-nested-seq")
			parts = append(parts, append([]string{"rules:", "  -"}, seqLines(g.ruleItems(1, false), 4)...))
		}
	}
	if g.chance(0.2) {
		g.r.Shuffle(len(parts), func(i, j int) { parts[i], parts[j] = parts[j], parts[i] })
		g.note("style:shuffled-group-keys")
	}
	if g.chance(0.04) {
		// group labels written after the rules, with names the rules are likely to use too
		hasLabels := false
		for _, p := range parts {
			if len(p) > 0 && strings.HasPrefix(p[0], "labels:") {
				hasLabels = true
			}
		}
		if !hasLabels {
			parts = append(parts, []string{"labels:", "  severity: page", "  team: x", "  job: a"})
			g.note("special:group-labels-after-rules")
		}
	}
	for _, p := range parts {
		out = append(out, p...)
	}
	if len(out) == 0 {
		return []string{"{}"}
	}
	return out
}

// ruleFile generates one rule document.
func (g *docGen) ruleFile() string {
	g.grpAnchors = map[string][]string{}
	var lines []string
	if g.chance(0.1) {
		lines = append(lines, "# rules for something", "")
	}
	if g.chance(0.1) {
		lines = append(lines, "---")
		g.note("style:doc-start-marker")
	}
	ng := 1 + g.r.Intn(3)
	var groups [][]string
	for i := 0; i < ng; i++ {
		groups = append(groups, g.groupLines(i))
	}
	top := []string{"groups:"}
	top = append(top, seqLines(groups, pick(g.r, []int{0, 2}))...)
	if g.chance(g.pBad) {
		switch g.r.Intn(9) {
		case 0:
			g.note("defect:file:extra-top-key")
			top = append(top, pick(g.r, []string{"foo: bar", "rules: []", "other:\n  - a"}))
		case 1:
			g.note("defect:file:groups-twice")
			top = append(top, "groups:")
			top = append(top, seqLines([][]string{g.groupLines(7)}, 2)...)
		case 2:
			g.note("defect:file:groups-type")
			top = []string{"groups: " + pick(g.r, []string{"5", "abc", "{}", "{a: b}", "~", "", "[]", "[~]", "[[]]", "[abc]"})}
		case 3:
			g.note("defect:file:multi-doc")
			top = append(top, "---", "groups: []")
		case 4:
			g.note("defect:file:top-seq")
			top = seqLines([][]string{top}, 0)
		case 5:
			g.note("defect:file:top-scalar")
			top = []string{pick(g.r, []string{"abc", "5", "~", "", "[]", "{}", "--- ~"})}
		case 6:
			g.note("defect:file:key-not-string")
			top = append([]string{pick(g.r, []string{"5: x", "~: y", "true: z", "? [a]\n: b"})}, top...)
		case 7:
			g.note("defect:file:leading-doc")
			top = append([]string{pick(g.r, []string{"--- {}", "--- ~", "---\nfoo: bar", "---", "---\n# empty document"}), "---"}, top...)
		case 8:
			g.note("defect:file:group-null-or-scalar")
			top = append(top, pick(g.r, []string{"- ~", "- abc", "- []", "-", "- 5", "- {}"}))
		}
	}
	lines = append(lines, top...)
	var flat []string
	for _, l := range lines {
		flat = append(flat, strings.Split(l, "\n")...)
	}
	s := strings.Join(flat, "\n")
	if !g.chance(0.05) {
		s += "\n"
	} else {
		g.note("style:no-final-newline")
	}
	return s
}

// mutateBytes applies 1..3 byte/line level mutations.
func (g *docGen) mutateBytes(s string) string {
	n := 1 + g.r.Intn(3)
	for k := 0; k < n; k++ {
		lines := strings.Split(s, "\n")
		switch g.r.Intn(16) {
		case 0: // delete a line
			if len(lines) > 1 {
				i := g.r.Intn(len(lines))
				lines = append(lines[:i:i], lines[i+1:]...)
			}
			g.note("mut:delete-line")
		case 1: // duplicate a line
			i := g.r.Intn(len(lines))
			lines = append(lines[:i+1:i+1], lines[i:]...)
			g.note("mut:dup-line")
		case 2: // swap two lines
			i, j := g.r.Intn(len(lines)), g.r.Intn(len(lines))
			lines[i], lines[j] = lines[j], lines[i]
			g.note("mut:swap-lines")
		case 3: // indent change
			i := g.r.Intn(len(lines))
			if g.chance(0.5) {
				lines[i] = "  " + lines[i]
			} else {
				lines[i] = strings.TrimPrefix(lines[i], "  ")
			}
			g.note("mut:indent")
		case 4: // tab
			i := g.r.Intn(len(lines))
			if len(lines[i]) > 0 {
				j := g.r.Intn(len(lines[i]))
				lines[i] = lines[i][:j] + "\t" + lines[i][j:]
			}
			g.note("mut:tab")
		case 5: // CRLF
			s = strings.Join(lines, "\r\n")
			g.note("mut:crlf")
			continue
		case 6: // lone CR
			i := g.r.Intn(len(lines))
			// a line break of YAML that pint does not count (lone CR, NEL, LS, PS): in place of the LF after line i,
			// or appended to the line (CR + LF = CRLF, which both count alike)
			br := pick(g.r, []string{"\r", "\r", "\u0085", "\u2028", "\u2029"})
			if i+1 < len(lines) && g.chance(0.7) {
				lines = append(lines[:i:i], append([]string{lines[i] + br + lines[i+1]}, lines[i+2:]...)...)
			} else {
				lines[i] += br
			}
			g.note("mut:cr")
		case 7: // truncate
			s = strings.Join(lines, "\n")
			if len(s) > 0 {
				s = s[:g.r.Intn(len(s))]
			}
			g.note("mut:truncate")
			continue
		case 8: // flip/insert a byte
			s = strings.Join(lines, "\n")
			if len(s) > 0 {
				i := g.r.Intn(len(s))
				b := []byte(s)
				b[i] = pick(g.r, []byte{0xff, 0x00, 0xc3, ':', '-', '#', '{', '}', '[', ']', '&', '*', '|', '>', '"', '\'', ' ', '\n', '!', '%', '@', '?', ',', 0xe2, 0x80})
				s = string(b)
			}
			g.note("mut:byte")
			continue
		case 9: // insert special token line
			i := g.r.Intn(len(lines) + 1)
			tok := pick(g.r, []string{"---", "...", "<<: *x", "- *x", "&x", "? a", ": b", "%YAML 1.2", "- - - a", "{", "]", "  - |", "  >", "!!map", "# pint disable promql/syntax", "# pint ignore/next-line", "# pint ignore/begin", "# pint ignore/end", "# pint ignore/file", "# pint rule/set promql/series(foo min-age 1h", "# pint file/owner bob", "\xef\xbb\xbf", "- ? x", "key: !!str", "a: &a [*a]", "- &x [*x]", "z: &z {y: *z}"})
			lines = append(lines[:i:i], append([]string{tok}, lines[i:]...)...)
			g.note("mut:token-line")
		case 10: // delete a span of a line
			i := g.r.Intn(len(lines))
			if len(lines[i]) > 1 {
				a := g.r.Intn(len(lines[i]))
				b := a + g.r.Intn(len(lines[i])-a)
				lines[i] = lines[i][:a] + lines[i][b:]
			}
			g.note("mut:delete-span")
		case 11: // anchor + alias injection
			i := g.r.Intn(len(lines))
			if j := strings.Index(lines[i], ": "); j > 0 {
				lines[i] = lines[i][:j+2] + "&m" + fmt.Sprint(k) + " " + lines[i][j+2:]
				lines = append(lines, pick(g.r, []string{"extra: *m", "  extra: *m", "    <<: *m", "    expr: *m", "- *m"})+fmt.Sprint(k))
			}
			g.note("mut:anchor-alias")
		case 12: // make a value a block scalar header with comment
			i := g.r.Intn(len(lines))
			if j := strings.Index(lines[i], ": "); j > 0 {
				ind := len(lines[i]) - len(strings.TrimLeft(lines[i], " -"))
				lines[i] = lines[i][:j+2] + "| # c\n" + strings.Repeat(" ", ind+2) + lines[i][j+2:]
			}
			g.note("mut:block-header")
		case 13: // blank lines
			i := g.r.Intn(len(lines) + 1)
			lines = append(lines[:i:i], append([]string{"", "   "}, lines[i:]...)...)
			g.note("mut:blank-lines")
		case 14: // long line
			i := g.r.Intn(len(lines))
			lines[i] += strings.Repeat(" x", 200+g.r.Intn(3000))
			g.note("mut:long-line")
		case 15: // strip final newline / add many
			s = strings.TrimRight(strings.Join(lines, "\n"), "\n")
			if g.chance(0.5) {
				s += "\n\n\n"
			}
			g.note("mut:final-newline")
			continue
		}
		s = strings.Join(lines, "\n")
	}
	return s
}

// ---- wrappers (C19) ----

// isRuleFieldSibling: the sibling key belongs to the rule-field vocabulary (for, keep_firing_for, labels, annotations) but
// does not make the mapping a rule (no alert/record/expr): parseRule must still answer "empty" for the wrapper mapping.
func isRuleFieldSibling(s string) bool {
	for _, k := range []string{"for:", "keep_firing_for:", "labels:", "annotations:"} {
		if strings.HasPrefix(s, k) {
			return true
		}
	}
	return false
}

type wrapped struct {
	Text      string
	LineShift int
	ColShift  int
	Desc      string
	Direct    []directRule // rules the wrapper itself contributes BEFORE the rules of the wrapped list, outermost frame first
	After     []directRule // rules the wrapper contributes AFTER them (a `groups:` key written after the wrapping key), innermost frame first
}

// directRule: a complete recording rule placed by a "mixed sequence" wrapper frame next to the item that wraps the body.
// RelLine/RelCol locate its first line relative to the first line / column of the wrapped list (invariant under outer frames).
type directRule struct {
	Name, Expr string
	RelLine    int
	RelCol     int
}

// wrap places the block sequence `list` (lines at column 0, e.g. "- record: a") under 0..4 wrapper levels of
// mappings (keys != groups) and sequences, with optional sibling keys and extra documents.
func (g *docGen) wrap(list []string, levels int) wrapped { return g.wrapOpts(list, levels, true) }

// wrapOpts: allowDocs=false never adds extra documents (for texts that are embedded into a scalar afterwards:
// yaml.Unmarshal reads only the first document of a value).
func (g *docGen) wrapOpts(list []string, levels int, allowDocs bool) wrapped {
	body := list
	col := 0
	var desc []string
	// build inside-out: each level wraps `body`
	type frame struct {
		pre, post []string
	}
	lineShift := 0
	var direct, after []directRule
	for lv := 0; lv < levels; lv++ {
		switch g.r.Intn(6) {
		case 0, 1: // mapping key
			key := pick(g.r, []string{"spec", "data", "foo", "rules", "alerts", "items", "x-y", "prometheus_rules"})
			var pre, post []string
			if g.chance(0.4) {
				// sibling keys, incl. keys from the rule-field vocabulary that do not make the mapping a rule by themselves
				pre = append(pre, pick(g.r, []string{"kind: List", "version: 1", "meta:\n  a: b", "tags: [a, b]", "for: 5m", "labels:\n  team: a", "annotations:\n  summary: x"}))
			}
			if g.chance(0.4) {
				post = append(post, pick(g.r, []string{"other: value", "zzz:\n  - 1\n  - 2", "empty: {}", "keep_firing_for: 1m", "name: wrapper"}))
			}
			if g.chance(0.15) {
				// wide mapping: several unrelated keys before the one that holds the body
				for i, n := 0, 3+g.r.Intn(4); i < n; i++ {
					pre = append(pre, fmt.Sprintf("filler%d: %s", i, pick(g.r, []string{"x", "[1, 2]", "{a: b}", "~"})))
				}
				g.note("wrapper:wide-mapping")
			}
			var nb []string
			for _, p := range pre {
				nb = append(nb, strings.Split(p, "\n")...)
			}
			for _, p := range append(append([]string{}, pre...), post...) {
				if isRuleFieldSibling(p) {
					g.note("wrapper:sibling-rule-field")
				}
			}
			nb = append(nb, key+":")
			lineShift += len(nb)
			nb = append(nb, indentLines(body, 2)...)
			col += 2
			for _, p := range post {
				nb = append(nb, strings.Split(p, "\n")...)
			}
			body = nb
			desc = append(desc, "map:"+key)
		case 2: // sequence item holding the body on following lines: "-\n  <body>"
			var nb []string
			if g.chance(0.4) {
				nb = append(nb, pick(g.r, []string{"- other", "- {a: b}", "- 5", "- [x]"}))
			}
			if g.chance(0.15) {
				for i, n := 0, 3+g.r.Intn(4); i < n; i++ {
					nb = append(nb, pick(g.r, []string{"- other", "- {a: b}", "- 5", "- [x]", "- ~"}))
				}
				g.note("wrapper:long-sequence")
			}
			nb = append(nb, "-")
			lineShift += len(nb)
			nb = append(nb, indentLines(body, 2)...)
			col += 2
			if g.chance(0.3) {
				nb = append(nb, "- tail")
			}
			body = nb
			desc = append(desc, "seq")
		case 3: // sequence item with a key: "- key:\n    <body>"
			key := pick(g.r, []string{"spec", "cfg", "rules"})
			var nb []string
			nb = append(nb, "- "+key+":")
			lineShift += 1
			nb = append(nb, indentLines(body, 4)...)
			col += 4
			if g.chance(0.3) {
				sib := pick(g.r, []string{"sibling: 1", "for: 5m", "keep_firing_for: 2m", "annotations: {a: b}", "labels: {a: b}", "name: x"})
				if isRuleFieldSibling(sib) {
					g.note("wrapper:sibling-rule-field")
				}
				nb = append(nb, "  "+sib)
			}
			body = nb
			desc = append(desc, "seqmap:"+key)
		case 4: // mixed sequence: complete rules as direct items next to the item that wraps the body
			g.anchor++
			key := pick(g.r, []string{"inner", "spec", "nested"})
			n1 := fmt.Sprintf("mix%d:a", g.anchor)
			nb := []string{"- record: " + n1, "  expr: vector(1)", "- " + key + ":"}
			before := len(nb)
			frame := []directRule{{Name: n1, Expr: "vector(1)", RelLine: -(lineShift + before), RelCol: -(col + 4)}}
			nb = append(nb, indentLines(body, 4)...)
			if g.chance(0.5) {
				n2 := fmt.Sprintf("mix%d:b", g.anchor)
				frame = append(frame, directRule{Name: n2, Expr: "vector(2)", RelLine: len(body) - lineShift, RelCol: -(col + 4)})
				nb = append(nb, "- record: "+n2, "  expr: vector(2)")
			}
			lineShift += before
			col += 4
			body = nb
			direct = append(frame, direct...)
			desc = append(desc, "mixedseq:"+key)
			g.note("wrapper:mixed-sequence")
		case 5: // a mapping with BOTH a `groups:` key that yields a group and a sibling key that holds the body, in either key order
			g.anchor++
			key := pick(g.r, []string{"extra", "more_rules", "spec", "zz"})
			gname := fmt.Sprintf("wg%d", g.anchor)
			grp := []string{"groups:", "  - name: " + gname}
			withRule := g.chance(0.7)
			if withRule {
				grp = append(grp, "    rules:", "      - record: "+gname+":r", "        expr: vector(3)")
			} else {
				grp = append(grp, "    rules: []")
			}
			var nb []string
			if g.chance(0.5) {
				// groups first, the body under a LATER sibling key
				nb = append(nb, grp...)
				nb = append(nb, key+":")
				before := len(nb)
				if withRule {
					direct = append([]directRule{{Name: gname + ":r", Expr: "vector(3)", RelLine: 3 - (lineShift + before), RelCol: 6 - (col + 2)}}, direct...)
				}
				nb = append(nb, indentLines(body, 2)...)
				lineShift += before
				desc = append(desc, "groups-then:"+key)
			} else {
				nb = append(nb, key+":")
				nb = append(nb, indentLines(body, 2)...)
				if withRule {
					after = append(after, directRule{Name: gname + ":r", Expr: "vector(3)", RelLine: 1 + len(body) + 3 - (lineShift + 1), RelCol: 6 - (col + 2)})
				}
				nb = append(nb, grp...)
				lineShift += 1
				desc = append(desc, key+"-then-groups")
			}
			col += 2
			body = nb
			g.note("wrapper:groups-sibling")
		}
	}
	// extra documents
	var pre, post []string
	if allowDocs && g.chance(0.25) {
		// a document before the one with the rules, incl. empty ones (explicit start, nothing or only a comment inside)
		pre = append(pre, pick(g.r, []string{"a: b", "- 1\n- 2", "# just a comment\nfoo: [1, 2]", "---", "---\n# nothing in this document", "--- # empty"}), "---")
		desc = append(desc, "doc-before")
	}
	if allowDocs && g.chance(0.25) {
		post = append(post, "---", pick(g.r, []string{"c: d", "- x", "~"}))
		desc = append(desc, "doc-after")
	}
	var all []string
	for _, p := range pre {
		all = append(all, strings.Split(p, "\n")...)
	}
	lineShift += len(all)
	all = append(all, body...)
	for _, p := range post {
		all = append(all, strings.Split(p, "\n")...)
	}
	return wrapped{Text: strings.Join(all, "\n") + "\n", LineShift: lineShift, ColShift: col, Desc: strings.Join(desc, ","), Direct: direct, After: after}
}

// embedded places a whole YAML text inside a scalar of an outer document (YAML in YAML, e.g. a ConfigMap).
// Literal block scalars keep one source line per value line: relaxed mode descends into them and reports the rules
// displaced by (LineShift, ColShift).  Every other scalar style does not preserve lines: since commit 147313f
// relaxed mode must not look inside (Found=false: no rule may be reported).
type embedded struct {
	Text      string
	LineShift int
	ColShift  int
	Value     string // the value yaml.v3 gives the scalar (literal styles only): the reference document
	Literal   bool
	Descends  bool // literal AND the value has more than one line break (parser.go parseNode: strings.Count(node.Value, "\n") > 1)
	Desc      string
}

func (g *docGen) embed(text string) embedded {
	lines := strings.Split(strings.TrimRight(text, "\n"), "\n")
	var pre []string
	if g.chance(0.4) {
		pre = append(pre, pick(g.r, []string{"apiVersion: v1", "kind: ConfigMap", "metadata:\n  name: rules"}))
	}
	var head []string
	for _, p := range pre {
		head = append(head, strings.Split(p, "\n")...)
	}
	tail := []string{}
	if g.chance(0.4) {
		tail = append(tail, pick(g.r, []string{"other: 1", "zz:\n  - a", "more: |\n  just\n  text\n  here"}))
	}
	finish := func(body []string) string {
		all := append(append(append([]string{}, head...), body...), tail...)
		var flat []string
		for _, l := range all {
			flat = append(flat, strings.Split(l, "\n")...)
		}
		return strings.Join(flat, "\n") + "\n"
	}
	switch g.r.Intn(8) {
	case 0, 1, 2, 3, 4: // literal block scalar under data/<key>, different chomping indicators and indentation
		ind := pick(g.r, []int{2, 4, 6})
		hdr := pick(g.r, []string{"|", "|-", "|+"})
		key := pick(g.r, []string{"rules.yaml", "alerts", "prometheus.rules"})
		body := []string{"data:", "  " + key + ": " + hdr}
		body = append(body, indentLines(lines, 2+ind)...)
		value := strings.Join(lines, "\n") + "\n"
		if hdr == "|+" && len(tail) == 0 {
			body = append(body, "")
			value += "\n"
		}
		g.note("embedded:literal" + hdr)
		breaks := len(lines) // line breaks in the value
		if hdr == "|-" {
			breaks--
			value = strings.TrimRight(value, "\n")
		}
		if breaks <= 1 {
			g.note("embedded:literal-too-short-to-be-descended")
		}
		return embedded{Text: finish(body), LineShift: len(head) + 2, ColShift: 2 + ind, Value: value, Literal: true, Descends: breaks > 1, Desc: "literal" + hdr}
	case 5: // double-quoted with \n escapes: one source line
		esc := strings.NewReplacer("\\", "\\\\", "\"", "\\\"", "\n", "\\n", "\t", "\\t").Replace(text)
		g.note("embedded:double-quoted")
		return embedded{Text: finish([]string{"data:", "  rules.yaml: \"" + esc + "\""}), Desc: "double-quoted"}
	case 6: // folded block scalar, blank line between the lines keeps the line breaks in the value
		var body []string
		body = append(body, "data: >")
		for _, l := range lines {
			body = append(body, "  "+l, "")
		}
		g.note("embedded:folded")
		return embedded{Text: finish(body), Desc: "folded"}
	default: // single-quoted multi-line flow scalar: blank lines keep the breaks
		var body []string
		body = append(body, "data:", "  rules.yaml: '"+strings.ReplaceAll(lines[0], "'", "''"))
		for _, l := range lines[1:] {
			body = append(body, "", "    "+strings.ReplaceAll(l, "'", "''"))
		}
		body[len(body)-1] += "'"
		g.note("embedded:single-quoted-multiline")
		return embedded{Text: finish(body), Desc: "single-quoted"}
	}
}
