//go:build verif

package parser

import (
	"bytes"
	"errors"
	"io"

	"gopkg.in/yaml.v3"
)

// VerifDoc is one document as Parser.Parse received it from yaml.v3, together with the number of source
// lines the content reader had accumulated at that moment (the `cr.lines` slice handed to the parse functions).
type VerifDoc struct {
	Node   *yaml.Node
	NLines int
}

// VerifForest replays exactly the decoding loop of Parser.Parse (same masking reader, same decoder) and
// returns what the parse functions are given: the documents, the content lines and the decoded yaml error.
func VerifForest(content []byte) (docs []VerifDoc, lines []string, yerr *ParseError, totalLines int) {
	cr := newContentReader(bytes.NewReader(content))
	dec := yaml.NewDecoder(cr)
	for {
		var doc yaml.Node
		decodeErr := dec.Decode(&doc)
		if errors.Is(decodeErr, io.EOF) {
			break
		}
		if decodeErr != nil {
			pe := tryDecodingYamlError(decodeErr)
			if cr.lineno > 0 && pe.Line > cr.lineno {
				// Parse keeps yaml errors found at the end of the input on the last line (fix 07824b1); own copy of that step
				pe.Line = cr.lineno
			}
			yerr = &pe
			break
		}
		// Parse moves nodes yaml placed after the end of the input back onto the last line (fix 5430596) before any
		// parse function sees them: the forest handed to the model is the clamped one.  Own copy of that step (not a
		// call of the unexported helper): if pint stops clamping, the real File and the model disagree and the
		// "outside the file" oracle has a concrete input.
		verifClampLines(&doc, cr.lineno, map[*yaml.Node]bool{})
		docs = append(docs, VerifDoc{Node: &doc, NLines: len(cr.lines)})
	}
	return docs, cr.lines, yerr, cr.lineno
}

func verifClampLines(n *yaml.Node, last int, seen map[*yaml.Node]bool) {
	if n == nil || seen[n] {
		return
	}
	seen[n] = true
	if last > 0 && n.Line > last {
		n.Line = last
		n.Column = 1
	}
	for _, c := range n.Content {
		verifClampLines(c, last, seen)
	}
	verifClampLines(n.Alias, last, seen)
}
