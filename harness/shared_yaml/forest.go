//go:build verif

package main

// Serialiser of the yaml.v3 node forest and of parser.File into the Coq terms of Model/Yaml.v and
// Model/Parser.v (shared by C19, C02, C01).

import (
	"fmt"
	"os"
	"path/filepath"
	"regexp"
	"sort"
	"strings"

	"github.com/prometheus/common/model"
	promParser "github.com/prometheus/prometheus/promql/parser"
	"gopkg.in/yaml.v3"

	"github.com/cloudflare/pint/internal/parser"
)

// Oracle annotation bits of a scalar value (Run/C19.v: ann_*).
const (
	annMetric = 1 << iota // model.IsValidMetricName
	annLName              // model.LabelName.IsValid
	annLValue             // model.LabelValue.IsValid
	annDur                // model.ParseDuration succeeds
	annExpr               // promql ParseExpr succeeds
)

func annBits(v string) int {
	b := 0
	if model.IsValidMetricName(model.LabelValue(v)) {
		b |= annMetric
	}
	if model.LabelName(v).IsValid() {
		b |= annLName
	}
	if model.LabelValue(v).IsValid() {
		b |= annLValue
	}
	if _, err := model.ParseDuration(v); err == nil {
		b |= annDur
	}
	if _, err := promParser.ParseExpr(v); err == nil {
		b |= annExpr
	}
	return b
}

type forestPrinter struct {
	b      strings.Builder
	budget int // remaining nodes; <0 = exceeded
	extra  func(v string) int
	memo   map[string]int
	// sharing mode (coqForestShared): every alias target is bound ONCE by a `let` and referred to by name, so the
	// term is linear in the size of the alias GRAPH although it denotes the (possibly exponential) unfolding
	share bool
	names map[*yaml.Node]string
	defs  []string
}

// ref writes the name of the let-bound term of an alias target (sharing mode), creating the binding on first use.
func (p *forestPrinter) ref(n *yaml.Node) {
	if name, ok := p.names[n]; ok {
		p.b.WriteString(name)
		return
	}
	sub := &forestPrinter{budget: p.budget, extra: p.extra, memo: p.memo, share: true, names: p.names}
	sub.defs = p.defs
	sub.node(n)
	p.defs = sub.defs
	p.budget = sub.budget
	name := fmt.Sprintf("shared_%d", len(p.names))
	p.names[n] = name
	p.defs = append(p.defs, fmt.Sprintf("let %s := %s in", name, sub.b.String()))
	p.b.WriteString(name)
}

// forestNodeExtra: optional per-node annotation bits (C01: does the scalar decode into a Go string / int).
var forestNodeExtra func(n *yaml.Node) int

// aliasUnfoldSize: number of nodes of the tree a node unfolds to when every alias is replaced by its anchor (memoised,
// saturating; cycles count 1): parser.go aliasExpansion.
func aliasUnfoldSize(n *yaml.Node, memo map[*yaml.Node]int) int {
	if n == nil {
		return 0
	}
	if v, ok := memo[n]; ok {
		return v
	}
	memo[n] = 1
	t := 1 + aliasUnfoldSize(n.Alias, memo)
	for _, c := range n.Content {
		t += aliasUnfoldSize(c, memo)
		if t > 1<<40 {
			t = 1 << 40
		}
	}
	memo[n] = t
	return t
}

// nodeIntDecBit: per-NODE answer bit 6 (Run/C19.v int_ok_run; the same bit C01 calls annIntDec): the scalar decodes
// into a Go int with the real yaml.Node.Decode (strict.go parseGroup, `limit`, fix a6b0afc).
func nodeIntDecBit(n *yaml.Node) int {
	if n.Kind != yaml.ScalarNode {
		return 0
	}
	ok := func() (ok bool) {
		defer func() {
			if recover() != nil {
				ok = false
			}
		}()
		var i int
		return n.Decode(&i) == nil
	}()
	if ok {
		return 1 << 6
	}
	return 0
}

// nodeNullDecBit: per-NODE answer bit 12 (Run/C19.v null_ok_run): the scalar decodes into `any` without error and
// yields nil (parser.go nullTagWithText, fix b9483ac).
func nodeNullDecBit(n *yaml.Node) int {
	if n.Kind != yaml.ScalarNode {
		return 0
	}
	ok := func() (ok bool) {
		defer func() {
			if recover() != nil {
				ok = false
			}
		}()
		var v any
		return n.Decode(&v) == nil && v == nil
	}()
	if ok {
		return 1 << 12
	}
	return 0
}

func (p *forestPrinter) ann(v string) int {
	if a, ok := p.memo[v]; ok {
		return a
	}
	a := annBits(v)
	if p.extra != nil {
		a |= p.extra(v)
	}
	p.memo[v] = a
	return a
}

func kindName(k yaml.Kind) string {
	switch k {
	case yaml.DocumentNode:
		return "KDocument"
	case yaml.SequenceNode:
		return "KSequence"
	case yaml.MappingNode:
		return "KMapping"
	case yaml.ScalarNode:
		return "KScalar"
	case yaml.AliasNode:
		return "KAlias"
	case 0:
		return "KZero"
	}
	return fmt.Sprintf("KUnknown%d", k)
}

func (p *forestPrinter) list(ns []*yaml.Node) {
	p.b.WriteString("[")
	for i, c := range ns {
		if i > 0 {
			p.b.WriteString("; ")
		}
		p.node(c)
	}
	p.b.WriteString("]")
}

func (p *forestPrinter) node(n *yaml.Node) {
	p.budget--
	if p.budget < 0 {
		p.b.WriteString("(Zr 0)")
		return
	}
	tag := n.ShortTag()
	a := p.ann(n.Value)
	if forestNodeExtra != nil {
		a |= forestNodeExtra(n)
	}
	a |= nodeIntDecBit(n)
	// inputs of diags.NewPositionRange beyond value/line/column (Run/C19.v node_block, node_anchor_len)
	if n.Style&(yaml.LiteralStyle|yaml.FoldedStyle) != 0 {
		a |= 1 << 10
	}
	if n.Style&yaml.DoubleQuotedStyle != 0 {
		a |= 1 << 13
	}
	a |= nodeNullDecBit(n)
	a |= len(n.Anchor) << 16
	var emb *yaml.Node
	// parser.go parseNode only looks for YAML inside LITERAL block scalars (commit 147313f): the style condition is
	// folded into the input, n_embedded is only provided where pint would call yaml.Unmarshal and succeed.
	if n.Kind == yaml.ScalarNode && strings.Count(n.Value, "\n") > 1 && n.Style&yaml.LiteralStyle != 0 {
		var e yaml.Node
		// (fix 07824b1: nor into embedded documents above the alias expansion limit)
		if err := yaml.Unmarshal([]byte(n.Value), &e); err == nil && !nodeHasAliasCycle(&e) && aliasUnfoldSize(&e, map[*yaml.Node]int{}) <= 1_000_000 {
			emb = &e
		}
	}
	switch {
	case n.Kind == yaml.ScalarNode && n.Alias == nil && len(n.Content) == 0 && emb == nil:
		fmt.Fprintf(&p.b, "(Sc %s %s %d %d %d)", coqStr(tag), coqStr(n.Value), n.Line, n.Column, a)
	case n.Kind == yaml.ScalarNode && n.Alias == nil && len(n.Content) == 0:
		fmt.Fprintf(&p.b, "(ScE %s %s %d %d %d ", coqStr(tag), coqStr(n.Value), n.Line, n.Column, a)
		p.node(emb)
		p.b.WriteString(")")
	case n.Kind == yaml.MappingNode && n.Alias == nil && n.Value == "":
		fmt.Fprintf(&p.b, "(Mp %s %d %d %d ", coqStr(tag), n.Line, n.Column, a)
		p.list(n.Content)
		p.b.WriteString(")")
	case n.Kind == yaml.SequenceNode && n.Alias == nil && n.Value == "":
		fmt.Fprintf(&p.b, "(Sq %s %d %d %d ", coqStr(tag), n.Line, n.Column, a)
		p.list(n.Content)
		p.b.WriteString(")")
	case n.Kind == yaml.DocumentNode && n.Alias == nil && n.Value == "" && tag == "":
		fmt.Fprintf(&p.b, "(Dc %d %d %d ", n.Line, n.Column, a)
		p.list(n.Content)
		p.b.WriteString(")")
	case n.Kind == yaml.AliasNode && n.Alias != nil && n.Value == "" && len(n.Content) == 0:
		fmt.Fprintf(&p.b, "(Al %s %d %d %d ", coqStr(tag), n.Line, n.Column, a)
		if p.share {
			p.ref(n.Alias)
		} else {
			p.node(n.Alias)
		}
		p.b.WriteString(")")
	default:
		fmt.Fprintf(&p.b, "(Node %s %s %s %d %d %d ", kindName(n.Kind), coqStr(tag), coqStr(n.Value), n.Line, n.Column, a)
		p.list(n.Content)
		if n.Alias != nil {
			p.b.WriteString(" (Some ")
			if p.share {
				p.ref(n.Alias)
			} else {
				p.node(n.Alias)
			}
			p.b.WriteString(")")
		} else {
			p.b.WriteString(" None")
		}
		if emb != nil {
			p.b.WriteString(" (Some ")
			p.node(emb)
			p.b.WriteString(")")
		} else {
			p.b.WriteString(" None")
		}
		p.b.WriteString(")")
	}
}

// coqForest prints `[(doc, nlines); ...]`.  ok=false when the forest is too large to be a sensible case
// (alias expansion) — the caller skips the case and records it in the histogram.
func coqForest(docs []parser.VerifDoc, extra func(string) int) (string, bool) {
	p := &forestPrinter{budget: 6000, extra: extra, memo: map[string]int{}}
	p.b.WriteString("[")
	for i, d := range docs {
		if i > 0 {
			p.b.WriteString("; ")
		}
		p.b.WriteString("(")
		p.node(d.Node)
		fmt.Fprintf(&p.b, ", %d%%nat)", d.NLines)
	}
	p.b.WriteString("]")
	return p.b.String(), p.budget >= 0
}

// coqForestShared prints the same list as coqForest but with every alias target let-bound once (see forestPrinter.share):
// `(let shared_0 := … in let shared_1 := … in [(doc, nlines)])`.  Used for the directed alias-doubling cases: the graph has
// ~60 nodes, its unfolding more than a million.
func coqForestShared(docs []parser.VerifDoc) (string, bool) {
	p := &forestPrinter{budget: 6000, memo: map[string]int{}, share: true, names: map[*yaml.Node]string{}}
	p.b.WriteString("[")
	for i, d := range docs {
		if i > 0 {
			p.b.WriteString("; ")
		}
		p.b.WriteString("(")
		p.node(d.Node)
		fmt.Fprintf(&p.b, ", %d%%nat)", d.NLines)
	}
	p.b.WriteString("]")
	return "(" + strings.Join(p.defs, " ") + " " + p.b.String() + ")", p.budget >= 0
}

// lastSharedSkip: why the last forestCaseShared call produced no case.
var lastSharedSkip string

// forestCaseShared: a Run.C19 case for a document whose alias graph is small but whose unfolding may be huge (no alias
// cycles): the forest is serialised with sharing, both modes are run on the real parser.
func forestCaseShared(id int, content []byte, schema parser.Schema, names model.ValidationScheme) (term string, fs, fr parser.File) {
	model.NameValidationScheme = names
	docs, lines, yerr, _ := parser.VerifForest(content)
	lastDocs = docs
	if hasAliasCycle(docs) {
		return "", fs, fr
	}
	forest, ok := coqForestShared(docs)
	fs, ps := parseReal(content, true, schema, names)
	fr, pr := parseReal(content, false, schema, names)
	if !ok || ps != "" || pr != "" {
		lastSharedSkip = fmt.Sprintf("budget-ok=%v strict-panic=%q relaxed-panic=%q", ok, ps, pr)
		return "", fs, fr
	}
	yl := "None"
	if yerr != nil {
		yl = fmt.Sprintf("(Some %d%%nat)", yerr.Line)
	}
	term = fmt.Sprintf("{| c_id := %d; c_thanos := %s; c_lines := %s; c_docs := %s; c_yerr := %s;\n c_strict := (Some %s);\n c_relaxed := (Some %s) |}",
		id, coqBool(schema == parser.ThanosSchema), coqStrList(lines), forest, yl, coqFile(fs), coqFile(fr))
	return term, fs, fr
}

// ---- observed parser.File as a Model/Parser.v `file` term (error message texts are not compared) ----

func coqYNode(y *parser.YamlNode) string {
	lr := y.Pos.Lines()
	return fmt.Sprintf("(Build_ynode %s %d %d)", coqStr(y.Value), lr.First, lr.Last)
}

func coqYNodeOpt(y *parser.YamlNode) string {
	if y == nil {
		return "None"
	}
	return "(Some " + coqYNode(y) + ")"
}

func coqYMapOpt(m *parser.YamlMap) string {
	if m == nil {
		return "None"
	}
	items := make([]string, 0, len(m.Items))
	for _, kv := range m.Items {
		items = append(items, coqPair(coqYNode(kv.Key), coqYNode(kv.Value)))
	}
	return fmt.Sprintf("(Some (Build_ymap %s %s))", coqYNode(m.Key), coqList(items))
}

func coqPErr(e parser.ParseError) string {
	if e.Err == nil {
		return "None"
	}
	return fmt.Sprintf("(Some (Build_perror %d \"\"))", e.Line)
}

func coqRule(r parser.Rule) string {
	body := "NoBody"
	switch {
	case r.AlertingRule != nil:
		a := r.AlertingRule
		body = fmt.Sprintf("(Alerting %s %s %s %s %s %s)", coqYNode(&a.Alert), coqYNode(a.Expr.Value), coqYNodeOpt(a.For),
			coqYNodeOpt(a.KeepFiringFor), coqYMapOpt(a.Labels), coqYMapOpt(a.Annotations))
	case r.RecordingRule != nil:
		a := r.RecordingRule
		body = fmt.Sprintf("(Recording %s %s %s)", coqYNode(&a.Record), coqYNode(a.Expr.Value), coqYMapOpt(a.Labels))
	}
	return fmt.Sprintf("(Build_rule %s %s %d %d)", body, coqPErr(r.Error), r.Lines.First, r.Lines.Last)
}

func coqGroup(g parser.Group) string {
	rs := make([]string, 0, len(g.Rules))
	for _, r := range g.Rules {
		rs = append(rs, coqRule(r))
	}
	return fmt.Sprintf("(Build_group %s %s %s %s)", coqStr(g.Name), coqYMapOpt(g.Labels), coqPErr(g.Error), coqList(rs))
}

func coqFile(f parser.File) string {
	gs := make([]string, 0, len(f.Groups))
	for _, g := range f.Groups {
		gs = append(gs, coqGroup(g))
	}
	return fmt.Sprintf("(Build_file %s %s)", coqList(gs), coqPErr(f.Error))
}

// parseBoth runs the real parser; a panic is returned as a string (C02 treats it as an oracle failure).
func parseReal(content []byte, strict bool, schema parser.Schema, names model.ValidationScheme) (f parser.File, panicked string) {
	defer func() {
		if r := recover(); r != nil {
			panicked = fmt.Sprint(r)
		}
	}()
	p := parser.NewParser(strict, schema, names)
	f = p.Parse(strings.NewReader(string(content)))
	return f, ""
}

// ---- known-finding class predicates on the real forest (mirrors of the guard wf_doc of Proofs/C19_relaxed.v) ----

func walkForest(n *yaml.Node, seen map[*yaml.Node]bool, f func(*yaml.Node)) {
	if n == nil || seen[n] {
		return
	}
	seen[n] = true
	f(n)
	for _, c := range n.Content {
		walkForest(c, seen, f)
	}
	walkForest(n.Alias, seen, f)
}

// hasAliasKey: some mapping uses an alias node as a key (strict mode reads the anchor NAME of such a key,
// relaxed mode and Prometheus the value it points to).
func hasAliasKey(docs []parser.VerifDoc) bool {
	found := false
	for _, d := range docs {
		walkForest(d.Node, map[*yaml.Node]bool{}, func(n *yaml.Node) {
			if n.Kind != yaml.MappingNode {
				return
			}
			for i := 0; i+1 < len(n.Content); i += 2 {
				if n.Content[i].Kind == yaml.AliasNode || n.Content[i].Alias != nil {
					found = true
				}
			}
		})
	}
	return found
}

func strictValid(f parser.File) bool {
	if f.Error.Err != nil {
		return false
	}
	for _, g := range f.Groups {
		if g.Error.Err != nil {
			return false
		}
		for _, r := range g.Rules {
			if r.Error.Err != nil {
				return false
			}
		}
	}
	return true
}

// forestCase prints one Run.C19 case for the content; returns "" when the forest is too large.
func forestCase(id int, content []byte, schema parser.Schema, names model.ValidationScheme, extra func(string) int) (term string, fs, fr parser.File, panicS, panicR string) {
	model.NameValidationScheme = names
	docs, lines, yerr, _ := parser.VerifForest(content)
	lastDocs = docs
	if hasAliasCycle(docs) {
		// cyclic alias graphs have no finite serialisation; since commit 5f8fd57 the parser reports them as a
		// parse error in both modes (checked by the C02 oracle: every such file must yield a yaml/parse Fatal)
		fs, panicS = parseReal(content, true, schema, names)
		fr, panicR = parseReal(content, false, schema, names)
		return "", fs, fr, panicS, panicR
	}
	forest, ok := coqForest(docs, extra)
	fs, panicS = parseReal(content, true, schema, names)
	fr, panicR = parseReal(content, false, schema, names)
	if !ok {
		return "", fs, fr, panicS, panicR
	}
	yl := "None"
	if yerr != nil {
		yl = fmt.Sprintf("(Some %d%%nat)", yerr.Line)
	}
	obsS, obsR := "None", "None"
	if panicS == "" {
		obsS = "(Some " + coqFile(fs) + ")"
	}
	if panicR == "" {
		obsR = "(Some " + coqFile(fr) + ")"
	}
	term = fmt.Sprintf("{| c_id := %d; c_thanos := %s; c_lines := %s; c_docs := %s; c_yerr := %s;\n c_strict := %s;\n c_relaxed := %s |}",
		id, coqBool(schema == parser.ThanosSchema), coqStrList(lines), forest, yl, obsS, obsR)
	return term, fs, fr, panicS, panicR
}

// allowAliasCycles: only the C02 child process (which may die) parses cyclic alias graphs.
var allowAliasCycles = false

// lastDocs: forest of the most recent forestCase call (for the known-finding class predicates).
var lastDocs []parser.VerifDoc

func corpusFiles(prop string) []string {
	root := "/verif/corpus/" + prop
	ents, err := os.ReadDir(root)
	if err != nil {
		return nil
	}
	var out []string
	for _, e := range ents {
		if !e.IsDir() {
			out = append(out, filepath.Join(root, e.Name()))
		}
	}
	sort.Strings(out)
	return out
}

// hasAliasCycle: an alias points at one of its own ancestors (`foo: &a [*a]`); yaml.v3 builds the cyclic graph.
func hasAliasCycle(docs []parser.VerifDoc) bool {
	found := false
	// depth-first search with the usual three colours: a node that has been left (done) is never entered again, so
	// alias-doubling documents (exponential unfolding) cost one visit per node of the GRAPH
	done := map[*yaml.Node]bool{}
	var visit func(n *yaml.Node, stack map[*yaml.Node]bool, depth int)
	visit = func(n *yaml.Node, stack map[*yaml.Node]bool, depth int) {
		if n == nil || found || depth > 2000 || done[n] {
			return
		}
		if stack[n] {
			found = true
			return
		}
		stack[n] = true
		for _, c := range n.Content {
			visit(c, stack, depth+1)
		}
		if n.Alias != nil {
			visit(n.Alias, stack, depth+1)
		}
		delete(stack, n)
		done[n] = true
	}
	for _, d := range docs {
		visit(d.Node, map[*yaml.Node]bool{}, 0)
	}
	return found
}

func nodeHasAliasCycle(n *yaml.Node) bool {
	return hasAliasCycle([]parser.VerifDoc{{Node: n}})
}

var reVarAssign = regexp.MustCompile(`\$(\w+)\s*:?=\s*\$(\w+)`)

// hasTemplateAliasCycle: a template assigns variables to each other in a cycle ({{ $b := $a }}{{ $a := $b }}).
func hasTemplateAliasCycle(content string) bool {
	edges := map[string][]string{}
	for _, m := range reVarAssign.FindAllStringSubmatch(content, -1) {
		edges[m[1]] = append(edges[m[1]], m[2])
	}
	var reach func(from, to string, seen map[string]bool) bool
	reach = func(from, to string, seen map[string]bool) bool {
		for _, x := range edges[from] {
			if x == to {
				return true
			}
			if !seen[x] {
				seen[x] = true
				if reach(x, to, seen) {
					return true
				}
			}
		}
		return false
	}
	for v := range edges {
		if reach(v, v, map[string]bool{}) {
			return true
		}
	}
	return false
}
