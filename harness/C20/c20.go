//go:build verif

package main

import (
	"context"
	"fmt"
	"math/rand"
	"os"
	"path/filepath"
	"regexp"
	"sort"
	"strings"

	"github.com/cloudflare/pint/internal/checks"
	"github.com/cloudflare/pint/internal/config"
	"github.com/cloudflare/pint/internal/discovery"
	"github.com/cloudflare/pint/internal/parser"
	"github.com/cloudflare/pint/internal/parser/utils"

	"github.com/prometheus/client_golang/prometheus"
	"github.com/prometheus/prometheus/model/labels"
	promParser "github.com/prometheus/prometheus/promql/parser"
)

// C20: rule/dependency.
//   (a) correspondence: the real RuleDependencyCheck.Check on generated entry sets (real parser, real PromQL selectors,
//       random states, symlink copies, path/rule/syntax errors) vs Model/Dependency.check, byte-exact details;
//   (b) end to end: scratch repositories whose branch removes subsets of rules/files, `pint ci --json` rule/dependency
//       entries (path, lines, details list) vs the generator's reference graph.

var (
	c20Records = []string{"job:up:sum", "job:lat:avg", "inst:disk:max", "job:err:rate5m", "cluster:cpu:ratio", "job:up:sum_total", "Down"}
	c20Alerts  = []string{"Down", "HighLatency", "DiskFull", "Flapping", "DownAgain"}
	c20Raw     = []string{"up", "lat", "disk", "err_total", "cpu"}
)

// c20Expr builds an expression and records exactly which provided metrics/alerts it selects.
func c20Expr(r *rand.Rand, ru *gRule, allowOdd bool) {
	n := 1 + r.Intn(3)
	var parts []string
	for i := 0; i < n; i++ {
		switch c := r.Intn(12); {
		case c <= 3:
			m := pick(r, c20Records)
			ru.Refs = append(ru.Refs, m)
			parts = append(parts, "("+pick(r, c20VecForms(m))+")")
		case c <= 6:
			a := pick(r, c20Alerts)
			ru.AlertRefs = append(ru.AlertRefs, a)
			parts = append(parts, "("+pick(r, c20AlertForms(a))+")")
		case c == 7 && allowOdd:
			m := pick(r, c20Records)
			ru.NameRefs = append(ru.NameRefs, m)
			parts = append(parts, fmt.Sprintf(`{__name__="%s"}`, m))
		case c == 8:
			// decoys: must NOT count as a dependency
			a := pick(r, c20Alerts)
			parts = append(parts, pick(r, []string{
				fmt.Sprintf(`ALERTS{alertname=~"%s"}`, a),
				fmt.Sprintf(`ALERTS{alertname!="%s"}`, a),
				fmt.Sprintf(`other_alerts{alertname="%s"}`, a),
				fmt.Sprintf(`ALERTS{alertstate="%s"}`, a)}))
		default:
			parts = append(parts, pick(r, c20Raw))
		}
	}
	op := pick(r, []string{" + ", " or ", " and ", " / on(job) "})
	ru.Expr = strings.Join(parts, op)
	if ru.Kind == "alert" {
		ru.Expr = "(" + ru.Expr + ") > 0"
	}
	// the reference graph is what the generator PRINTED; an expression the (upstream) PromQL parser rejects would select nothing,
	// so a generator slip must not turn into a wrong expectation: fall back to a plain metric and drop the references
	if _, err := promParser.ParseExpr(ru.Expr); err != nil {
		c20BadExprs++
		ru.Expr = pick(r, c20Raw)
		ru.Refs, ru.AlertRefs, ru.NameRefs = nil, nil, nil
		if ru.Kind == "alert" {
			ru.Expr = "(" + ru.Expr + ") > 0"
		}
	}
}

var c20BadExprs int

// c20VecForms: every PromQL position a selector of metric m can occur in, each form instant-vector typed so that it can be
// an operand of any binary / set operator: bare, matchers, aggregation argument and aggregation PARAMETER, range and subquery
// function arguments, beneath scalar() (scalar-typed subtrees: function arguments, binary operands, aggregation parameters),
// string-taking functions, unary minus, parentheses, offset / @ modifiers, either side of a binary or set operator.
func c20VecForms(m string) []string {
	return []string{
		m,
		"sum(" + m + ") by (job)",
		m + `{job="a"}`,
		"rate(" + m + "[5m])",
		"max_over_time(" + m + "[1h:5m])",
		"avg_over_time(sum(" + m + ")[10m:1m])",
		"vector(scalar(" + m + "))",
		"vector(scalar(sum(" + m + ")))",
		"up * scalar(" + m + ")",
		"scalar(" + m + ") + up",
		"vector(time() - scalar(" + m + "))",
		"topk(scalar(" + m + "), up)",
		"quantile(scalar(" + m + "), up)",
		"clamp_max(up, scalar(" + m + "))",
		"histogram_quantile(scalar(" + m + "), lat)",
		"quantile(0.9, " + m + ")",
		"histogram_quantile(0.9, " + m + ")",
		"label_replace(" + m + `, "dst", "$1", "job", "(.*)")`,
		"label_join(" + m + `, "dst", "-", "job", "instance")`,
		`count_values("v", ` + m + ")",
		"-(" + m + ")",
		"((" + m + "))",
		m + " offset 5m",
		m + " @ 100",
		"absent(" + m + ")",
		"up unless on(job) " + m,
		m + " > bool 0",
		"up and on(job) (" + m + " > 1)",
	}
}

func c20AlertForms(a string) []string {
	al := fmt.Sprintf(`ALERTS{alertname="%s"}`, a)
	afs := fmt.Sprintf(`ALERTS_FOR_STATE{alertname="%s"}`, a)
	return []string{
		al,
		afs,
		fmt.Sprintf(`ALERTS{alertstate="firing", alertname="%s"}`, a),
		fmt.Sprintf(`count(ALERTS{alertname="%s", alertstate="pending"})`, a),
		"vector(scalar(" + al + "))",
		"up * scalar(count(" + al + "))",
		"topk(scalar(" + afs + "), up)",
		"clamp_min(up, scalar(" + al + "))",
		"count_over_time(" + al + "[5m])",
		"max_over_time(" + afs + "[1h:5m])",
		"-(" + al + ")",
		"up unless " + al,
		"label_replace(" + al + `, "a", "$1", "b", "(.*)")`,
		al + " offset 1m",
		"vector(time() - scalar(" + afs + "))",
	}
}

func c20Rule(g *gen, allowOdd bool) gRule {
	r := g.r
	g.uid++
	ru := gRule{UID: g.uid}
	if r.Intn(2) == 0 {
		ru.Kind = "alert"
		ru.Name = pick(r, c20Alerts)
		if r.Intn(3) == 0 {
			ru.For = "5m"
		}
	} else {
		ru.Kind = "record"
		ru.Name = pick(r, c20Records)
	}
	c20Expr(r, &ru, allowOdd)
	if r.Intn(6) == 0 {
		ru.Labels = append(ru.Labels, [2]string{"team", pick(r, gLabelVals)})
	}
	if r.Intn(8) == 0 {
		ru.Blank = 1
	}
	return ru
}

func c20Files(g *gen, allowOdd bool) map[string]gFile {
	r := g.r
	out := map[string]gFile{}
	nf := 1 + r.Intn(3)
	names := []string{"rules/a.yml", "rules/b.yml", "rules/sub/c.yml", "rules/é.yml"}
	for i := 0; i < nf; i++ {
		f := gFile{}
		n := 1 + r.Intn(5)
		for k := 0; k < n; k++ {
			f.Rules = append(f.Rules, c20Rule(g, allowOdd))
		}
		out[names[i]] = f
	}
	return out
}

// c20Invalid: a rule the parser rejects (no expr => Rule.Error): provides nothing, depends on nothing, replaces nothing.
func c20Invalid(g *gen) gRule {
	ru := c20Rule(g, false)
	ru.Broken = true
	ru.Refs, ru.AlertRefs, ru.NameRefs = nil, nil, nil
	return ru
}

// c20SyntaxError: a valid rule whose expression does not parse as PromQL: it selects nothing, but it still is a rule of its
// kind and name (a replacement).
func c20SyntaxError(ru *gRule) {
	ru.Expr = "sum(" + ru.Expr
	ru.Refs, ru.AlertRefs, ru.NameRefs = nil, nil, nil
}

// ---------------------------------------------------------------------------------------------
// (a) correspondence

type c20Sel struct {
	Name     string      `json:"name"`
	Str      string      `json:"str"`
	Matchers [][3]string `json:"matchers"`
}

type c20Abs struct {
	State     string   `json:"state"`
	PErr      bool     `json:"path_error"`
	RErr      bool     `json:"rule_error"`
	Kind      string   `json:"kind"`
	Name      string   `json:"name"`
	Path      string   `json:"path"`
	Target    string   `json:"target"`
	SyntaxErr bool     `json:"syntax_error"`
	Sels      []c20Sel `json:"selectors"`
	ExprLine  int      `json:"expr_line"`
	First     int      `json:"first"`
	Last      int      `json:"last"`
}

var c20MT = map[labels.MatchType]string{labels.MatchEqual: "MatchEqual", labels.MatchNotEqual: "MatchNotEqual",
	labels.MatchRegexp: "MatchRegexp", labels.MatchNotRegexp: "MatchNotRegexp"}

func c20Abstract(e discovery.Entry) c20Abs {
	a := c20Abs{State: stateNames[e.State], PErr: e.PathError != nil, RErr: e.Rule.Error.Err != nil, Kind: kindOf(e), Name: e.Rule.Name(),
		Path: e.Path.Name, Target: e.Path.SymlinkTarget, First: e.Rule.Lines.First, Last: e.Rule.Lines.Last}
	if e.Rule.Type() == parser.InvalidRuleType {
		return a
	}
	expr := e.Rule.Expr()
	a.SyntaxErr = expr.SyntaxError != nil
	a.ExprLine = expr.Value.Pos.Lines().First
	if !a.SyntaxErr {
		for _, vs := range utils.HasVectorSelector(expr.Query) {
			s := c20Sel{Name: vs.Name, Str: vs.String()}
			for _, lm := range vs.LabelMatchers {
				s.Matchers = append(s.Matchers, [3]string{lm.Name, c20MT[lm.Type], lm.Value})
			}
			a.Sels = append(a.Sels, s)
		}
	}
	return a
}

func (a c20Abs) coq() string {
	var sels []string
	for _, s := range a.Sels {
		var ms []string
		for _, m := range s.Matchers {
			ms = append(ms, "("+coqStr(m[0])+", "+m[1]+", "+coqStr(m[2])+")")
		}
		sels = append(sels, "{| s_name := "+coqStr(s.Name)+"; s_str := "+coqStr(s.Str)+"; s_matchers := "+coqList(ms)+" |}")
	}
	return fmt.Sprintf("{| d_state := %s; d_perr := %s; d_rerr := %s; d_kind := %s; d_name := %s; d_path := %s; d_target := %s; d_syntax_err := %s; d_selectors := %s; d_expr_line := %s; d_first := %s; d_last := %s |}",
		a.State, coqBool(a.PErr), coqBool(a.RErr), a.Kind, coqStr(a.Name), coqStr(a.Path), coqStr(a.Target), coqBool(a.SyntaxErr), coqList(sels),
		coqZ(int64(a.ExprLine)), coqZ(int64(a.First)), coqZ(int64(a.Last)))
}

type c20Case struct {
	ID       int               `json:"id"`
	Files    map[string]string `json:"files"`
	Entries  []c20Abs          `json:"entries"`
	Observed []string          `json:"observed"`
	Selected []bool            `json:"rule_dependency_selected"`
}

// the real routing: is rule/dependency among the checks GetChecksForEntry selects for this entry under `pint ci`?
var (
	c20Cfg config.Config
	c20Gen *config.PrometheusGenerator
)

func c20InitRouting(dir string) {
	path := filepath.Join(dir, "routing.hcl")
	writeFile(path, c20Config())
	cfg, _, err := config.Load(path, true)
	must(err)
	c20Cfg = cfg
	c20Gen = config.NewPrometheusGenerator(cfg, prometheus.NewRegistry())
}

func c20Selected(e discovery.Entry) bool {
	ctx := context.WithValue(context.Background(), config.CommandKey, config.CICommand)
	for _, c := range c20Cfg.GetChecksForEntry(ctx, c20Gen, e) {
		if c.Reporter() == checks.RuleDependencyCheckName {
			return true
		}
	}
	return false
}

func c20GenCase(g *gen, id int, rep *runReport) (c20Case, string) {
	r := g.r
	c := c20Case{ID: id, Files: map[string]string{}}
	files := c20Files(g, true)
	var entries []discovery.Entry
	for _, p := range sortedKeys(files) {
		f := files[p]
		// error strata
		for i := range f.Rules {
			switch r.Intn(25) {
			case 0:
				f.Rules[i].Broken = true
			case 1:
				f.Rules[i].Expr = "sum(" + f.Rules[i].Expr // PromQL syntax error
			}
		}
		txt, _ := f.render()
		if r.Intn(12) == 0 {
			txt = c20BadComment + txt
		}
		c.Files[p] = txt
		entries = append(entries, parseEntries(p, txt)...)
	}
	// states
	for i := range entries {
		switch k := r.Intn(10); {
		case k <= 3:
			entries[i].State = discovery.Removed
		case k <= 6:
			entries[i].State = discovery.Noop
		case k == 7:
			entries[i].State = discovery.Added
		case k == 8:
			entries[i].State = discovery.Modified
		default:
			entries[i].State = discovery.Moved
		}
	}
	// targeted: make one provider that really has a dependant Removed together with all its namesakes (no replacement)
	if r.Intn(2) == 0 {
		type pd struct{ p, d int }
		var cands []pd
		for di := range entries {
			ad := c20Abstract(entries[di])
			for _, sl := range ad.Sels {
				for pi := range entries {
					if pi == di || entries[pi].PathError != nil || entries[pi].Rule.Error.Err != nil {
						continue
					}
					if entries[pi].Rule.RecordingRule != nil && entries[pi].Rule.Name() == sl.Name {
						cands = append(cands, pd{pi, di})
					}
					if entries[pi].Rule.AlertingRule != nil && (sl.Name == "ALERTS" || sl.Name == "ALERTS_FOR_STATE") {
						for _, m := range sl.Matchers {
							if m[0] == "alertname" && m[2] == entries[pi].Rule.Name() {
								cands = append(cands, pd{pi, di})
							}
						}
					}
				}
			}
		}
		if len(cands) > 0 {
			c0 := cands[r.Intn(len(cands))]
			for i := range entries {
				if entries[i].Rule.Type() == entries[c0.p].Rule.Type() && entries[i].Rule.Name() == entries[c0.p].Rule.Name() {
					entries[i].State = discovery.Removed
				}
			}
			if entries[c0.d].State == discovery.Removed && !(entries[c0.d].Rule.Type() == entries[c0.p].Rule.Type() && entries[c0.d].Rule.Name() == entries[c0.p].Rule.Name()) {
				entries[c0.d].State = discovery.Noop
			}
			rep.hist("a:targeted-provider-removed")
			// line-range collision: a Removed entry carries BASE coordinates, so it may sit on exactly the lines a HEAD rule of the same
			// file and kind occupies now (the rule below slid up after the deletion).  Make the removed provider collide with its dependant.
			if r.Intn(2) == 0 && entries[c0.p].Rule.Type() == entries[c0.d].Rule.Type() && entries[c0.d].State != discovery.Removed {
				entries[c0.p].Path = entries[c0.d].Path
				entries[c0.p].Rule.Lines = entries[c0.d].Rule.Lines
				rep.hist("a:removed-provider-on-the-lines-of-its-dependant")
			}
		}
	}
	// ... and collisions between a Removed entry and an arbitrary non-removed entry of the same kind
	for i := range entries {
		if entries[i].State != discovery.Removed || r.Intn(8) != 0 {
			continue
		}
		j := r.Intn(len(entries))
		if j != i && entries[j].State != discovery.Removed && entries[j].Rule.Type() == entries[i].Rule.Type() {
			entries[i].Path = entries[j].Path
			entries[i].Rule.Lines = entries[j].Rule.Lines
			rep.hist("a:removed-entry-on-the-lines-of-a-head-entry")
		}
	}
	// symlink copies (Path.Name != Path.SymlinkTarget), as addSymlinkedEntries creates them
	n0 := len(entries)
	for i := 0; i < n0; i++ {
		if r.Intn(6) == 0 {
			e := entries[i]
			e.Path.Name = "rules/link-" + filepath.Base(e.Path.SymlinkTarget)
			if r.Intn(3) == 0 {
				e.State = discovery.Removed
			}
			entries = append(entries, e)
		}
	}
	r.Shuffle(len(entries), func(i, j int) { entries[i], entries[j] = entries[j], entries[i] })
	chk := checks.NewRuleDependencyCheck()
	var obs []string
	nprob := 0
	for _, e := range entries {
		c.Entries = append(c.Entries, c20Abstract(e))
	}
	var sel []string
	for _, e := range entries {
		v := c20Selected(e)
		c.Selected = append(c.Selected, v)
		sel = append(sel, coqBool(v))
		if v {
			rep.hist("a:routing-selected")
		} else {
			rep.hist("a:routing-not-selected:" + stateNames[e.State])
		}
	}
	for _, e := range entries {
		ps := chk.Check(context.Background(), e, entries)
		switch len(ps) {
		case 0:
			obs = append(obs, "None")
		case 1:
			p := ps[0]
			msg := ""
			if len(p.Diagnostics) > 0 {
				msg = p.Diagnostics[0].Message
			}
			obs = append(obs, fmt.Sprintf("(Some (%s, %s, %s, %s))", coqZ(int64(p.Lines.First)), coqZ(int64(p.Lines.Last)), coqStr(p.Details), coqStr(msg)))
			nprob++
			rep.hist(fmt.Sprintf("a:listed-dependants=%d", min(strings.Count(p.Details, "\n- `"), 5)))
		default:
			obs = append(obs, "None")
			rep.Notes = append(rep.Notes, fmt.Sprintf("case %d: Check returned %d problems", id, len(ps)))
		}
	}
	c.Observed = obs
	rep.hist(fmt.Sprintf("a:problems=%d", min(nprob, 4)))
	rep.hist(fmt.Sprintf("a:entries=%d", (len(entries)/5)*5))
	var es []string
	for _, a := range c.Entries {
		es = append(es, a.coq())
	}
	rep.count(fmt.Sprintf("a|%v|%v", c.Entries, obs), nprob > 0)
	return c, fmt.Sprintf("EntrySet {| c_id := %s; c_entries := %s; c_observed := %s; c_selected := %s |}", coqN(id), coqList(es), coqList(obs), coqList(sel))
}

const c20BadComment = "# pint file/disable\n"

// ---------------------------------------------------------------------------------------------
// (c) pipeline correspondence on git histories: the real git.Changes + GlobFinder + GitBranchFinder.Find (in-process) followed by
// the real routing and the real RuleDependencyCheck.Check on every entry of the final list, vs the composed model
// Model/GitBranch.find ; Model/Dependency.report on the same inputs.
func c20PipeCase(id int, res *inprocResult) (string, bool) {
	var infos []string
	glob, cs, _, ok, _ := findCaseParts(res, func(uid int, e discovery.Entry) {
		a := c20Abstract(e)
		var sels []string
		for _, s := range a.Sels {
			var ms []string
			for _, m := range s.Matchers {
				ms = append(ms, "("+coqStr(m[0])+", "+m[1]+", "+coqStr(m[2])+")")
			}
			sels = append(sels, "{| s_name := "+coqStr(s.Name)+"; s_str := "+coqStr(s.Str)+"; s_matchers := "+coqList(ms)+" |}")
		}
		infos = append(infos, fmt.Sprintf("(%s, {| i_syntax_err := %s; i_selectors := %s; i_expr_line := %s |})", coqN(uid), coqBool(a.SyntaxErr), coqList(sels), coqZ(int64(a.ExprLine))))
	})
	if !ok {
		return "", false
	}
	chk := checks.NewRuleDependencyCheck()
	var obs []string
	for _, e := range res.Final {
		o := "None"
		if c20Selected(e) {
			ps := chk.Check(context.Background(), e, res.Final)
			if len(ps) == 1 {
				p := ps[0]
				msg := ""
				if len(p.Diagnostics) > 0 {
					msg = p.Diagnostics[0].Message
				}
				o = fmt.Sprintf("(Some (%s, %s, %s, %s))", coqZ(int64(p.Lines.First)), coqZ(int64(p.Lines.Last)), coqStr(p.Details), coqStr(msg))
			} else if len(ps) > 1 {
				o = "(Some (0, 0, \"several problems\", \"\"))%Z"
			}
		}
		obs = append(obs, fmt.Sprintf("(%s, %s, %s, %s, %s)", coqStr(e.Path.Name), coqZ(int64(e.Rule.Lines.First)), coqZ(int64(e.Rule.Lines.Last)), stateNames[e.State], o))
	}
	return fmt.Sprintf("Pipeline %s {| pc_glob := %s; pc_changes := %s; pc_info := %s; pc_observed := %s |}", coqN(id), glob, cs, coqList(infos), coqList(obs)), true
}

// ---------------------------------------------------------------------------------------------
// (b) end to end

type c20Warn struct {
	Path  string      `json:"path"`
	First int         `json:"first"`
	Last  int         `json:"last"`
	Deps  [][3]string `json:"deps"` // (name, path, line) in report order
}

type c20E2E struct {
	ID        int       `json:"id"`
	History   *history  `json:"history"`
	Result    ciResult  `json:"pint_ci"`
	Expected  []c20Warn `json:"expected"`
	Observed  []c20Warn `json:"observed"`
	OddSpell  []string  `json:"name_spelling_not_listed,omitempty"`
	Removed   int       `json:"removed_rules"`
	NextToInvalid int   `json:"removed_rules_whose_head_file_has_an_invalid_rule"`
	UnderScalar   int   `json:"expected_dependants_whose_expression_uses_scalar"`
	GitLog    string    `json:"git_log"`
	HeadFiles map[string]string `json:"-"`
}

func c20Config() string {
	return "parser {\n  include = [\"rules/.*\"]\n}\nchecks {\n  enabled = [\"rule/dependency\"]\n}\n"
}

// c20History: fork = files with cross references; the branch removes a subset of rules / whole files over 1-3 commits,
// sometimes adds a replacement (same kind and name, other content) elsewhere, renames a file or edits unrelated rules.
func c20History(g *gen) *history {
	r := g.r
	hi := &history{Origin: map[string]string{}}
	state := c20Files(g, r.Intn(3) == 0)
	strata := map[string]bool{}
	// error strata: unrelated invalid rules (rule-level error) and PromQL syntax errors living in the same files
	for _, p := range sortedKeys(state) {
		f := state[p]
		if r.Intn(4) == 0 {
			pos := r.Intn(len(f.Rules) + 1)
			f.Rules = append(f.Rules[:pos:pos], append([]gRule{c20Invalid(g)}, f.Rules[pos:]...)...)
			strata["fork-file-has-invalid-rule"] = true
		}
		for i := range f.Rules {
			if !f.Rules[i].Broken && r.Intn(15) == 0 {
				c20SyntaxError(&f.Rules[i])
				strata["promql-syntax-error"] = true
			}
		}
		state[p] = f
	}
	// slide stratum (one history in four): a two-line provider directly above a two-line dependant of the same kind; the branch
	// deletes the provider, so the dependant slides up onto exactly the removed rule's lines
	slideUID, slidePath := 0, ""
	if r.Intn(4) == 0 {
		p := pick(r, sortedKeys(state))
		f := state[p]
		prov := c20Rule(g, false)
		prov.For, prov.Labels, prov.Blank, prov.Plain = "", nil, 0, nil
		dep := c20Rule(g, false)
		dep.Kind, dep.For, dep.Labels, dep.Blank, dep.Plain = prov.Kind, "", nil, 0, nil
		dep.Refs, dep.AlertRefs, dep.NameRefs = nil, nil, nil
		names := c20Records
		if prov.Kind == "alert" {
			names = c20Alerts
		}
		for dep.Name = pick(r, names); dep.Name == prov.Name; dep.Name = pick(r, names) {
		}
		if prov.Kind == "record" {
			dep.Expr = pick(r, c20VecForms(prov.Name))
			dep.Refs = []string{prov.Name}
		} else {
			dep.Expr = "(" + pick(r, c20AlertForms(prov.Name)) + ") > 0"
			dep.AlertRefs = []string{prov.Name}
		}
		if _, err := promParser.ParseExpr(dep.Expr); err == nil {
			pos := r.Intn(len(f.Rules) + 1)
			f.Rules = append(f.Rules[:pos:pos], append([]gRule{prov, dep}, f.Rules[pos:]...)...)
			state[p] = f
			slideUID, slidePath = prov.UID, p
			strata["provider-directly-above-same-sized-dependant-deleted"] = true
		}
	}
	hi.Fork = cloneState(state)
	for p := range state {
		hi.Origin[p] = p
	}
	nc := 1 + r.Intn(3)
	// scripted stratum (one history in six, when there are two files): a whole file of providers is deleted, a later commit
	// renames another file onto its path, a later commit edits the renamed file -- two change records end at the same path
	var script []string
	if len(state) >= 2 && r.Intn(6) == 0 {
		ps := sortedKeys(state)
		r.Shuffle(len(ps), func(i, j int) { ps[i], ps[j] = ps[j], ps[i] })
		script = []string{"delete:" + ps[0], "rename:" + ps[1] + ":" + ps[0], "edit:" + ps[0]}
		if nc < 3 {
			nc = 3
		}
		strata["rename-onto-deleted-path-then-edit"] = true
	}
	for ci := 0; ci < nc; ci++ {
		var ops []hOp
		nops := 1 + r.Intn(3)
		if ci < len(script) {
			nops = 0
			f := strings.Split(script[ci], ":")
			switch f[0] {
			case "delete":
				delete(state, f[1])
				delete(hi.Origin, f[1])
				ops = append(ops, hOp{Op: "delete-file", Path: f[1]})
			case "rename":
				if fl, ok := state[f[1]]; ok {
					delete(state, f[1])
					state[f[2]] = fl
					o := hi.Origin[f[1]]
					delete(hi.Origin, f[1])
					hi.Origin[f[2]] = o
					hi.RenEdits = append(hi.RenEdits, [2]string{f[1], f[2]})
					ops = append(ops, hOp{Op: "rename-file", Path: f[1], To: f[2]})
				}
			case "edit":
				if fl, ok := state[f[1]]; ok && len(fl.Rules) > 0 {
					fl = fl.clone()
					i := r.Intn(len(fl.Rules))
					fl.Rules[i].Blank = (fl.Rules[i].Blank + 1) % 3
					if r.Intn(2) == 0 {
						fl.Rules = append(fl.Rules, c20Rule(g, false))
					}
					state[f[1]] = fl
					ops = append(ops, hOp{Op: "edit-file", Path: f[1]})
				}
			}
		}
		if ci == 0 && slideUID != 0 {
			if f, ok := state[slidePath]; ok {
				for i, ru := range f.Rules {
					if ru.UID == slideUID {
						ops = append(ops, hOp{Op: "delete-rule", Path: slidePath, Detail: ru.Kind + ":" + ru.Name + " (directly above its dependant)"})
						f.Rules = append(append([]gRule{}, f.Rules[:i]...), f.Rules[i+1:]...)
						state[slidePath] = f
						break
					}
				}
			}
		}
		for k := 0; k < nops; k++ {
			paths := sortedKeys(state)
			if len(paths) == 0 {
				break
			}
			p := pick(r, paths)
			f := state[p]
			switch c := r.Intn(12); {
			case c == 11 && len(f.Rules) > 0: // a rule is replaced IN PLACE by a rule of the OTHER kind with the same name
				// (recording rule X -> alert X, alert X -> recording rule X): the old rule is removed, the new one does not replace
				// it (other kind), so its dependants still break.  Providers that have dependants are preferred.
				var cands []int
				for i, ru := range f.Rules {
					if ru.Broken {
						continue
					}
					for _, q := range sortedKeys(state) {
						for _, d := range state[q].Rules {
							if d.UID != ru.UID && !d.Broken && ((ru.Kind == "record" && contains(d.Refs, ru.Name)) || (ru.Kind == "alert" && contains(d.AlertRefs, ru.Name))) {
								cands = append(cands, i)
							}
						}
					}
				}
				i := r.Intn(len(f.Rules))
				if len(cands) > 0 && r.Intn(4) > 0 {
					i = cands[r.Intn(len(cands))]
				}
				if f.Rules[i].Broken {
					continue
				}
				old := f.Rules[i]
				nr := c20Rule(g, false)
				nr.Name = old.Name
				if old.Kind == "record" {
					nr.Kind = "alert"
				} else {
					nr.Kind, nr.For = "record", ""
				}
				// the expression was rendered for the kind c20Rule drew; render it again for the final kind
				nr.Refs, nr.AlertRefs, nr.NameRefs = nil, nil, nil
				c20Expr(r, &nr, false)
				f = f.clone()
				f.Rules[i] = nr
				state[p] = f
				ops = append(ops, hOp{Op: "replace-by-other-kind", Path: p, Detail: old.Kind + "->" + nr.Kind + ":" + old.Name})
				strata["rule-replaced-by-other-kind-same-name"] = true
			case c == 10: // an unrelated invalid rule appears in the file (rule-level error at HEAD)
				pos := r.Intn(len(f.Rules) + 1)
				f = f.clone()
				f.Rules = append(f.Rules[:pos:pos], append([]gRule{c20Invalid(g)}, f.Rules[pos:]...)...)
				state[p] = f
				ops = append(ops, hOp{Op: "add-invalid-rule", Path: p, Detail: fmt.Sprint(pos)})
				strata["invalid-rule-added"] = true
			case c <= 4 && len(f.Rules) > 0: // remove a rule
				i := r.Intn(len(f.Rules))
				ops = append(ops, hOp{Op: "delete-rule", Path: p, Detail: f.Rules[i].Kind + ":" + f.Rules[i].Name})
				f.Rules = append(append([]gRule{}, f.Rules[:i]...), f.Rules[i+1:]...)
				state[p] = f
				strata["rule-removed"] = true
			case c == 5 && len(paths) > 1: // remove a whole file
				delete(state, p)
				delete(hi.Origin, p)
				ops = append(ops, hOp{Op: "delete-file", Path: p})
				strata["file-removed"] = true
			case c == 6: // add a rule (possibly a replacement for something removed)
				nr := c20Rule(g, false)
				f.Rules = append(append([]gRule{}, f.Rules...), nr)
				state[p] = f
				ops = append(ops, hOp{Op: "add-rule", Path: p, Detail: nr.Kind + ":" + nr.Name})
				strata["rule-added"] = true
			case c == 7 && len(f.Rules) > 0: // edit the expression of a rule (its references change)
				i := r.Intn(len(f.Rules))
				f = f.clone()
				f.Rules[i].Refs, f.Rules[i].AlertRefs, f.Rules[i].NameRefs = nil, nil, nil
				c20Expr(r, &f.Rules[i], false)
				state[p] = f
				ops = append(ops, hOp{Op: "modify-rule", Path: p, Detail: fmt.Sprint(i)})
				strata["rule-modified"] = true
			case c == 8: // rename the file
				to := fmt.Sprintf("rules/moved%d.yml", g.uid)
				g.uid++
				delete(state, p)
				state[to] = f
				o := hi.Origin[p]
				delete(hi.Origin, p)
				hi.Origin[to] = o
				hi.RenEdits = append(hi.RenEdits, [2]string{p, to})
				ops = append(ops, hOp{Op: "rename-file", Path: p, To: to})
				strata["file-renamed"] = true
			default: // cosmetic
				if len(f.Rules) > 0 {
					i := r.Intn(len(f.Rules))
					f = f.clone()
					f.Rules[i].Blank = (f.Rules[i].Blank + 1) % 3
					state[p] = f
					ops = append(ops, hOp{Op: "cosmetic-rule", Path: p})
				}
			}
		}
		hi.Commits = append(hi.Commits, hCommit{Branch: "feature", Ops: ops, Files: cloneState(state)})
	}
	hi.Head = cloneState(state)
	hi.Strata = sortedKeys(strata)
	return hi
}

var c20DepLine = regexp.MustCompile("^- `(.*)` at `(.*):([0-9]+)`$")

func c20ParseDetails(d string) [][3]string {
	var out [][3]string
	for _, l := range strings.Split(d, "\n") {
		if m := c20DepLine.FindStringSubmatch(l); m != nil {
			out = append(out, [3]string{m[1], m[2], m[3]})
		}
	}
	return out
}

func contains(ss []string, s string) bool {
	for _, x := range ss {
		if x == s {
			return true
		}
	}
	return false
}

// c20Truth: the warnings the property demands, from the generator's reference graph.
func c20Truth(c *c20E2E) {
	hi := c.History
	headUID := map[int]bool{}
	type hr struct {
		ru   gRule
		path string
		line int
	}
	var head []hr
	for _, p := range sortedKeys(hi.Head) {
		f := hi.Head[p]
		_, locs := f.render()
		for i, ru := range f.Rules {
			headUID[ru.UID] = true
			if ru.Broken {
				continue // an invalid rule neither depends on anything nor replaces anything
			}
			head = append(head, hr{ru, p, locs[i].Expr})
		}
	}
	for _, p := range sortedKeys(hi.Fork) {
		f := hi.Fork[p]
		_, locs := f.render()
		for i, ru := range f.Rules {
			if headUID[ru.UID] || ru.Broken {
				continue
			}
			c.Removed++
			for _, hp := range sortedKeys(hi.Head) {
				if hi.Origin[hp] == p {
					for _, x := range hi.Head[hp].Rules {
						if x.Broken {
							c.NextToInvalid++
							break
						}
					}
				}
			}
			replaced := false
			for _, h := range head {
				if h.ru.Kind == ru.Kind && h.ru.Name == ru.Name {
					replaced = true
				}
			}
			if replaced {
				continue
			}
			var deps [][3]string
			for _, h := range head {
				uses := (ru.Kind == "record" && contains(h.ru.Refs, ru.Name)) || (ru.Kind == "alert" && contains(h.ru.AlertRefs, ru.Name))
				if uses {
					if strings.Contains(h.ru.Expr, "scalar(") {
						c.UnderScalar++
					}
					d := [3]string{h.ru.Name, h.path, fmt.Sprint(h.line)}
					dup := false
					for _, x := range deps {
						if x == d {
							dup = true
						}
					}
					if !dup {
						deps = append(deps, d)
					}
				} else if ru.Kind == "record" && contains(h.ru.NameRefs, ru.Name) {
					c.OddSpell = append(c.OddSpell, fmt.Sprintf("%s at %s:%d selects {__name__=%q}", h.ru.Name, h.path, h.line, ru.Name))
				}
			}
			if len(deps) == 0 {
				continue
			}
			sort.Slice(deps, func(i, j int) bool {
				a, b := deps[i], deps[j]
				if a[1] != b[1] {
					return a[1] < b[1]
				}
				if a[2] != b[2] {
					var x, y int
					fmt.Sscan(a[2], &x)
					fmt.Sscan(b[2], &y)
					return x < y
				}
				return a[0] < b[0]
			})
			c.Expected = append(c.Expected, c20Warn{Path: p, First: locs[i].First, Last: locs[i].Last, Deps: deps})
		}
	}
}

func c20Build(c *c20E2E, base string) {
	dir := filepath.Join(base, fmt.Sprintf("r%05d", c.ID))
	buildRepo(dir, c.History, c20Config())
	c.GitLog = git(dir, "log", "--reverse", "--no-merges", "--first-parent", "--format=%H", "--name-status", "main..HEAD")
	c.Result = runCI(dir)
	for _, r := range c.Result.Reports {
		if r.Reporter != "rule/dependency" || len(r.Lines) == 0 {
			continue
		}
		c.Observed = append(c.Observed, c20Warn{Path: r.Path, First: r.Lines[0], Last: r.Lines[len(r.Lines)-1], Deps: c20ParseDetails(r.Details)})
	}
	c20Truth(c)
	less := func(w []c20Warn) func(i, j int) bool {
		return func(i, j int) bool {
			if w[i].Path != w[j].Path {
				return w[i].Path < w[j].Path
			}
			return w[i].First < w[j].First
		}
	}
	sort.SliceStable(c.Observed, less(c.Observed))
	sort.SliceStable(c.Expected, less(c.Expected))
}

func c20Check(c *c20E2E, rep *runReport) {
	id := fmt.Sprintf("e2e-%d", c.ID)
	if c.Result.Exit != 0 && c.Result.Exit != 1 || !c.Result.JSONOK {
		rep.fail(id, fmt.Sprintf("pint ci did not complete (exit %d): %s", c.Result.Exit, c.Result.Stderr), c)
		return
	}
	key := func(w c20Warn) string { return fmt.Sprintf("%s:%d-%d", w.Path, w.First, w.Last) }
	exp := map[string]c20Warn{}
	for _, w := range c.Expected {
		exp[key(w)] = w
	}
	obs := map[string]c20Warn{}
	for _, w := range c.Observed {
		if _, dup := obs[key(w)]; dup {
			rep.fail(id, "two rule/dependency warnings on the same removed rule "+key(w), c)
			return
		}
		obs[key(w)] = w
	}
	for k, w := range exp {
		o, ok := obs[k]
		if !ok {
			rep.fail(id, fmt.Sprintf("MISSING WARNING: removed rule at %s has dependants %v and no replacement, but no rule/dependency warning was reported", k, w.Deps), c)
			return
		}
		if fmt.Sprint(o.Deps) != fmt.Sprint(w.Deps) {
			rep.fail(id, fmt.Sprintf("WRONG DEPENDANT LIST on removed rule at %s: reported %v, the reference graph says %v", k, o.Deps, w.Deps), c)
			return
		}
	}
	for k, o := range obs {
		if _, ok := exp[k]; !ok {
			rep.fail(id, fmt.Sprintf("SPURIOUS WARNING on %s listing %v: nothing depends on a removed rule there, or a replacement exists", k, o.Deps), c)
			return
		}
	}
}

// ---------------------------------------------------------------------------------------------

func runC20(args []string) int {
	n := argInt(args, "--n", 300)
	nh := argInt(args, "--histories", 150)
	seed := seedFromEnv()
	r := rand.New(rand.NewSource(seed))
	rep := newReport("C20", seed)
	rep.Rule = "(a) one case = one generated entry set (real parser + PromQL selectors, random states incl. Removed, symlink copies, path/rule/syntax errors), " +
		"real RuleDependencyCheck.Check run on every entry vs the model; non-trivial = at least one problem emitted. " +
		"(b) one case = one scratch repository whose branch removes rules/files with cross references, `pint ci --json` rule/dependency entries vs the " +
		"generator's reference graph; non-trivial = at least one removed rule with a dependant and no replacement. " +
		"(c) one case = one of those repositories run in-process: real git.Changes + GlobFinder + GitBranchFinder.Find, real routing and real Check on every final entry " +
		"vs the composed model (find ; report); non-trivial = at least one problem. distinct = hash of the whole case"
	cwd, _ := os.Getwd()
	cw := newCaseWriter(cwd, "Run.C20", 50)
	cw.preamble = "Open Scope N_scope.\n"
	g := &gen{r: r}
	c20InitRouting(cwd)
	for i := 0; i < n; i++ {
		c, term := c20GenCase(g, i, rep)
		cw.add(term)
		if i < 300 {
			rep.Cases[fmt.Sprint(i)] = c
		}
		if i < 2 {
			rep.sample(c)
		}
	}
	base := filepath.Join(cwd, "repos")
	os.RemoveAll(base)
	cases := make([]*c20E2E, nh)
	for i := range cases {
		cases[i] = &c20E2E{ID: 100000 + i, History: c20History(g)}
	}
	parallel(len(cases), 16, func(i int) { c20Build(cases[i], base) })
	// (c) pipeline correspondence on the first --inproc histories (sequential: GlobFinder needs the working directory)
	nin := argInt(args, "--inproc", 40)
	for i, c := range cases {
		if i >= nin {
			break
		}
		res := runInproc(filepath.Join(base, fmt.Sprintf("r%05d", c.ID)))
		if term, ok := c20PipeCase(200000+i, res); ok {
			cw.add(term)
			rep.hist("c:pipeline-cases")
			nrem, nprob := 0, 0
			for _, e := range res.Final {
				if e.State == discovery.Removed {
					nrem++
				}
			}
			nprob = strings.Count(term, "(Some (")
			rep.hist(fmt.Sprintf("c:removed-entries=%d", min(nrem, 5)))
			rep.hist(fmt.Sprintf("c:problems=%d", min(nprob, 3)))
			rep.count("c|"+term, nprob > 0)
			rep.Cases[fmt.Sprint(200000+i)] = c
		} else {
			rep.Notes = append(rep.Notes, fmt.Sprintf("history %d: in-process Find failed: %s %s %s", c.ID, res.ChangeErr, res.GlobErr, res.FindErr))
		}
	}
	odd := 0
	for _, c := range cases {
		for _, s := range c.History.Strata {
			rep.hist("b:stratum=" + s)
		}
		rep.hist(fmt.Sprintf("b:expected-warnings=%d", min(len(c.Expected), 4)))
		rep.hist(fmt.Sprintf("b:removed-rules=%d", min(c.Removed, 6)))
		if c.UnderScalar > 0 {
			rep.hist("b:expected-dependant-with-scalar()-subtree")
		}
		if c.NextToInvalid > 0 {
			rep.hist("b:removed-rule-whose-head-file-has-an-invalid-rule")
		}
		for _, w := range c.Expected {
			rep.hist(fmt.Sprintf("b:dependants-listed=%d", min(len(w.Deps), 5)))
		}
		if len(c.OddSpell) > 0 {
			odd++
			rep.hist("b:reading:__name__-spelling-dependant-not-listed")
		}
		rep.count(fmt.Sprintf("b|%s|%v", c.GitLog, c.Result.Reports), len(c.Expected) > 0)
		c20Check(c, rep)
		if len(rep.Samples) < 4 && len(c.Expected) > 0 {
			rep.sample(c)
		}
	}
	rep.hist(fmt.Sprintf("gen:expressions-rejected-by-the-promql-parser=%d", c20BadExprs))
	if odd > 0 {
		rep.Notes = append(rep.Notes, fmt.Sprintf("%d histories contain a remaining rule that selects a removed recorded metric only through the {__name__=\"x\"} spelling; "+
			"such rules are not listed by pint (selector Name is empty in that spelling). Reported separately as a reading of the property, not as a violation.", odd))
	}
	cw.flush()
	rep.CaseFiles = cw.files
	rep.write(filepath.Join(cwd, "report.json"))
	os.RemoveAll(base)
	return 0
}

func init() { register("C20", runC20) }
