//go:build verif

package main

import (
	"context"
	"fmt"
	"io"
	"log/slog"
	"math/rand"
	"os"
	"path/filepath"
	"strings"

	"github.com/cloudflare/pint/internal/checks"
	"github.com/cloudflare/pint/internal/diags"
	"github.com/cloudflare/pint/internal/discovery"
	"github.com/cloudflare/pint/internal/reporter"
)

// C17: pull-request commenting converges and is idempotent.
//
//  A. rounds of the REAL reporter.Submit (makeComments, dedupReports, updateDestination) against an in-memory
//     stateful Commenter: evolving report sets, foreign/stale/pre-existing comments, budgets 0..n+1, skipping
//     and law-breaking platforms -> Coq correspondence + the property's clauses checked on the real rounds
//  B. parseDiffLines / diffLineFor / GitHub fixCommentLine+IsEqual / GitLab reportToGitLabDiscussion+IsEqual on
//     generated unified diffs -> Coq correspondence + platform law L1 (create then list then IsEqual) on the real functions
//  C. (c17_servers.go) the real GitLabReporter / GithubReporter driven through Submit against in-process fake APIs.

// ------------------------------------------------------------------------------------------------
// in-memory commenter

type memComment struct {
	ID        int    `json:"id"`
	Path      string `json:"path"`
	Text      string `json:"text"`
	Line      int    `json:"line"`
	Deletable bool   `json:"deletable"`
}

type memPending struct {
	Path   string `json:"path"`
	Text   string `json:"text"`
	Line   int    `json:"line"`
	Before bool   `json:"anchor_before"`
}

type memCommenter struct {
	store  []memComment
	nextID int
	budget int
	skip   map[string]bool
	skipErr error // what the real platform code returns from Create for a comment it cannot place
	shift  bool
	// per round
	listed  []memComment
	created []memPending
	deleted []memComment
}

func (m *memCommenter) Describe() string                                  { return "mem" }
func (m *memCommenter) Destinations(context.Context) ([]any, error)       { return []any{"dst"}, nil }
func (m *memCommenter) Summary(context.Context, any, reporter.Summary, []error) error { return nil }
func (m *memCommenter) CanCreate(done int) bool                           { return done < m.budget }

func (m *memCommenter) List(context.Context, any) ([]reporter.ExistingComment, error) {
	m.listed = append([]memComment(nil), m.store...)
	out := make([]reporter.ExistingComment, 0, len(m.store))
	for _, c := range m.store {
		out = append(out, reporter.VerifNewExisting(c.Path, c.Text, c.Line, c.ID))
	}
	return out, nil
}

func (m *memCommenter) Create(_ context.Context, _ any, p reporter.PendingComment) error {
	path, text, line, before := p.VerifFields()
	m.created = append(m.created, memPending{Path: path, Text: text, Line: line, Before: before})
	if m.skip[path] {
		return m.skipErr
	}
	if m.shift && before {
		line++
	}
	m.nextID++
	m.store = append(m.store, memComment{ID: m.nextID, Path: path, Text: text, Line: line, Deletable: true})
	return nil
}

func (m *memCommenter) find(e reporter.ExistingComment) int {
	_, _, _, meta := e.VerifFields()
	for i, c := range m.store {
		if c.ID == meta.(int) {
			return i
		}
	}
	return -1
}

func (m *memCommenter) Delete(_ context.Context, _ any, e reporter.ExistingComment) error {
	if i := m.find(e); i >= 0 {
		m.deleted = append(m.deleted, m.store[i])
		m.store = append(m.store[:i:i], m.store[i+1:]...)
	}
	return nil
}

func (m *memCommenter) CanDelete(e reporter.ExistingComment) bool {
	_, _, _, meta := e.VerifFields()
	for _, c := range m.listed {
		if c.ID == meta.(int) {
			return c.Deletable
		}
	}
	return false
}

func memEqual(c memComment, p memPending) bool {
	return c.Path == p.Path && c.Line == p.Line && strings.Trim(c.Text, "\n") == strings.Trim(p.Text, "\n")
}

func (m *memCommenter) IsEqual(_ any, e reporter.ExistingComment, p reporter.PendingComment) bool {
	path, text, line, _ := e.VerifFields()
	pp, pt, pl, _ := p.VerifFields()
	return memEqual(memComment{Path: path, Text: text, Line: line}, memPending{Path: pp, Text: pt, Line: pl})
}

// ------------------------------------------------------------------------------------------------
// reports

type c17Rep struct {
	ID       int    `json:"id"`
	Name     string `json:"name"`
	Target   string `json:"target"`
	Reporter string `json:"reporter"`
	Summary  string `json:"summary"`
	Details  string `json:"details"`
	First    int    `json:"first"`
	Last     int    `json:"last"`
	Sev      int    `json:"sev"`
	Before   bool   `json:"anchor_before"`
	Modified []int  `json:"modified"`
	IsDup    bool   `json:"is_dup"`
}

func (c c17Rep) real() reporter.Report {
	a := checks.AnchorAfter
	if c.Before {
		a = checks.AnchorBefore
	}
	return reporter.Report{
		Path:          discovery.Path{Name: c.Name, SymlinkTarget: c.Target},
		Owner:         fmt.Sprintf("id%d", c.ID),
		ModifiedLines: c.Modified,
		IsDuplicate:   c.IsDup,
		Problem: checks.Problem{Reporter: c.Reporter, Summary: c.Summary, Details: c.Details,
			Lines: diags.LineRange{First: c.First, Last: c.Last}, Severity: checks.Severity(c.Sev), Anchor: a},
	}
}

func (c c17Rep) coq() string {
	ms := make([]string, len(c.Modified))
	for i, m := range c.Modified {
		ms[i] = coqZ(int64(m))
	}
	return fmt.Sprintf("{| cr_id := %s; cr_target := %s; cr_reporter := %s; cr_summary := %s; cr_details := %s; cr_lfirst := %s; cr_llast := %s; cr_sev := %s; cr_anchor_before := %s; cr_modified := %s; cr_is_dup := %s |}",
		coqN(c.ID), c17Str(c.Target), c17Str(c.Reporter), c17Str(c.Summary), c17Str(c.Details), coqZ(int64(c.First)), coqZ(int64(c.Last)),
		coqZ(int64(c.Sev)), coqBool(c.Before), coqList(ms), coqBool(c.IsDup))
}

var c17NextID int

func c17GenRep(r *rand.Rand) c17Rep {
	c17NextID++
	t := pick(r, []string{"a.yml", "b.yml", "a.yml", "c.yml"})
	name := t
	if r.Intn(8) == 0 {
		name = "link.yml"
	}
	first := 1 + r.Intn(6)
	c := c17Rep{ID: c17NextID, Name: name, Target: t, Reporter: pick(r, []string{"r/a", "r/b"}), Summary: pick(r, []string{"s1", "s2", "s3"}),
		Details: pick(r, []string{"", "", "d1", "d2"}), First: first, Last: first + r.Intn(3), Sev: r.Intn(4), Before: r.Intn(4) == 0, IsDup: r.Intn(7) == 0}
	for l := 1; l <= 9; l++ {
		if r.Intn(3) == 0 {
			c.Modified = append(c.Modified, l)
		}
	}
	if r.Intn(5) == 0 {
		c.Modified = nil
	}
	return c
}

// near copy: same group key, other message (joins the group), or same message (skipped), or moved
func c17Near(r *rand.Rand, c c17Rep) c17Rep {
	c17NextID++
	n := c
	n.ID = c17NextID
	n.Modified = append([]int(nil), c.Modified...)
	switch r.Intn(7) {
	case 0:
		n.Summary = pick(r, []string{"s1", "s2", "s3"})
	case 1:
		n.Details = pick(r, []string{"", "d1", "d2"})
	case 2: // exact same message
	case 3:
		n.Last = n.First + r.Intn(3)
	case 4:
		n.Before = !n.Before
	case 5:
		n.Sev = r.Intn(4)
	default:
		n.Modified = nil
		for l := 1; l <= 9; l++ {
			if r.Intn(2) == 0 {
				n.Modified = append(n.Modified, l)
			}
		}
	}
	return n
}

func c17GenSet(r *rand.Rand) []c17Rep {
	n := 1 + r.Intn(7)
	var out []c17Rep
	for len(out) < n {
		if len(out) > 0 && r.Intn(2) == 0 {
			out = append(out, c17Near(r, out[r.Intn(len(out))]))
		} else {
			out = append(out, c17GenRep(r))
		}
	}
	return out
}

// the report set evolves between pushes: problems appear, disappear, move
func c17Evolve(r *rand.Rand, cur []c17Rep) ([]c17Rep, string) {
	out := append([]c17Rep(nil), cur...)
	switch r.Intn(10) {
	case 0, 1, 2, 3:
		return out, "unchanged"
	case 4, 5:
		if len(out) > 0 {
			i := r.Intn(len(out))
			out = append(out[:i:i], out[i+1:]...)
		}
		return out, "disappear"
	case 6, 7:
		if len(out) > 0 && r.Intn(2) == 0 {
			return append(out, c17Near(r, out[r.Intn(len(out))])), "appear-near"
		}
		return append(out, c17GenRep(r)), "appear"
	case 8:
		if len(out) > 0 {
			i := r.Intn(len(out))
			c := out[i]
			c.First++
			c.Last++
			out[i] = c
		}
		return out, "move"
	default:
		return c17GenSet(r), "replaced"
	}
}

// ------------------------------------------------------------------------------------------------

type c17Round struct {
	Reports  []c17Rep     `json:"reports"`
	ShowDups bool         `json:"show_dups"`
	Change   string       `json:"change"`
	Pending  []memPending `json:"pending"`
	Members  [][]int      `json:"members"`
	Store    []memComment `json:"store_before"`
	Created  []memPending `json:"created"`
	Deleted  []memComment `json:"deleted"`
	After    []memComment `json:"store_after"`
}

type c17Scenario struct {
	Budget int         `json:"budget"`
	Skip   []string    `json:"skip_paths"`
	Shift  bool        `json:"law_breaking_platform"`
	Rounds []c17Round  `json:"rounds"`
}

type textIDs struct{ m map[string]int }

func (t *textIDs) id(s string) int {
	s = strings.Trim(s, "\n")
	if v, ok := t.m[s]; ok {
		return v
	}
	t.m[s] = len(t.m)
	return t.m[s]
}

func c17CoqStore(t *textIDs, cs []memComment) string {
	out := make([]string, len(cs))
	for i, c := range cs {
		out[i] = fmt.Sprintf("{| mc_path := %s; mc_line := %s; mc_text := %s; mc_deletable := %s |}", c17Str(c.Path), coqZ(int64(c.Line)), coqN(t.id(c.Text)), coqBool(c.Deletable))
	}
	return coqList(out)
}

func c17CoqPending(t *textIDs, p memPending) string {
	return fmt.Sprintf("{| mp_path := %s; mp_line := %s; mp_anchor_before := %s; mp_text := %s |}", c17Str(p.Path), coqZ(int64(p.Line)), coqBool(p.Before), coqN(t.id(p.Text)))
}

func c17RunRound(m *memCommenter, reps []c17Rep, showDups bool, change string) (rd c17Round, err error) {
	rd = c17Round{Reports: reps, ShowDups: showDups, Change: change}
	real := make([]reporter.Report, len(reps))
	for i, c := range reps {
		real[i] = c.real()
	}
	s := reporter.NewSummary(real)
	for _, p := range reporter.VerifMakeComments(s, showDups) {
		path, text, line, before := p.VerifFields()
		rd.Pending = append(rd.Pending, memPending{Path: path, Text: text, Line: line, Before: before})
	}
	for _, g := range reporter.VerifDedupReports(real, showDups) {
		var ids []int
		for _, x := range g {
			var id int
			fmt.Sscanf(x.Owner, "id%d", &id)
			ids = append(ids, id)
		}
		rd.Members = append(rd.Members, ids)
	}
	m.listed, m.created, m.deleted = nil, nil, nil
	err = reporter.Submit(context.Background(), s, m, showDups)
	rd.Store = m.listed
	rd.Created = m.created
	rd.Deleted = m.deleted
	rd.After = append([]memComment(nil), m.store...)
	return rd, err
}

func coveredBy(store []memComment, p memPending) bool {
	for _, c := range store {
		if memEqual(c, p) {
			return true
		}
	}
	return false
}

func samePending(a, b memPending) bool { return a == b }

// c17Oracle checks the property's clauses directly on the real rounds.  Returns "" or a description.
func c17Oracle(sc c17Scenario) (int, string) {
	skip := map[string]bool{}
	for _, p := range sc.Skip {
		skip[p] = true
	}
	for k, rd := range sc.Rounds {
		if len(rd.Pending) != len(rd.Members) {
			return k, "makeComments and dedupReports disagree on the number of comments"
		}
		// grouping: one pending comment per (severity, reporter, target, lines, anchor); it carries every member's text
		byID := map[int]c17Rep{}
		for _, c := range rd.Reports {
			byID[c.ID] = c
		}
		keys := map[string]int{}
		for gi, g := range rd.Members {
			h := byID[g[0]]
			key := fmt.Sprintf("%d|%s|%s|%d|%d|%v", h.Sev, h.Reporter, h.Target, h.First, h.Last, h.Before)
			if _, dup := keys[key]; dup {
				return k, "two pending comments for one (severity, reporter, path, lines, anchor): " + key
			}
			keys[key] = gi
			// line choice: the last modified line inside the problem's lines, else its last line
			exp := h.Last
			for i := h.Last; i >= h.First; i-- {
				found := false
				for _, m := range h.Modified {
					if m == i {
						found = true
					}
				}
				if found {
					exp = i
					break
				}
			}
			if rd.Pending[gi].Line != exp {
				return k, fmt.Sprintf("the comment for report %d (lines %d-%d, modified %v) is placed on line %d instead of %d", h.ID, h.First, h.Last, h.Modified, rd.Pending[gi].Line, exp)
			}
		}
		for _, c := range rd.Reports {
			if c.IsDup && !rd.ShowDups {
				continue
			}
			key := fmt.Sprintf("%d|%s|%s|%d|%d|%v", c.Sev, c.Reporter, c.Target, c.First, c.Last, c.Before)
			gi, ok := keys[key]
			if !ok {
				return k, fmt.Sprintf("report %d has no pending comment", c.ID)
			}
			p := rd.Pending[gi]
			if !strings.Contains(p.Text, c.Summary) || !strings.Contains(p.Text, c.Details) || p.Path != c.Target {
				return k, fmt.Sprintf("the pending comment for report %d does not carry its text at its file", c.ID)
			}
			if p.Line < c.First || p.Line > c.Last {
				return k, fmt.Sprintf("the pending comment for report %d is on line %d outside %d-%d", c.ID, p.Line, c.First, c.Last)
			}
		}
		// budget: comments actually placed (a Create the platform answers with its "cannot be placed" signal is free)
		placed := 0
		for _, p := range rd.Created {
			if !skip[p.Path] {
				placed++
			}
		}
		if placed > sc.Budget {
			return k, fmt.Sprintf("%d comments created with maxComments=%d", placed, sc.Budget)
		}
		for _, p := range rd.Created {
			if coveredBy(rd.Store, p) {
				return k, "a comment equal to one that already existed was created"
			}
		}
		// covered or deferred
		deferred := 0
		for _, p := range rd.Pending {
			wasCreated := false
			for _, q := range rd.Created {
				if samePending(p, q) {
					wasCreated = true
				}
			}
			if !coveredBy(rd.Store, p) && !wasCreated {
				deferred++
				if placed < sc.Budget {
					return k, fmt.Sprintf("a pending comment (%s:%d) was neither recognised, created nor refused by the budget (%d placed, maxComments=%d)", p.Path, p.Line, placed, sc.Budget)
				}
			}
			if !coveredBy(rd.After, p) && !sc.Shift && !skip[p.Path] {
				if wasCreated || coveredBy(rd.Store, p) {
					return k, "a recognised/created comment is not in the store after the run"
				}
			}
		}
		// stale removed, others untouched
		for _, c := range rd.Store {
			eq := false
			for _, p := range rd.Pending {
				if memEqual(c, p) {
					eq = true
				}
			}
			present := false
			for _, a := range rd.After {
				if a.ID == c.ID {
					present = true
				}
			}
			if c.Deletable && !eq && present {
				return k, "a deletable comment that corresponds to no problem was not removed"
			}
			if (!c.Deletable || eq) && !present {
				return k, "a comment that still corresponds to a problem (or is not pint's to delete) was removed"
			}
		}
		// idempotence: once no comment that can be placed was deferred, a run with unchanged results places and deletes nothing
		if k > 0 && rd.Change == "unchanged" && !sc.Shift {
			prev := sc.Rounds[k-1]
			prevDeferred := false
			for _, p := range prev.Pending {
				if !coveredBy(prev.After, p) && !skip[p.Path] {
					prevDeferred = true
				}
			}
			if !prevDeferred && prev.ShowDups == rd.ShowDups && (placed > 0 || len(rd.Deleted) > 0) {
				return k, fmt.Sprintf("nothing that can be placed was deferred in the previous run, results are unchanged, yet this run created %d and deleted %d comment(s)", placed, len(rd.Deleted))
			}
			if !prevDeferred && prev.ShowDups == rd.ShowDups && fmt.Sprint(rd.After) != fmt.Sprint(prev.After) {
				return k, "nothing that can be placed was deferred in the previous run, results are unchanged, yet the comment store changed"
			}
		}
		_ = deferred
	}
	return -1, ""
}

// ------------------------------------------------------------------------------------------------

func runC17(args []string) int {
	n := argInt(args, "--n", 200)
	ndiff := argInt(args, "--diffs", 150)
	nsrv := argInt(args, "--servers", 30)
	nbb := argInt(args, "--bitbucket", 60)
	seed := seedFromEnv()
	r := rand.New(rand.NewSource(seed))
	rep := newReport("C17", seed)
	rep.Rule = "case = one multi-round scenario of the real reporter.Submit against a stateful in-memory Commenter (evolving reports, foreign/stale/equal " +
		"initial comments, budget 0..n+1, skipped paths, a law-breaking platform), or one generated unified diff with queries to parseDiffLines/diffLineFor/" +
		"fixCommentLine/reportToGitLabDiscussion/IsEqual, or one multi-round run of the real GitLab/GitHub reporter against an in-process fake API; " +
		"non-trivial = at least one comment created or deleted (rounds) / at least one removed and one added line (diffs); distinct = scenario content"
	slog.SetDefault(slog.New(slog.NewTextHandler(io.Discard, nil)))
	cwd, _ := os.Getwd()
	shard := 12
	if n > 1000 {
		shard = 36 // thorough tier: fewer, larger case files (coqc start-up dominates small ones)
	}
	cw := newCaseWriter(cwd, "Run.C17", shard)
	cw.preamble = "Open Scope N_scope.\n"
	caseID := 0

	// ---- A. rounds ------------------------------------------------------------------------------
	for k := 0; k < n; k++ {
		texts := &textIDs{m: map[string]int{}}
		reps := c17GenSet(r)
		showDups := r.Intn(4) == 0
		m := &memCommenter{skip: map[string]bool{}}
		sc := c17Scenario{}
		// what the first run would post, to seed the store with equal / near-equal / stale / foreign comments
		first, _ := c17RunRound(&memCommenter{budget: 0, skip: map[string]bool{}}, reps, showDups, "probe")
		for _, p := range first.Pending {
			switch r.Intn(10) {
			case 0:
				m.nextID++
				m.store = append(m.store, memComment{ID: m.nextID, Path: p.Path, Text: p.Text, Line: p.Line, Deletable: r.Intn(3) > 0})
			case 1:
				m.nextID++
				m.store = append(m.store, memComment{ID: m.nextID, Path: p.Path, Text: "\n\n" + p.Text + "\n", Line: p.Line, Deletable: true})
			case 2:
				m.nextID++
				m.store = append(m.store, memComment{ID: m.nextID, Path: p.Path, Text: p.Text, Line: p.Line + 1, Deletable: r.Intn(2) == 0}) // stale: other line
			case 3:
				m.nextID++
				m.store = append(m.store, memComment{ID: m.nextID, Path: p.Path, Text: p.Text + " edited", Line: p.Line, Deletable: true}) // stale: other text
			case 4:
				m.nextID++
				m.store = append(m.store, memComment{ID: m.nextID, Path: pick(r, []string{"a.yml", "b.yml", "c.yml", "moved/" + p.Path}), Text: p.Text, Line: p.Line, Deletable: r.Intn(2) == 0}) // other (or, by chance, the same) path
			case 5:
				m.nextID++
				m.store = append(m.store, memComment{ID: m.nextID, Path: p.Path, Text: p.Text, Line: 0, Deletable: r.Intn(2) == 0}) // a comment without a line
			}
		}
		for i := r.Intn(3); i > 0; i-- {
			m.nextID++
			m.store = append(m.store, memComment{ID: m.nextID, Path: pick(r, []string{"a.yml", "zzz.yml"}), Text: "a human wrote this", Line: 1 + r.Intn(5), Deletable: false})
		}
		npend := len(first.Pending)
		m.budget = r.Intn(npend + 2)
		if r.Intn(3) == 0 {
			m.budget = 1 + r.Intn(2)
		}
		if r.Intn(4) == 0 {
			// a platform that cannot place comments on one of the paths (not part of the pull request); the path is any of
			// the reported ones, so the unplaceable comments come first, in the middle or last in the pending list
			sp := pick(r, []string{"a.yml", "b.yml", "c.yml"})
			m.skip[sp] = true
			m.skipErr = reporter.VerifSkipSignal(r.Intn(2) == 0)
			sc.Skip = []string{sp}
		}
		if r.Intn(10) == 0 {
			m.shift = true
		}
		sc.Budget, sc.Shift = m.budget, m.shift
		nrounds := 2 + r.Intn(4)
		if r.Intn(4) == 0 { // convergence streak: unchanged reports until the budget has let everything through
			nrounds = npend + 2
		}
		change := "initial"
		for q := 0; q < nrounds; q++ {
			rd, err := c17RunRound(m, reps, showDups, change)
			if err != nil {
				rep.fail(fmt.Sprint(caseID), "Submit returned an error against the in-memory commenter: "+err.Error(), sc)
			}
			sc.Rounds = append(sc.Rounds, rd)
			rep.hist("round:" + change)
			if nrounds == npend+2 {
				change = "unchanged"
			} else {
				reps, change = c17Evolve(r, reps)
			}
		}
		// convergence on the streak: n = pending comments that are uncovered at the start and CAN be placed; run ceil(n/m)
		// defers none of them, so every later run places and deletes nothing and all of them are covered - also when
		// other pending comments cannot be placed at all (they must not cost budget)
		if nrounds == npend+2 && !sc.Shift && sc.Budget >= 1 {
			rep.hist("convergence-streak")
			if len(sc.Skip) > 0 {
				rep.hist("convergence-streak:with-unplaceable")
			}
			unc := 0
			for _, p := range sc.Rounds[0].Pending {
				if !coveredBy(sc.Rounds[0].Store, p) && !m.skip[p.Path] {
					unc++
				}
			}
			need := (unc + sc.Budget - 1) / sc.Budget
			for q := need; q < len(sc.Rounds); q++ {
				rd := sc.Rounds[q]
				placed := 0
				for _, p := range rd.Created {
					if !m.skip[p.Path] {
						placed++
					}
				}
				if placed > 0 || (q >= 1 && len(rd.Deleted) > 0) {
					rep.fail(fmt.Sprint(caseID), fmt.Sprintf("%d uncovered placeable comments, maxComments=%d: run %d still creates or deletes comments", unc, sc.Budget, q+1), sc)
					break
				}
			}
			last := sc.Rounds[len(sc.Rounds)-1]
			for _, p := range last.Pending {
				if !m.skip[p.Path] && !coveredBy(last.After, p) {
					rep.fail(fmt.Sprint(caseID), fmt.Sprintf("%d uncovered placeable comments, maxComments=%d: after %d runs with unchanged results the problem on %s:%d still has no comment", unc, sc.Budget, len(sc.Rounds), p.Path, p.Line), sc)
					break
				}
			}
		}
		if rk, what := c17Oracle(sc); what != "" {
			rep.fail(fmt.Sprint(caseID), fmt.Sprintf("round %d: %s", rk+1, what), sc)
		}
		// Coq term
		var rs []string
		acts := 0
		for _, rd := range sc.Rounds {
			reps := make([]string, len(rd.Reports))
			for i, c := range rd.Reports {
				reps[i] = c.coq()
			}
			ps := make([]string, len(rd.Pending))
			for i, p := range rd.Pending {
				ms := make([]string, len(rd.Members[i]))
				for j, id := range rd.Members[i] {
					ms[j] = coqN(id)
				}
				ps[i] = fmt.Sprintf("{| op_p := %s; op_members := %s |}", c17CoqPending(texts, p), coqList(ms))
			}
			cs := make([]string, len(rd.Created))
			for i, p := range rd.Created {
				cs[i] = c17CoqPending(texts, p)
			}
			acts += len(rd.Created) + len(rd.Deleted)
			rs = append(rs, fmt.Sprintf("{| rd_reports := %s; rd_show_dups := %s; rd_pending := %s; rd_store := %s; rd_created := %s; rd_deleted := %s; rd_after := %s |}",
				coqList(reps), coqBool(rd.ShowDups), coqList(ps), c17CoqStore(texts, rd.Store), coqList(cs), c17CoqStore(texts, rd.Deleted), c17CoqStore(texts, rd.After)))
		}
		cw.add(fmt.Sprintf("Rounds %s {| m_budget := %s; m_skip := %s; m_shift := %s |} %s", coqN(caseID), coqNat(sc.Budget), coqStrList(sc.Skip), coqBool(sc.Shift), coqList(rs)))
		rep.count(fmt.Sprintf("%+v", sc), acts > 0)
		rep.hist("kind=rounds")
		rep.hist(fmt.Sprintf("budget=%d", min(sc.Budget, 5)))
		if sc.Shift {
			rep.hist("platform=law-breaking")
		}
		if len(sc.Skip) > 0 {
			rep.hist("platform=skipping")
		}
		if len(rep.Cases) < 300 {
			rep.Cases[fmt.Sprint(caseID)] = sc
		}
		if acts > 0 {
			rep.sample(map[string]any{"kind": "rounds", "budget": sc.Budget, "rounds": len(sc.Rounds), "creates+deletes": acts})
		}
		caseID++
	}

	// ---- B. diffs ---------------------------------------------------------------------------------
	caseID = c17Diffs(r, rep, cw, caseID, ndiff)

	// ---- C. real reporters against fake APIs --------------------------------------------------------
	c17Servers(r, rep, cw, caseID, nsrv)

	// ---- D. BitBucket's own reconciliation -------------------------------------------------------------
	c17BitBucket(r, rep, cw, caseID+nsrv, nbb)
	c17BitBucketListing(r, rep, nbb)

	cw.flush()
	rep.CaseFiles = cw.files
	rep.write(filepath.Join(cwd, "report.json"))
	return 0
}

func init() { register("C17", runC17) }
