//go:build verif

package main

import (
	"context"
	"encoding/json"
	"fmt"
	"io"
	"math/rand"
	"net/http"
	"net/http/httptest"
	"regexp"
	"strconv"
	"strings"
	"sync"
	"time"

	"github.com/cloudflare/pint/internal/reporter"
)

// C. the REAL GitLabReporter / GithubReporter driven through the REAL Submit against in-process fake APIs that
// store and return what they are sent (position/line/body are echoed; this is the "echo" assumption of
// Model/Platforms.v, here it is the fake's behaviour).

// Files of the pull / merge request besides the main one (old path, new path, diff): files WITHOUT a patch (pure rename,
// binary, too large: GitHub omits "patch", GitLab sends an empty diff).  Set per scenario by c17Servers; listed before or
// after the main file.
var c17SrvExtra [][3]string
var c17SrvExtraFirst bool

func c17AllFiles(path, diff string) [][3]string {
	main := [][3]string{{path, path, diff}}
	if c17SrvExtraFirst {
		return append(append([][3]string{}, c17SrvExtra...), main...)
	}
	return append(main, c17SrvExtra...)
}

// ---- fake GitLab ------------------------------------------------------------------------------------

type glNote struct {
	DiscID   string
	NoteID   int
	AuthorID int
	System   bool
	Body     string
	HasPos   bool
	OldPath  string
	NewPath  string
	NewLine  int
	OldLine  int
	SentNew  bool // the line was present in the request that created the note (also when it was 0)
	SentOld  bool
}

type fakeGitLab struct {
	mu      sync.Mutex
	diffs   [][3]string // old, new, diff
	notes   []glNote
	next    int
	posts   []glNote
	deletes []int
	// pagination of list endpoints (20 per page): which of the legal header combinations the server sends
	sendTotals    bool // X-Total and X-Total-Pages present (GitLab omits them for big collections)
	nextEmptyLast bool // on the last page: "X-Next-Page:" sent empty (true) or not sent at all (false)
	pagesServed   int
}

// glPage writes the pagination headers for a list of n items and returns the slice bounds of the requested page.
func (f *fakeGitLab) glPage(w http.ResponseWriter, r *http.Request, n int) (int, int) {
	const per = 20
	page, _ := strconv.Atoi(r.URL.Query().Get("page"))
	if page < 1 {
		page = 1
	}
	pages := (n + per - 1) / per
	if pages == 0 {
		pages = 1
	}
	w.Header().Set("X-Page", strconv.Itoa(page))
	w.Header().Set("X-Per-Page", strconv.Itoa(per))
	if f.sendTotals {
		w.Header().Set("X-Total", strconv.Itoa(n))
		w.Header().Set("X-Total-Pages", strconv.Itoa(pages))
	}
	if page < pages {
		w.Header().Set("X-Next-Page", strconv.Itoa(page+1))
	} else if f.nextEmptyLast {
		w.Header().Set("X-Next-Page", "")
	}
	if page > 1 {
		w.Header().Set("X-Prev-Page", strconv.Itoa(page-1))
	}
	f.pagesServed++
	lo, hi := (page-1)*per, page*per
	if lo > n {
		lo = n
	}
	if hi > n {
		hi = n
	}
	return lo, hi
}

var glDiscRe = regexp.MustCompile(`^/api/v4/projects/1/merge_requests/1/discussions/([^/]+)/notes/(\d+)$`)

func (f *fakeGitLab) ServeHTTP(w http.ResponseWriter, r *http.Request) {
	f.mu.Lock()
	defer f.mu.Unlock()
	w.Header().Set("Content-Type", "application/json")
	switch {
	case r.URL.Path == "/api/v4/user":
		io.WriteString(w, `{"id": 7}`)
	case r.URL.Path == "/api/v4/projects/1/merge_requests" && r.Method == http.MethodGet:
		io.WriteString(w, `[{"iid":1}]`)
	case r.URL.Path == "/api/v4/projects/1/merge_requests/1/versions":
		io.WriteString(w, `[{"id":1,"head_commit_sha":"head","base_commit_sha":"base","start_commit_sha":"start"}]`)
	case r.URL.Path == "/api/v4/projects/1/merge_requests/1/diffs":
		var out []map[string]any
		lo, hi := f.glPage(w, r, len(f.diffs))
		for _, d := range f.diffs[lo:hi] {
			out = append(out, map[string]any{"old_path": d[0], "new_path": d[1], "diff": d[2]})
		}
		if out == nil {
			out = []map[string]any{}
		}
		json.NewEncoder(w).Encode(out)
	case r.URL.Path == "/api/v4/projects/1/merge_requests/1/discussions" && r.Method == http.MethodGet:
		out := []map[string]any{}
		lo, hi := f.glPage(w, r, len(f.notes))
		for _, n := range f.notes[lo:hi] {
			note := map[string]any{"id": n.NoteID, "system": n.System, "author": map[string]any{"id": n.AuthorID}, "body": n.Body}
			if n.HasPos {
				pos := map[string]any{"base_sha": "base", "start_sha": "start", "head_sha": "head", "old_path": n.OldPath, "new_path": n.NewPath, "position_type": "text"}
				if n.NewLine != 0 {
					pos["new_line"] = n.NewLine
				}
				if n.OldLine != 0 {
					pos["old_line"] = n.OldLine
				}
				note["position"] = pos
			}
			out = append(out, map[string]any{"id": n.DiscID, "notes": []any{note}})
		}
		json.NewEncoder(w).Encode(out)
	case r.URL.Path == "/api/v4/projects/1/merge_requests/1/discussions" && r.Method == http.MethodPost:
		var req struct {
			Body     string `json:"body"`
			Position *struct {
				OldPath string `json:"old_path"`
				NewPath string `json:"new_path"`
				NewLine *int   `json:"new_line"`
				OldLine *int   `json:"old_line"`
			} `json:"position"`
		}
		b, _ := io.ReadAll(r.Body)
		if err := json.Unmarshal(b, &req); err != nil {
			w.WriteHeader(400)
			return
		}
		f.next++
		n := glNote{DiscID: fmt.Sprintf("d%d", f.next), NoteID: f.next, AuthorID: 7, Body: req.Body}
		if req.Position != nil {
			n.HasPos = true
			n.OldPath, n.NewPath = req.Position.OldPath, req.Position.NewPath
			if req.Position.NewLine != nil {
				n.NewLine, n.SentNew = *req.Position.NewLine, true
			}
			if req.Position.OldLine != nil {
				n.OldLine, n.SentOld = *req.Position.OldLine, true
			}
		}
		f.notes = append(f.notes, n)
		f.posts = append(f.posts, n)
		w.WriteHeader(201)
		io.WriteString(w, `{"id":"`+n.DiscID+`","notes":[]}`)
	case r.Method == http.MethodDelete && glDiscRe.MatchString(r.URL.Path):
		m := glDiscRe.FindStringSubmatch(r.URL.Path)
		id, _ := strconv.Atoi(m[2])
		for i, n := range f.notes {
			if n.NoteID == id {
				f.notes = append(f.notes[:i:i], f.notes[i+1:]...)
				break
			}
		}
		f.deletes = append(f.deletes, id)
		w.WriteHeader(204)
	default:
		w.WriteHeader(404)
		io.WriteString(w, `{}`)
	}
}

// ---- fake GitHub ------------------------------------------------------------------------------------

type ghComment struct {
	ID   int64  `json:"id"`
	Path string `json:"path"`
	Line int    `json:"line"`
	Side string `json:"side"`
	Body string `json:"body"`
	// GitHub marked the comment OUTDATED (the hunk it was attached to was rewritten by a later push): "line": null
	Outdated bool `json:"-"`
}

// what the API returns for a comment
func (c ghComment) wire() map[string]any {
	m := map[string]any{"id": c.ID, "path": c.Path, "side": c.Side, "body": c.Body, "line": c.Line}
	if c.Outdated {
		m["line"] = nil
	}
	return m
}

type fakeGitHub struct {
	mu       sync.Mutex
	files    [][2]string
	comments []ghComment
	next     int64
	posts    []ghComment
	reviews  int
	general  []string
}

// ghPage: GitHub's Link-header pagination (per_page from the request, default 30 like the real API)
func ghPage(w http.ResponseWriter, r *http.Request, n int) (int, int) {
	per, _ := strconv.Atoi(r.URL.Query().Get("per_page"))
	if per < 1 || per > 100 {
		per = 30
	}
	page, _ := strconv.Atoi(r.URL.Query().Get("page"))
	if page < 1 {
		page = 1
	}
	if page*per < n {
		w.Header().Set("Link", fmt.Sprintf(`<http://%s%s?page=%d&per_page=%d>; rel="next", <http://%s%s?page=%d&per_page=%d>; rel="last"`,
			r.Host, r.URL.Path, page+1, per, r.Host, r.URL.Path, (n+per-1)/per, per))
	}
	lo, hi := (page-1)*per, page*per
	if lo > n {
		lo = n
	}
	if hi > n {
		hi = n
	}
	return lo, hi
}

func (f *fakeGitHub) ServeHTTP(w http.ResponseWriter, r *http.Request) {
	f.mu.Lock()
	defer f.mu.Unlock()
	w.Header().Set("Content-Type", "application/json")
	p := strings.TrimPrefix(r.URL.Path, "/api/v3")
	switch {
	case p == "/repos/o/r/pulls/1/files":
		out := []map[string]any{}
		lo, hi := ghPage(w, r, len(f.files))
		for _, fl := range f.files[lo:hi] {
			m := map[string]any{"filename": fl[0], "status": "modified"}
			if fl[1] != "" {
				m["patch"] = fl[1]
			} else {
				m["status"] = "renamed" // pure rename / binary / too large: the API sends no patch
			}
			out = append(out, m)
		}
		json.NewEncoder(w).Encode(out)
	case p == "/repos/o/r/pulls/1/comments" && r.Method == http.MethodGet:
		out := []map[string]any{}
		lo, hi := ghPage(w, r, len(f.comments))
		for _, c := range f.comments[lo:hi] {
			out = append(out, c.wire())
		}
		json.NewEncoder(w).Encode(out)
	case p == "/repos/o/r/pulls/1/comments" && r.Method == http.MethodPost:
		var c ghComment
		b, _ := io.ReadAll(r.Body)
		if err := json.Unmarshal(b, &c); err != nil {
			w.WriteHeader(400)
			return
		}
		f.next++
		c.ID = f.next
		f.comments = append(f.comments, c)
		f.posts = append(f.posts, c)
		w.WriteHeader(201)
		json.NewEncoder(w).Encode(c)
	case p == "/repos/o/r/pulls/1/reviews" && r.Method == http.MethodGet:
		if f.reviews == 0 {
			io.WriteString(w, `[]`)
		} else {
			io.WriteString(w, `[{"id":1,"body":"### This pull request was validated by [pint](https://github.com/cloudflare/pint).\n"}]`)
		}
	case p == "/repos/o/r/pulls/1/reviews" && r.Method == http.MethodPost:
		f.reviews++
		io.WriteString(w, `{"id":1}`)
	case strings.HasPrefix(p, "/repos/o/r/pulls/1/reviews/") && r.Method == http.MethodPut:
		io.WriteString(w, `{"id":1}`)
	case p == "/repos/o/r/issues/1/comments" && r.Method == http.MethodGet:
		out := []map[string]any{}
		glo, ghi := ghPage(w, r, len(f.general))
		for i, g := range f.general[glo:ghi] {
			i += glo
			var c struct {
				Body string `json:"body"`
			}
			_ = json.Unmarshal([]byte(g), &c)
			out = append(out, map[string]any{"id": 1000 + i, "body": c.Body})
		}
		json.NewEncoder(w).Encode(out)
	case p == "/repos/o/r/issues/1/comments" && r.Method == http.MethodPost:
		b, _ := io.ReadAll(r.Body)
		f.general = append(f.general, string(b))
		w.WriteHeader(201)
		io.WriteString(w, `{"id":1}`)
	default:
		w.WriteHeader(404)
		io.WriteString(w, `{}`)
	}
}

// ---- scenarios ----------------------------------------------------------------------------------------

type c17SrvRound struct {
	General int      `json:"general_comments_posted"`
	Posts   int      `json:"posts"`
	Deletes int      `json:"deletes"`
	Store   int      `json:"store_size"`
	View    []string `json:"-"` // Coq ecomment terms of what List returns after the round
}

func c17ServerCase(cid int, gitlab bool, path, diff string, budget int, pend []memPending, nreports int, tooManyMsg string, store0 []string, rounds []c17SrvRound) string {
	ps := make([]string, len(pend))
	for i, p := range pend {
		ps[i] = coqPC(p)
	}
	rs := make([]string, len(rounds))
	for i, rd := range rounds {
		rs[i] = fmt.Sprintf("(%s, %s, %s)", coqNat(rd.Posts), coqNat(rd.Deletes), coqList(rd.View))
	}
	extra := ""
	ctor := "ServerGH"
	if gitlab {
		ctor = "ServerGL"
		extra = fmt.Sprintf(" %s %s", coqNat(nreports), c17Str(tooManyMsg))
	}
	var ds []string
	for _, d := range c17AllFiles(path, diff) {
		ds = append(ds, fmt.Sprintf("{| gd_old_path := %s; gd_new_path := %s; gd_diff := %s |}", c17Str(d[0]), c17Str(d[1]), c17Str(d[2])))
	}
	return fmt.Sprintf("%s %s %s %s %s%s %s %s",
		ctor, coqN(cid), coqList(ds), coqNat(budget), coqList(ps), extra, coqList(store0), coqList(rs))
}

// glRaw: EVERYTHING the fake GitLab holds, as Model.Platforms.gl_note terms (a line the API omits - 0 here - is None)
func glRaw(notes []glNote) []string {
	optLine := func(l int, sent bool) string {
		if l == 0 && !sent {
			return "None"
		}
		return "(Some " + coqZ(int64(l)) + ")"
	}
	var out []string
	for _, nn := range notes {
		pos := "None"
		if nn.HasPos {
			pos = fmt.Sprintf("(Some {| gp_old_path := %s; gp_new_path := %s; gp_new_line := %s; gp_old_line := %s |})", c17Str(nn.OldPath), c17Str(nn.NewPath), optLine(nn.NewLine, nn.SentNew), optLine(nn.OldLine, nn.SentOld))
		}
		out = append(out, fmt.Sprintf("{| gn_system := %s; gn_mine := %s; gn_pos := %s; gn_body := %s |}", coqBool(nn.System), coqBool(nn.AuthorID == 7), pos, c17Str(nn.Body)))
	}
	return out
}

// ghRaw: every comment the fake GitHub lists, general ones (no path) included
func ghRaw(cs []ghComment) []string {
	var out []string
	for _, c := range cs {
		line := c.Line
		if c.Outdated {
			line = 0 // what List reports for "line": null
		}
		out = append(out, coqEC(c.Path, line, c.Body))
	}
	return out
}

type c17SrvScenario struct {
	Platform string        `json:"platform"`
	Diff     string        `json:"diff"`
	Path     string        `json:"path"`
	Budget   int           `json:"max_comments"`
	Reports  []c17Rep      `json:"reports"`
	Pending  []memPending  `json:"pending"`
	Initial  []string      `json:"initial_comments,omitempty"`
	Rounds   []c17SrvRound `json:"rounds"`
	Store    any           `json:"final_store,omitempty"`
}

func c17SrvReports(r *rand.Rand, path string, maxLine int, allowOutside bool) []c17Rep {
	n := 1 + r.Intn(5)
	var out []c17Rep
	for i := 0; i < n; i++ {
		c := c17GenRep(r)
		c.Name, c.Target = path, path
		if allowOutside && r.Intn(5) == 0 {
			c.Name, c.Target = "rules/not-in-pr.yml", "rules/not-in-pr.yml"
		}
		c.First = 1 + r.Intn(maxLine+2)
		c.Last = c.First + r.Intn(3)
		c.IsDup = false
		c.Before = r.Intn(3) == 0
		out = append(out, c)
	}
	return out
}

func c17Pending(reps []c17Rep) (reporter.Summary, []memPending) {
	real := make([]reporter.Report, len(reps))
	for i, c := range reps {
		real[i] = c.real()
	}
	s := reporter.NewSummary(real)
	var ps []memPending
	for _, p := range reporter.VerifMakeComments(s, false) {
		path, text, line, before := p.VerifFields()
		ps = append(ps, memPending{Path: path, Text: text, Line: line, Before: before})
	}
	return s, ps
}

func c17Servers(r *rand.Rand, rep *runReport, cw *caseWriter, id0 int, n int) {
	for k := 0; k < n; k++ {
		diff, kind, _, _ := c17GenDiff(r)
		if k == 0 {
			diff, kind = "@@ -3,7 +3,5 @@\n context 3\n context 4\n context 5\n-removed 6\n-removed 7\n context 8\n context 9\n", "corpus-removed-6-7"
		}
		maxNew := 0
		for _, d := range reporter.VerifParseDiffLines(diff) {
			if d.New > maxNew {
				maxNew = d.New
			}
		}
		path := "rules/a.yml"
		starve := k%5 == 4 // scenarios that include problems on a path outside the pull request
		reps := c17SrvReports(r, path, maxNew, starve)
		if k == 0 {
			reps = []c17Rep{{ID: 1, Name: path, Target: path, Reporter: "rule/dependency", Summary: "removed rule is used", First: 6, Last: 7, Sev: 1, Before: true}}
		}
		summary, pend := c17Pending(reps)
		budget := 1 + r.Intn(len(pend)+1)
		if k == 0 {
			budget = 50
		}
		if k == 1 || k == 2 {
			// corpus: a problem on a path outside the pull request comes first, maxComments = 1
			diff, kind = "@@ -1,1 +1,2 @@\n ctx\n+new\n", "corpus-outside-first"
			reps = []c17Rep{
				{ID: 1, Name: "rules/not-in-pr.yml", Target: "rules/not-in-pr.yml", Reporter: "r/a", Summary: "first", First: 2, Last: 2, Sev: 1},
				{ID: 2, Name: path, Target: path, Reporter: "r/a", Summary: "second", First: 2, Last: 2, Sev: 1, Modified: []int{2}},
			}
			summary, pend = c17Pending(reps)
			budget = 1
		}
		if k == 3 || k == 4 {
			// corpus: more problems than maxComments (the general "too many comments" comment must not be repeated forever)
			diff, kind = "@@ -1,1 +1,4 @@\n ctx\n+new2\n+new3\n+new4\n", "corpus-too-many"
			reps = nil
			for l := 2; l <= 4; l++ {
				reps = append(reps, c17Rep{ID: l, Name: path, Target: path, Reporter: "r/a", Summary: fmt.Sprintf("p%d", l), First: l, Last: l, Sev: 1, Modified: []int{l}})
			}
			summary, pend = c17Pending(reps)
			budget = 1
		}
		// files of the PR: with a patch (the main one) / WITHOUT a patch / not in the PR at all (starve above), problems on them
		// sorted before or after the placeable ones, small budgets
		c17SrvExtra, c17SrvExtraFirst = nil, false
		if k == 5 || k == 6 {
			// corpus: two problems on a renamed file (in the PR, no patch) come first, one problem on a changed file, maxComments = 2
			diff, kind = "@@ -1,1 +1,2 @@\n ctx\n+new\n", "corpus-renamed-file-first"
			c17SrvExtra, c17SrvExtraFirst = [][3]string{{"rules/old-name.yml", "rules/0-renamed.yml", ""}}, true
			reps = []c17Rep{
				{ID: 1, Name: "rules/0-renamed.yml", Target: "rules/0-renamed.yml", Reporter: "r/a", Summary: "first", First: 2, Last: 2, Sev: 1},
				{ID: 2, Name: "rules/0-renamed.yml", Target: "rules/0-renamed.yml", Reporter: "r/a", Summary: "second", First: 5, Last: 5, Sev: 1},
				{ID: 3, Name: path, Target: path, Reporter: "r/a", Summary: "third", First: 2, Last: 2, Sev: 1, Modified: []int{2}},
			}
			summary, pend = c17Pending(reps)
			budget = 2
		} else if k > 6 && r.Intn(3) == 0 {
			name := pick(r, []string{"rules/0-renamed.yml", "rules/z-renamed.yml", "bin/blob.dat"})
			c17SrvExtra, c17SrvExtraFirst = [][3]string{{"rules/old-name.yml", name, ""}}, r.Intn(2) == 0
			nx := 1 + r.Intn(3)
			var extra []c17Rep
			for i := 0; i < nx; i++ {
				c := c17GenRep(r)
				c.Name, c.Target, c.IsDup = name, name, false
				c.First = 1 + i*4
				c.Last = c.First + r.Intn(2)
				extra = append(extra, c)
			}
			if r.Intn(3) > 0 {
				reps = append(extra, reps...) // the unplaceable problems come first
			} else {
				reps = append(reps, extra...)
			}
			summary, pend = c17Pending(reps)
			budget = 1 + r.Intn(nx+1) // tight: at most one more than the number of problems on the patch-less file
			kind += "+file-without-patch"
		}
		if k%2 == 0 {
			c17GitLabScenario(r, rep, cw, id0+k, k, diff, kind, path, reps, summary, pend, budget)
		} else {
			c17GitHubScenario(r, rep, cw, id0+k, k, diff, kind, path, reps, summary, pend, budget)
		}
	}
}

func c17GitLabScenario(r *rand.Rand, rep *runReport, cw *caseWriter, cid int, k int, diff, kind, path string, reps []c17Rep, summary reporter.Summary, pend []memPending, budget int) {
	f := &fakeGitLab{diffs: c17AllFiles(path, diff), sendTotals: r.Intn(2) == 0, nextEmptyLast: r.Intn(2) == 0}
	sc := c17SrvScenario{Platform: "gitlab", Diff: diff, Path: path, Budget: budget, Reports: reps, Pending: pend}
	// a long history: more than one page (20) of discussions BEFORE anything of pint's, so that pint's own comments - stale
	// ones and the ones it creates - live on page 2, 3, ...
	if k > 6 && r.Intn(3) == 0 || k == 8 || k == 10 {
		if k == 8 {
			f.sendTotals = false
		}
		if k == 10 {
			f.sendTotals = true
		}
		nsys := 19 + r.Intn(30)
		for i := 0; i < nsys; i++ {
			f.notes = append(f.notes, glNote{DiscID: fmt.Sprintf("s%d", i), NoteID: 1000 + i, AuthorID: 7 + i%2, System: true, Body: fmt.Sprintf("changed the description %d", i)})
		}
		sc.Initial = append(sc.Initial, fmt.Sprintf("long-history:%d-system-notes", nsys))
		rep.hist(fmt.Sprintf("gitlab:paginated-discussions totals=%v next-empty-on-last=%v", f.sendTotals, f.nextEmptyLast))
	}
	// initial population: a foreign comment, a system note, a general note, a stale comment of pint's
	f.next = 100
	f.notes = append(f.notes,
		glNote{DiscID: "f1", NoteID: 91, AuthorID: 99, Body: "a human wrote this", HasPos: true, OldPath: path, NewPath: path, NewLine: 3},
		glNote{DiscID: "f2", NoteID: 92, AuthorID: 7, System: true, Body: "system"},
		glNote{DiscID: "f3", NoteID: 93, AuthorID: 7, Body: "general note of pint"},
	)
	// other people's notes at the very place and with the very text of pint's pending comments (List must not show them:
	// they neither cover the problem nor are pint's to delete), a note of pint's that only has an old path / old line
	var foreignIDs []int
	for i, p := range pend {
		if r.Intn(4) == 0 {
			id := 80 - i
			f.notes = append(f.notes, glNote{DiscID: fmt.Sprintf("x%d", id), NoteID: id, AuthorID: 99, Body: p.Text, HasPos: true, OldPath: p.Path, NewPath: p.Path, NewLine: p.Line})
			foreignIDs = append(foreignIDs, id)
		}
	}
	// notes of pint's own that equal a pending comment in all but one field (line, text, path): stale, to be replaced
	for i, p := range pend {
		if p.Path != path || r.Intn(4) > 0 {
			continue
		}
		n := glNote{DiscID: fmt.Sprintf("o%d", i), NoteID: 40 + i, AuthorID: 7, Body: p.Text, HasPos: true, OldPath: p.Path, NewPath: p.Path, NewLine: p.Line}
		switch r.Intn(3) {
		case 0:
			n.NewLine++
		case 1:
			n.Body += " (edited)"
		default:
			n.OldPath, n.NewPath = "rules/renamed.yml", "rules/renamed.yml"
		}
		f.notes = append(f.notes, n)
		rep.hist("gitlab:initial-one-field-off-copy")
	}
	if r.Intn(3) == 0 {
		f.notes = append(f.notes, glNote{DiscID: "f5", NoteID: 95, AuthorID: 7, Body: "old comment on a removed file", HasPos: true, OldPath: "rules/gone.yml", OldLine: 2})
		sc.Initial = append(sc.Initial, "stale-old-path-only")
	}
	stale := r.Intn(2) == 0
	if stale {
		f.notes = append(f.notes, glNote{DiscID: "f4", NoteID: 94, AuthorID: 7, Body: "stale comment", HasPos: true, OldPath: path, NewPath: path, NewLine: 4})
		sc.Initial = append(sc.Initial, "stale")
	}
	store0 := glRaw(f.notes)
	srv := httptest.NewServer(f)
	defer srv.Close()
	gl, err := reporter.NewGitLabReporter("v0", "branch", srv.URL, 60*time.Second, "token", 1, budget)
	if err != nil {
		rep.Notes = append(rep.Notes, "gitlab reporter: "+err.Error())
		return
	}
	outside := 0
	for _, p := range pend {
		if p.Path != path {
			outside++
		}
	}
	need := (len(pend)+budget-1)/budget + 1
	for q := 0; q < need+1; q++ {
		f.posts, f.deletes = nil, nil
		if err := reporter.Submit(context.Background(), summary, gl, false); err != nil {
			rep.fail(fmt.Sprintf("srv%d", k), "GitLab: Submit failed against the fake API: "+err.Error(), sc)
			return
		}
		posts := 0
		for _, pn := range f.posts {
			if pn.HasPos {
				posts++
			}
		}
		sc.Rounds = append(sc.Rounds, c17SrvRound{Posts: posts, Deletes: len(f.deletes), Store: len(f.notes), View: glRaw(f.notes)})
	}
	sc.Store = f.notes
	// the text of the general "too many comments" note, as first posted (its wording is an input of the model)
	tooMany := ""
	for _, nn := range f.notes {
		if !nn.HasPos && nn.AuthorID == 7 && !nn.System && nn.NoteID > 100 && tooMany == "" {
			tooMany = nn.Body
		}
	}
	cw.add(c17ServerCase(cid, true, path, diff, budget, pend, len(reps), tooMany, store0, sc.Rounds))
	rep.count(fmt.Sprintf("%+v", sc), sc.Rounds[0].Posts > 0)
	rep.hist("kind=gitlab-server")
	rep.hist("srv-diff:" + kind)
	if outside > 0 {
		rep.hist("gitlab:with-path-outside-mr")
	}
	last := sc.Rounds[len(sc.Rounds)-1]
	// foreign / system / general notes untouched
	for _, id := range append([]int{91, 92, 93}, foreignIDs...) {
		found := false
		for _, nn := range f.notes {
			if nn.NoteID == id {
				found = true
			}
		}
		if !found {
			rep.fail(fmt.Sprintf("srv%d", k), fmt.Sprintf("GitLab: note %d, which is not a review comment of pint, was deleted", id), sc)
			return
		}
	}
	if stale {
		for _, nn := range f.notes {
			if nn.NoteID == 94 {
				rep.fail(fmt.Sprintf("srv%d", k), "GitLab: pint's stale comment was not removed", sc)
				return
			}
		}
	}
	// every pending comment on the MR's path with a valid line must be covered by now; nothing left to do
	covered := func(p memPending) bool {
		for _, nn := range f.notes {
			if !nn.HasPos || nn.AuthorID != 7 || nn.System {
				continue
			}
			lp := nn.NewPath
			if lp == "" {
				lp = nn.OldPath
			}
			line := nn.NewLine
			if line <= 0 {
				line = nn.OldLine
			}
			if reporter.VerifGitlabIsEqual(reporter.VerifNewExisting(lp, nn.Body, line, nil), reporter.VerifNewPending(p.Path, p.Text, p.Line, p.Before)) {
				return true
			}
		}
		return false
	}
	for _, p := range pend {
		if p.Path == path && p.Line > 0 && !covered(p) {
			what := fmt.Sprintf("GitLab: after %d runs with unchanged results and maxComments=%d a problem on %s:%d still has no comment", len(sc.Rounds), budget, p.Path, p.Line)
			rep.fail(fmt.Sprintf("srv%d", k), what, sc)
			return
		}
	}
	if last.Posts > 0 || last.Deletes > 0 {
		rep.fail(fmt.Sprintf("srv%d", k), fmt.Sprintf("GitLab: run %d with unchanged results, nothing deferred, still created %d and deleted %d comment(s)", len(sc.Rounds), last.Posts, last.Deletes), sc)
		return
	}
	if prev := sc.Rounds[len(sc.Rounds)-2]; prev.Posts == 0 && prev.Deletes == 0 && last.Store != prev.Store {
		rep.fail(fmt.Sprintf("srv%d", k), fmt.Sprintf("GitLab: run %d with unchanged results and nothing left to do changed the number of notes on the merge request from %d to %d (a general note posted again?)", len(sc.Rounds), prev.Store, last.Store), sc)
		return
	}
	rep.sample(map[string]any{"kind": "gitlab-server", "rounds": sc.Rounds, "pending": len(pend), "budget": budget})
}

func c17GitHubScenario(r *rand.Rand, rep *runReport, cw *caseWriter, cid int, k int, diff, kind, path string, reps []c17Rep, summary reporter.Summary, pend []memPending, budget int) {
	f := &fakeGitHub{}
	for _, d := range c17AllFiles(path, diff) {
		f.files = append(f.files, [2]string{d[1], d[2]})
	}
	sc := c17SrvScenario{Platform: "github", Diff: diff, Path: path, Budget: budget, Reports: reps, Pending: pend}
	f.next = 100
	// (fix 07993f0: the reporter reads every page; long review histories are ordinary scenarios now)
	longHistory := false
	ghFail := rep.fail
	// a long review history: more than one page (30) of other people's review comments BEFORE anything of pint's
	longHistory = k == 7 || (k > 8 && r.Intn(4) == 0)
	if longHistory {
		nold := 30 + r.Intn(12)
		for i := 0; i < nold; i++ {
			f.comments = append(f.comments, ghComment{ID: int64(2000 + i), Path: "docs/other.md", Line: 1 + i, Body: fmt.Sprintf("review remark %d", i)})
		}
		sc.Initial = append(sc.Initial, fmt.Sprintf("long-history:%d-review-comments", nold))
		rep.hist("github:paginated-review-comments")
	}
	f.comments = append(f.comments, ghComment{ID: 91, Path: path, Line: 3, Body: "a human wrote this"})
	if r.Intn(2) == 0 {
		f.comments = append(f.comments, ghComment{ID: 92, Body: "a comment without a path"})
	}
	// comments that equal what pint would post for a pending comment in all but ONE field IsEqual reads: no line at all
	// (outdated), the neighbouring line, an edited text.  None of them covers the problem.
	fixLine := func(p memPending) int {
		_, l := reporter.VerifGithubFix(f.files, reporter.VerifNewPending(p.Path, p.Text, p.Line, p.Before))
		return l
	}
	for i, p := range pend {
		if p.Path != path || r.Intn(3) > 0 || fixLine(p) <= 0 {
			continue // (a garbage hunk header can put the comment on "line 0", which is what a line-less comment looks like)
		}
		c := ghComment{ID: int64(60 + i), Path: p.Path, Line: fixLine(p), Body: p.Text}
		switch r.Intn(4) {
		case 0, 1:
			c.Outdated = true
			rep.hist("github:initial-outdated-copy")
		case 2:
			c.Line++
			rep.hist("github:initial-copy-on-next-line")
		default:
			c.Body += " (edited)"
			rep.hist("github:initial-copy-with-other-text")
		}
		f.comments = append(f.comments, c)
	}
	store0 := ghRaw(f.comments)
	srv := httptest.NewServer(f)
	defer srv.Close()
	gh, err := reporter.NewGithubReporter(context.Background(), "v0", srv.URL, srv.URL, 60*time.Second, "token", "o", "r", 1, budget, "HEAD", false)
	if err != nil {
		rep.Notes = append(rep.Notes, "github reporter: "+err.Error())
		return
	}
	outside := 0
	for _, p := range pend {
		if p.Path != path {
			outside++
		}
	}
	need := (len(pend)+budget-1)/budget + 1
	for q := 0; q < need+1; q++ {
		f.posts = nil
		ngen := len(f.general)
		if err := reporter.Submit(context.Background(), summary, gh, false); err != nil {
			ghFail(fmt.Sprintf("srv%d", k), "GitHub: Submit failed against the fake API: "+err.Error(), sc)
			return
		}
		sc.Rounds = append(sc.Rounds, c17SrvRound{General: len(f.general) - ngen, Posts: len(f.posts), Store: len(f.comments), View: ghRaw(f.comments)})
	}
	sc.Store = f.comments
	cw.add(c17ServerCase(cid, false, path, diff, budget, pend, len(reps), "", store0, sc.Rounds))
	rep.count(fmt.Sprintf("%+v", sc), sc.Rounds[0].Posts > 0)
	rep.hist("kind=github-server")
	rep.hist("srv-diff:" + kind)
	if outside > 0 {
		rep.hist("github:with-path-outside-pr")
	}
	hasDiffLines := len(reporter.VerifParseDiffLines(diff)) > 0
	// "covered" is judged independently of the reporter's IsEqual: a comment at the problem's file and (fixed) line carrying its
	// text; a comment GitHub shows without a line (outdated) is attached to nothing
	covered := func(p memPending) bool {
		want := fixLine(p)
		for _, c := range f.comments {
			if c.Path == p.Path && !c.Outdated && c.Line == want && strings.Trim(c.Body, "\n") == strings.Trim(p.Text, "\n") {
				return true
			}
		}
		return false
	}
	for _, p := range pend {
		if p.Path == path && hasDiffLines && !covered(p) {
			what := fmt.Sprintf("GitHub: after %d runs with unchanged results and maxComments=%d a problem on %s:%d still has no comment", len(sc.Rounds), budget, p.Path, p.Line)
			ghFail(fmt.Sprintf("srv%d", k), what, sc)
			return
		}
	}
	last := sc.Rounds[len(sc.Rounds)-1]
	if last.Posts > 0 {
		ghFail(fmt.Sprintf("srv%d", k), fmt.Sprintf("GitHub: run %d with unchanged results, nothing deferred, still created %d comment(s)", len(sc.Rounds), last.Posts), sc)
		return
	}
	// ... and no other comment either: the previous run already had nothing to create, so this one must leave the pull request alone
	if prev := sc.Rounds[len(sc.Rounds)-2]; prev.Posts == 0 && last.General > 0 {
		what := fmt.Sprintf("GitHub: run %d with unchanged results and nothing left to create still posted %d general comment(s) on the pull request (%d in total over %d runs): %.80q...",
			len(sc.Rounds), last.General, len(f.general), len(sc.Rounds), f.general[len(f.general)-1])
		// repaired by fix 5e3fe45 (GithubReporter looks for an identical issue comment first): any recurrence is a violation
		ghFail(fmt.Sprintf("srv%d", k), what, sc)
		return
	}
	for _, c := range f.comments {
		if c.ID == 91 && c.Body != "a human wrote this" {
			ghFail(fmt.Sprintf("srv%d", k), "GitHub: a foreign comment was altered", sc)
		}
	}
	rep.sample(map[string]any{"kind": "github-server", "rounds": sc.Rounds, "pending": len(pend), "budget": budget})

	// ---- history: a push rewrites the hunks, GitHub marks pint's comments OUTDATED (no line any more); the problems persist.
	// The reporter must attach fresh comments to the problems' lines (ceil(n/m) runs), and then stop.
	if !hasDiffLines || r.Intn(2) == 0 {
		return
	}
	for _, p := range pend {
		if p.Path == path && fixLine(p) <= 0 {
			return
		}
	}
	for i := range f.comments {
		if f.comments[i].ID > 100 {
			f.comments[i].Outdated = true
		}
	}
	sc2 := c17SrvScenario{Platform: "github-after-push", Diff: diff, Path: path, Budget: budget, Reports: reps, Pending: pend, Initial: []string{"all of pint's comments outdated by a push"}}
	store1 := ghRaw(f.comments)
	for q := 0; q < need+1; q++ {
		f.posts = nil
		if err := reporter.Submit(context.Background(), summary, gh, false); err != nil {
			ghFail(fmt.Sprintf("srv%d-push", k), "GitHub: Submit failed against the fake API: "+err.Error(), sc2)
			return
		}
		sc2.Rounds = append(sc2.Rounds, c17SrvRound{Posts: len(f.posts), Store: len(f.comments), View: ghRaw(f.comments)})
	}
	sc2.Store = f.comments
	cw.add(c17ServerCase(cid+100000, false, path, diff, budget, pend, len(reps), "", store1, sc2.Rounds))
	rep.count(fmt.Sprintf("%+v", sc2), sc2.Rounds[0].Posts > 0)
	rep.hist("kind=github-server-after-push")
	for _, p := range pend {
		if p.Path == path && !covered(p) {
			ghFail(fmt.Sprintf("srv%d-push", k), fmt.Sprintf("GitHub: after a push that outdated pint's comments and %d more runs with maxComments=%d the problem on %s:%d has no comment attached to its line (only outdated ones)", len(sc2.Rounds), budget, p.Path, p.Line), sc2)
			return
		}
	}
	if l2 := sc2.Rounds[len(sc2.Rounds)-1]; l2.Posts > 0 {
		ghFail(fmt.Sprintf("srv%d-push", k), fmt.Sprintf("GitHub: run %d after the push, nothing deferred, still created %d comment(s)", len(sc2.Rounds), l2.Posts), sc2)
	}
}
