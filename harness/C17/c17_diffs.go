//go:build verif

package main

import (
	"fmt"
	"math/rand"
	"strings"

	"github.com/cloudflare/pint/internal/reporter"
)

// generated unified diffs and the platform functions built on them

type c17DiffCase struct {
	Diff    string          `json:"diff"`
	Kind    string          `json:"kind"`
	Pending []memPending    `json:"pending,omitempty"`
	What    string          `json:"what,omitempty"`
	Detail  map[string]any  `json:"detail,omitempty"`
}

func c17GenDiff(r *rand.Rand) (string, string, int, int) {
	var b strings.Builder
	kind := "plain"
	old := 1 + r.Intn(8)
	newl := old + r.Intn(3)
	nh := 1 + r.Intn(3)
	removed, added := 0, 0
	eol := "\n"
	if r.Intn(12) == 0 {
		eol = "\r\n"
		kind = "crlf"
	}
	for h := 0; h < nh; h++ {
		body := 2 + r.Intn(7)
		switch r.Intn(14) {
		case 0:
			fmt.Fprintf(&b, "@@ -%d +%d @@%s", old, newl, eol) // single-line hunk header: no counts
			kind = "header-no-count"
		case 1:
			fmt.Fprintf(&b, "@@ garbage @@%s", eol)
			kind = "header-garbage"
		case 2:
			fmt.Fprintf(&b, "@@ -%d,%d +%d,%d @@ groups: @@ -1,1 +1,1 @@%s", old, body, newl, body, eol)
			kind = "header-with-section"
		case 3:
			fmt.Fprintf(&b, "@@@ -%d,%d +%d,%d @@%s", old, body, newl, body, eol)
			kind = "header-shifted"
		default:
			fmt.Fprintf(&b, "@@ -%d,%d +%d,%d @@%s", old, body, newl, body, eol)
		}
		for i := 0; i < body; i++ {
			switch r.Intn(8) {
			case 0, 1:
				fmt.Fprintf(&b, "-removed %d%s", old, eol)
				old++
				removed++
			case 2, 3:
				fmt.Fprintf(&b, "+added %d%s", newl, eol)
				newl++
				added++
			case 4:
				if r.Intn(4) == 0 {
					b.WriteString(eol) // an empty line counts as context
				} else {
					fmt.Fprintf(&b, " ctx%s", eol)
				}
				old++
				newl++
			case 5:
				if r.Intn(5) == 0 {
					fmt.Fprintf(&b, "\\ No newline at end of file%s", eol)
					old++
					newl++
					break
				}
				fallthrough
			default:
				fmt.Fprintf(&b, " context %d%s", newl, eol)
				old++
				newl++
			}
		}
		gap := r.Intn(6)
		old += gap
		newl += gap
	}
	s := b.String()
	if r.Intn(6) == 0 {
		s = strings.TrimSuffix(s, eol) // no final newline
	}
	if r.Intn(25) == 0 {
		s = ""
		kind = "empty"
	}
	return s, kind, removed, added
}

func coqDL(d reporter.VerifDiffLine) string {
	return fmt.Sprintf("{| dl_old := %s; dl_new := %s; dl_mod := %s |}", coqZ(int64(d.Old)), coqZ(int64(d.New)), coqBool(d.Mod))
}

func coqPC(p memPending) string {
	return fmt.Sprintf("{| pc_path := %s; pc_line := %s; pc_anchor_before := %s; pc_text := %s |}", c17Str(p.Path), coqZ(int64(p.Line)), coqBool(p.Before), c17Str(p.Text))
}

func coqEC(path string, line int, text string) string {
	return fmt.Sprintf("{| ec_path := %s; ec_line := %s; ec_text := %s |}", c17Str(path), coqZ(int64(line)), c17Str(text))
}

func coqOptZ(p *int) string {
	if p == nil {
		return "None"
	}
	return "(Some " + coqZ(int64(*p)) + ")"
}

// the line GitLabReporter.List reports for a note whose position is what Create sent
func glListedLine(newLine, oldLine *int) int {
	nl, ol := 0, 0
	if newLine != nil {
		nl = *newLine
	}
	if oldLine != nil {
		ol = *oldLine
	}
	if nl > 0 {
		return nl
	}
	return ol
}

func c17DiffCaseRun(r *rand.Rand, rep *runReport, cw *caseWriter, id int, diff, kind string, removed, added int, fixed []memPending) {
	parsed := reporter.VerifParseDiffLines(diff)
	ps := make([]string, len(parsed))
	maxNew := 0
	for i, d := range parsed {
		ps[i] = coqDL(d)
		if d.New > maxNew {
			maxNew = d.New
		}
	}
	var qs []string
	for line := -1; line <= maxNew+3; line++ {
		dl, ok := reporter.VerifDiffLineFor(parsed, line)
		qs = append(qs, coqPair(coqZ(int64(line)), coqOpt(ok, coqDL(dl))))
	}
	path := "rules/a.yml"
	var pend []memPending
	pend = append(pend, fixed...)
	for i := 0; i < 6; i++ {
		p := memPending{Path: path, Line: r.Intn(maxNew + 4), Before: r.Intn(3) == 0, Text: pick(r, []string{"text", "text\n", "\nother text\n\n", ""})}
		if r.Intn(8) == 0 {
			p.Path = "rules/other.yml"
		}
		pend = append(pend, p)
	}
	var gh, gl []string
	for _, p := range pend {
		rp := reporter.VerifNewPending(p.Path, p.Text, p.Line, p.Before)
		// GitHub
		files := [][2]string{{path, diff}}
		if r.Intn(10) == 0 {
			files = append([][2]string{{"rules/zzz.yml", "@@ -1,1 +1,2 @@\n ctx\n+new\n"}}, files...)
		}
		side, line := reporter.VerifGithubFix(files, rp)
		fs := make([]string, len(files))
		for i, f := range files {
			fs[i] = coqPair(c17Str(f[0]), c17Str(f[1]))
		}
		var eqs []string
		for _, e := range [][3]any{{p.Path, line, p.Text}, {p.Path, line + 1, p.Text}, {p.Path, line, "\n" + p.Text + "\n\n"}, {"x" + p.Path, line, p.Text}, {p.Path, p.Line, p.Text + "x"}} {
			ex := reporter.VerifNewExisting(e[0].(string), e[2].(string), e[1].(int), nil)
			eqs = append(eqs, coqPair(coqEC(e[0].(string), e[1].(int), e[2].(string)), coqBool(reporter.VerifGithubIsEqual(files, ex, rp))))
		}
		// existing comments that differ from the one Create would post in exactly ONE of the fields IsEqual reads (path, line -
		// including the line 0 GitHub reports for an OUTDATED comment - and text): none of them covers the problem
		for _, e := range c17OneFieldOff(p.Path, line, p.Text) {
			ex := reporter.VerifNewExisting(e.path, e.text, e.line, nil)
			got := reporter.VerifGithubIsEqual(files, ex, rp)
			eqs = append(eqs, coqPair(coqEC(e.path, e.line, e.text), coqBool(got)))
			rep.hist("isequal-one-field-off:" + e.field)
			if got {
				rep.fail(fmt.Sprintf("diff%d-gh", id), fmt.Sprintf("GitHub: an existing comment that differs from the pending one in its %s (path %q line %d; the pending comment belongs on %q line %d) is recognised by IsEqual as covering the problem: no comment is ever created at the problem's line",
					e.field, e.path, e.line, p.Path, line), c17DiffCase{Diff: diff, Kind: kind, Pending: []memPending{p}})
			}
		}
		gh = append(gh, fmt.Sprintf("(%s, %s, %s, %s, %s)", coqList(fs), coqPC(p), coqBool(side == "LEFT"), coqZ(int64(line)), coqList(eqs)))
		// law L1 on the real GitHub functions: what Create posts, listed back, is recognised
		if !reporter.VerifGithubIsEqual(files, reporter.VerifNewExisting(p.Path, p.Text, line, nil), rp) {
			rep.fail(fmt.Sprintf("diff%d-gh", id), "GitHub: the comment Create would post for a pending comment is not IsEqual to it: every run would post it again",
				c17DiffCase{Diff: diff, Kind: kind, Pending: []memPending{p}})
		}
		// GitLab
		diffs := [][3]string{{path, path, diff}}
		if r.Intn(10) == 0 {
			diffs = [][3]string{{"rules/old.yml", path, diff}}
		}
		ok, op, np, nl, ol := reporter.VerifGitlabDiscussion(rp, diffs)
		ds := make([]string, len(diffs))
		for i, d := range diffs {
			ds[i] = fmt.Sprintf("{| gd_old_path := %s; gd_new_path := %s; gd_diff := %s |}", c17Str(d[0]), c17Str(d[1]), c17Str(d[2]))
		}
		pos := "None"
		if ok {
			pos = fmt.Sprintf("(Some {| gp_old_path := %s; gp_new_path := %s; gp_new_line := %s; gp_old_line := %s |})", c17Str(op), c17Str(np), coqOptZ(nl), coqOptZ(ol))
		}
		var geqs []string
		for _, e := range [][3]any{{p.Path, p.Line, p.Text}, {p.Path, p.Line + 1, p.Text}, {p.Path, p.Line, "\n\n" + p.Text + "\n"}, {p.Path + "x", p.Line, p.Text}, {p.Path, p.Line, "y" + p.Text}} {
			ex := reporter.VerifNewExisting(e[0].(string), e[2].(string), e[1].(int), nil)
			geqs = append(geqs, coqPair(coqEC(e[0].(string), e[1].(int), e[2].(string)), coqBool(reporter.VerifGitlabIsEqual(ex, rp))))
		}
		for _, e := range c17OneFieldOff(p.Path, p.Line, p.Text) {
			ex := reporter.VerifNewExisting(e.path, e.text, e.line, nil)
			got := reporter.VerifGitlabIsEqual(ex, rp)
			geqs = append(geqs, coqPair(coqEC(e.path, e.line, e.text), coqBool(got)))
			if got {
				rep.fail(fmt.Sprintf("diff%d-gl", id), fmt.Sprintf("GitLab: an existing comment that differs from the pending one in its %s (path %q line %d; the pending comment belongs on %q line %d) is recognised by IsEqual as covering the problem",
					e.field, e.path, e.line, p.Path, p.Line), c17DiffCase{Diff: diff, Kind: kind, Pending: []memPending{p}})
			}
		}
		gl = append(gl, fmt.Sprintf("(%s, %s, %s, %s)", coqList(ds), coqPC(p), pos, coqList(geqs)))
		if ok && p.Line > 0 {
			lpath := np
			if lpath == "" {
				lpath = op
			}
			listed := reporter.VerifNewExisting(lpath, p.Text, glListedLine(nl, ol), nil)
			if !reporter.VerifGitlabIsEqual(listed, rp) {
				rep.fail(fmt.Sprintf("diff%d-gl", id),
					fmt.Sprintf("GitLab: the discussion created for a pending comment on line %d (anchor before=%v) is listed back on line %d and not recognised: every later run with unchanged results re-creates it and deletes the previous one",
						p.Line, p.Before, glListedLine(nl, ol)),
					c17DiffCase{Diff: diff, Kind: kind, Pending: []memPending{p}, Detail: map[string]any{"new_line": nl, "old_line": ol}})
			}
		}
	}
	cw.add(fmt.Sprintf("Diff %s %s %s %s %s %s", coqN(id), c17Str(diff), coqList(ps), coqList(qs), coqList(gh), coqList(gl)))
	rep.count(diff, removed > 0 && added > 0)
	rep.hist("kind=diff")
	rep.hist("diff:" + kind)
	if len(rep.Cases) < 400 {
		rep.Cases[fmt.Sprint(id)] = c17DiffCase{Diff: diff, Kind: kind, Pending: pend}
	}
}

func c17Diffs(r *rand.Rand, rep *runReport, cw *caseWriter, id, n int) int {
	// corpus: the design-session witness (lines 6-7 removed; AnchorBefore comment on old line 7)
	witness := "@@ -3,7 +3,5 @@\n context 3\n context 4\n context 5\n-removed 6\n-removed 7\n context 8\n context 9\n"
	c17DiffCaseRun(r, rep, cw, id, witness, "corpus-removed-6-7", 2, 0, []memPending{{Path: "rules/a.yml", Line: 7, Before: true, Text: "dependency"}, {Path: "rules/a.yml", Line: 6, Before: true, Text: "dependency"}})
	id++
	for k := 0; k < n; k++ {
		diff, kind, rem, add := c17GenDiff(r)
		c17DiffCaseRun(r, rep, cw, id, diff, kind, rem, add, nil)
		id++
	}
	return id
}

// c17Str: like coqStr, but text made of printable ASCII and newlines (comment bodies, diffs) is written as ONE Coq string
// literal with raw newlines inside instead of a byte list (an order of magnitude cheaper for coqc to read).
func c17Str(s string) string {
	for i := 0; i < len(s); i++ {
		if (s[i] < 0x20 && s[i] != '\n') || s[i] > 0x7e {
			return coqStr(s)
		}
	}
	return `"` + strings.ReplaceAll(s, `"`, `""`) + `"`
}

type c17Variant struct {
	field, path, text string
	line              int
}

// c17OneFieldOff: comments equal to (path, line, text) in all but one field, for each field a platform's IsEqual reads.
// Line variants include 0 (what List reports for a comment without a line: GitHub "outdated", line null) and neighbours.
func c17OneFieldOff(path string, line int, text string) []c17Variant {
	var out []c17Variant
	for _, l := range []int{0, line - 1, line + 1, line + 7} {
		if l != line {
			out = append(out, c17Variant{field: fmt.Sprintf("line(%+d)", l-line), path: path, text: text, line: l})
		}
	}
	if line != 0 {
		out[0].field = "line(none: outdated)"
	}
	for _, pth := range []string{"", "other/" + path, path + ".bak"} {
		if pth != path {
			out = append(out, c17Variant{field: "path", path: pth, text: text, line: line})
		}
	}
	for _, t := range []string{text + " (edited)", "", "x" + text} {
		if strings.Trim(t, "\n") != strings.Trim(text, "\n") {
			out = append(out, c17Variant{field: "text", path: path, text: t, line: line})
		}
	}
	return out
}
