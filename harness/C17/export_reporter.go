//go:build verif

package reporter

// Overlay export for /verif property C17 (injected by go build -overlay; never part of /repo):
// constructors/accessors for ExistingComment/PendingComment and entry points to the unexported helpers.

import (
	"context"

	"github.com/google/go-github/v71/github"
	gitlab "gitlab.com/gitlab-org/api/client-go"

	"github.com/cloudflare/pint/internal/checks"
)

func VerifNewPending(path, text string, line int, anchorBefore bool) PendingComment {
	a := checks.AnchorAfter
	if anchorBefore {
		a = checks.AnchorBefore
	}
	return PendingComment{path: path, text: text, line: line, anchor: a}
}

func (p PendingComment) VerifFields() (path, text string, line int, anchorBefore bool) {
	return p.path, p.text, p.line, p.anchor == checks.AnchorBefore
}

func VerifNewExisting(path, text string, line int, meta any) ExistingComment {
	return ExistingComment{path: path, text: text, line: line, meta: meta}
}

func (e ExistingComment) VerifFields() (path, text string, line int, meta any) {
	return e.path, e.text, e.line, e.meta
}

func VerifMakeComments(s Summary, showDuplicates bool) []PendingComment { return makeComments(s, showDuplicates) }

func VerifDedupReports(src []Report, showDuplicates bool) [][]Report { return dedupReports(src, showDuplicates) }

type VerifDiffLine struct {
	Old, New int
	Mod      bool
}

func VerifParseDiffLines(diff string) (out []VerifDiffLine) {
	for _, l := range parseDiffLines(diff) {
		out = append(out, VerifDiffLine{Old: l.old, New: l.new, Mod: l.wasModified})
	}
	return out
}

func VerifDiffLineFor(lines []VerifDiffLine, line int) (VerifDiffLine, bool) {
	ls := make([]diffLine, len(lines))
	for i, l := range lines {
		ls[i] = diffLine{old: l.Old, new: l.New, wasModified: l.Mod}
	}
	dl, ok := diffLineFor(ls, line)
	return VerifDiffLine{Old: dl.old, New: dl.new, Mod: dl.wasModified}, ok
}

func verifGhPR(files [][2]string) ghPR {
	var pr ghPR
	for _, f := range files {
		pr.files = append(pr.files, &github.CommitFile{Filename: github.Ptr(f[0]), Patch: github.Ptr(f[1])})
	}
	return pr
}

func VerifGithubFix(files [][2]string, p PendingComment) (side string, line int) {
	return GithubReporter{}.fixCommentLine(verifGhPR(files), p)
}

func VerifGithubIsEqual(files [][2]string, e ExistingComment, p PendingComment) bool {
	return GithubReporter{}.IsEqual(verifGhPR(files), e, p)
}

// VerifGitlabDiscussion: diffs as (old path, new path, diff).
func VerifGitlabDiscussion(p PendingComment, diffs [][3]string) (ok bool, oldPath, newPath string, newLine, oldLine *int) {
	var ds []*gitlab.MergeRequestDiff
	for _, d := range diffs {
		ds = append(ds, &gitlab.MergeRequestDiff{OldPath: d[0], NewPath: d[1], Diff: d[2]})
	}
	opt := reportToGitLabDiscussion(p, ds, &gitlab.MergeRequestDiffVersion{})
	if opt == nil {
		return false, "", "", nil, nil
	}
	return true, *opt.Position.OldPath, *opt.Position.NewPath, opt.Position.NewLine, opt.Position.OldLine
}

func VerifGitlabIsEqual(e ExistingComment, p PendingComment) bool {
	return GitLabReporter{}.IsEqual(nil, e, p)
}

// VerifSkipSignal is what the REAL platform code answers from Create for a comment it cannot place (path that is
// not part of the pull/merge request); no network access happens on that path.  It is whatever the source tree under
// test returns (a sentinel error since fix 15e1a20, nil before), so the harness' in-memory Commenter signals a skip
// exactly the way the real reporters do and never needs to name the sentinel itself.
func VerifSkipSignal(gitlabVariant bool) error {
	p := PendingComment{path: "verif/not-part-of-the-pull-request.yml", text: "x", line: 1, anchor: checks.AnchorAfter}
	if gitlabVariant {
		return GitLabReporter{}.Create(context.Background(), gitlabMR{}, p)
	}
	return GithubReporter{}.Create(context.Background(), ghPR{}, p)
}

// ---- BitBucket (its own reconciliation code, not a Commenter) -----------------------------------------------

type VerifBBAnchor struct {
	Path     string `json:"path"`
	Line     int    `json:"line"`
	LineType string `json:"line_type"`
	DiffType string `json:"diff_type"`
}

type VerifBBPending struct {
	Anchor   VerifBBAnchor `json:"anchor"`
	FileType string        `json:"file_type"`
	Text     string        `json:"text"`
	Severity string        `json:"severity"`
}

type VerifBBExisting struct {
	ID       int           `json:"id"`
	Anchor   VerifBBAnchor `json:"anchor"`
	Text     string        `json:"text"`
	Severity string        `json:"severity"`
	Replies  int           `json:"replies"`
}

func verifBBOut(c BitBucketPendingComment) VerifBBPending {
	return VerifBBPending{Anchor: VerifBBAnchor{Path: c.Anchor.Path, Line: c.Anchor.Line, LineType: c.Anchor.LineType, DiffType: c.Anchor.DiffType},
		FileType: c.Anchor.FileType, Text: c.Text, Severity: c.Severity}
}

func verifBBIn(p VerifBBPending) BitBucketPendingComment {
	return BitBucketPendingComment{Text: p.Text, Severity: p.Severity,
		Anchor: BitBucketPendingCommentAnchor{Path: p.Anchor.Path, Line: p.Anchor.Line, LineType: p.Anchor.LineType, DiffType: p.Anchor.DiffType, FileType: p.FileType}}
}

// VerifBBToComment = pendingComment.toBitBucketComment.
func VerifBBToComment(hasChanges bool, modified map[string][]int, lineMap map[string]map[int]int, severity, text, path string, line int, before bool) VerifBBPending {
	a := checks.AnchorAfter
	if before {
		a = checks.AnchorBefore
	}
	var ch *bitBucketPRChanges
	if hasChanges {
		ch = &bitBucketPRChanges{pathModifiedLines: modified, pathLineMapping: lineMap}
	}
	return verifBBOut(pendingComment{severity: severity, text: text, path: path, line: line, anchor: a}.toBitBucketComment(ch))
}

// VerifBBLimit = bitBucketAPI.limitComments.
func VerifBBLimit(max int, src []VerifBBPending) (out []VerifBBPending) {
	in := make([]BitBucketPendingComment, len(src))
	for i, p := range src {
		in[i] = verifBBIn(p)
	}
	for _, c := range (bitBucketAPI{maxComments: max}).limitComments(in) {
		out = append(out, verifBBOut(c))
	}
	return out
}

// VerifBBPruneAdd runs the real pruneComments and addComments (in the order BitBucketReporter.Submit calls them)
// against the API at uri.
func VerifBBPruneAdd(uri string, existing []VerifBBExisting, pending []VerifBBPending) error {
	api := newBitBucketAPI("v0", uri, 30_000_000_000, "token", "P", "R", 50, false)
	pr := &bitBucketPR{ID: 1}
	cur := make([]bitBucketComment, len(existing))
	for i, e := range existing {
		cur[i] = bitBucketComment{id: e.ID, version: 1, text: e.Text, severity: e.Severity, replies: e.Replies,
			anchor: BitBucketCommentAnchor{Path: e.Anchor.Path, Line: e.Anchor.Line, LineType: e.Anchor.LineType, DiffType: e.Anchor.DiffType}}
	}
	pend := make([]BitBucketPendingComment, len(pending))
	for i, p := range pending {
		pend[i] = verifBBIn(p)
	}
	api.pruneComments(pr, cur, pend)
	return api.addComments(pr, cur, pend)
}

// VerifBBListComments = bitBucketAPI.getPullRequestComments (whoami + the paged activities listing + its filter).
func VerifBBListComments(uri string) ([]VerifBBExisting, error) {
	api := newBitBucketAPI("v0", uri, 30_000_000_000, "token", "P", "R", 50, false)
	cs, err := api.getPullRequestComments(&bitBucketPR{ID: 1})
	if err != nil {
		return nil, err
	}
	out := make([]VerifBBExisting, 0, len(cs))
	for _, c := range cs {
		out = append(out, VerifBBExisting{ID: c.id, Text: c.text, Severity: c.severity, Replies: c.replies,
			Anchor: VerifBBAnchor{Path: c.anchor.Path, Line: c.anchor.Line, LineType: c.anchor.LineType, DiffType: c.anchor.DiffType}})
	}
	return out, nil
}
