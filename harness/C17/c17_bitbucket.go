//go:build verif

package main

import (
	"encoding/json"
	"fmt"
	"io"
	"math/rand"
	"net/http"
	"net/http/httptest"
	"regexp"
	"strconv"
	"strings"
	"sync"

	"github.com/cloudflare/pint/internal/reporter"
)

// D. BitBucket: the real toBitBucketComment, limitComments, pruneComments and addComments (bitbucket_api.go has its own
// reconciliation; it is not a Commenter) over several rounds against a fake comments API that echoes what it is sent.
// Correspondence with Model.PlatformBitbucket + the clauses: covered, no duplicate, stale pruned, idempotent.

type fakeBB struct {
	mu      sync.Mutex
	posts   []reporter.VerifBBPending
	deletes []int
	puts    map[int][]string
}

var bbCommentRe = regexp.MustCompile(`^/rest/api/1\.0/projects/P/repos/R/pull-requests/1/comments(?:/(\d+))?$`)

func (f *fakeBB) ServeHTTP(w http.ResponseWriter, r *http.Request) {
	f.mu.Lock()
	defer f.mu.Unlock()
	m := bbCommentRe.FindStringSubmatch(r.URL.Path)
	if m == nil {
		w.WriteHeader(404)
		return
	}
	b, _ := io.ReadAll(r.Body)
	switch {
	case r.Method == http.MethodPost && m[1] == "":
		var c struct {
			Text     string `json:"text"`
			Severity string `json:"severity"`
			Anchor   struct {
				Path     string `json:"path"`
				LineType string `json:"lineType"`
				FileType string `json:"fileType"`
				DiffType string `json:"diffType"`
				Line     int    `json:"line"`
			} `json:"anchor"`
		}
		if json.Unmarshal(b, &c) != nil {
			w.WriteHeader(400)
			return
		}
		f.posts = append(f.posts, reporter.VerifBBPending{Anchor: reporter.VerifBBAnchor{Path: c.Anchor.Path, Line: c.Anchor.Line, LineType: c.Anchor.LineType, DiffType: c.Anchor.DiffType},
			FileType: c.Anchor.FileType, Text: c.Text, Severity: c.Severity})
		w.WriteHeader(201)
		io.WriteString(w, "{}")
	case r.Method == http.MethodDelete && m[1] != "":
		id, _ := strconv.Atoi(m[1])
		f.deletes = append(f.deletes, id)
		w.WriteHeader(204)
	case r.Method == http.MethodPut && m[1] != "":
		id, _ := strconv.Atoi(m[1])
		kind := "resolve"
		if strings.Contains(string(b), `"severity"`) {
			kind = "severity"
		}
		f.puts[id] = append(f.puts[id], kind)
		io.WriteString(w, "{}")
	default:
		w.WriteHeader(405)
	}
}

func coqBBAnchor(a reporter.VerifBBAnchor) string {
	return fmt.Sprintf("{| ba_path := %s; ba_line := %s; ba_line_type := %s; ba_diff_type := %s |}", c17Str(a.Path), coqZ(int64(a.Line)), c17Str(a.LineType), c17Str(a.DiffType))
}

func coqBBPending(p reporter.VerifBBPending) string {
	return fmt.Sprintf("{| bp_anchor := %s; bp_file_type := %s; bp_text := %s; bp_severity := %s |}", coqBBAnchor(p.Anchor), c17Str(p.FileType), c17Str(p.Text), c17Str(p.Severity))
}

func coqBBExisting(e reporter.VerifBBExisting) string {
	return fmt.Sprintf("{| be_id := %s; be_anchor := %s; be_text := %s; be_severity := %s; be_replies := %s |}", coqN(e.ID), coqBBAnchor(e.Anchor), c17Str(e.Text), c17Str(e.Severity), coqNat(e.Replies))
}

type bbRaw struct {
	Severity string `json:"severity"`
	Text     string `json:"text"`
	Path     string `json:"path"`
	Line     int    `json:"line"`
	Before   bool   `json:"anchor_before"`
}

type bbRound struct {
	Existing []reporter.VerifBBExisting `json:"existing"`
	Posts    []reporter.VerifBBPending  `json:"posts"`
	Deletes  []int                      `json:"deletes"`
	Resolved []int                      `json:"resolved"`
	Escalated []int                     `json:"escalated"`
}

type bbScenario struct {
	Max      int                       `json:"max_comments"`
	Modified map[string][]int          `json:"modified_lines"`
	LineMap  map[string]map[int]int    `json:"line_map"`
	Raw      []bbRaw                   `json:"pending_raw"`
	Pending  []reporter.VerifBBPending `json:"pending"`
	Limited  []reporter.VerifBBPending `json:"pending_after_limit"`
	Commit   bool                      `json:"has_commit_anchored_comment"`
	Rounds   []bbRound                 `json:"rounds"`
}

func bbEqual(e reporter.VerifBBExisting, p reporter.VerifBBPending) bool {
	return e.Anchor == p.Anchor && e.Text == p.Text
}

func c17BitBucket(r *rand.Rand, rep *runReport, cw *caseWriter, id0 int, n int) int {
	for k := 0; k < n; k++ {
		sc := bbScenario{Modified: map[string][]int{}, LineMap: map[string]map[int]int{}}
		for _, path := range []string{"a.yml", "b.yml"} {
			if r.Intn(5) == 0 {
				continue // file not part of the PR
			}
			sc.Modified[path] = []int{}
			sc.LineMap[path] = map[int]int{}
			shift := 0
			for l := 1; l <= 9; l++ {
				if r.Intn(3) == 0 {
					sc.Modified[path] = append(sc.Modified[path], l)
					shift++
					if r.Intn(2) == 0 {
						sc.LineMap[path][l] = l - shift
					}
				} else if r.Intn(5) > 0 {
					sc.LineMap[path][l] = l - shift + 1
				}
			}
		}
		np := 1 + r.Intn(6)
		hasChanges := r.Intn(8) > 0
		for i := 0; i < np; i++ {
			raw := bbRaw{Severity: pick(r, []string{"NORMAL", "BLOCKER"}), Text: pick(r, []string{"t1", "t2", "t3 with\nnewline"}), Path: pick(r, []string{"a.yml", "b.yml", "c.yml"}),
				Line: 1 + r.Intn(10), Before: r.Intn(4) == 0}
			sc.Raw = append(sc.Raw, raw)
			sc.Pending = append(sc.Pending, reporter.VerifBBToComment(hasChanges, sc.Modified, sc.LineMap, raw.Severity, raw.Text, raw.Path, raw.Line, raw.Before))
		}
		sc.Max = r.Intn(np + 2)
		sc.Limited = reporter.VerifBBLimit(sc.Max, sc.Pending)
		msg := ""
		if len(sc.Limited) > 0 && len(sc.Pending) > sc.Max {
			msg = sc.Limited[len(sc.Limited)-1].Text
		}
		// initial view: equal / other text / other line / other line type comments of pint's, some with replies
		var existing []reporter.VerifBBExisting
		nextID := 100
		for _, p := range sc.Limited {
			e := reporter.VerifBBExisting{Anchor: p.Anchor, Text: p.Text, Severity: p.Severity}
			switch r.Intn(7) {
			case 0:
			case 1:
				e.Text += " (old)"
			case 2:
				e.Anchor.Line++
			case 3:
				e.Anchor.LineType = pick(r, []string{"ADDED", "CONTEXT", "REMOVED"})
			default:
				continue
			}
			nextID++
			e.ID = nextID
			if r.Intn(3) == 0 {
				e.Replies = 1 + r.Intn(2)
			}
			existing = append(existing, e)
		}
		if r.Intn(12) == 0 {
			nextID++
			existing = append(existing, reporter.VerifBBExisting{ID: nextID, Anchor: reporter.VerifBBAnchor{Path: "a.yml", Line: 1, LineType: "CONTEXT", DiffType: "COMMIT"}, Text: "on a commit", Severity: "NORMAL"})
			sc.Commit = true
		}
		f := &fakeBB{puts: map[int][]string{}}
		srv := httptest.NewServer(f)
		nrounds := 2 + r.Intn(2)
		failed := false
		for q := 0; q < nrounds && !failed; q++ {
			f.posts, f.deletes, f.puts = nil, nil, map[int][]string{}
			rd := bbRound{Existing: append([]reporter.VerifBBExisting(nil), existing...)}
			if err := reporter.VerifBBPruneAdd(srv.URL, existing, sc.Limited); err != nil {
				rep.fail(fmt.Sprintf("bb%d", k), "BitBucket: addComments failed against the fake API: "+err.Error(), sc)
				failed = true
				break
			}
			rd.Posts, rd.Deletes = f.posts, f.deletes
			gone := map[int]bool{}
			for _, id := range f.deletes {
				gone[id] = true
			}
			for id, kinds := range f.puts {
				gone[id] = true // resolved: not OPEN any more
				rd.Resolved = append(rd.Resolved, id)
				for _, kd := range kinds {
					if kd == "severity" {
						rd.Escalated = append(rd.Escalated, id)
					}
				}
			}
			var next []reporter.VerifBBExisting
			for _, e := range existing {
				if !gone[e.ID] {
					next = append(next, e)
				}
			}
			for _, p := range f.posts { // echo
				nextID++
				next = append(next, reporter.VerifBBExisting{ID: nextID, Anchor: p.Anchor, Text: p.Text, Severity: p.Severity})
			}
			sc.Rounds = append(sc.Rounds, rd)
			// clauses (no comment anchored to a COMMIT diff in view)
			if !sc.Commit {
				for _, p := range f.posts {
					for _, e := range existing {
						if bbEqual(e, p) {
							rep.fail(fmt.Sprintf("bb%d", k), fmt.Sprintf("BitBucket round %d: a comment equal to an existing one (%s:%d) was posted again", q+1, p.Anchor.Path, p.Anchor.Line), sc)
						}
					}
				}
				for _, p := range sc.Limited {
					cov := false
					for _, e := range next {
						if bbEqual(e, p) {
							cov = true
						}
					}
					if !cov {
						rep.fail(fmt.Sprintf("bb%d", k), fmt.Sprintf("BitBucket round %d: pending comment %s:%d has no comment after the run", q+1, p.Anchor.Path, p.Anchor.Line), sc)
					}
				}
				for _, e := range existing {
					eq := false
					for _, p := range sc.Limited {
						if bbEqual(e, p) {
							eq = true
						}
					}
					if eq == gone[e.ID] {
						rep.fail(fmt.Sprintf("bb%d", k), fmt.Sprintf("BitBucket round %d: comment %d equal-to-a-pending=%v but removed/resolved=%v", q+1, e.ID, eq, gone[e.ID]), sc)
					}
				}
				if q > 0 && (len(f.posts) > 0 || len(f.deletes) > 0 || len(f.puts) > 0) {
					rep.fail(fmt.Sprintf("bb%d", k), fmt.Sprintf("BitBucket round %d with unchanged results still posted %d, deleted %d, resolved %d comment(s)", q+1, len(f.posts), len(f.deletes), len(f.puts)), sc)
				}
			}
			existing = next
		}
		srv.Close()
		if failed {
			continue
		}
		// Coq term
		raws := make([]string, len(sc.Raw))
		for i, x := range sc.Raw {
			raws[i] = fmt.Sprintf("(%s, %s, %s, %s, %s)", c17Str(x.Severity), c17Str(x.Text), c17Str(x.Path), coqZ(int64(x.Line)), coqBool(x.Before))
		}
		var mods, maps []string
		for _, path := range []string{"a.yml", "b.yml"} {
			if ls, ok := sc.Modified[path]; ok {
				zs := make([]string, len(ls))
				for i, l := range ls {
					zs[i] = coqZ(int64(l))
				}
				mods = append(mods, fmt.Sprintf("(%s, %s)", c17Str(path), coqList(zs)))
				var ps []string
				for l := 1; l <= 12; l++ {
					if v, ok := sc.LineMap[path][l]; ok {
						ps = append(ps, fmt.Sprintf("(%s, %s)", coqZ(int64(l)), coqZ(int64(v))))
					}
				}
				maps = append(maps, fmt.Sprintf("(%s, %s)", c17Str(path), coqList(ps)))
			}
		}
		changes := "None"
		if hasChanges {
			changes = fmt.Sprintf("(Some {| bc_modified := %s; bc_line_map := %s |})", coqList(mods), coqList(maps))
		}
		pend := make([]string, len(sc.Pending))
		for i, p := range sc.Pending {
			pend[i] = coqBBPending(p)
		}
		lim := make([]string, len(sc.Limited))
		for i, p := range sc.Limited {
			lim[i] = coqBBPending(p)
		}
		var rounds []string
		for _, rd := range sc.Rounds {
			ex := make([]string, len(rd.Existing))
			for i, e := range rd.Existing {
				ex[i] = coqBBExisting(e)
			}
			posts := make([]string, len(rd.Posts))
			for i, p := range rd.Posts {
				posts[i] = coqBBPending(p)
			}
			acts := map[int]string{}
			for _, id := range rd.Deletes {
				acts[id] = "BDelete"
			}
			for _, id := range rd.Resolved {
				acts[id] = "BResolve"
			}
			for _, id := range rd.Escalated {
				acts[id] = "BEscalateResolve"
			}
			var as []string
			for _, e := range rd.Existing { // in the order pruneComments visits them
				if a, ok := acts[e.ID]; ok {
					as = append(as, fmt.Sprintf("(%s, %s)", coqN(e.ID), a))
				}
			}
			rounds = append(rounds, fmt.Sprintf("(%s, %s, %s)", coqList(ex), coqList(as), coqList(posts)))
		}
		cw.add(fmt.Sprintf("BitBucket %s %s %s %s %s %s %s %s", coqN(id0+k), changes, coqList(raws), coqList(pend), coqNat(sc.Max), c17Str(msg), coqList(lim), coqList(rounds)))
		rep.count(fmt.Sprintf("%+v", sc), len(sc.Rounds) > 0 && (len(sc.Rounds[0].Posts) > 0 || len(sc.Rounds[0].Deletes) > 0))
		rep.hist("kind=bitbucket")
		if len(sc.Pending) > sc.Max {
			rep.hist("bitbucket:over-the-limit")
		}
		if sc.Commit {
			rep.hist("bitbucket:commit-anchored-comment-in-view")
		}
		if len(rep.Cases) < 340 {
			rep.Cases[fmt.Sprintf("bb%d", k)] = sc
		}
	}
	return id0 + n
}

// E. BitBucket's paged activities listing: the real getPullRequestComments against a fake that serves the activities in
// pages of 1..5 (start / nextPageStart / isLastPage); the result must be exactly the activities that are pint's own open
// review comments (COMMENTED + ADDED + OPEN + own author, no resolved BLOCKER, no orphaned NORMAL), in order, whatever
// the page size.  Oracle only (the listing filter is not in the Coq model).
type bbActivity struct {
	Action, CommentAction, State, Author, Severity, Text string
	Resolved, Orphaned                                  bool
	ID, Replies                                         int
	Path                                                string
	Line                                                int
}

func c17BitBucketListing(r *rand.Rand, rep *runReport, n int) {
	for k := 0; k < n; k++ {
		na := r.Intn(15)
		acts := make([]bbActivity, na)
		var want []int
		for i := range acts {
			a := bbActivity{Action: "COMMENTED", CommentAction: "ADDED", State: "OPEN", Author: "pint", Severity: pick(r, []string{"NORMAL", "BLOCKER"}),
				Text: fmt.Sprintf("comment %d", i), ID: 500 + i, Replies: r.Intn(3) / 2, Path: "a.yml", Line: 1 + r.Intn(9)}
			switch r.Intn(9) {
			case 0:
				a.Action = "APPROVED"
			case 1:
				a.CommentAction = "EDITED"
			case 2:
				a.State = "RESOLVED"
			case 3:
				a.Author = "somebody"
			case 4:
				a.Resolved = true
			case 5:
				a.Orphaned = true
			}
			acts[i] = a
			if a.Action == "COMMENTED" && a.CommentAction == "ADDED" && a.State == "OPEN" && a.Author == "pint" &&
				!(a.Severity == "BLOCKER" && a.Resolved) && !(a.Severity == "NORMAL" && a.Orphaned) {
				want = append(want, a.ID)
			}
		}
		per := 1 + r.Intn(5)
		omitNext := r.Intn(2) == 0 // on the last page: nextPageStart absent, or repeated (= start)
		pages := 0
		srv := httptest.NewServer(http.HandlerFunc(func(w http.ResponseWriter, req *http.Request) {
			if strings.HasSuffix(req.URL.Path, "/whoami") {
				io.WriteString(w, "pint\n")
				return
			}
			if !strings.HasSuffix(req.URL.Path, "/pull-requests/1/activities") {
				w.WriteHeader(404)
				return
			}
			pages++
			start, _ := strconv.Atoi(req.URL.Query().Get("start"))
			end := start + per
			if end > len(acts) {
				end = len(acts)
			}
			if start > len(acts) {
				start = len(acts)
			}
			vals := []map[string]any{}
			for _, a := range acts[start:end] {
				reps := []any{}
				for j := 0; j < a.Replies; j++ {
					reps = append(reps, map[string]any{"id": 900 + j, "text": "reply"})
				}
				vals = append(vals, map[string]any{"action": a.Action, "commentAction": a.CommentAction,
					"commentAnchor": map[string]any{"path": a.Path, "line": a.Line, "lineType": "ADDED", "diffType": "EFFECTIVE", "orphaned": a.Orphaned},
					"comment": map[string]any{"id": a.ID, "version": 1, "state": a.State, "author": map[string]any{"name": a.Author}, "text": a.Text,
						"severity": a.Severity, "threadResolved": a.Resolved, "comments": reps}})
			}
			out := map[string]any{"values": vals, "start": start, "size": len(vals), "isLastPage": end >= len(acts)}
			if end < len(acts) {
				out["nextPageStart"] = end
			} else if !omitNext {
				out["nextPageStart"] = start
			}
			json.NewEncoder(w).Encode(out)
		}))
		got, err := reporter.VerifBBListComments(srv.URL)
		srv.Close()
		sc := map[string]any{"activities": acts, "page_size": per, "expected_comment_ids": want}
		rep.count(fmt.Sprintf("bblist %v %d", acts, per), len(acts) > per)
		rep.hist("kind=bitbucket-listing")
		if len(acts) > per {
			rep.hist("bitbucket-listing:more-than-one-page")
		}
		if err != nil {
			rep.fail(fmt.Sprintf("bblist%d", k), "BitBucket: getPullRequestComments failed against the paged fake API: "+err.Error(), sc)
			continue
		}
		var ids []int
		for _, c := range got {
			ids = append(ids, c.ID)
		}
		if fmt.Sprint(ids) != fmt.Sprint(want) {
			rep.fail(fmt.Sprintf("bblist%d", k), fmt.Sprintf("BitBucket: %d activities served in pages of %d: pint sees comments %v, its own open review comments are %v", len(acts), per, ids, want), sc)
		}
	}
}
