//go:build verif

package main

// C18 — an accepted configuration never crashes a later lint run.
//
//  (1) correspondence: NewTemplatedRegexp / NewRawTemplatedRegexp / Expand / MustExpand of the current tree on generated
//      patterns x rules (names/labels/annotations with regexp and template metacharacters) vs Model/TemplatedRegexp.v,
//      with text/template and regexp tabulated by this harness through the Go libraries directly.
//  (2) oracle on the real binary: generated configurations over every block/option of docs/configuration.md with
//      valid, invalid and templated values; the load verdict (rejected with an error | accepted) versus
//      panic / fatal error / hang of `pint lint` (offline, and online against an in-process fake Prometheus on an
//      ephemeral port), under a memory limit and a timeout.

import (
	"bytes"
	"encoding/json"
	"fmt"
	"math/rand"
	"net/http"
	"net/http/httptest"
	"os"
	"path/filepath"
	"regexp"
	"sort"
	"strconv"
	"strings"
	"sync"
	"text/template"
	"time"

	"github.com/cloudflare/pint/internal/checks"
	"github.com/cloudflare/pint/internal/config"
	"github.com/cloudflare/pint/internal/discovery"
	"github.com/cloudflare/pint/internal/parser"
)

func init() { register("C18", runC18) }

// ---------------------------------------------------------------------------------------------
// (1) templated regexps

var c18Patterns = []string{
	"foo.*", "{{ $alert }}.*", "{{ $labels.team }}-.+", "[a{{ $alert }}]", "{{ $record }}", "{{ nope", "{{ .Foo }}", "(",
	"{{ $for }}", "{{ $annotations.summary }}", "{{ $labels.summary }}", "^x$", "\\d+", "{{ \"a|b\" }}", "{{ $expr }}",
	"{{ $alert }}|{{ $record }}", "({{ $alert }})", "{{ $labels.team }}{3}", "", ".*", "{{ $alert }}", "{{ .Alert }}:{{ .Record }}",
	"{{ $labels.missing }}x", "{{ if $alert }}a{{ else }}({{ end }}", "{{ $labels }}", "{{ len $labels }}", "{{ index $labels \"team\" }}+",
	"\\Q{{ $alert }}", "{{ $alert }}{{ $alert }}", "[{{ $for }}]", "{{ printf \"%s\" $alert }}", "{{ $alert | html }}",
}

var c18Names = []string{"normal", "CPU [high", "a|b", "x(", "z-a", "{{ x }}", "\\", "a$b", "é", "*", "a{2", "(?i)x", "name with space", "{{", "+1", "]"}

type c18Rule struct {
	Kind        string      `json:"kind"`
	Name        string      `json:"name"`
	Expr        string      `json:"expr"`
	For         string      `json:"for,omitempty"`
	KeepFiring  string      `json:"keep_firing_for,omitempty"`
	Labels      [][2]string `json:"labels,omitempty"`
	HasLabels   bool        `json:"has_labels"`
	Annotations [][2]string `json:"annotations,omitempty"`
	HasAnn      bool        `json:"has_annotations"`
}

func c18GenRule(r *rand.Rand) c18Rule {
	ru := c18Rule{Name: pick(r, c18Names), Expr: pick(r, []string{"up == 0", "sum(foo) by(job)", "rate(http_total[5m])", "foo{job=~\"a.*\"}"})}
	if r.Intn(3) == 0 {
		ru.Kind = "recording"
	} else {
		ru.Kind = "alerting"
		if r.Intn(2) == 0 {
			ru.For = pick(r, []string{"5m", "0s", "1h"})
		}
		if r.Intn(3) == 0 {
			ru.KeepFiring = pick(r, []string{"5m", "0s", "15m", "1d", "abc"})
		}
		if r.Intn(2) == 0 {
			ru.HasAnn = true
			for _, k := range []string{"summary", "link", "team"} {
				if r.Intn(2) == 0 {
					ru.Annotations = append(ru.Annotations, [2]string{k, pick(r, c18Names)})
				}
			}
			if len(ru.Annotations) == 0 {
				ru.Annotations = [][2]string{{"summary", "CPU [high"}}
			}
		}
	}
	if r.Intn(3) > 0 {
		ru.HasLabels = true
		for _, k := range []string{"team", "severity", "summary"} {
			if r.Intn(2) == 0 {
				ru.Labels = append(ru.Labels, [2]string{k, pick(r, c18Names)})
			}
		}
		if len(ru.Labels) == 0 {
			ru.Labels = [][2]string{{"team", "a|b"}}
		}
	}
	return ru
}

func (ru c18Rule) yaml() string {
	var b strings.Builder
	if ru.Kind == "alerting" {
		fmt.Fprintf(&b, "  - alert: %s\n    expr: %s\n", yamlStr(ru.Name), yamlStr(ru.Expr))
		if ru.For != "" {
			fmt.Fprintf(&b, "    for: %s\n", ru.For)
		}
		if ru.KeepFiring != "" {
			fmt.Fprintf(&b, "    keep_firing_for: %s\n", ru.KeepFiring)
		}
	} else {
		fmt.Fprintf(&b, "  - record: %s\n    expr: %s\n", yamlStr(ru.Name), yamlStr(ru.Expr))
	}
	if ru.HasLabels {
		b.WriteString("    labels:\n")
		for _, kv := range ru.Labels {
			fmt.Fprintf(&b, "      %s: %s\n", kv[0], yamlStr(kv[1]))
		}
	}
	if ru.HasAnn {
		b.WriteString("    annotations:\n")
		for _, kv := range ru.Annotations {
			fmt.Fprintf(&b, "      %s: %s\n", kv[0], yamlStr(kv[1]))
		}
	}
	return b.String()
}

// yamlStr: a YAML double-quoted scalar (JSON string syntax is valid YAML)
func yamlStr(s string) string {
	b, _ := json.Marshal(s)
	return string(b)
}

// the model's new_template_context, re-implemented here to execute OUR template (compared with the model in Coq)
type c18Ctx struct {
	Alert, Record, Expr, For string
	Labels, Annotations      [][2]string
}

func c18ModelCtx(ru *parser.Rule) c18Ctx {
	var c c18Ctx
	items := func(m *parser.YamlMap) [][2]string {
		var out [][2]string
		if m != nil {
			for _, it := range m.Items {
				out = append(out, [2]string{it.Key.Value, it.Value.Value})
			}
		}
		return out
	}
	if ru.AlertingRule != nil {
		c.Alert = ru.AlertingRule.Alert.Value
		c.Expr = ru.AlertingRule.Expr.Value.Value
		if ru.AlertingRule.For != nil {
			c.For = ru.AlertingRule.For.Value
		}
		c.Labels = append(items(ru.AlertingRule.Labels), items(ru.AlertingRule.Annotations)...)
	}
	if ru.RecordingRule != nil {
		c.Record = ru.RecordingRule.Record.Value
		c.Expr = ru.RecordingRule.Expr.Value.Value
		c.Labels = items(ru.RecordingRule.Labels)
	}
	return c
}

const c18Aliases = "{{ $alert := .Alert }}{{ $record := .Record }}{{ $for := .For }}{{ $labels := .Labels }}{{ $annotations := .Annotations }}"

type c18TmplCtx struct {
	Labels      map[string]string
	Annotations map[string]string
	Alert       string
	Record      string
	Expr        string
	For         string
}

func c18Exec(text string, c c18Ctx) (string, bool, bool) {
	t, err := template.New("regexp").Parse(text)
	if err != nil {
		return "", false, false
	}
	t.Option("missingkey=zero")
	tc := c18TmplCtx{Labels: map[string]string{}, Annotations: map[string]string{}, Alert: c.Alert, Record: c.Record, Expr: c.Expr, For: c.For}
	for _, kv := range c.Labels {
		tc.Labels[kv[0]] = kv[1]
	}
	for _, kv := range c.Annotations {
		tc.Annotations[kv[0]] = kv[1]
	}
	var buf bytes.Buffer
	if err := t.Execute(&buf, tc); err != nil {
		return "", true, false
	}
	return buf.String(), true, true
}

func c18CoqPairs(p [][2]string) string {
	var it []string
	for _, kv := range p {
		it = append(it, coqPair(coqStr(kv[0]), coqStr(kv[1])))
	}
	return coqList(it)
}

func c18RuleTerm(ru *parser.Rule) string {
	kind, name, expr, forv, labels, ann := "RNone", "", "", "None", "None", "None"
	opt := func(m *parser.YamlMap) string {
		if m == nil {
			return "None"
		}
		var p [][2]string
		for _, it := range m.Items {
			p = append(p, [2]string{it.Key.Value, it.Value.Value})
		}
		return "(Some " + c18CoqPairs(p) + ")"
	}
	if ru.AlertingRule != nil {
		kind, name, expr = "RAlerting", ru.AlertingRule.Alert.Value, ru.AlertingRule.Expr.Value.Value
		if ru.AlertingRule.For != nil {
			forv = "(Some " + coqStr(ru.AlertingRule.For.Value) + ")"
		}
		labels, ann = opt(ru.AlertingRule.Labels), opt(ru.AlertingRule.Annotations)
	} else if ru.RecordingRule != nil {
		kind, name, expr = "RRecording", ru.RecordingRule.Record.Value, ru.RecordingRule.Expr.Value.Value
		labels = opt(ru.RecordingRule.Labels)
	}
	return fmt.Sprintf("{| tr_kind := %s; tr_name := %s; tr_expr := %s; tr_for := %s; tr_labels := %s; tr_annotations := %s |}",
		kind, coqStr(name), coqStr(expr), forv, labels, ann)
}

func c18OptStr(ok bool, s string) string { return coqOpt(ok, coqStr(s)) }

// c18Text prints a template text whose alias prefix is the model's own constant (AL := aliases in the preamble): the
// case files get much smaller.  The template cases keep ONE literal copy per case (c_parse), so a difference between
// this harness's alias text and the model's still shows up as "oracle-table-incomplete".
func c18Text(text string) string {
	if strings.HasPrefix(text, c18Aliases) {
		return "(AL ++ " + coqStr(strings.TrimPrefix(text, c18Aliases)) + ")%string"
	}
	return coqStr(text)
}

func c18MustExpand(tr *checks.TemplatedRegexp, ru parser.Rule, out *string) (msg string) {
	defer func() {
		if r := recover(); r != nil {
			msg = fmt.Sprint(r)
		}
	}()
	*out = tr.MustExpand(ru).String()
	return ""
}

func c18Templates(r *rand.Rand, rep *runReport, cw *caseWriter, cwd string, n int, id *int) {
	// rules through the real parser
	dir := filepath.Join(cwd, "tmpl")
	var b strings.Builder
	b.WriteString("groups:\n- name: g\n  rules:\n")
	nr := 6 + n/8
	for i := 0; i < nr; i++ {
		b.WriteString(c18GenRule(r).yaml())
	}
	// the design witness first
	w := "groups:\n- name: w\n  rules:\n  - alert: \"CPU [high\"\n    expr: up == 0\n    annotations:\n      summary: \"CPU [high\"\n  - alert: \"z-a\"\n    expr: up == 0\n"
	writeFile(filepath.Join(dir, "rules", "0.yml"), w)
	writeFile(filepath.Join(dir, "rules", "1.yml"), b.String())
	entries, err := scEntries(dir, "rules")
	if err != nil {
		rep.Notes = append(rep.Notes, "template rules: finder error "+err.Error())
		return
	}
	var rules []parser.Rule
	for _, e := range entries {
		if e.PathError == nil && e.Rule.Error.Err == nil {
			rules = append(rules, e.Rule)
		}
	}
	rep.hist(fmt.Sprintf("tmpl:rules=%d", len(rules)))
	for _, pat := range c18Patterns {
		for _, raw := range []bool{false, true} {
			picked := map[int]bool{0: true, 1: true}
			for len(picked) < min(len(rules), 5+n/60) {
				picked[r.Intn(len(rules))] = true
			}
			idxs := make([]int, 0, len(picked))
			for k := range picked {
				idxs = append(idxs, k)
			}
			sort.Ints(idxs)
			for _, ri := range idxs {
				if ri >= len(rules) {
					continue
				}
				ru := rules[ri]
				anchored := pat
				var tr *checks.TemplatedRegexp
				var nerr error
				if raw {
					tr, nerr = checks.NewRawTemplatedRegexp(pat)
				} else {
					anchored = "^" + pat + "$"
					tr, nerr = checks.NewTemplatedRegexp(pat)
				}
				obsExpand, obsExpandOK, obsMust := "", false, ""
				if nerr == nil {
					re, err := tr.Expand(ru)
					if err == nil {
						obsExpand, obsExpandOK = re.String(), true
					}
					// the use-site protocol of every check: c.re.MustExpand(rule).<method>
					if msg := c18MustExpand(tr, ru, &obsMust); msg != "" {
						rep.fail(fmt.Sprintf("tmpl-%v-%s-%s", raw, pat, ru.Name()),
							"a pattern accepted by New(Raw)TemplatedRegexp crashes at its use site MustExpand(rule).String(): "+msg,
							map[string]any{"pattern": pat, "raw": raw, "rule_name": ru.Name(), "rule_lines": ru.Lines.String(),
								"hint": "config: annotation/label/name/reject/link/aggregate block with this pattern; rule file: a rule with this name/labels"})
						continue
					}
				}
				// oracle tables
				text := c18Aliases + anchored
				ctx := c18ModelCtx(&ru)
				outE, parses, okE := c18Exec(text, c18Ctx{})
				outR, _, okR := c18Exec(text, ctx)
				compile := map[string]bool{}
				for _, s := range []string{outE, outR, `[^\s\S]`} {
					_, err := regexp.Compile(s)
					compile[s] = err == nil
				}
				var ct []string
				for _, s := range sortedKeys(compile) {
					ct = append(ct, coqPair(coqStr(s), coqBool(compile[s])))
				}
				*id++
				term := fmt.Sprintf("{| c_id := %s; c_raw := %s; c_pattern := %s; c_rule := %s; c_ctx := {| cx_alert := %s; cx_record := %s; cx_expr := %s; cx_for := %s; cx_labels := %s; cx_annotations := %s |}; "+
					"c_parse := [%s]; c_exec := [%s]; c_compile := %s; c_obs_new_ok := %s; c_obs_expand := %s; c_obs_must := %s; c_block := None |}",
					coqN(*id), coqBool(raw), coqStr(pat), c18RuleTerm(&ru), coqStr(ctx.Alert), coqStr(ctx.Record), coqStr(ctx.Expr), coqStr(ctx.For), c18CoqPairs(ctx.Labels), c18CoqPairs(ctx.Annotations),
					coqPair(coqStr(text), coqBool(parses)),
					coqPair(c18Text(text), coqPair(c18OptStr(okE, outE), c18OptStr(okR, outR))),
					coqList(ct), coqBool(nerr == nil), c18OptStr(obsExpandOK, obsExpand), coqStr(obsMust))
				cw.add(term)
				uses := strings.Contains(pat, "{{")
				rep.count(fmt.Sprintf("tmpl|%v|%s|%s", raw, pat, ru.Name()), nerr == nil && uses)
				rep.hist("case=template")
				if nerr != nil {
					rep.hist("tmpl:rejected-at-load")
				} else if !obsExpandOK {
					rep.hist("tmpl:expansion-invalid-for-rule")
				} else {
					rep.hist("tmpl:expanded")
				}
				if len(rep.Cases) < 300 {
					rep.Cases[fmt.Sprint(*id)] = map[string]any{"pattern": pat, "raw": raw, "rule": ru.Name(), "new_ok": nerr == nil, "expand": obsExpand, "must": obsMust}
				}
			}
		}
	}
}


// ---------------------------------------------------------------------------------------------
// (1b) block-level protocol: Rule.validate (load) / parseRule (construction with dropped errors) / String() and Check()
// of the built checks, for annotation / label / reject / name / aggregate blocks over valid AND invalid patterns,
// versus Model/TemplatedRegexpBlocks.v.

var c18BlockKeys = []string{"summary", "{{ $alert }}.*", "team|severity", "(", "{{ nope", "[a{{ $alert }}]", "{{ $labels.team }}", "", ".*", "{{ .Foo }}", "x{2,1}", "{{ $record }}"}
var c18BlockTokens = []string{"", "", "\\w+", "[a-z]+", "(", "{{ $alert }}", "{{ nope", "[{{ $for }}]"}
var c18BlockValues = []string{"", "", "foo.*", "{{ $alert }}.*", "[a{{ $alert }}]", "(", "{{ .Foo }}", "{{ $labels.team }}-.+", "a|b"}

func c18Try(f func()) (msg string) {
	defer func() {
		if r := recover(); r != nil {
			msg = fmt.Sprint(r)
			if msg == "" {
				msg = "panic"
			}
		}
	}()
	f()
	return ""
}

func c18Blocks(r *rand.Rand, rep *runReport, cw *caseWriter, cwd string, n int, id *int) {
	entries, err := scEntries(filepath.Join(cwd, "tmpl"), "rules")
	if err != nil {
		rep.Notes = append(rep.Notes, "block rules: finder error "+err.Error())
		return
	}
	var ents []discovery.Entry
	for _, e := range entries {
		if e.PathError == nil && e.Rule.Error.Err == nil {
			ents = append(ents, e)
		}
	}
	if len(ents) == 0 {
		return
	}
	kinds := []string{"annotation", "label", "reject", "name", "aggregate"}
	type trip struct{ key, token, value string }
	var trips []trip
	// every key once with token/value unset, every token and every value once with a good key, then random mixes
	for _, k := range c18BlockKeys {
		trips = append(trips, trip{k, "", ""})
	}
	for _, t := range c18BlockTokens {
		trips = append(trips, trip{"summary", t, ""})
	}
	for _, v := range c18BlockValues {
		trips = append(trips, trip{"{{ $labels.team }}", "", v})
	}
	for i := 0; i < 6+n/4; i++ {
		trips = append(trips, trip{pick(r, c18BlockKeys), pick(r, c18BlockTokens), pick(r, c18BlockValues)})
	}
	ctx := scCtx("lint")
	for ki, kind := range kinds {
		for ti, tp := range trips {
			if ki >= 2 && (tp.token != "" || tp.value != "") {
				continue // single-regexp blocks: the key pool only
			}
			var rule config.Rule
			switch kind {
			case "annotation":
				rule.Annotation = []config.AnnotationSettings{{Key: tp.key, Token: tp.token, Value: tp.value, Required: true}}
			case "label":
				rule.Label = []config.AnnotationSettings{{Key: tp.key, Token: tp.token, Value: tp.value, Required: true}}
			case "reject":
				rule.Reject = []config.RejectSettings{{Regex: tp.key, LabelKeys: true, LabelValues: true, AnnotationKeys: true, AnnotationValues: true}}
			case "name":
				rule.RuleName = []config.RuleNameSettings{{Regex: tp.key}}
			case "aggregate":
				rule.Aggregate = []config.AggregateSettings{{Name: tp.key, Keep: []string{"job"}}}
			}
			valid := config.C18RuleValidate(rule) == nil
			var built []checks.RuleChecker
			if msg := c18Try(func() { built = config.C18ParseRuleChecks(rule) }); msg != "" {
				rep.fail(fmt.Sprintf("block-%s-%d", kind, ti), "parseRule crashed while building the checks of a rule block: "+msg, map[string]any{"kind": kind, "key": tp.key, "token": tp.token, "value": tp.value, "validate_ok": valid})
				continue
			}
			eis := []int{(ti*7 + ki) % len(ents)}
			if ti%4 == 0 || n >= 1000 {
				eis = append(eis, 0)
			}
			for _, ei := range eis {
				ent := ents[ei]
				str, strOK, checkOK := "", true, true
				var crash string
				for ci, chk := range built {
					if msg := c18Try(func() {
						s := chk.String()
						if ci == 0 {
							str = s
						}
					}); msg != "" {
						strOK = false
						crash = "String(): " + msg
					}
					if msg := c18Try(func() { _ = chk.Check(ctx, ent, ents) }); msg != "" {
						checkOK = false
						crash = "Check(): " + msg
					}
				}
				if valid && (!strOK || !checkOK) {
					rep.fail(fmt.Sprintf("block-%s-%d-%d", kind, ti, ei), fmt.Sprintf("a %s block accepted by Rule.validate builds a check that crashes on rule %q: %s", kind, ent.Rule.Name(), crash),
						map[string]any{"kind": kind, "key": tp.key, "token": tp.token, "value": tp.value, "rule_name": ent.Rule.Name(), "rule_lines": ent.Rule.Lines.String(),
							"hint": fmt.Sprintf("config: rule { %s %q { token = %q value = %q } }", kind, tp.key, tp.token, tp.value)})
					continue
				}
				// oracle tables for the three patterns
				mc := c18ModelCtx(&ent.Rule)
				parse, exec := []string{}, []string{}
				compile := map[string]bool{}
				seen := map[string]bool{}
				for _, text := range []string{c18Aliases + "^" + tp.key + "$", c18Aliases + tp.token, c18Aliases + "^" + tp.value + "$"} {
					if seen[text] {
						continue
					}
					seen[text] = true
					outE, parses, okE := c18Exec(text, c18Ctx{})
					outR, _, okR := c18Exec(text, mc)
					parse = append(parse, coqPair(c18Text(text), coqBool(parses)))
					exec = append(exec, coqPair(c18Text(text), coqPair(c18OptStr(okE, outE), c18OptStr(okR, outR))))
					for _, s := range []string{outE, outR} {
						_, err := regexp.Compile(s)
						compile[s] = err == nil
					}
				}
				_, err := regexp.Compile(`[^\s\S]`)
				compile[`[^\s\S]`] = err == nil
				var ct []string
				for _, s := range sortedKeys(compile) {
					ct = append(ct, coqPair(coqStr(s), coqBool(compile[s])))
				}
				*id++
				blk := fmt.Sprintf("(Some {| b_kind := %s; b_key := %s; b_token := %s; b_value := %s; b_obs_valid := %s; b_obs_nchecks := %s; b_obs_string := %s; b_obs_check_ok := %s |})",
					coqN(ki), coqStr(tp.key), coqStr(tp.token), coqStr(tp.value), coqBool(valid), coqN(len(built)), c18OptStr(strOK, str), coqBool(checkOK))
				term := fmt.Sprintf("{| c_id := %s; c_raw := false; c_pattern := \"\"; c_rule := %s; c_ctx := {| cx_alert := %s; cx_record := %s; cx_expr := %s; cx_for := %s; cx_labels := %s; cx_annotations := %s |}; "+
					"c_parse := %s; c_exec := %s; c_compile := %s; c_obs_new_ok := false; c_obs_expand := None; c_obs_must := \"\"; c_block := %s |}",
					coqN(*id), c18RuleTerm(&ent.Rule), coqStr(mc.Alert), coqStr(mc.Record), coqStr(mc.Expr), coqStr(mc.For), c18CoqPairs(mc.Labels), c18CoqPairs(mc.Annotations),
					coqList(parse), coqList(exec), coqList(ct), blk)
				cw.add(term)
				rep.count(fmt.Sprintf("block|%s|%s|%s|%s|%s", kind, tp.key, tp.token, tp.value, ent.Rule.Name()), valid && strings.Contains(tp.key+tp.token+tp.value, "{{"))
				rep.hist("case=block:" + kind)
				switch {
				case !valid && !strOK:
					rep.hist("block:rejected-at-load,unvalidated-check-would-crash-in-String")
				case !valid && !checkOK:
					rep.hist("block:rejected-at-load,unvalidated-check-would-crash-in-Check")
				case !valid:
					rep.hist("block:rejected-at-load,unvalidated-check-would-survive")
				default:
					rep.hist("block:accepted")
				}
				if len(rep.Cases) < 400 {
					rep.Cases[fmt.Sprint(*id)] = map[string]any{"block": kind, "key": tp.key, "token": tp.token, "value": tp.value, "rule": ent.Rule.Name(), "validate_ok": valid, "string": str, "string_ok": strOK, "check_ok": checkOK}
				}
			}
		}
	}
}

// ---------------------------------------------------------------------------------------------
// (2) configurations over every block / option

type c18Pool struct{ good, bad []string }

var (
	c18Dur      = c18Pool{good: []string{"5m", "1h", "5h", "30s", "1d", "1w", "2h30m", "0s", "6h", "1m"}, bad: []string{"abc", "5", "-1m", "1.5h", "", "1y1y"}}
	c18Sev      = c18Pool{good: []string{"info", "warning", "bug", "fatal"}, bad: []string{"", "critical", "Bug"}}
	c18Re       = c18Pool{good: []string{".*", "foo.+", "a|b", "(x|y)z", "[a-z]+", "rules/.*", "\\d+", "\\Qa.b\\E.*", "(?i)cpu.*"}, bad: []string{"(", "[a", "*", "\\Qabc", "a{2,1}", "(?P<n>", "\\", ""}}
	c18Tmpl     = c18Pool{good: []string{"{{ $alert }}.*", "{{ $labels.team }}", "[a{{ $alert }}]", "{{ $record }}|x", "({{ $alert }})", "{{ $alert }}{2}", "{{ $for }}.*"}, bad: []string{"{{ nope", "{{ .Foo }}", "{{ $expr }}", "{{ $alert", "{{ end }}"}}
	c18Int      = c18Pool{good: []string{"0", "1", "5", "100"}, bad: []string{"-1"}}
	// duration match expressions of match/ignore blocks: `<op> <duration>` with ONE space, or a bare duration
	c18DurMatch = c18Pool{good: []string{"5m", "> 1m", "<= 5m", "!= 0s", "= 5m", ">= 1d", "< 1w", "0s"},
		bad: []string{">15m", "~ 5m", "> x", "garbage", ">  5m", " 5m", "5m ", "> ", "=5m", "5", "-5m", "> 1m 2m", "1y1y", "<=", "== 5m"}}
	c18Selector = c18Pool{good: []string{"foo", "{job=\"x\"}", "up{a=~\"b.*\"}"}, bad: []string{"foo{", "{}", "sum(foo)"}}
)

func (p c18Pool) pick(r *rand.Rand, badP float64) string {
	if r.Float64() < badP {
		return pick(r, p.bad)
	}
	return pick(r, p.good)
}

type c18Gen struct {
	r    *rand.Rand
	badP float64
	used map[string]bool
}

func (g *c18Gen) opt(b *strings.Builder, indent, name, val string, p float64) {
	if g.r.Float64() < p {
		fmt.Fprintf(b, "%s%s = %s\n", indent, name, val)
		g.used[name] = true
	}
}

// choose: a good value, or (with probability badP) a bad one
func (g *c18Gen) choose(good, bad []string) string {
	if len(bad) > 0 && g.r.Float64() < g.badP {
		return pick(g.r, bad)
	}
	return pick(g.r, good)
}

func (g *c18Gen) re() string {
	if g.r.Intn(3) == 0 {
		return hclStr(c18Tmpl.pick(g.r, g.badP))
	}
	return hclStr(c18Re.pick(g.r, g.badP))
}

func (g *c18Gen) plainRe() string { return hclStr(c18Re.pick(g.r, g.badP)) }
func (g *c18Gen) dur() string     { return hclStr(c18Dur.pick(g.r, g.badP)) }
func (g *c18Gen) sev() string     { return hclStr(c18Sev.pick(g.r, g.badP)) }
func (g *c18Gen) num() string     { return c18Int.pick(g.r, g.badP) }
func (g *c18Gen) boolean() string { return pick(g.r, []string{"true", "false"}) }

func (g *c18Gen) matchBlock(kind string) string {
	var b strings.Builder
	fmt.Fprintf(&b, "  %s {\n", kind)
	g.opt(&b, "    ", "path", g.plainRe(), 0.4)
	if kind == "ignore" && g.r.Float64() >= g.badP {
		g.opt(&b, "    ", "name", g.plainRe(), 1) // an ignore block needs at least one condition
	} else {
		g.opt(&b, "    ", "name", g.plainRe(), 0.5)
	}
	g.opt(&b, "    ", "kind", hclStr(g.choose([]string{"alerting", "recording"}, []string{"bogus"})), 0.3)
	g.opt(&b, "    ", "command", hclStr(g.choose([]string{"lint", "ci", "watch", "lint"}, []string{"nope"})), 0.2)
	g.opt(&b, "    ", "state", hclList(append(c08Subset18(g.r, []string{"any", "added", "modified", "renamed", "removed", "unmodified"}, 0.25), c08Subset18(g.r, []string{"bogus"}, g.badP)...)), 0.2)
	g.opt(&b, "    ", "for", hclStr(g.choose(c18DurMatch.good, c18DurMatch.bad)), 0.2)
	// keep_firing_for of a match block is not validated at load: every value class is an ACCEPTED configuration
	g.opt(&b, "    ", "keep_firing_for", hclStr(pick(g.r, append(append([]string{}, c18DurMatch.good...), c18DurMatch.bad...))), 0.2)
	if g.r.Intn(4) == 0 {
		fmt.Fprintf(&b, "    label %s {\n      value = %s\n    }\n", g.plainRe(), g.plainRe())
	}
	if g.r.Intn(5) == 0 {
		fmt.Fprintf(&b, "    annotation %s {\n      value = %s\n    }\n", g.plainRe(), g.plainRe())
	}
	b.WriteString("  }\n")
	return b.String()
}

func c08Subset18(r *rand.Rand, xs []string, p float64) []string {
	out := []string{}
	for _, x := range xs {
		if r.Float64() < p {
			out = append(out, x)
		}
	}
	return out
}

func (g *c18Gen) ruleBlock() string {
	var b strings.Builder
	b.WriteString("rule {\n")
	g.opt(&b, "  ", "locked", g.boolean(), 0.1)
	for i := g.r.Intn(3); i > 0; i-- {
		b.WriteString(g.matchBlock("match"))
	}
	for i := g.r.Intn(2); i > 0; i-- {
		b.WriteString(g.matchBlock("ignore"))
	}
	names := append([]string{}, checks.CheckNames...)
	if g.r.Float64() < g.badP {
		names = append(names, "bogus/check")
	}
	g.opt(&b, "  ", "enable", hclList(c08Subset18(g.r, names, 0.08)), 0.15)
	g.opt(&b, "  ", "disable", hclList(c08Subset18(g.r, names, 0.08)), 0.15)
	n := 1 + g.r.Intn(4)
	single := map[string]bool{}
	for i := 0; i < n; i++ {
		switch k := g.r.Intn(12); k {
		case 0:
			fmt.Fprintf(&b, "  aggregate %s {\n", g.re())
			g.opt(&b, "    ", "keep", `["job"]`, 1-g.badP/2)
			g.opt(&b, "    ", "strip", `["instance"]`, 0.4)
			g.opt(&b, "    ", "comment", `"c"`, 0.2)
			g.opt(&b, "    ", "severity", g.sev(), 0.4)
			b.WriteString("  }\n")
		case 1, 2:
			kind := []string{"annotation", "label"}[k-1]
			fmt.Fprintf(&b, "  %s %s {\n", kind, g.re())
			g.opt(&b, "    ", "value", g.re(), 0.5)
			g.opt(&b, "    ", "token", g.re(), 0.3)
			g.opt(&b, "    ", "values", `["a", "b|c", "CPU [high"]`, 0.2)
			g.opt(&b, "    ", "required", g.boolean(), 0.7)
			g.opt(&b, "    ", "comment", `"c"`, 0.2)
			g.opt(&b, "    ", "severity", g.sev(), 0.4)
			b.WriteString("  }\n")
		case 3:
			if single["cost"] {
				continue
			}
			single["cost"] = true
			b.WriteString("  cost {\n")
			g.opt(&b, "    ", "maxSeries", g.num(), 0.5)
			g.opt(&b, "    ", "maxTotalSamples", g.num(), 0.3)
			g.opt(&b, "    ", "maxPeakSamples", g.num(), 0.3)
			g.opt(&b, "    ", "maxEvaluationDuration", g.dur(), 0.4)
			g.opt(&b, "    ", "severity", g.sev(), 0.4)
			b.WriteString("  }\n")
		case 4:
			if single["alerts"] {
				continue
			}
			single["alerts"] = true
			b.WriteString("  alerts {\n")
			g.opt(&b, "    ", "range", g.dur(), 0.97) // required arguments of the alerts block
			g.opt(&b, "    ", "step", g.dur(), 0.97)
			g.opt(&b, "    ", "resolve", g.dur(), 0.97)
			g.opt(&b, "    ", "minCount", g.num(), 0.4)
			g.opt(&b, "    ", "severity", g.sev(), 0.3)
			b.WriteString("  }\n")
		case 5:
			fmt.Fprintf(&b, "  reject %s {\n", g.re())
			g.opt(&b, "    ", "label_keys", g.boolean(), 0.5)
			g.opt(&b, "    ", "label_values", g.boolean(), 0.5)
			g.opt(&b, "    ", "annotation_keys", g.boolean(), 0.5)
			g.opt(&b, "    ", "annotation_values", g.boolean(), 0.5)
			g.opt(&b, "    ", "severity", g.sev(), 0.3)
			b.WriteString("  }\n")
		case 6:
			fmt.Fprintf(&b, "  link %s {\n", pick(g.r, []string{`"https?://.*"`, `"http://(.*)"`, g.re()}))
			g.opt(&b, "    ", "uri", hclStr(pick(g.r, []string{"http://127.0.0.1:1/$1", "http://exa mple.com/%zz", "$1", "::", "http://127.0.0.1:1/x"})), 0.5)
			g.opt(&b, "    ", "timeout", g.dur(), 0.4)
			g.opt(&b, "    ", "headers", `{ "X-Auth" = "k" }`, 0.3)
			g.opt(&b, "    ", "severity", g.sev(), 0.3)
			b.WriteString("  }\n")
		case 7, 8:
			kind := []string{"for", "keep_firing_for"}[k-7]
			if single[kind] {
				continue
			}
			single[kind] = true
			fmt.Fprintf(&b, "  %s {\n", kind)
			g.opt(&b, "    ", "min", g.dur(), 1-g.badP/2)
			g.opt(&b, "    ", "max", g.dur(), 0.5)
			g.opt(&b, "    ", "severity", g.sev(), 0.3)
			b.WriteString("  }\n")
		case 9:
			fmt.Fprintf(&b, "  name %s {\n", g.re())
			g.opt(&b, "    ", "severity", g.sev(), 0.3)
			b.WriteString("  }\n")
		case 10:
			if single["range_query"] {
				continue
			}
			single["range_query"] = true
			b.WriteString("  range_query {\n")
			g.opt(&b, "    ", "max", hclStr(g.choose([]string{"5m", "1h", "1d", "6h"}, []string{"0s", "abc", ""})), 0.9)
			g.opt(&b, "    ", "severity", g.sev(), 0.3)
			b.WriteString("  }\n")
		default:
			if single["report"] {
				continue
			}
			single["report"] = true
			b.WriteString("  report {\n")
			g.opt(&b, "    ", "comment", hclStr(g.choose([]string{"rep", "{{ x"}, []string{""})), 0.97)
			g.opt(&b, "    ", "severity", g.sev(), 0.97)
			b.WriteString("  }\n")
		}
	}
	b.WriteString("}\n")
	return b.String()
}

func (g *c18Gen) config(promURL string) (cfg string, hasProm bool) {
	var b strings.Builder
	if g.r.Intn(4) == 0 {
		b.WriteString("parser {\n")
		g.opt(&b, "  ", "schema", hclStr(g.choose([]string{"prometheus", "thanos"}, []string{"bogus"})), 0.3)
		g.opt(&b, "  ", "names", hclStr(g.choose([]string{"utf-8", "legacy"}, []string{"bogus"})), 0.3)
		g.opt(&b, "  ", "relaxed", "["+g.plainRe()+"]", 0.4)
		g.opt(&b, "  ", "include", "["+g.plainRe()+"]", 0.3)
		g.opt(&b, "  ", "exclude", "["+hclStr(g.choose([]string{"nomatch/.*", "x|y", "\\Qx"}, []string{"("}))+"]", 0.3)
		b.WriteString("}\n")
	}
	if g.r.Intn(6) == 0 {
		b.WriteString("owners {\n")
		g.opt(&b, "  ", "allowed", "["+g.plainRe()+"]", 0.9)
		b.WriteString("}\n")
	}
	if g.r.Intn(6) == 0 {
		b.WriteString("ci {\n")
		g.opt(&b, "  ", "maxCommits", g.choose([]string{"1", "5", "20"}, []string{"0", "-1"}), 0.6)
		g.opt(&b, "  ", "baseBranch", `"main"`, 0.6)
		b.WriteString("}\n")
	}
	if g.r.Intn(4) == 0 {
		names := append([]string{}, checks.CheckNames...)
		if g.r.Float64() < g.badP {
			names = append(names, "bogus/check")
		}
		b.WriteString("checks {\n")
		g.opt(&b, "  ", "enabled", hclList(c08Subset18(g.r, names, 0.6)), 0.5)
		g.opt(&b, "  ", "disabled", hclList(c08Subset18(g.r, names, 0.1)), 0.6)
		b.WriteString("}\n")
	}
	if promURL != "" && g.r.Intn(2) == 0 {
		hasProm = true
		fmt.Fprintf(&b, "prometheus \"prom\" {\n  uri = %q\n", promURL)
		g.opt(&b, "  ", "timeout", g.dur(), 0.5)
		g.opt(&b, "  ", "uptime", hclStr(g.choose([]string{"up", "prometheus_build_info"}, []string{"foo{"})), 0.3)
		g.opt(&b, "  ", "tags", hclList(pick(g.r, [][]string{{"a"}, {"a", "b"}, {g.choose([]string{"c"}, []string{"a b"})}})), 0.3)
		g.opt(&b, "  ", "include", "["+g.plainRe()+"]", 0.2)
		g.opt(&b, "  ", "exclude", "["+hclStr(g.choose([]string{"nomatch/.*"}, []string{"("}))+"]", 0.2)
		g.opt(&b, "  ", "concurrency", pick(g.r, []string{"0", "8", "16", "-1"}), 0.3)
		g.opt(&b, "  ", "rateLimit", pick(g.r, []string{"0", "100", "1000", "-1"}), 0.3) // small limits only make pint slow
		g.opt(&b, "  ", "required", g.boolean(), 0.3)
		// failover / publicURI are never looked at by PrometheusConfig.validate (reviewed: a bad URI is a request error)
		g.opt(&b, "  ", "failover", "["+hclStr(g.choose([]string{promURL, promURL + "/"}, []string{"::", "http://exa mple.com/%zz", "", "http://127.0.0.1:1"}))+"]", 0.25)
		g.opt(&b, "  ", "publicURI", hclStr(g.choose([]string{"http://prom.example.com"}, []string{"::", "", "http://exa mple.com/%zz"})), 0.2)
		g.opt(&b, "  ", "headers", pick(g.r, []string{`{ "X-Auth" = "k" }`, `{ "" = "" }`, `{ "X y" = "a\nb" }`}), 0.2)
		b.WriteString("}\n")
	}
	if promURL != "" && g.r.Intn(6) == 0 {
		hasProm = true
		// dynamic discovery (online runs only): servers rendered from named captures of the path regexp
		b.WriteString("discovery {\n  filepath {\n    directory = \"rules\"\n")
		fmt.Fprintf(&b, "    match = %s\n", hclStr(g.choose([]string{"(?P<name>\\w+)\\.yml", "(?P<name>.+)", "0.yml", "(?P<a>\\d)(?P<b>.*)"}, []string{"(", "(?P<n"})))
		g.opt(&b, "    ", "ignore", "["+g.plainRe()+"]", 0.3)
		b.WriteString("    template {\n")
		fmt.Fprintf(&b, "      name = %s\n", hclStr(g.choose([]string{"disc-{{ $name }}", "disc", "{{ $a }}-{{ $b }}", "d {{ $nope }}"}, []string{"{{ nope", ""})))
		fmt.Fprintf(&b, "      uri = %s\n", hclStr(g.choose([]string{promURL, promURL + "/{{ $name }}", "{{ $uri }}"}, []string{"", "::{{"})))
		g.opt(&b, "      ", "timeout", g.dur(), 0.4)
		g.opt(&b, "      ", "tags", hclList(pick(g.r, [][]string{{"{{ $name }}"}, {"a"}, {g.choose([]string{"c"}, []string{"a {{ $name }}"})}})), 0.4)
		g.opt(&b, "      ", "include", "["+hclStr(g.choose([]string{"rules/{{ $name }}.*", ".*"}, []string{"({{ $name }}"}))+"]", 0.3)
		g.opt(&b, "      ", "exclude", "["+hclStr(g.choose([]string{"nomatch/.*"}, []string{"["}))+"]", 0.2)
		g.opt(&b, "      ", "failover", "["+hclStr(promURL+"/{{ $name }}")+"]", 0.2)
		g.opt(&b, "      ", "headers", `{ "X-{{ $name }}" = "{{ $name }}" }`, 0.2)
		g.opt(&b, "      ", "required", g.boolean(), 0.2)
		b.WriteString("    }\n  }\n}\n")
	}
	if g.r.Intn(3) == 0 {
		b.WriteString("check \"promql/series\" {\n")
		g.opt(&b, "  ", "lookbackRange", g.dur(), 0.5)
		g.opt(&b, "  ", "lookbackStep", g.dur(), 0.6)
		g.opt(&b, "  ", "ignoreMetrics", "["+g.plainRe()+"]", 0.4)
		g.opt(&b, "  ", "ignoreLabelsValue", `{ "foo" = ["job"] }`, 0.3)
		g.opt(&b, "  ", "fallbackTimeout", g.dur(), 0.3)
		g.opt(&b, "  ", "ignoreMatchingElsewhere", "["+hclStr(c18Selector.pick(g.r, g.badP))+"]", 0.3)
		b.WriteString("}\n")
	}
	if g.r.Intn(6) == 0 {
		b.WriteString("check \"promql/regexp\" {\n")
		g.opt(&b, "  ", "smelly", g.boolean(), 0.8)
		b.WriteString("}\n")
	}
	if g.r.Intn(12) == 0 {
		fmt.Fprintf(&b, "check %q {\n}\n", g.choose([]string{"promql/regexp"}, []string{"promql/rate", "bogus"}))
	}
	for i := g.r.Intn(4); i > 0; i-- {
		b.WriteString(g.ruleBlock())
	}
	return b.String(), hasProm
}

type c18Scenario struct {
	ID     string   `json:"id"`
	Config string   `json:"config"`
	Rules  string   `json:"rules"`
	Online bool     `json:"online"`
	Tags   []string `json:"tags,omitempty"`
	// Global command line flags placed before the sub-command (values documented for --enabled / --disabled:
	// check names, name(tag) and name(+tag) forms, regexps): the configuration pint runs with is file + flags
	Flags []string `json:"flags,omitempty"`
	// Files: further files of the scenario's tree (path relative to the working directory -> content); when set, Rules
	// may be empty (no rules/0.yml is written then)
	Files map[string]string `json:"files,omitempty"`
}

// c18DiscoveryStratum: discovery templates whose fields are rendered from a part of the discovered PATH, crossed with
// directory names that contain regexp / template / URL metacharacters.  A template can only be checked once concrete
// values exist, so these configurations are all accepted at load; whatever the rendered value is, the run must end
// with a report or a regular error, not a panic.
func c18DiscoveryStratum(promURL string) []c18Scenario {
	dirs := []string{"ok", "eu(legacy", "a[b", "*x", "x y", "a|b", `\Qx`, "{{x", "eu(legacy)", "+", "x)y", "%zz"}
	fields := []struct{ tag, body string }{
		{"name", "      name = \"{{ $cluster }}\"\n      uri = %q\n"},
		{"uri", "      name = \"d\"\n      uri = \"%s/{{ $cluster }}\"\n"},
		{"publicURI", "      name = \"d\"\n      uri = %q\n      publicURI = \"http://{{ $cluster }}.example.com\"\n"},
		{"include", "      name = \"d\"\n      uri = %q\n      include = [\"rules/{{ $cluster }}/.*\"]\n"},
		{"exclude", "      name = \"d\"\n      uri = %q\n      exclude = [\"rules/{{ $cluster }}/.*\"]\n"},
		{"tags", "      name = \"d\"\n      uri = %q\n      tags = [\"{{ $cluster }}\"]\n"},
		{"failover", "      name = \"d\"\n      uri = %q\n      failover = [\"http://{{ $cluster }}.example.com\"]\n"},
		{"headers", "      name = \"d\"\n      uri = %q\n      headers = { \"X-{{ $cluster }}\" = \"{{ $cluster }}\" }\n"},
		{"timeout", "      name = \"d\"\n      uri = %q\n      timeout = \"{{ $cluster }}\"\n"},
	}
	rules := "groups:\n- name: g\n  rules:\n  - alert: A\n    expr: up == 0\n  - record: r\n    expr: sum(up)\n"
	var out []c18Scenario
	for _, d := range dirs {
		for _, f := range fields {
			cfg := "discovery {\n  filepath {\n    directory = \"rules\"\n    match = \"(?P<cluster>[^/]+)/.*\"\n    template {\n" + fmt.Sprintf(f.body, promURL) + "    }\n  }\n}\n"
			out = append(out, c18Scenario{ID: fmt.Sprintf("disc-%d-%s", len(out), f.tag), Config: cfg, Online: true,
				Files: map[string]string{"rules/" + d + "/0.yml": rules}, Tags: []string{"toplevel-stratum", "discovery.rendered." + f.tag}})
		}
	}
	return out
}

// c18FlagStratum: the documented forms of --disabled / --enabled (a check name, a regexp over check names, the
// name(server) / name(+tag) forms of a disable comment) and values with regexp metacharacters, with and without a
// configuration file.  `pint config` with the same flags is the load verdict.
func c18FlagStratum(basicRules string) []c18Scenario {
	vals := []string{"promql/rate", "promql/.*", "alerts/.+", "promql/series(prom)", "promql/rate(+a)", "promql/series(+prom)", "rule/label(marker:true)",
		"(", "[a", "*", "a{2,1}", `\`, `\Qx`, "", "promql/(rate|series)", "promql/series(prom", "+", "(?i)PROMQL/RATE", "^promql/rate$"}
	cfgs := []string{"", "rule {\n  label \"marker\" {\n    required = true\n  }\n}\n", "checks {\n  disabled = [\"promql/rate\"]\n}\n"}
	var out []c18Scenario
	for vi, v := range vals {
		for fi, flag := range []string{"--disabled", "--enabled"} {
			cfg := cfgs[(vi+fi)%len(cfgs)]
			out = append(out, c18Scenario{ID: fmt.Sprintf("flag-%d%s", vi, flag), Config: cfg, Rules: basicRules, Flags: []string{flag, v}, Tags: []string{"flag-stratum", flag}})
		}
	}
	out = append(out, c18Scenario{ID: "flag-two", Config: "", Rules: basicRules, Flags: []string{"--disabled", "promql/rate(+a)", "--disabled", "alerts/.*", "--enabled", "promql/series(+b)"}, Tags: []string{"flag-stratum", "both"}})
	return out
}

func c18GenRules(r *rand.Rand) (string, []string) {
	var b strings.Builder
	var tags []string
	b.WriteString("groups:\n- name: g\n")
	groupLabels := r.Intn(5) == 0
	if groupLabels {
		b.WriteString("  labels:\n    team: x\n")
		tags = append(tags, "group-labels")
	}
	b.WriteString("  rules:\n")
	n := 2 + r.Intn(4)
	for i := 0; i < n; i++ {
		ru := c18GenRule(r)
		if groupLabels && ru.Kind == "recording" && !ru.HasLabels {
			tags = append(tags, "group-labels+recording-without-labels")
		}
		b.WriteString(ru.yaml())
	}
	if r.Intn(25) == 0 {
		b.WriteString("  - record: utf8\n    expr: up{\"a(b\"=~\"x.*\"}\n")
		tags = append(tags, "quoted-label-name-with-metachar")
	}
	if r.Intn(3) == 0 {
		b.WriteString("  - alert: Linked\n    expr: up == 0\n    annotations:\n      link: http://127.0.0.1:1/x\n")
	}
	return b.String(), tags
}

// c18FakeProm: every API pint uses answers "success, no data" (ephemeral port).
func c18FakeProm() *httptest.Server {
	return httptest.NewServer(http.HandlerFunc(func(w http.ResponseWriter, req *http.Request) {
		w.Header().Set("Content-Type", "application/json")
		switch req.URL.Path {
		case "/api/v1/query":
			fmt.Fprint(w, `{"status":"success","data":{"resultType":"vector","result":[]}}`)
		case "/api/v1/query_range":
			// like Prometheus: a zero/negative step and more than 11000 points per series are bad_data
			_ = req.ParseForm()
			step, _ := strconv.ParseFloat(req.Form.Get("step"), 64)
			st, _ := strconv.ParseFloat(req.Form.Get("start"), 64)
			en, _ := strconv.ParseFloat(req.Form.Get("end"), 64)
			if step <= 0 {
				w.WriteHeader(400)
				fmt.Fprint(w, `{"status":"error","errorType":"bad_data","error":"zero or negative query resolution step widths are not accepted. Try a positive integer"}`)
				return
			}
			if (en-st)/step > 11000 {
				w.WriteHeader(400)
				fmt.Fprint(w, `{"status":"error","errorType":"bad_data","error":"exceeded maximum resolution of 11,000 points per timeseries. Try decreasing the query resolution (?step=XX)"}`)
				return
			}
			fmt.Fprint(w, `{"status":"success","data":{"resultType":"matrix","result":[]}}`)
		case "/api/v1/status/config":
			fmt.Fprint(w, `{"status":"success","data":{"yaml":"global:\n  scrape_interval: 1m\n"}}`)
		case "/api/v1/status/flags":
			fmt.Fprint(w, `{"status":"success","data":{"storage.tsdb.retention.time":"15d"}}`)
		case "/api/v1/metadata":
			fmt.Fprint(w, `{"status":"success","data":{}}`)
		default:
			w.WriteHeader(404)
			fmt.Fprint(w, `{"status":"error","errorType":"not_found","error":"not found"}`)
		}
	}))
}

// c18RunLimited: the real binary under an address-space limit and a timeout.
func c18RunLimited(dir string, timeout time.Duration, args ...string) (int, string) {
	sh := fmt.Sprintf("ulimit -v %d; exec \"$0\" \"$@\"", 8*1024*1024) // 8 GiB of address space
	a := append([]string{"-c", sh, pintBin()}, args...)
	env := append([]string{"NO_COLOR=1", "GITHUB_ACTION=", "GITHUB_BASE_REF=", "GITHUB_EVENT_NAME=", "GITHUB_REF=", "GOMAXPROCS=4"}, gitEnv...)
	rc, _, se := runCmd(dir, timeout, env, "bash", a...)
	if len(se) > 6000 {
		se = se[:2500] + "\n...\n" + se[len(se)-3000:]
	}
	return rc, se
}

// c18ExerciserRules: one rule file in which EVERY match/ignore condition has a rule that reaches its comparison:
// alerting rules with for / keep_firing_for (valid, zero, unparsable), labels, annotations, names with metacharacters,
// an alerting rule with none of the optional fields, recording rules with and without labels, group labels.
const c18ExerciserRules = `groups:
- name: g
  labels:
    tier: "a|b"
  rules:
  - alert: "CPU [high"
    expr: up == 0
    for: 5m
    keep_firing_for: 15m
    labels:
      team: "a|b"
      severity: "x("
    annotations:
      summary: "CPU [high"
      link: http://127.0.0.1:1/x
  - alert: Bare
    expr: up == 0
  - alert: ZeroDurations
    expr: up == 0
    for: 0s
    keep_firing_for: 0s
    labels: {}
    annotations: {}
  - alert: OnlyKeepFiring
    expr: up == 0
    keep_firing_for: 1d
  - alert: OnlyFor
    expr: up == 0
    for: 1h
  - record: "z-a"
    expr: sum(foo)
    labels:
      team: x
  - record: plain:record
    expr: sum(foo) by(job)
`

// c18MatchStratum: every condition of a match/ignore block x {valid, invalid, borderline} values x {match, ignore},
// alone (systematic, every tier) — each crossed with c18ExerciserRules, a file in which that condition is reached by a
// rule that has the field it looks at.  The oracle is the usual one: whatever `pint config` says about the value,
// a later lint must not crash.
func c18MatchStratum() []c18Scenario {
	rePool := []string{".*", "CPU.*", "rules/.*", "a|b", "(x|y)z", `\Qa.b\E.*`, "(?i)cpu.*", `\QCPU`, "(", "[a", "*", "a{2,1}", `\`, "(?P<n>", "", "x{1001}", `\pX`, "(?i", "a**", "[[:nope:]]"}
	durPool := append(append([]string{}, c18DurMatch.good...), c18DurMatch.bad...)
	durPool = append(durPool, "")
	type cond struct {
		name string
		vals []string // already HCL syntax
	}
	q := func(xs []string) []string {
		out := make([]string, len(xs))
		for i, x := range xs {
			out[i] = hclStr(x)
		}
		return out
	}
	conds := []cond{
		{"path", q(rePool)},
		{"name", q(rePool)},
		{"kind", q([]string{"alerting", "recording", "bogus", "", "Alerting", "invalid"})},
		{"command", q([]string{"lint", "ci", "watch", "nope", ""})},
		{"state", []string{`["any"]`, `["added", "modified"]`, `["unmodified"]`, `["renamed", "removed"]`, `[]`, `["bogus"]`, `[""]`, `["any", "any"]`}},
		{"for", q(durPool)},
		{"keep_firing_for", q(durPool)},
	}
	var out []c18Scenario
	add := func(kind, body, tag string) {
		cfg := fmt.Sprintf("rule {\n  %s {\n%s  }\n  label \"marker\" {\n    required = true\n  }\n}\n", kind, body)
		out = append(out, c18Scenario{ID: fmt.Sprintf("match-%d-%s", len(out), tag), Config: cfg, Rules: c18ExerciserRules, Tags: []string{"match-stratum", tag}})
	}
	for _, kind := range []string{"match", "ignore"} {
		for _, c := range conds {
			for _, v := range c.vals {
				add(kind, fmt.Sprintf("    %s = %s\n", c.name, v), kind+":"+c.name)
			}
		}
		for _, blk := range []string{"label", "annotation"} {
			for i, k := range rePool {
				// key and value walk the pool at different offsets so that every entry is used in both positions
				v := rePool[(i*7+3)%len(rePool)]
				add(kind, fmt.Sprintf("    %s %s {\n      value = %s\n    }\n", blk, hclStr(k), hclStr(v)), kind+":"+blk)
			}
			add(kind, fmt.Sprintf("    %s \"team\" {\n    }\n", blk), kind+":"+blk+"-novalue")
		}
		// the duration conditions together (a helper shared between the two is the obvious refactoring)
		for i, a := range durPool {
			b := durPool[(i*5+2)%len(durPool)]
			add(kind, fmt.Sprintf("    for = %s\n    keep_firing_for = %s\n", hclStr(a), hclStr(b)), kind+":for+keep_firing_for")
		}
	}
	return out
}


// c18SettingsStratum: every option of every rule-level settings block (and of check "promql/series"), ONE option at a
// time over its whole pool of valid / invalid / borderline values while the other options of the block keep a good
// value (systematic, every tier), crossed with c18ExerciserRules.  Blocks that need a server run online against the
// fake Prometheus.
func c18SettingsStratum(promURL string, full bool) []c18Scenario {
	q := func(xs ...string) []string {
		out := make([]string, len(xs))
		for i, x := range xs {
			out[i] = hclStr(x)
		}
		return out
	}
	durs := q("5m", "1h", "5h", "30s", "1d", "1w", "2h30m", "0s", "1y", "abc", "5", "-1m", "1.5h", "", "1y1y", " 5m", "5m ", "1h 5m", "1e3s")
	// windows that are really queried: nothing above a day (a year at 1m resolution is thousands of slices per rule - slow, not interesting)
	wins := q("5m", "1h", "5h", "1d", "2h30m", "0s", "abc", "5", "-1m", "1.5h", "", " 5m", "5m ", "1h 5m")
	sevs := q("info", "warning", "bug", "fatal", "", "critical", "Bug", " bug")
	keys := q(c18BlockKeys...)
	toks := q(c18BlockTokens...)
	vals := q(c18BlockValues...)
	ints := []string{"0", "1", "5", "100", "-1", "9223372036854775807"}
	bools := []string{"true", "false"}
	type opt struct {
		name string
		pool []string
		def  string // "" = the option is left out unless it is the one being varied
	}
	type blk struct {
		tag    string
		labels []string // block label pool (HCL syntax); nil = no label
		lab    string   // default label
		opts   []opt
		online bool
		top    bool // a top-level block instead of a block inside rule {}
	}
	blocks := []blk{
		{tag: "annotation", labels: keys, lab: `"summary"`, opts: []opt{{"token", toks, ""}, {"value", vals, ""}, {"values", []string{`["a", "b|c", "CPU [high"]`, `[]`, `[""]`}, ""}, {"required", bools, "true"}, {"severity", sevs, ""}, {"comment", q("c", "", "{{ x"), ""}}},
		{tag: "label", labels: keys, lab: `"team"`, opts: []opt{{"token", toks, ""}, {"value", vals, ""}, {"values", []string{`["a", "b|c", "a|b"]`, `[]`, `[""]`}, ""}, {"required", bools, "true"}, {"severity", sevs, ""}, {"comment", q("c", ""), ""}}},
		{tag: "aggregate", labels: keys, lab: `".+"`, opts: []opt{{"keep", []string{`["job"]`, `[]`, `[""]`, `["job", "job"]`}, `["job"]`}, {"strip", []string{`["instance"]`, `[]`, `["job"]`}, ""}, {"severity", sevs, ""}, {"comment", q("c"), ""}}},
		{tag: "reject", labels: keys, lab: `".* +.*"`, opts: []opt{{"label_keys", bools, "true"}, {"label_values", bools, "true"}, {"annotation_keys", bools, "true"}, {"annotation_values", bools, "true"}, {"severity", sevs, ""}, {"comment", q("c"), ""}}},
		{tag: "name", labels: keys, lab: `"CPU.*"`, opts: []opt{{"severity", sevs, ""}, {"comment", q("c"), ""}}},
		{tag: "link", labels: append(q("https?://.*", "http://(.*)", ".*"), keys...), lab: `"http://.*"`, online: true,
			opts: []opt{{"uri", q("http://127.0.0.1:1/$1", "http://exa mple.com/%zz", "$1", "::", "", "$9", "http://127.0.0.1:1/x"), ""}, {"timeout", durs, ""}, {"headers", []string{`{ "X-Auth" = "k" }`, `{ "" = "" }`, `{}`}, ""}, {"severity", sevs, ""}, {"comment", q("c"), ""}}},
		{tag: "for", opts: []opt{{"min", durs, `"1m"`}, {"max", durs, ""}, {"severity", sevs, ""}, {"comment", q("c"), ""}}},
		{tag: "keep_firing_for", opts: []opt{{"min", durs, `"1m"`}, {"max", durs, ""}, {"severity", sevs, ""}, {"comment", q("c"), ""}}},
		{tag: "report", opts: []opt{{"comment", q("rep", "", "{{ x"), `"rep"`}, {"severity", sevs, `"bug"`}}},
		{tag: "alerts", online: true, opts: []opt{{"range", wins, `"1h"`}, {"step", wins, `"1m"`}, {"resolve", durs, `"5m"`}, {"minCount", ints, ""}, {"severity", sevs, ""}, {"comment", q("c"), ""}}},
		{tag: "cost", online: true, opts: []opt{{"maxSeries", ints, ""}, {"maxTotalSamples", ints, ""}, {"maxPeakSamples", ints, ""}, {"maxEvaluationDuration", durs, ""}, {"severity", sevs, ""}, {"comment", q("c"), ""}}},
		{tag: "range_query", online: true, opts: []opt{{"max", durs, `"1d"`}, {"severity", sevs, ""}, {"comment", q("c"), ""}}},
		{tag: `check "promql/series"`, top: true, online: true, opts: []opt{{"lookbackRange", wins, ""}, {"lookbackStep", wins, ""}, {"fallbackTimeout", durs, ""},
			{"ignoreMetrics", []string{`[".*_errors"]`, `["("]`, `[""]`, `["\\Qx"]`}, ""}, {"ignoreLabelsValue", []string{`{ "foo" = ["job"] }`, `{ "foo{" = ["job"] }`, `{ "" = [] }`}, ""},
			{"ignoreMatchingElsewhere", []string{`["foo"]`, `["{job=\"x\"}"]`, `["foo{"]`, `["{}"]`, `["sum(foo)"]`, `[""]`}, ""}}},
	}
	var out []c18Scenario
	emit := func(b blk, label string, varied string, val string) {
		var body strings.Builder
		for _, o := range b.opts {
			v := o.def
			if o.name == varied {
				v = val
			}
			if v != "" || o.name == varied {
				fmt.Fprintf(&body, "    %s = %s\n", o.name, v)
			}
		}
		head := b.tag
		if label != "" {
			head += " " + label
		}
		var cfg string
		if b.top {
			cfg = fmt.Sprintf("%s {\n%s}\n", head, body.String())
		} else {
			cfg = fmt.Sprintf("rule {\n  %s {\n%s  }\n}\n", head, body.String())
		}
		if b.online {
			cfg = fmt.Sprintf("prometheus \"prom\" {\n  uri = %q\n}\n", promURL) + cfg
		}
		tag := strings.Fields(b.tag)[0] + ":" + varied
		out = append(out, c18Scenario{ID: fmt.Sprintf("set-%d-%s", len(out), tag), Config: cfg, Rules: c18ExerciserRules, Online: b.online, Tags: []string{"settings-stratum", tag}})
	}
	// quick tier: the big shared pools (durations, severities, label patterns) are walked completely by the FIRST option
	// that uses them and by every second / third value (rotating with the block and option index) elsewhere
	seenPool := map[string]bool{}
	for bi, b := range blocks {
		for li, l := range b.labels {
			if full || bi == 0 || (li+bi)%2 == 0 {
				emit(b, l, "<label>", "")
			}
		}
		for oi, o := range b.opts {
			key := strings.Join(o.pool, "\x00")
			first := !seenPool[key]
			seenPool[key] = true
			for vi, v := range o.pool {
				if full || first || len(o.pool) < 8 || (vi+bi+oi)%2 == 0 {
					emit(b, b.lab, o.name, v)
				}
			}
		}
	}
	return out
}

// c18TopLevelStratum: every regexp / duration / selector option of the TOP-LEVEL blocks (parser, owners, prometheus,
// discovery) one at a time over a pool with valid, invalid and borderline values.  These are the options whose value
// is validated in one form and compiled in another ("validated bare, used inside anchors": unterminated \Q sections,
// alternations, flags) — the ValidatedWrapped class of the site table.
func c18TopLevelStratum(promURL string) []c18Scenario {
	res := []string{".*", "rules/.*", "a|b", `\Qa.b\E.*`, `\QCPU`, `\Qx(y)`, `\Qsre+oncall(emea)`, "(", "[a", `\`, "(?i)x", "", "x)", "(?P<n>.+)", "^rules/0.yml$"}
	durs := []string{"5m", "1h", "0s", "1d", "abc", "", "5", "-1m", "1.5h", " 5m"}
	var out []c18Scenario
	add := func(tag, cfg string, online bool) {
		out = append(out, c18Scenario{ID: fmt.Sprintf("top-%d-%s", len(out), tag), Config: cfg, Rules: c18ExerciserRules, Online: online, Tags: []string{"toplevel-stratum", tag}})
	}
	prom := func(body string) string { return fmt.Sprintf("prometheus \"prom\" {\n  uri = %q\n%s}\n", promURL, body) }
	for _, v := range res {
		h := hclStr(v)
		add("parser.include", fmt.Sprintf("parser {\n  include = [%s]\n}\n", h), false)
		add("parser.exclude", fmt.Sprintf("parser {\n  exclude = [%s]\n}\n", h), false)
		add("parser.relaxed", fmt.Sprintf("parser {\n  relaxed = [%s]\n}\n", h), false)
		add("owners.allowed", fmt.Sprintf("owners {\n  allowed = [%s]\n}\n", h), false)
		add("prometheus.include", prom(fmt.Sprintf("  include = [%s]\n", h)), true)
		add("prometheus.exclude", prom(fmt.Sprintf("  exclude = [%s]\n", h)), true)
		add("discovery.filepath.match", fmt.Sprintf("discovery {\n  filepath {\n    directory = \"rules\"\n    match = %s\n    template {\n      name = \"d\"\n      uri = %q\n    }\n  }\n}\n", h, promURL), true)
		add("discovery.filepath.ignore", fmt.Sprintf("discovery {\n  filepath {\n    directory = \"rules\"\n    match = \".*\"\n    ignore = [%s]\n    template {\n      name = \"d\"\n      uri = %q\n    }\n  }\n}\n", h, promURL), true)
		add("discovery.template.include", fmt.Sprintf("discovery {\n  filepath {\n    directory = \"rules\"\n    match = \".*\"\n    template {\n      name = \"d\"\n      uri = %q\n      include = [%s]\n    }\n  }\n}\n", promURL, h), true)
	}
	for _, v := range durs {
		add("prometheus.timeout", prom(fmt.Sprintf("  timeout = %s\n", hclStr(v))), true)
		add("discovery.template.timeout", fmt.Sprintf("discovery {\n  filepath {\n    directory = \"rules\"\n    match = \".*\"\n    template {\n      name = \"d\"\n      uri = %q\n      timeout = %s\n    }\n  }\n}\n", promURL, hclStr(v)), true)
	}
	for _, v := range []string{"up", "prometheus_build_info", "foo{", "sum(up)", "", "{}", "up{a=~\"(\"}"} {
		add("prometheus.uptime", prom(fmt.Sprintf("  uptime = %s\n", hclStr(v))), true)
	}
	for _, v := range []string{`["a"]`, `["a", "b"]`, `["a b"]`, `[""]`, `["a\nb"]`, `["(+x)"]`} {
		add("prometheus.tags", prom(fmt.Sprintf("  tags = %s\n", v)), true)
	}
	// upstream URIs that are only used when the primary is down / by discovery: primary = a refused port
	for _, v := range []string{promURL, "http://127.0.0.1:1", "http://exa mple.com/%zz", "::", "", "%zz", "http://[::1", "ht tp://x", "http://a b/", "/relative", "http://user:pa ss@x/"} {
		h := hclStr(v)
		add("prometheus.failover(primary down)", fmt.Sprintf("prometheus \"prom\" {\n  uri      = \"http://127.0.0.1:1\"\n  failover = [%s]\n}\n", h), true)
		add("prometheus.uri", fmt.Sprintf("prometheus \"prom\" {\n  uri = %s\n}\n", h), true)
		add("prometheus.publicURI", prom(fmt.Sprintf("  publicURI = %s\n", h)), true)
		add("discovery.prometheusQuery.uri", fmt.Sprintf("discovery {\n  prometheusQuery {\n    uri   = %s\n    query = \"up\"\n    template {\n      name = \"d\"\n      uri  = %q\n    }\n  }\n}\n", h, promURL), true)
		add("discovery.template.failover(primary down)", fmt.Sprintf("discovery {\n  filepath {\n    directory = \"rules\"\n    match = \".*\"\n    template {\n      name = \"d\"\n      uri = \"http://127.0.0.1:1\"\n      failover = [%s]\n    }\n  }\n}\n", h), true)
		add("discovery.template.uri", fmt.Sprintf("discovery {\n  filepath {\n    directory = \"rules\"\n    match = \".*\"\n    template {\n      name = \"d\"\n      uri = %s\n    }\n  }\n}\n", h), true)
	}
	for _, v := range []string{"utf-8", "legacy", "bogus", ""} {
		add("parser.names", fmt.Sprintf("parser {\n  names = %s\n}\n", hclStr(v)), false)
	}
	for _, v := range []string{"prometheus", "thanos", "bogus", ""} {
		add("parser.schema", fmt.Sprintf("parser {\n  schema = %s\n}\n", hclStr(v)), false)
	}
	return out
}

type c18Known struct {
	id    string
	match func(sc c18Scenario, stderr string) bool
}

// no open known-finding class: the five crash classes found by this check were repaired in /repo
// (9df854d, 457aa6b, 4986535, 72c92b8, 4008951); their witnesses stay in the corpus and a recurrence is a VIOLATION.
// no open known-finding class: the crash classes found by this check were repaired in /repo
// (9df854d, 457aa6b, 4986535, 72c92b8, 4008951, 0b2762d); their witnesses stay in the corpus and a recurrence is a VIOLATION.
// no open known-finding class: every crash class found so far was repaired in /repo (9df854d, 457aa6b, 4986535, 72c92b8,
// 4008951, 0b2762d, 6f3f221); the witnesses stay in the corpus and a recurrence is a VIOLATION.
var c18KnownClasses = []c18Known{}

func c18Configs(r *rand.Rand, rep *runReport, cwd string, n int, strata bool) {
	srv := c18FakeProm()
	defer srv.Close()
	var scens []c18Scenario
	basicRules := "groups:\n- name: g\n  rules:\n  - alert: \"CPU [high\"\n    expr: up == 0\n    for: 5m\n    labels:\n      team: \"a|b\"\n    annotations:\n      summary: \"CPU [high\"\n      link: http://127.0.0.1:1/x\n  - record: \"z-a\"\n    expr: sum(foo)\n    labels:\n      team: x\n"
	// corpus: design witnesses and known-finding witnesses first
	corpus := []c18Scenario{
		{ID: "corpus-templated-annotation-value", Config: "rule {\n  annotation \"summary\" {\n    value = \"{{ $alert }}.*\"\n    required = true\n  }\n}\n", Rules: basicRules},
		{ID: "corpus-templated-class", Config: "rule {\n  label \"team\" {\n    value = \"[a{{ $alert }}]\"\n  }\n  name \"[a{{ $record }}]\" {}\n}\n", Rules: basicRules},
		{ID: "corpus-lookback-step-5h", Online: true, Config: fmt.Sprintf("prometheus \"prom\" {\n  uri = %q\n}\ncheck \"promql/series\" {\n  lookbackStep = \"5h\"\n}\n", srv.URL), Rules: basicRules},
		{ID: "corpus-alerts-step-5h", Online: true, Config: fmt.Sprintf("prometheus \"prom\" {\n  uri = %q\n}\nrule {\n  alerts {\n    range = \"1d\"\n    step = \"5h\"\n    resolve = \"5m\"\n  }\n}\n", srv.URL), Rules: basicRules},
		{ID: "corpus-fixed-9df854d-label-required-group-labels", Config: "rule {\n  label \"marker\" {\n    required = true\n  }\n}\n", Rules: "groups:\n- name: g\n  labels:\n    team: x\n  rules:\n  - record: c\n    expr: up\n"},
		{ID: "corpus-fixed-457aa6b-link-uri", Online: true, Config: "rule {\n  link \"http://.*\" {\n    uri = \"http://exa mple.com/%zz\"\n  }\n}\n", Rules: basicRules},
		{ID: "corpus-fixed-4986535-quote-unterminated", Config: "rule {\n  match {\n    name = \"\\\\QFoo\"\n  }\n  label \"team\" {\n    required = true\n  }\n}\n", Rules: basicRules},
		{ID: "corpus-fixed-0b2762d-range-query-max-empty", Config: "rule {\n  range_query {\n    max = \"\"\n  }\n}\n", Rules: basicRules},
		{ID: "corpus-fixed-6f3f221-upstream-uri-unparsed-failover", Online: true, Config: "prometheus \"prom\" {\n  uri      = \"http://127.0.0.1:1\"\n  failover = [\"http://exa mple.com/%zz\"]\n}\n", Rules: basicRules},
		{ID: "corpus-fixed-6f3f221-upstream-uri-unparsed-prometheus-query", Online: true, Config: "discovery {\n  prometheusQuery {\n    uri   = \"http://exa mple.com/%zz\"\n    query = \"up\"\n    template {\n      name = \"d\"\n      uri  = \"http://127.0.0.1:1\"\n    }\n  }\n}\n", Rules: basicRules},
		{ID: "corpus-fixed-4008951-promql-label-name", Config: "parser {\n}\n", Rules: "groups:\n- name: g\n  rules:\n  - record: foo\n    expr: up{\"a(b\"=~\"x.*\"}\n"},
	}
	if !strata {
		// search mode: corpus and systematic strata are deterministic and were judged by the main run already
		corpus = nil
	}
	scens = append(scens, corpus...)
	ms := c18MatchStratum()
	if !strata {
		ms = nil
	}
	for _, sc := range ms {
		rep.hist("cfg:stratum=" + sc.Tags[1])
	}
	scens = append(scens, ms...)
	ss := c18SettingsStratum(srv.URL, n >= 1000)
	if !strata {
		ss = nil
	}
	for _, sc := range ss {
		rep.hist("cfg:stratum=" + sc.Tags[1])
	}
	scens = append(scens, ss...)
	ts := c18TopLevelStratum(srv.URL)
	if !strata {
		ts = nil
	}
	if strata {
		ts = append(ts, c18DiscoveryStratum(srv.URL)...)
	}
	for _, sc := range ts {
		rep.hist("cfg:stratum=" + sc.Tags[1])
	}
	scens = append(scens, ts...)
	fs := c18FlagStratum(basicRules)
	if !strata {
		fs = nil
	}
	for _, sc := range fs {
		rep.hist("cfg:stratum=flag:" + sc.Tags[1])
	}
	scens = append(scens, fs...)
	for i := 0; i < n; i++ {
		g := &c18Gen{r: r, badP: []float64{0, 0.05, 0.05, 0.25}[r.Intn(4)], used: map[string]bool{}}
		cfg, hasProm := g.config(srv.URL)
		rules, tags := c18GenRules(r)
		sc := c18Scenario{ID: fmt.Sprintf("gen-%d", i), Config: cfg, Rules: rules, Online: hasProm || strings.Contains(cfg, "link "), Tags: tags}
		for k := range g.used {
			rep.hist("cfg:option=" + k)
		}
		scens = append(scens, sc)
	}
	type res struct {
		loadRC  int
		loadErr string
		runs    []map[string]any
		crashes []string
	}
	out := make([]res, len(scens))
	var slowMu sync.Mutex
	var slow []string
	defer func() {
		if len(slow) > 0 {
			sort.Strings(slow)
			if len(slow) > 12 {
				slow = slow[:12]
			}
			rep.Notes = append(rep.Notes, "lint runs that took more than 5 s: "+strings.Join(slow, "; "))
		}
	}()
	parallel(len(scens), 16, func(i int) {
		sc := scens[i]
		dir := filepath.Join(cwd, "cfg", fmt.Sprintf("s%04d", i))
		writeFile(filepath.Join(dir, ".pint.hcl"), sc.Config)
		if sc.Rules != "" || len(sc.Files) == 0 {
			writeFile(filepath.Join(dir, "rules", "0.yml"), sc.Rules)
		}
		for name, content := range sc.Files {
			writeFile(filepath.Join(dir, name), content)
		}
		// load verdict: `pint config` only loads and prints the configuration
		base := append([]string{"--no-color", "-c", ".pint.hcl"}, sc.Flags...)
		// load verdict: `pint config` (loads and prints the configuration).  For the systematic strata the verdict is read
		// off the lint run itself (every command loads the file through the same config.Load before doing anything:
		// "failed to load config file" + exit 1 = rejected), which saves one process per scenario.
		stratum := len(sc.Tags) > 0 && strings.HasSuffix(sc.Tags[0], "-stratum") && len(sc.Flags) == 0
		if !stratum {
			rc, se := c18RunLimited(dir, 40*time.Second, append(append([]string{}, base...), "config")...)
			if rc == -1 {
				rc, se = c18RunLimited(dir, 240*time.Second, append(append([]string{}, base...), "config")...)
			}
			out[i].loadRC, out[i].loadErr = rc, se
		}
		modes := [][]string{{"--offline"}}
		if sc.Online {
			modes = append(modes, []string{})
		}
		if sc.Online && len(sc.Tags) > 0 && (sc.Tags[0] == "settings-stratum" || sc.Tags[0] == "toplevel-stratum") {
			modes = [][]string{{}} // the block under test only does something with a server
		}
		for _, m := range modes {
			a := append(append([]string{}, base...), m...)
			a = append(a, "lint", "--min-severity", "info", "rules")
			t0 := time.Now()
			rc2, se2 := c18RunLimited(dir, 60*time.Second, a...)
			if rc2 == -1 {
				// timed out: the machine may just be busy; one more attempt with a generous budget before calling it a hang
				rc2, se2 = c18RunLimited(dir, 240*time.Second, a...)
			}
			crashed := rc2 < 0 || rc2 > 1 || strings.Contains(se2, "panic:") || strings.Contains(se2, "fatal error:")
			out[i].runs = append(out[i].runs, map[string]any{"args": a, "exit": rc2, "crashed": crashed, "stderr_tail": tailStr(se2, 1800), "seconds": time.Since(t0).Seconds()})
			if d := time.Since(t0).Seconds(); d > 5 {
				slowMu.Lock()
				slow = append(slow, fmt.Sprintf("%s %v: %.1fs", sc.ID, m, d))
				slowMu.Unlock()
			}
			if crashed {
				out[i].crashes = append(out[i].crashes, se2)
			}
			if stratum && len(out[i].runs) == 1 {
				out[i].loadRC, out[i].loadErr = 0, ""
				if strings.Contains(se2, "failed to load config file") {
					out[i].loadRC, out[i].loadErr = 1, se2
				}
			}
		}
	})
	for i, sc := range scens {
		o := out[i]
		loadCrashed := o.loadRC < 0 || o.loadRC > 1 || strings.Contains(o.loadErr, "panic:") || strings.Contains(o.loadErr, "fatal error:")
		accepted := o.loadRC == 0
		rep.count("cfg|"+sc.Config+"|"+sc.Rules+"|"+strings.Join(sortedKeys(sc.Files), ","), accepted && strings.Contains(sc.Config, "{{"))
		rep.hist("case=config")
		if accepted {
			rep.hist("cfg:accepted")
		} else {
			rep.hist("cfg:rejected")
			if m := regexp.MustCompile(`err="failed to load config file [^:]*: (.*)"`).FindStringSubmatch(o.loadErr); m != nil {
				why := regexp.MustCompile(`[0-9]+,[0-9]+-[0-9]+: |\\"[^"]*\\"|`+"`[^`]*`").ReplaceAllString(m[1], "")
				if len(why) > 50 {
					why = why[:50]
				}
				rep.hist("cfg:rejected:" + why)
			}
		}
		if sc.Online {
			rep.hist("cfg:online-run")
		}
		desc := map[string]any{"scenario": sc, "load_exit": o.loadRC, "load_stderr_tail": tailStr(o.loadErr, 800), "runs": o.runs}
		if loadCrashed {
			rep.fail(sc.ID, "pint crashed while LOADING the configuration: "+tailStr(o.loadErr, 400), desc)
			continue
		}
		if !accepted {
			// rejected with an error: the lint runs must be rejected too, never crash
			for _, se := range o.crashes {
				rep.fail(sc.ID, "configuration is rejected by `pint config` but `pint lint` crashed: "+firstPanicLine(se), desc)
			}
			continue
		}
		for _, se := range o.crashes {
			what := "accepted configuration crashed a lint run: " + firstPanicLine(se)
			known := ""
			for _, k := range c18KnownClasses {
				if k.match(sc, se) {
					known = k.id
					break
				}
			}
			if known != "" {
				rep.failKnown(sc.ID, what, desc, known)
			} else {
				rep.fail(sc.ID, what, desc)
			}
		}
	}
	rep.sample(map[string]any{"scenario": scens[len(scens)-1]})
}

func tailStr(s string, n int) string {
	if len(s) > n {
		return s[len(s)-n:]
	}
	return s
}

func firstPanicLine(se string) string {
	for _, l := range strings.Split(se, "\n") {
		if strings.Contains(l, "panic:") || strings.Contains(l, "fatal error:") {
			// add the first frame inside pint
			idx := strings.Index(se, "github.com/cloudflare/pint/")
			fr := ""
			if idx >= 0 {
				fr = se[idx:]
				if j := strings.Index(fr, "\n"); j >= 0 {
					fr = fr[:j]
				}
			}
			return strings.TrimSpace(l) + " @ " + fr
		}
	}
	return "timeout or abnormal exit: " + tailStr(se, 200)
}

func runC18(args []string) int {
	n := argInt(args, "--n", 40)
	seed := seedFromEnv()
	r := rand.New(rand.NewSource(seed))
	rep := newReport("C18", seed)
	rep.Rule = "template case = (pattern, anchored|raw, rule from the real parser) through the real New(Raw)TemplatedRegexp/Expand/MustExpand; non-trivial = accepted pattern that contains a template action; " +
		"config case = generated configuration over the documented blocks/options (valid, invalid, templated values) x rule file with metacharacters: `pint config` verdict vs `pint lint` offline (+ online against a fake Prometheus) under ulimit -v and a timeout; non-trivial = accepted and templated"
	scQuiet()
	cwd, _ := os.Getwd()
	cw := newCaseWriter(cwd, "Run.C18", 60)
	cw.preamble = "Open Scope N_scope.\nDefinition AL := aliases.\n"
	id := 0
	// search mode (something is already broken, a failing INPUT is wanted): the template correspondence cases are skipped,
	// the whole budget goes to configurations run through the binary
	if argStr(args, "--templates", "yes") == "yes" {
		c18Templates(r, rep, cw, cwd, n, &id)
		c18Blocks(r, rep, cw, cwd, n, &id)
	}
	cw.flush()
	rep.CaseFiles = cw.files
	c18Configs(r, rep, cwd, n, argStr(args, "--templates", "yes") == "yes")
	rep.write(filepath.Join(cwd, "report.json"))
	_ = discovery.Noop
	return 0
}
