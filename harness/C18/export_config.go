//go:build verif

package config

import "github.com/cloudflare/pint/internal/checks"

// C18RuleValidate is the load-time verdict of one `rule {}` block (Rule.validate, called by config.Load).
func C18RuleValidate(r Rule) error { return r.validate() }

// C18ParseRuleChecks builds the checks of one `rule {}` block exactly as pint does after load (parseRule), whether
// or not the block would have been accepted: the harness uses it to observe what validation protects.
func C18ParseRuleChecks(r Rule) (out []checks.RuleChecker) {
	for _, pr := range parseRule(r, nil, nil) {
		out = append(out, pr.check)
	}
	return out
}
