//go:build verif

package main

// C08 oracle on the real binary, general form: PAIRED runs over a RANDOM base configuration.
//
// A base X = (1..3 prometheus servers with tags, the all-kinds rule block (optionally locked), extra
// rule{enable/disable} blocks with or without a match, checks{disabled}, and a flag set: --disabled values that are
// plain names, String() forms `name(server…)`, tag forms `name(+tag)`, regexps; --enabled; --offline).
// A step S adds ONE more switch to X.  The property as written predicts run(X+S) from run(X) alone:
//   -d N / checks{disabled+=N} / rule{disable=[N]}  : problems of reporter N disappear, nothing else changes
//        (except, for the two global forms, rules on which a matching rule{enable=[N]} block overrides them);
//   --offline                                       : the same for every N whose live check objects have Meta().Online (read from the
//        parsed rules, NOT from the OnlineChecks list that DisableOnlineChecks walks: a disagreement of the two shows up as a failure);
//   -e E (X has no enabled list)                    : only reporters in E (and unconditional parse problems) stay;
//   -d 'N(server…)' / -d 'N(+tag)'                  : only the instances of N bound to that server / to the servers
//        carrying the tag are switched off.  Every server of these scenarios is unreachable, so each server-bound instance
//        of a check reports the same "unable to run checks" problem once per rule: the multiplicity of such a problem
//        drops from |active instances| to |active instances| - |hit instances|, everything else is unchanged.
// Nothing here looks at pint's switching code; instances (name, String(), tags) are read from the live parsed rules.

import (
	"fmt"
	"math/rand"
	"path/filepath"
	"regexp"
	"sort"
	"strings"

	"github.com/prometheus/client_golang/prometheus"

	"github.com/cloudflare/pint/internal/checks"
	"github.com/cloudflare/pint/internal/config"
)

type c08Enable struct {
	Names        []string `json:"names"`
	AlertingOnly bool     `json:"alerting_only"` // block has match { kind = "alerting" }
}

type c08Base struct {
	Proms    []string    `json:"proms"`
	Tags     [][]string  `json:"tags"`
	Locked   bool        `json:"locked"`
	FlagD    []string    `json:"flag_disabled"`
	FlagE    []string    `json:"flag_enabled"`
	CfgD     []string    `json:"cfg_disabled"`
	CfgE     []string    `json:"cfg_enabled,omitempty"` // checks { enabled = [...] } of the configuration file
	Offline  bool        `json:"offline"`
	Enables  []c08Enable `json:"rule_enable_blocks"`
	Disables []c08Enable `json:"rule_disable_blocks"`
}

type c08Step struct {
	DropCfgEnabled bool `json:"drop_cfg_enabled,omitempty"` // reference run: the same base WITHOUT its checks{enabled} list
	Kind  string   `json:"kind"` // offline | flag-disabled | cfg-disabled | rule-disable | rule-enable-and-disable | flag-enabled | flag-disabled-instance | flag-disabled-tag
	Value string   `json:"value,omitempty"`
	List  []string `json:"list,omitempty"`
}

type c08Inst struct {
	Name   string   `json:"name"`
	String string   `json:"string"`
	Tags   []string `json:"tags"`
}

func (b c08Base) config(step *c08Step) string {
	var s strings.Builder
	for i, p := range b.Proms {
		t := ""
		if len(b.Tags[i]) > 0 {
			t = "  tags = " + hclList(b.Tags[i]) + "\n"
		}
		fmt.Fprintf(&s, "prometheus %q {\n  uri = \"http://127.0.0.1:%d\"\n  timeout = \"1s\"\n  uptime = \"up\"\n%s}\n", p, i+1, t)
	}
	cd := append([]string{}, b.CfgD...)
	if step != nil && step.Kind == "cfg-disabled" {
		cd = append(cd, step.Value)
	}
	ce := b.CfgE
	if step != nil && step.DropCfgEnabled {
		ce = nil
	}
	if len(cd) > 0 || len(ce) > 0 {
		s.WriteString("checks {\n")
		if len(ce) > 0 {
			fmt.Fprintf(&s, "  enabled = %s\n", hclList(ce))
		}
		if len(cd) > 0 {
			fmt.Fprintf(&s, "  disabled = %s\n", hclList(cd))
		}
		s.WriteString("}\n")
	}
	all := c08AllKinds
	if b.Locked {
		all = strings.Replace(all, "rule {\n", "rule {\n  locked = true\n", 1)
	}
	s.WriteString(all)
	blk := func(e c08Enable, word string) {
		s.WriteString("rule {\n")
		if e.AlertingOnly {
			s.WriteString("  match {\n    kind = \"alerting\"\n  }\n")
		}
		fmt.Fprintf(&s, "  %s = %s\n}\n", word, hclList(e.Names))
	}
	for _, e := range b.Enables {
		blk(e, "enable")
	}
	for _, e := range b.Disables {
		blk(e, "disable")
	}
	if step != nil && step.Kind == "rule-disable" {
		blk(c08Enable{Names: []string{step.Value}}, "disable")
	}
	if step != nil && step.Kind == "rule-enable-and-disable" {
		// one block naming the check in both lists: disable wins (documented)
		fmt.Fprintf(&s, "rule {\n  enable = %s\n  disable = %s\n}\n", hclList([]string{step.Value}), hclList([]string{step.Value}))
	}
	return s.String()
}

func (b c08Base) args(step *c08Step) []string {
	var g []string
	for _, d := range b.FlagD {
		g = append(g, "--disabled", d)
	}
	for _, e := range b.FlagE {
		g = append(g, "--enabled", e)
	}
	if b.Offline {
		g = append(g, "--offline")
	}
	if step != nil {
		switch step.Kind {
		case "offline":
			g = append(g, "--offline")
		case "flag-disabled", "flag-disabled-instance", "flag-disabled-tag":
			g = append(g, "--disabled", step.Value)
		case "flag-enabled", "flag-enabled-over-cfg-enabled", "ref-flag-enabled-without-cfg-enabled":
			for _, e := range step.List {
				g = append(g, "--enabled", e)
			}
		}
	}
	return g
}

// rules of the scenario file with their line ranges
type c08RuleAt struct {
	First, Last int
	Alerting    bool
}

func c08RuleLayout(pool []string) (string, []c08RuleAt) {
	text := "groups:\n- name: g\n  rules:\n"
	line := 4
	var at []c08RuleAt
	for _, p := range pool {
		n := strings.Count(p, "\n")
		at = append(at, c08RuleAt{First: line, Last: line + n - 1, Alerting: strings.HasPrefix(strings.TrimSpace(p), "- alert:")})
		text += p
		line += n
	}
	return text, at
}


func c08GenBase(r *rand.Rand) c08Base {
	var b c08Base
	np := 1 + r.Intn(3)
	if r.Intn(3) > 0 && np < 2 {
		np = 2
	}
	for i := 0; i < np; i++ {
		b.Proms = append(b.Proms, []string{"prom1", "prom2", "prom3"}[i])
		b.Tags = append(b.Tags, c08Subset(r, []string{"a", "b"}, 0.5))
	}
	b.Locked = r.Intn(4) == 0
	online := checks.OnlineChecks
	serverBound := []string{"promql/series", "promql/rate", "promql/range_query", "alerts/count", "query/cost", "promql/counter", "alerts/external_labels", "labels/conflict", "promql/vector_matching", "alerts/absent", "rule/duplicate"}
	// --disabled values
	for k := r.Intn(3); k > 0; k-- {
		n := pick(r, serverBound)
		switch r.Intn(6) {
		case 0:
			b.FlagD = append(b.FlagD, pick(r, checks.CheckNames))
		case 1, 2:
			b.FlagD = append(b.FlagD, n+"("+pick(r, b.Proms)+")")
		case 3:
			b.FlagD = append(b.FlagD, n+"(+"+pick(r, []string{"a", "b"})+")")
		case 4:
			b.FlagD = append(b.FlagD, pick(r, []string{"rule/.*", "alerts/.+", "promql/(rate|series)", ".*/for", "query/cost(prom1:1)", "alerts/count(prom2)"}))
		case 5:
			b.FlagD = append(b.FlagD, pick(r, online))
		}
	}
	if r.Intn(5) == 0 {
		b.FlagE = c08Subset(r, checks.CheckNames, 0.8)
	}
	if r.Intn(3) == 0 {
		b.CfgD = c08Subset(r, checks.CheckNames, 0.1)
	}
	if len(b.FlagE) == 0 && r.Intn(3) == 0 {
		b.CfgE = c08Subset(r, checks.CheckNames, 0.6)
	}
	b.Offline = r.Intn(6) == 0
	for k := r.Intn(3); k > 0; k-- {
		e := c08Enable{Names: c08Subset(r, checks.CheckNames, 0.12), AlertingOnly: r.Intn(2) == 0}
		if r.Intn(2) == 0 {
			e.Names = append(e.Names, pick(r, online))
		}
		if len(e.Names) > 0 {
			b.Enables = append(b.Enables, e)
		}
	}
	if r.Intn(3) == 0 {
		e := c08Enable{Names: c08Subset(r, checks.CheckNames, 0.1), AlertingOnly: r.Intn(2) == 0}
		if len(e.Names) > 0 {
			b.Disables = append(b.Disables, e)
		}
	}
	return b
}

func c08GenSteps(r *rand.Rand, b c08Base) []c08Step {
	var st []c08Step
	if !b.Offline {
		st = append(st, c08Step{Kind: "offline"})
	}
	serverBound := []string{"promql/series", "promql/rate", "promql/range_query", "alerts/count", "query/cost", "promql/counter", "alerts/external_labels", "labels/conflict", "promql/vector_matching", "alerts/absent"}
	names := append([]string{}, checks.CheckNames...)
	r.Shuffle(len(names), func(i, j int) { names[i], names[j] = names[j], names[i] })
	// interaction strata: the new switch preferably names a check that another switch of the base already mentions
	// (rule{enable} / rule{disable} blocks, plain names among the --disabled and checks{disabled} values)
	var hot []string
	for _, e := range append(append([]c08Enable{}, b.Enables...), b.Disables...) {
		hot = append(hot, e.Names...)
	}
	for _, v := range append(append([]string{}, b.FlagD...), b.CfgD...) {
		for _, nme := range checks.CheckNames {
			if v == nme {
				hot = append(hot, v)
			}
		}
	}
	prefer := func(fallback string) string {
		if len(hot) > 0 && r.Intn(5) < 3 {
			return pick(r, hot)
		}
		return fallback
	}
	st = append(st,
		c08Step{Kind: "flag-disabled", Value: prefer(names[0])},
		c08Step{Kind: "flag-disabled", Value: pick(r, serverBound)},
		c08Step{Kind: "cfg-disabled", Value: prefer(names[1])},
		c08Step{Kind: "rule-disable", Value: prefer(names[2])},
		c08Step{Kind: "rule-enable-and-disable", Value: prefer(names[4])},
		c08Step{Kind: "flag-disabled-instance", Value: ""}, // value chosen from the live instances
		c08Step{Kind: "flag-disabled-instance", Value: ""},
	)
	var tags []string
	for _, t := range b.Tags {
		tags = append(tags, t...)
	}
	if len(tags) > 0 {
		st = append(st, c08Step{Kind: "flag-disabled-tag", Value: pick(r, serverBound) + "(+" + pick(r, tags) + ")"})
	}
	if len(b.FlagE) == 0 && len(b.CfgE) > 0 {
		// CLI x configuration file: --enabled REPLACES the checks{enabled} list of the file (names inside and outside that list);
		// reference = the same run with the file's list removed
		in := map[string]bool{}
		for _, n := range b.CfgE {
			in[n] = true
		}
		var outside []string
		for _, n := range checks.CheckNames {
			if !in[n] {
				outside = append(outside, n)
			}
		}
		for k := 0; k < 2; k++ {
			var e []string
			if len(outside) > 0 {
				e = append(e, pick(r, outside))
			}
			if k == 1 || len(e) == 0 {
				e = append(e, pick(r, b.CfgE))
			}
			if r.Intn(2) == 0 {
				e = append(e, pick(r, checks.CheckNames))
			}
			st = append(st, c08Step{Kind: "flag-enabled-over-cfg-enabled", List: e},
				c08Step{Kind: "ref-flag-enabled-without-cfg-enabled", List: e, DropCfgEnabled: true})
		}
	} else if len(b.FlagE) == 0 {
		st = append(st, c08Step{Kind: "flag-enabled", List: c08Subset(r, checks.CheckNames, 0.4)})
		if len(st[len(st)-1].List) == 0 {
			st[len(st)-1].List = []string{names[3]}
		}
	}
	return st
}

// instances of server-bound checks, from the live parsed rules of the loaded base configuration
func c08Instances(dir string, b c08Base) ([]c08Inst, map[string]bool, map[string]bool, error) {
	cfg, err := scLoadConfig(filepath.Join(dir, "load"), b.config(nil))
	if err != nil {
		return nil, nil, nil, err
	}
	gen := config.NewPrometheusGenerator(cfg, prometheus.NewRegistry())
	if err := gen.GenerateStatic(); err != nil {
		return nil, nil, nil, err
	}
	defer gen.Stop()
	entries, err := scEntries(dir, "rules")
	if err != nil || len(entries) == 0 {
		return nil, nil, nil, fmt.Errorf("no entries: %v", err)
	}
	mixed := map[string]bool{} // reporters that also have an instance not bound to a server (promql/range_query)
	// Meta().Online of the live check objects, keyed by the name they REPORT under: what "sends live queries" means
	// for the --offline expectation, independently of the OnlineChecks list that DisableOnlineChecks walks
	online := map[string]bool{}
	_, prs := config.VerifParsedRules(scCtx("lint"), &cfg, gen, entries[0])
	var out []c08Inst
	seen := map[string]bool{}
	for _, p := range prs {
		s := p.Check.String()
		bound := false
		for _, pn := range b.Proms {
			if strings.HasPrefix(s, p.Name+"("+pn+")") || strings.HasPrefix(s, p.Name+"("+pn+":") {
				bound = true
			}
		}
		if !bound {
			mixed[p.Name] = true
		}
		if p.Check.Meta().Online {
			online[p.Check.Reporter()] = true
		}
		if bound && !seen[s] {
			seen[s] = true
			out = append(out, c08Inst{Name: p.Name, String: s, Tags: append([]string{}, p.Tags...)})
		}
	}
	return out, mixed, online, nil
}

// does the --disabled value v switch instance i off?  (documented forms: name, String(), name(+tag), regexp over names)
func c08ValueHits(v string, i c08Inst) bool {
	if v == i.Name || v == i.String {
		return true
	}
	for _, t := range i.Tags {
		if v == i.Name+"(+"+t+")" {
			return true
		}
	}
	if re, err := regexp.Compile("^(?:" + v + ")$"); err == nil && re.MatchString(i.Name) {
		return true
	}
	return false
}

// The summary pint uses for "this server could not be queried" is LEARNED from the base run (the most frequent summary
// among the problems of online checks that exist only per server), so that rewording it stays a harmless change.
func c08LearnUnable(ps []scProblem, online, mixed map[string]bool, insts []c08Inst) string {
	bound := map[string]bool{}
	for _, in := range insts {
		bound[in.Name] = true
	}
	cnt := map[string]int{}
	for _, p := range ps {
		if bound[p.Reporter] && online[p.Reporter] && !mixed[p.Reporter] {
			cnt[p.Problem]++
		}
	}
	best, bc := "", 0
	for k, c := range cnt {
		if c > bc || (c == bc && k < best) {
			best, bc = k, c
		}
	}
	return best
}

func c08Pairs(r *rand.Rand, rep *runReport, cwd string, n int) {
	nb := 10
	if n >= 400 {
		nb = 60
	} else if n > 100 {
		nb = 24
	}
	rulesText, layout := c08RuleLayout(c08GoodRules())
	type job struct {
		base int
		step *c08Step
		res  scRun
	}
	bases := make([]c08Base, nb)
	insts := make([][]c08Inst, nb)
	mixed := make([]map[string]bool, nb)
	metaOnline := make([]map[string]bool, nb)
	steps := make([][]c08Step, nb)
	var jobs []job
	for i := range bases {
		bases[i] = c08GenBase(r)
		dir := filepath.Join(cwd, "pairs", fmt.Sprintf("b%03d", i))
		writeFile(filepath.Join(dir, "rules", "0.yml"), rulesText)
		var err error
		insts[i], mixed[i], metaOnline[i], err = c08Instances(dir, bases[i])
		if err != nil {
			rep.hist("pairs:base-config-rejected")
			rep.Notes = append(rep.Notes, "pairs: base config rejected: "+err.Error())
			continue
		}
		steps[i] = c08GenSteps(r, bases[i])
		for k := range steps[i] {
			s := &steps[i][k]
			if s.Kind == "flag-disabled-instance" {
				if len(insts[i]) == 0 {
					s.Kind = "flag-disabled"
					s.Value = pick(r, checks.CheckNames)
				} else {
					s.Value = pick(r, insts[i]).String
				}
			}
		}
		jobs = append(jobs, job{base: i})
		for k := range steps[i] {
			jobs = append(jobs, job{base: i, step: &steps[i][k]})
		}
	}
	parallel(len(jobs), 16, func(j int) {
		jb := &jobs[j]
		dir := filepath.Join(cwd, "pairs", fmt.Sprintf("b%03d", jb.base))
		cfgName := fmt.Sprintf("pint_%d.hcl", j)
		writeFile(filepath.Join(dir, cfgName), bases[jb.base].config(jb.step))
		g := append([]string{"-c", cfgName}, bases[jb.base].args(jb.step)...)
		jb.res = scRunPint(dir, fmt.Sprintf("out_%d.json", j), g, []string{"lint", "--min-severity", "info", "--fail-on", "fatal", "--json", "@JSON@", "rules"})
	})
	baseRun := map[int]scRun{}
	for _, jb := range jobs {
		if jb.step == nil {
			baseRun[jb.base] = jb.res
		}
	}
	isCheckName := func(s string) bool {
		for _, nme := range checks.CheckNames {
			if s == nme {
				return true
			}
		}
		return false
	}
	for j, jb := range jobs {
		b := bases[jb.base]
		cid := fmt.Sprintf("pair-%d", j)
		desc := map[string]any{"base": b, "step": jb.step, "instances": insts[jb.base], "rules": rulesText, "config": b.config(jb.step), "run": jb.res, "base_run_args": baseRun[jb.base].Args}
		if scCrashed(jb.res) || !jb.res.JSONOK {
			rep.fail(cid, fmt.Sprintf("pint crashed or wrote no report (exit %d): %s", jb.res.Exit, jb.res.Stderr), desc)
			continue
		}
		if jb.step == nil {
			rep.hist(fmt.Sprintf("pairs:base servers=%d flagD=%d offline=%v enable-blocks=%d cfg-enabled=%v", len(b.Proms), len(b.FlagD), b.Offline, len(b.Enables), len(b.CfgE) > 0))
			continue
		}
		br := baseRun[jb.base]
		if scCrashed(br) || !br.JSONOK {
			continue // reported above for the base itself
		}
		st := *jb.step
		if st.Kind == "ref-flag-enabled-without-cfg-enabled" {
			continue // only a reference
		}
		if st.Kind == "flag-enabled-over-cfg-enabled" {
			ref := jobs[j+1] // generated right after it
			if ref.step == nil || ref.step.Kind != "ref-flag-enabled-without-cfg-enabled" || scCrashed(ref.res) || !ref.res.JSONOK {
				rep.hist("pairs:reference-run-missing")
				continue
			}
			missing, extra := scDiff(scKeys(ref.res.Problems), scKeys(jb.res.Problems))
			rep.count(fmt.Sprintf("pair|%d|%s|%v", jb.base, st.Kind, st.List), len(ref.res.Problems) > 0)
			rep.hist("binary:pair-" + st.Kind)
			if len(missing) > 0 || len(extra) > 0 {
				sort.Strings(missing)
				sort.Strings(extra)
				desc["reference_run_args"] = ref.res.Args
				desc["missing_vs_reference"] = missing
				desc["unexpected"] = extra
				rep.fail(cid, fmt.Sprintf("--enabled %v with checks{enabled=%v} in the configuration file: the command line must REPLACE the file's list, but the problems differ from the same run without the file's list: %d missing (e.g. %v), %d unexpected (e.g. %v)",
					st.List, b.CfgE, len(missing), first(missing), len(extra), first(extra)), desc)
			}
			continue
		}
		// rule{enable=[N]} override on the rule a problem belongs to
		overridden := func(p scProblem, name string) bool {
			alerting, found := false, false
			for _, a := range layout {
				if len(p.Lines) > 0 && p.Lines[0] >= a.First && p.Lines[0] <= a.Last {
					alerting, found = a.Alerting, true
				}
			}
			for _, e := range b.Enables {
				if e.AlertingOnly && !(found && alerting) {
					continue
				}
				for _, nme := range e.Names {
					if nme == name {
						return true
					}
				}
			}
			return false
		}
		// active server-bound instances of reporter N under the base flags, and those the step's value hits
		activeHit := func(name string) (active, hit int) {
			for _, in := range insts[jb.base] {
				if in.Name != name {
					continue
				}
				off := false
				for _, v := range b.FlagD {
					if c08ValueHits(v, in) {
						off = true
					}
				}
				if off {
					continue
				}
				active++
				if c08ValueHits(st.Value, in) {
					hit++
				}
			}
			return
		}
		c08Unable := c08LearnUnable(br.Problems, metaOnline[jb.base], mixed[jb.base], insts[jb.base])
		if st.Kind == "offline" || jb.step == &steps[jb.base][0] {
			rep.hist("pairs:learned-unreachable-summary=" + c08Unable)
		}
		want := map[string]int{}
		alt := map[string]int{} // second acceptable multiplicity of a key
		purelyServerBound := func(name string) bool {
			n := 0
			for _, in := range insts[jb.base] {
				if in.Name == name {
					n++
				}
			}
			return n > 0 && !mixed[jb.base][name]
		}
		touched := 0
		skip := false
		byKey := map[string][]scProblem{}
		for _, p := range br.Problems {
			byKey[p.key()] = append(byKey[p.key()], p)
		}
		for key, ps := range byKey {
			p := ps[0]
			keepN := len(ps)
			switch st.Kind {
			case "offline":
				if metaOnline[jb.base][p.Reporter] && !overridden(p, p.Reporter) {
					keepN = 0
				}
			case "flag-disabled", "cfg-disabled":
				if p.Reporter == st.Value && !overridden(p, p.Reporter) {
					keepN = 0
				}
			case "rule-disable", "rule-enable-and-disable":
				if p.Reporter == st.Value {
					keepN = 0
				}
			case "flag-enabled":
				in := !isCheckName(p.Reporter)
				for _, e := range st.List {
					if e == p.Reporter {
						in = true
					}
				}
				if !in {
					keepN = 0
				}
			case "flag-disabled-instance", "flag-disabled-tag":
				nme, _, _ := strings.Cut(st.Value, "(")
				if p.Reporter == nme && p.Problem == c08Unable && !overridden(p, p.Reporter) {
					active, hit := activeHit(nme)
					if active == 0 || len(ps)%active != 0 {
						skip = true // attribution impossible (never expected with unreachable servers)
						rep.hist("pairs:attribution-impossible")
					} else {
						keepN = len(ps) / active * (active - hit)
					}
				} else if p.Reporter == nme && !overridden(p, p.Reporter) && purelyServerBound(nme) {
					// a real finding of a check that only exists per server (rule/duplicate): every active instance reports the same
					// problem; identical reports may or may not be folded into one by the Summary, so with instances left over both the
					// unchanged and the proportional multiplicity are accepted, with none left the problem must disappear
					active, hit := activeHit(nme)
					switch {
					case active == 0:
						skip = true
						rep.hist("pairs:attribution-impossible")
					case active-hit == 0:
						keepN = 0
					case hit > 0 && len(ps)%active == 0:
						alt[key] = len(ps) / active * (active - hit)
					}
				}
			}
			if keepN != len(ps) {
				touched++
			}
			if keepN > 0 {
				want[key] = keepN
			}
		}
		if skip {
			continue
		}
		got := map[string]int{}
		for _, p := range jb.res.Problems {
			got[p.key()]++
		}
		var missing, extra []string
		for k, c := range want {
			if a, ok := alt[k]; ok && got[k] == a {
				continue
			}
			if got[k] < c {
				missing = append(missing, fmt.Sprintf("%dx %s", c-got[k], k))
			}
		}
		for k, c := range got {
			if a, ok := alt[k]; ok && c == a {
				continue
			}
			if c > want[k] {
				extra = append(extra, fmt.Sprintf("%dx %s", c-want[k], k))
			}
		}
		rep.count(fmt.Sprintf("pair|%d|%s|%s|%v", jb.base, st.Kind, st.Value, st.List), touched > 0 && len(want) > 0)
		rep.hist("binary:pair-" + st.Kind)
		if touched > 0 {
			rep.hist("binary:pair-" + st.Kind + ":effective")
		}
		if len(missing) > 0 || len(extra) > 0 {
			sort.Strings(missing)
			sort.Strings(extra)
			desc["missing_vs_expected"] = missing
			desc["unexpected"] = extra
			rep.fail(cid, fmt.Sprintf("adding %s %s%v to %v: problems differ from 'previous run filtered by reporter': %d expected problem(s) missing (e.g. %v), %d unexpected (e.g. %v)",
				st.Kind, st.Value, st.List, b.args(nil), len(missing), first(missing), len(extra), first(extra)), desc)
		}
	}
}
