//go:build verif

package main

// C08 — every check is switched on and off by the name it reports under.
//
//  (1) correspondence: generated configs x flags x entries x command are pushed through the REAL
//      config.Load / SetDisabledChecks / DisableOnlineChecks / GetChecksForEntry; inputs (parsed rules with
//      their live Reporter()/Meta()/String(), match verdicts, comment matches) and the observed list of enabled
//      checks are written as Coq terms; Run/C08.v evaluates Model/CheckSwitch.v on them.
//  (2) oracle on the real binary (the property as written): for every check name N, runs that differ by one
//      --disabled / checks{disabled} / rule{disable} / --enabled / checks{enabled} / --offline, diff of the
//      problem multiset keyed by reporter.

import (
	"fmt"
	"math/rand"
	"os"
	"path/filepath"
	"regexp"
	"sort"
	"strings"

	"github.com/prometheus/client_golang/prometheus"

	"github.com/cloudflare/pint/internal/checks"
	"github.com/cloudflare/pint/internal/config"
	"github.com/cloudflare/pint/internal/discovery"
)

func init() { register("C08", runC08) }

// ---------------------------------------------------------------------------------------------
// generators

var c08Palette = []string{
	"aggregate \".+\" {\n  keep = [\"job\"]\n}\n",
	"aggregate \".+\" {\n  strip = [\"instance\"]\n  keep = [\"job\"]\n}\n",
	"cost {\n  maxSeries = 1\n}\n",
	"cost {\n  maxTotalSamples = 5\n}\n",
	"annotation \"summary\" {\n  required = true\n}\n",
	"annotation \"summary\" {\n  value = \"ok.*\"\n  required = true\n}\n",
	"label \"team\" {\n  required = true\n}\n",
	"label \"team\" {\n  value = \"a|b\"\n}\n",
	"alerts {\n  range = \"1h\"\n  step = \"1m\"\n  resolve = \"5m\"\n}\n",
	"reject \".*bad.*\" {\n  label_keys = true\n  label_values = true\n  annotation_keys = true\n  annotation_values = true\n}\n",
	"reject \"bad\" {\n  label_values = true\n}\n",
	"link \"https?://.*\" {}\n",
	"for {\n  min = \"5m\"\n}\n",
	"keep_firing_for {\n  min = \"5m\"\n}\n",
	"name \"rec:.+\" {}\n",
	"name \"[A-Z].+\" {}\n",
	"range_query {\n  max = \"1h\"\n}\n",
	"report {\n  comment = \"rep\"\n  severity = \"info\"\n}\n",
}

const c08AllKinds = `rule {
  aggregate ".+" {
    keep = ["job"]
  }
  cost {
    maxSeries = 1
  }
  annotation "summary" {
    required = true
  }
  label "team" {
    required = true
  }
  alerts {
    range = "1h"
    step = "1m"
    resolve = "5m"
  }
  reject ".*bad.*" {
    label_keys = true
    label_values = true
    annotation_keys = true
    annotation_values = true
  }
  link "https?://.*" {}
  for {
    min = "5m"
  }
  keep_firing_for {
    min = "5m"
  }
  name "rec:.+" {}
  range_query {
    max = "1h"
  }
  report {
    comment = "rep"
    severity = "info"
  }
}
`

func c08Prom(name string, tags []string) string {
	t := ""
	if len(tags) > 0 {
		t = "  tags = " + hclList(tags) + "\n"
	}
	return fmt.Sprintf("prometheus %q {\n  uri = \"http://127.0.0.1:1\"\n  timeout = \"1s\"\n  uptime = \"up\"\n%s}\n", name, t)
}

func c08Subset(r *rand.Rand, xs []string, p float64) []string {
	out := []string{}
	for _, x := range xs {
		if r.Float64() < p {
			out = append(out, x)
		}
	}
	return out
}

type c08Config struct {
	HCL   string   `json:"hcl"`
	Proms []string `json:"proms"`
}

var c08BlockName = map[string]string{"aggregate": "promql/aggregate", "cost": "query/cost", "annotation": "alerts/annotation", "label": "rule/label",
	"alerts": "alerts/count", "reject": "rule/reject", "link": "rule/link", "for": "rule/for", "keep_firing_for": "rule/for", "name": "rule/name",
	"range_query": "promql/range_query", "report": "rule/report"}

func c08GenConfig(r *rand.Rand) c08Config {
	var b strings.Builder
	var proms []string
	names := checks.CheckNames
	switch r.Intn(5) {
	case 4:
		// the names of the configurable checks: what locked rule blocks will carry
		fmt.Fprintf(&b, "checks {\n  disabled = %s\n}\n", hclList(c08Subset(r, []string{"rule/label", "alerts/annotation", "rule/for", "rule/name", "rule/reject", "rule/report", "promql/aggregate", "promql/range_query"}, 0.5)))
	case 0:
		fmt.Fprintf(&b, "checks {\n  disabled = %s\n}\n", hclList(c08Subset(r, names, 0.15)))
	case 1:
		fmt.Fprintf(&b, "checks {\n  enabled = %s\n}\n", hclList(c08Subset(r, names, 0.7)))
	case 2:
		fmt.Fprintf(&b, "checks {\n  enabled = %s\n  disabled = %s\n}\n", hclList(c08Subset(r, names, 0.8)), hclList(c08Subset(r, names, 0.1)))
	}
	np := r.Intn(3)
	for i := 0; i < np; i++ {
		n := []string{"prom", "prom2"}[i]
		proms = append(proms, n)
		b.WriteString(c08Prom(n, c08Subset(r, []string{"a", "b"}, 0.5)))
	}
	nr := r.Intn(5)
	var hot []string
	for i := 0; i < nr; i++ {
		b.WriteString("rule {\n")
		if r.Intn(3) == 0 {
			b.WriteString("  locked = true\n")
		}
		switch r.Intn(5) {
		case 0:
			b.WriteString("  match {\n    kind = \"alerting\"\n  }\n")
		case 1:
			b.WriteString("  match {\n    name = \"Foo.*\"\n  }\n")
		case 2:
			b.WriteString("  ignore {\n    kind = \"recording\"\n  }\n")
		case 3:
			b.WriteString("  match {\n    state = [\"added\", \"unmodified\"]\n  }\n")
		}
		switch r.Intn(6) {
		case 0:
			fmt.Fprintf(&b, "  enable = %s\n", hclList(c08Subset(r, names, 0.15)))
		case 1:
			fmt.Fprintf(&b, "  disable = %s\n", hclList(c08Subset(r, names, 0.1)))
		case 2:
			// the same names enabled and disabled by one block (disable wins), or by two blocks in either order
			both := c08Subset(r, names, 0.2)
			fmt.Fprintf(&b, "  enable = %s\n  disable = %s\n", hclList(both), hclList(c08Subset(r, both, 0.6)))
		case 3:
			hot = c08Subset(r, names, 0.25)
			fmt.Fprintf(&b, "  enable = %s\n", hclList(hot))
		case 4:
			if len(hot) > 0 {
				fmt.Fprintf(&b, "  disable = %s\n", hclList(c08Subset(r, hot, 0.5)))
			}
		}
		nc := r.Intn(4)
		seen := map[string]bool{}
		for k := 0; k < nc; k++ {
			c := pick(r, c08Palette)
			head := strings.SplitN(c, " ", 2)[0]
			single := map[string]bool{"cost": true, "alerts": true, "for": true, "keep_firing_for": true, "range_query": true, "report": true}
			if single[head] && seen[head] {
				continue
			}
			seen[head] = true
			b.WriteString(scIndent(c, "  "))
		}
		b.WriteString("}\n")
	}
	if r.Intn(3) == 0 {
		// the IDENTICAL check (same String()) in two or three blocks with different selectors: a check identity is enabled
		// once per entry, by the first block that selects the entry and leaves it enabled
		c := pick(r, c08Palette)
		sels := []string{"  match {\n    kind = \"alerting\"\n  }\n", "  match {\n    kind = \"recording\"\n  }\n", "  match {\n    name = \"Foo.*\"\n  }\n",
			"  ignore {\n    kind = \"recording\"\n  }\n", "  ignore {\n    name = \"Foo.*\"\n  }\n", "  match {\n    state = [\"added\", \"unmodified\"]\n  }\n", ""}
		r.Shuffle(len(sels), func(i, j int) { sels[i], sels[j] = sels[j], sels[i] })
		for k := 0; k < 2+r.Intn(2); k++ {
			b.WriteString("rule {\n" + sels[k])
			if r.Intn(4) == 0 {
				b.WriteString("  locked = true\n")
			}
			b.WriteString(scIndent(c, "  ") + "}\n")
		}
	}
	return c08Config{HCL: b.String(), Proms: proms}
}

var c08RulePool = []string{
	"  - record: foo\n    expr: sum(rate(http_total[2h])) without(job)\n    labels:\n      bad: bad\n",
	"  - alert: Foo\n    expr: up{job=~\"a\"} == 0\n    for: 1m\n    keep_firing_for: 1m\n    labels:\n      xbadx: y\n    annotations:\n      link: http://127.0.0.1:1/x\n      bad: \"{{ $labels.nope }}\"\n",
	"  - alert: FooBar\n    expr: sum(foo) by(job) > 0\n    for: 10m\n    labels:\n      team: a\n    annotations:\n      summary: ok {{ $labels.instance }}\n",
	"  - record: rec:bar\n    expr: foo / on(x) bar\n",
	"  - alert: Cmp\n    expr: foo\n    for: 0s\n",
	"  - alert: Abs\n    expr: absent(foo{job=\"x\"}) or vector(1) > bool 2\n    annotations:\n      summary: \"{{ $value | humanize }} {{ $labels.job }}\"\n",
	"  - record: baz\n    expr: topk(5, foo) and on(a) sum(bar) by(b)\n",
	"  - alert: Frag\n    expr: errors / sum(requests) without(instance) > 0.1\n",
	"  - alert: Topk\n    expr: topk(5, foo) > 0\n",
	"  - record: dup\n    expr: sum(foo)\n",
	"  - record: dup\n    expr: sum(foo)\n",
	"  - record: syn\n    expr: sum(foo\n",
}

// every rule of the pool but the last (the syntax error: a broken expression changes what OTHER checks report)
func c08GoodRules() []string { return c08RulePool[:len(c08RulePool)-1] }

func c08CommentTargets(proms []string) []string {
	out := append([]string{}, checks.CheckNames...)
	for _, p := range proms {
		out = append(out, "promql/series("+p+")", "promql/rate("+p+")", "query/cost("+p+")", "alerts/count("+p+")")
	}
	out = append(out, "promql/rate(+a)", "promql/series(+b)", "alerts/count(+a)", "rule/label(team:true)", "promql/aggregate(job:true)",
		"rule/for(5m:0)", "rule/name(^rec:.+$)", "alerts/annotation(summary:true)", "promql/range_query(1h)", "rule/reject(key=~'^.*bad.*$')", "promql", "rule/.*")
	return out
}

func c08GenRules(r *rand.Rand, proms []string) string {
	var b strings.Builder
	targets := c08CommentTargets(proms)
	if r.Intn(4) == 0 {
		fmt.Fprintf(&b, "# pint file/disable %s\n", pick(r, targets))
	}
	if r.Intn(8) == 0 {
		fmt.Fprintf(&b, "# pint file/snooze 2099-01-01 %s\n", pick(r, targets))
	}
	b.WriteString("groups:\n- name: g\n  rules:\n")
	n := 1 + r.Intn(4)
	for i := 0; i < n; i++ {
		k := r.Intn(3)
		for j := 0; j < k; j++ {
			switch r.Intn(6) {
			case 0:
				fmt.Fprintf(&b, "  # pint snooze 2099-01-01 %s\n", pick(r, targets))
			case 1:
				fmt.Fprintf(&b, "  # pint snooze 2001-01-01 %s\n", pick(r, targets))
			default:
				fmt.Fprintf(&b, "  # pint disable %s\n", pick(r, targets))
			}
		}
		b.WriteString(pick(r, c08RulePool))
	}
	if r.Intn(10) == 0 {
		b.WriteString("  - alert: Broken\n    bogus: 1\n    expr: up\n")
	}
	return b.String()
}

// flag values for --disabled: names, String() forms, regexps WITHOUT a top-level alternation
func c08GenFlagDisabled(r *rand.Rand, proms []string) []string {
	pool := append([]string{}, checks.CheckNames...)
	pool = append(pool, "promql/.*", "rule/.+", ".*/for", "alerts/(for|count)", "promql/(rate|series)", "promql/series(prom)", "x", "promql", "query/cost.*", "(rule|alerts)/.*", "promql/rate(+a)", "promql/series(+b)", "rule/label(")
	n := r.Intn(3)
	out := []string{}
	for i := 0; i < n; i++ {
		out = append(out, pick(r, pool))
	}
	return out
}

// ---------------------------------------------------------------------------------------------
// Coq printers

func c08Check(c checks.RuleChecker) string {
	m := c.Meta()
	st := make([]string, len(m.States))
	for i, s := range m.States {
		st[i] = scStateNames[s]
	}
	return fmt.Sprintf("{| ck_string := %s; ck_reporter := %s; ck_states := %s; ck_always := %s; ck_online := %s |}",
		coqStr(c.String()), coqStr(c.Reporter()), coqStrList(st), coqBool(m.AlwaysEnabled), coqBool(m.Online))
}

func c08PRule(p config.VerifPRule) string {
	return fmt.Sprintf("{| pr_name := %s; pr_check := %s; pr_tags := %s; pr_locked := %s; pr_matched := %s |}",
		coqStr(p.Name), c08Check(p.Check), coqStrList(p.Tags), coqBool(p.Locked), coqBool(p.Matched))
}

func c08ConfigTerm(enabled, disabled []string, rules []string) string {
	return fmt.Sprintf("{| c_enabled := %s; c_disabled := %s; c_rules := %s |}", coqStrList(enabled), coqStrList(disabled), coqList(rules))
}

// ---------------------------------------------------------------------------------------------

func c08ApplyFlags(cfg *config.Config, fd, fe []string, offline bool) {
	// cmd/pint/main.go actionSetup
	cfg.SetDisabledChecks(fd)
	if len(fe) > 0 {
		cfg.Checks.Enabled = fe
	}
	if offline {
		cfg.DisableOnlineChecks()
	}
}

func c08ApplyFlagsSafe(cfg *config.Config, fd, fe []string, offline bool) (msg string) {
	defer func() {
		if r := recover(); r != nil {
			msg = fmt.Sprint(r)
		}
	}()
	c08ApplyFlags(cfg, fd, fe, offline)
	return ""
}

func runC08(args []string) int {
	n := argInt(args, "--n", 60)
	seed := seedFromEnv()
	r := rand.New(rand.NewSource(seed))
	rep := newReport("C08", seed)
	rep.Rule = "route case = (generated config + flags, entry from the real finder with forced state, command) through the real GetChecksForEntry; " +
		"non-trivial = at least one parsed rule is switched off by a name-based mechanism (disabled list, enabled list, comment, rule{disable}) and at least one stays on; " +
		"flags case = SetDisabledChecks/--enabled/DisableOnlineChecks on a loaded config; binary case = pair of pint runs differing in one switch, non-trivial = the baseline has a problem of the switched reporter"
	scQuiet()
	cwd, _ := os.Getwd()
	cw := newCaseWriter(cwd, "Run.C08", 35)
	cw.preamble = "Open Scope N_scope.\n"
	id := 0

	// ---------------- (1) correspondence
	for i := 0; i < n; i++ {
		dir := filepath.Join(cwd, "corr", fmt.Sprintf("s%04d", i))
		gc := c08GenConfig(r)
		if i == 0 {
			gc = c08Config{HCL: c08Prom("prom", []string{"a"}) + c08AllKinds, Proms: []string{"prom"}}
		}
		_, err := scLoadConfig(dir, gc.HCL)
		if err != nil {
			rep.hist("corr:config-rejected")
			rep.Notes = append(rep.Notes, "generated config rejected: "+err.Error())
			continue
		}
		writeFile(filepath.Join(dir, "rules", "0.yml"), c08GenRules(r, gc.Proms))
		entries, err := scEntries(dir, "rules")
		if err != nil {
			rep.hist("corr:finder-error")
			continue
		}
		for variant := 0; variant < 3; variant++ {
			cfg, _ := scLoadConfig(dir, gc.HCL)
			fd := c08GenFlagDisabled(r, gc.Proms)
			var fe []string
			if r.Intn(4) == 0 {
				fe = c08Subset(r, checks.CheckNames, 0.3)
			}
			offline := r.Intn(4) == 0
			// flags case
			oracle := []string{}
			for _, s := range fd {
				re, err := regexp.Compile("^" + s + "$")
				var ms []string
				if err == nil {
					for _, nme := range checks.CheckNames {
						if re.MatchString(nme) {
							ms = append(ms, nme)
						}
					}
				}
				oracle = append(oracle, coqPair(coqStr(s), coqStrList(ms)))
			}
			c0 := c08ConfigTerm(cfg.Checks.Enabled, cfg.Checks.Disabled, nil)
			if msg := c08ApplyFlagsSafe(&cfg, fd, fe, offline); msg != "" {
				rep.fail(fmt.Sprintf("flags-%d-%d", i, variant), "applying --disabled/--enabled/--offline to a loaded configuration panicked: "+msg,
					map[string]any{"config": gc.HCL, "flags_disabled": fd, "flags_enabled": fe, "offline": offline})
				continue
			}
			id++
			cw.add(fmt.Sprintf("Flags %s %s %s %s %s %s %s %s", coqN(id), coqStrList(fd), coqStrList(fe), coqBool(offline), c0,
				coqList(oracle), coqStrList(cfg.Checks.Enabled), coqStrList(cfg.Checks.Disabled)))
			rep.count(fmt.Sprintf("flags|%v|%v|%v|%s", fd, fe, offline, c0), len(fd) > 0 || offline)
			rep.hist("case=flags")
			if offline {
				rep.hist("flags:offline")
			}

			gen := config.NewPrometheusGenerator(cfg, prometheus.NewRegistry())
			if err := gen.GenerateStatic(); err != nil {
				rep.Notes = append(rep.Notes, "GenerateStatic: "+err.Error())
				continue
			}
			for _, e := range entries {
				cmd := pick(r, []string{"lint", "ci", "watch", "lint"})
				ctx := scCtx(cmd)
				e.State = pick(r, scAllStates)
				if r.Intn(3) == 0 {
					e.State = discovery.Noop
				}
				hasErr, prs := config.VerifParsedRules(ctx, &cfg, gen, e)
				got := cfg.GetChecksForEntry(ctx, gen, e)
				obs := make([]string, len(got))
				for k, c := range got {
					obs[k] = c.String()
				}
				prt := make([]string, len(prs))
				for k, p := range prs {
					prt[k] = c08PRule(p)
				}
				crs := make([]string, len(cfg.Rules))
				for k, cr := range cfg.Rules {
					crs[k] = fmt.Sprintf("{| cr_matched := %s; cr_enable := %s; cr_disable := %s |}",
						coqBool(config.VerifIsMatch(ctx, e, cr.Ignore, cr.Match)), coqStrList(cr.Enable), coqStrList(cr.Disable))
				}
				cm := scCommentMatches(e.Rule)
				et := fmt.Sprintf("{| e_state := %s; e_disabled := %s; e_comments := %s |}", coqStr(scStateNames[e.State]), coqStrList(e.DisabledChecks), coqStrList(cm))
				id++
				term := fmt.Sprintf("Route %s %s %s %s %s %s", coqN(id), c08ConfigTerm(cfg.Checks.Enabled, cfg.Checks.Disabled, crs), et, coqBool(hasErr), coqList(prt), coqStrList(obs))
				cw.add(term)
				matched := 0
				for _, p := range prs {
					if p.Matched {
						matched++
					}
				}
				verdicts := map[string][2]bool{}
				for _, p := range prs {
					v := verdicts[p.Check.String()]
					if p.Matched {
						v[0] = true
					} else {
						v[1] = true
					}
					verdicts[p.Check.String()] = v
				}
				for _, v := range verdicts {
					if v[0] && v[1] {
						rep.hist("route:identical-check-with-mixed-match-verdicts")
						break
					}
				}
				switchedOff := matched > len(got) && len(got) > 0
				rep.count(term[len("Route ")+len(coqN(id)):], switchedOff)
				rep.hist("case=route")
				rep.hist("route:cmd=" + cmd)
				rep.hist("route:state=" + scStateNames[e.State])
				rep.hist(fmt.Sprintf("route:enabled_checks=%d", min(len(got)/5*5, 30)))
				if hasErr {
					rep.hist("route:error-entry")
				}
				if len(cm) > 0 {
					rep.hist("route:with-comments")
				}
				if len(rep.Cases) < 400 {
					rep.Cases[fmt.Sprint(id)] = map[string]any{"config": gc.HCL, "flags_disabled": fd, "flags_enabled": fe, "offline": offline,
						"rule": e.Rule.Name(), "state": scStateNames[e.State], "command": cmd, "observed": obs, "dir": dir}
				}
			}
			gen.Stop()
		}
	}
	cw.flush()
	rep.CaseFiles = cw.files

	// ---------------- (2) oracle on the real binary
	c08Binary(r, rep, cwd, n)
	// ---------------- (3) oracle on the real binary, paired runs over random base configurations (c08_pairs.go)
	c08Pairs(rand.New(rand.NewSource(seed*7919+8)), rep, cwd, n)

	rep.write(filepath.Join(cwd, "report.json"))
	return 0
}

// ---------------------------------------------------------------------------------------------

type c08Scenario struct {
	Config string `json:"config"`
	Rules  string `json:"rules"`
	// Names: the check names switched in this scenario (nil = all of CheckNames)
	Names []string `json:"names,omitempty"`
	// pint ci scenario: BaseRules is committed on main, Rules on the feature branch (rule/dependency only runs on removed rules)
	CI        bool   `json:"ci,omitempty"`
	BaseRules string `json:"base_rules,omitempty"`
	// Added: the feature branch leaves rules/0.yml (BaseRules) UNTOUCHED and adds this as rules/1.yml
	Added string `json:"added_file,omitempty"`
}

type c08Variant struct {
	Kind   string   `json:"kind"` // baseline, flag-disabled, cfg-disabled, rule-disable, flag-enabled, cfg-enabled, offline
	Name   string   `json:"name"`
	Other  string   `json:"other_name,omitempty"`
	Global []string `json:"global_args"`
	Extra  string   `json:"config_suffix"`
}

func c08Binary(r *rand.Rand, rep *runReport, cwd string, n int) {
	nScen := 3
	if n >= 400 {
		nScen = 10
	} else if n > 100 {
		nScen = 4
	}
	var scens []c08Scenario
	allRules := "groups:\n- name: g\n  rules:\n" + strings.Join(c08GoodRules(), "")
	scens = append(scens, c08Scenario{Config: c08Prom("prom", nil) + c08AllKinds, Rules: allRules})
	scens = append(scens, c08Scenario{Config: c08AllKinds, Rules: allRules})
	if nScen > 2 || true {
		// the same rule block locked: `locked` only protects against disable/snooze COMMENTS, never against the switches
		scens = append(scens, c08Scenario{Config: c08Prom("prom", []string{"a"}) + strings.Replace(c08AllKinds, "rule {\n", "rule {\n  locked = true\n", 1), Rules: allRules})
	}
	for len(scens) < nScen {
		var b strings.Builder
		b.WriteString("groups:\n- name: g\n  rules:\n")
		for k := 0; k < 3+r.Intn(4); k++ {
			b.WriteString(pick(r, c08GoodRules()))
		}
		cfg := c08AllKinds
		if r.Intn(2) == 0 {
			cfg = c08Prom("prom", c08Subset(r, []string{"a"}, 0.5)) + cfg
		}
		if r.Intn(2) == 0 {
			cfg += "rule {\n  match {\n    kind = \"alerting\"\n  }\n" + scIndent(pick(r, c08Palette), "  ") + "}\n"
		}
		scens = append(scens, c08Scenario{Config: cfg, Rules: b.String()})
	}

	// promql/syntax on its own: rules with broken expressions next to a healthy one (the other scenarios hold no syntax
	// error because a broken expression silences most other checks of that rule)
	scens = append(scens, c08Scenario{Config: c08Prom("prom", nil) + c08AllKinds, Names: []string{"promql/syntax", "rule/label", "promql/series"},
		Rules: "groups:\n- name: g\n  rules:\n" + c08RulePool[len(c08RulePool)-1] + "  - alert: Syn2\n    expr: up ==\n    labels:\n      team: a\n" + c08RulePool[2]})
	// pint ci: a recording rule that an alert depends on is removed on the feature branch
	ciScen := len(scens)
	scens = append(scens, c08Scenario{CI: true, Config: c08Prom("prom", nil) + c08AllKinds,
		BaseRules: "groups:\n- name: g\n  rules:\n  - record: dep:rec\n    expr: sum(foo) without(instance)\n  - alert: UsesDep\n    expr: dep:rec > 0\n    for: 1m\n",
		Rules:     "groups:\n- name: g\n  rules:\n  - alert: UsesDep\n    expr: dep:rec > 0\n    for: 1m\n"})
	// pint ci with entries the branch does not touch: the rule block runs its checks on every state (match{state=["any"]}),
	// the branch only adds a second file; rule{disable/enable} blocks without a state must reach the untouched rules too
	scens = append(scens, c08Scenario{CI: true,
		Config:    c08Prom("prom", nil) + strings.Replace(c08AllKinds, "rule {\n", "rule {\n  match {\n    state = [\"any\"]\n  }\n", 1),
		BaseRules: allRules,
		Added:     "groups:\n- name: g2\n  rules:\n" + c08RulePool[1] + c08RulePool[3],
		Names:     []string{"rule/label", "alerts/annotation", "rule/for", "rule/name", "rule/report", "rule/reject", "promql/aggregate", "promql/range_query"}})
	type job struct {
		scen int
		v    c08Variant
		res  scRun
	}
	var jobs []job
	for si := range scens {
		dir := filepath.Join(cwd, "bin", fmt.Sprintf("s%02d", si))
		os.RemoveAll(dir) // search mode re-runs the harness in the same work directory: start every scenario from an empty one
		names := checks.CheckNames
		if scens[si].Names != nil {
			names = scens[si].Names
		}
		if scens[si].CI {
			writeFile(filepath.Join(dir, "rules", "0.yml"), scens[si].BaseRules)
			git(dir, "init", "-q", "-b", "main", ".")
			git(dir, "add", ".")
			git(dir, "commit", "-q", "-m", "init")
			git(dir, "checkout", "-q", "-b", "feature")
			if scens[si].Added != "" {
				writeFile(filepath.Join(dir, "rules", "1.yml"), scens[si].Added)
			} else {
				writeFile(filepath.Join(dir, "rules", "0.yml"), scens[si].Rules)
			}
			git(dir, "add", ".")
			git(dir, "commit", "-q", "-m", "feature branch")
			if scens[si].Names == nil {
				names = []string{"rule/dependency", "alerts/template", "promql/series", "rule/label"}
			}
		} else {
			writeFile(filepath.Join(dir, "rules", "0.yml"), scens[si].Rules)
		}
		vs := []c08Variant{{Kind: "baseline"}, {Kind: "offline", Global: []string{"--offline"}}}
		for _, nme := range names {
			vs = append(vs,
				c08Variant{Kind: "flag-disabled", Name: nme, Global: []string{"--disabled", nme}},
				c08Variant{Kind: "cfg-disabled", Name: nme, Extra: fmt.Sprintf("checks {\n  disabled = [%q]\n}\n", nme)},
				c08Variant{Kind: "rule-disable", Name: nme, Extra: fmt.Sprintf("rule {\n  disable = [%q]\n}\n", nme)},
				c08Variant{Kind: "flag-enabled", Name: nme, Global: []string{"--enabled", nme}},
				c08Variant{Kind: "cfg-enabled", Name: nme, Extra: fmt.Sprintf("checks {\n  enabled = [%q]\n}\n", nme)},
			)
		}
		for _, nme := range names {
			vs = append(vs,
				// documented precedence: rule{enable} overrides checks{disabled}; rule{disable} wins over rule{enable}
				c08Variant{Kind: "rule-enable-over-disabled", Name: nme, Extra: fmt.Sprintf("checks {\n  disabled = [%q]\n}\nrule {\n  enable = [%q]\n}\n", nme, nme)},
				c08Variant{Kind: "rule-disable-over-enable", Name: nme, Extra: fmt.Sprintf("rule {\n  enable = [%q]\n}\nrule {\n  disable = [%q]\n}\n", nme, nme)},
			)
		}
		if scens[si].Added != "" {
			for _, nme := range names {
				vs = append(vs,
					c08Variant{Kind: "rule-disable-state-any", Name: nme, Extra: fmt.Sprintf("rule {\n  match {\n    state = [\"any\"]\n  }\n  disable = [%q]\n}\n", nme)},
					c08Variant{Kind: "rule-disable-state-unmodified", Name: nme, Extra: fmt.Sprintf("rule {\n  match {\n    state = [\"unmodified\"]\n  }\n  disable = [%q]\n}\n", nme)},
					c08Variant{Kind: "rule-disable-state-added", Name: nme, Extra: fmt.Sprintf("rule {\n  match {\n    state = [\"added\"]\n  }\n  disable = [%q]\n}\n", nme)},
					c08Variant{Kind: "rule-disable-ignore-state-added", Name: nme, Extra: fmt.Sprintf("rule {\n  ignore {\n    state = [\"added\"]\n  }\n  disable = [%q]\n}\n", nme)},
				)
			}
		}
		// command line x configuration file: every CLI switch crossed with every counterpart of the file, documented precedence:
		// --enabled REPLACES checks{enabled}; --disabled ADDS to checks{disabled}; a disabled name wins over an enabled one
		for k, nme := range names {
			other := names[(k+1)%len(names)]
			if other == nme {
				continue
			}
			vs = append(vs,
				c08Variant{Kind: "cli-enabled-over-cfg-enabled-outside", Name: nme, Other: other, Global: []string{"--enabled", nme}, Extra: fmt.Sprintf("checks {\n  enabled = [%q]\n}\n", other)},
				c08Variant{Kind: "cli-enabled-over-cfg-enabled-inside", Name: nme, Other: other, Global: []string{"--enabled", nme}, Extra: fmt.Sprintf("checks {\n  enabled = [%q, %q]\n}\n", other, nme)},
				c08Variant{Kind: "cli-disabled-with-cfg-enabled", Name: nme, Other: other, Global: []string{"--disabled", nme}, Extra: fmt.Sprintf("checks {\n  enabled = [%q, %q]\n}\n", nme, other)},
				c08Variant{Kind: "cli-enabled-with-cfg-disabled-same", Name: nme, Other: other, Global: []string{"--enabled", nme}, Extra: fmt.Sprintf("checks {\n  disabled = [%q]\n}\n", nme)},
				c08Variant{Kind: "cli-enabled-with-cfg-disabled-other", Name: nme, Other: other, Global: []string{"--enabled", nme}, Extra: fmt.Sprintf("checks {\n  disabled = [%q]\n}\n", other)},
				c08Variant{Kind: "cli-disabled-plus-cfg-disabled", Name: nme, Other: other, Global: []string{"--disabled", nme}, Extra: fmt.Sprintf("checks {\n  disabled = [%q]\n}\n", other)},
			)
		}
		vs = append(vs, c08Variant{Kind: "flag-disabled-tag-form", Name: "promql/rate(+nosuchtag)", Global: []string{"--disabled", "promql/rate(+nosuchtag)"}})
		for _, v := range vs {
			jobs = append(jobs, job{scen: si, v: v})
		}
	}
	parallel(len(jobs), 16, func(i int) {
		j := &jobs[i]
		dir := filepath.Join(cwd, "bin", fmt.Sprintf("s%02d", j.scen))
		cfgName := fmt.Sprintf("pint_%d.hcl", i)
		if scens[j.scen].CI {
			// configuration and report live outside the repository
			cfgName = filepath.Join("..", fmt.Sprintf("s%02d_cfg", j.scen), cfgName)
			writeFile(filepath.Join(dir, cfgName), scens[j.scen].Config+j.v.Extra)
			g := append([]string{"-c", cfgName}, j.v.Global...)
			j.res = scRunPint(dir, filepath.Join("..", fmt.Sprintf("s%02d_cfg", j.scen), fmt.Sprintf("out_%d.json", i)), g, []string{"ci", "--base-branch", "main", "--fail-on", "fatal", "--json", "@JSON@"})
			return
		}
		writeFile(filepath.Join(dir, cfgName), scens[j.scen].Config+j.v.Extra)
		g := append([]string{"-c", cfgName}, j.v.Global...)
		j.res = scRunPint(dir, fmt.Sprintf("out_%d.json", i), g, []string{"lint", "--min-severity", "info", "--json", "@JSON@", "rules"})
	})
	online := map[string]bool{}
	for _, o := range checks.OnlineChecks {
		online[o] = true
	}
	base := map[int][]scProblem{}
	for _, j := range jobs {
		if j.v.Kind == "baseline" {
			base[j.scen] = j.res.Problems
			seen := map[string]bool{}
			for _, p := range j.res.Problems {
				if !seen[p.Reporter] {
					seen[p.Reporter] = true
					rep.hist("binary:baseline-reporter=" + p.Reporter)
				}
			}
		}
	}
	isParseError := func(p scProblem) bool {
		// unconditional problems: reporters that are not check names (yaml/parse, ignore/file, rule/owner ...)
		for _, nme := range checks.CheckNames {
			if p.Reporter == nme {
				return false
			}
		}
		return true
	}
	for i, j := range jobs {
		desc := map[string]any{"scenario": scens[j.scen], "variant": j.v, "run": j.res}
		cid := fmt.Sprintf("bin-%d", i)
		if scCrashed(j.res) || !j.res.JSONOK {
			rep.fail(cid, fmt.Sprintf("pint crashed or wrote no report (exit %d): %s", j.res.Exit, j.res.Stderr), desc)
			continue
		}
		if j.v.Kind == "baseline" {
			continue
		}
		b := base[j.scen]
		var want []scProblem
		touched := 0
		for _, p := range b {
			keep := true
			switch j.v.Kind {
			case "flag-disabled", "cfg-disabled", "rule-disable", "rule-disable-over-enable":
				keep = p.Reporter != j.v.Name
			case "rule-disable-state-any":
				keep = p.Reporter != j.v.Name
			case "rule-disable-state-unmodified", "rule-disable-ignore-state-added":
				keep = !(p.Reporter == j.v.Name && p.Path == "rules/0.yml") // the untouched file
			case "rule-disable-state-added":
				keep = !(p.Reporter == j.v.Name && p.Path == "rules/1.yml") // the file the branch adds
			case "rule-enable-over-disabled", "flag-disabled-tag-form":
				keep = true
			case "flag-enabled", "cfg-enabled", "cli-enabled-over-cfg-enabled-outside", "cli-enabled-over-cfg-enabled-inside", "cli-enabled-with-cfg-disabled-other":
				keep = p.Reporter == j.v.Name || isParseError(p)
			case "cli-disabled-with-cfg-enabled":
				keep = p.Reporter == j.v.Other || isParseError(p)
			case "cli-enabled-with-cfg-disabled-same":
				keep = isParseError(p)
			case "cli-disabled-plus-cfg-disabled":
				keep = p.Reporter != j.v.Name && p.Reporter != j.v.Other
			case "offline":
				keep = !online[p.Reporter]
			}
			if keep {
				want = append(want, p)
			} else {
				touched++
			}
		}
		missing, extra := scDiff(scKeys(want), scKeys(j.res.Problems))
		if j.v.Kind == "rule-enable-over-disabled" {
			// a check enabled by rule{enable} skips the "already enabled" de-duplication of GetChecksForEntry, so
			// instances with colliding String() (for / keep_firing_for, the four reject variants) that the baseline
			// folded into one all run: extra problems of reporter N are expected, nothing else may change
			var other []string
			for _, x := range extra {
				if !strings.HasPrefix(x, j.v.Name+"|") {
					other = append(other, x)
				}
			}
			extra = other
		}
		rep.count(fmt.Sprintf("bin|%d|%s|%s", j.scen, j.v.Kind, j.v.Name), touched > 0 && len(want) > 0)
		rep.hist("binary:" + j.v.Kind)
		if len(missing) > 0 || len(extra) > 0 {
			sort.Strings(missing)
			sort.Strings(extra)
			desc["missing_vs_expected"] = missing
			desc["unexpected"] = extra
			rep.fail(cid, fmt.Sprintf("%s %s: problems differ from 'baseline filtered by reporter': %d expected problem(s) missing (e.g. %v), %d unexpected (e.g. %v)",
				j.v.Kind, j.v.Name, len(missing), first(missing), len(extra), first(extra)), desc)
		}
	}
	_ = ciScen
	rep.sample(map[string]any{"scenario": scens[0], "baseline_problems": len(base[0])})
}

func first(xs []string) string {
	if len(xs) == 0 {
		return ""
	}
	return xs[0]
}
