//go:build verif

package main

// C07: control comments suppress exactly the targeted check on the targeted rules.
//
// Phase A (correspondence, evaluated by coqc against Run/C07.v):
//   parse   : comments.Parse on alphabet lines, mutated lines and multi-line comment blocks
//   enable  : isDisabledForRule / isEnabled / GetChecksForEntry selection loop on generated configs x entries
//   file    : discovery.readRules DisabledChecks on generated files (file/disable, file/snooze, duplicates, ignore blocks)
// Phase B (oracle_impl): before/after runs of the real pint binary with one inserted comment (c07_oracle.go).

import (
	"fmt"
	"math/rand"
	"os"
	"strings"
	"time"

	"github.com/cloudflare/pint/internal/comments"
	"github.com/cloudflare/pint/internal/config"
	"github.com/cloudflare/pint/internal/discovery"
	"github.com/cloudflare/pint/internal/parser"
)

func init() { register("C07", runC07) }

var c07Names = []string{"promql/series", "alerts/for", "rule/label", "a", "promql/rate"}
var c07Tags = []string{"t1", "t2", "prod"}

func c07Comment(c comments.Comment) string {
	typ := map[comments.Type]string{
		comments.UnknownType: "UnknownType", comments.InvalidComment: "InvalidComment", comments.IgnoreFileType: "IgnoreFileType",
		comments.IgnoreLineType: "IgnoreLineType", comments.IgnoreBeginType: "IgnoreBeginType", comments.IgnoreEndType: "IgnoreEndType",
		comments.IgnoreNextLineType: "IgnoreNextLineType", comments.FileOwnerType: "FileOwnerType", comments.RuleOwnerType: "RuleOwnerType",
		comments.FileDisableType: "FileDisableType", comments.DisableType: "DisableType", comments.FileSnoozeType: "FileSnoozeType",
		comments.SnoozeType: "SnoozeType", comments.RuleSetType: "RuleSetType",
	}[c.Type]
	val := "VNone"
	switch v := c.Value.(type) {
	case comments.Disable:
		val = fmt.Sprintf("(VDisable %s)", scStr(v.Match))
	case comments.Snooze:
		val = fmt.Sprintf("(VSnooze %s %s)", scTimeZ(v.Until), scStr(v.Match))
	case comments.Owner:
		val = fmt.Sprintf("(VOwner %s %s)", scStr(v.Name), coqNat(v.Line))
	case comments.RuleSet:
		val = fmt.Sprintf("(VRuleSet %s)", scStr(v.Value))
	}
	return fmt.Sprintf("{| c_type := %s; c_off := %s; c_val := %s |}", typ, coqNat(c.Offset), val)
}

func c07Comments(cs []comments.Comment) string {
	out := make([]string, len(cs))
	for i, c := range cs {
		out[i] = c07Comment(c)
	}
	return coqList(out)
}

// spellings a comment may use (hits and near misses)
func c07Spelling(r *rand.Rand, name, str string, tags []string) string {
	switch r.Intn(9) {
	case 0:
		return name
	case 1:
		return str
	case 2:
		return name + "(+" + pick(r, c07Tags) + ")"
	case 3:
		return name + "(" + pick(r, c07Tags) + ")"
	case 4:
		return str + "(+" + pick(r, c07Tags) + ")"
	case 5:
		if len(name) > 1 {
			return name[:len(name)-1]
		}
		return name + "x"
	case 6:
		return pick(r, c07Names)
	case 7:
		return name + " "
	default:
		return pick(r, c07Names) + "(+" + pick(r, c07Tags) + ")"
	}
}

// c07RuleComments: the rule's comments. Two strata: "sparse" (0-3 comments, mostly near misses) and "dense" (2-6
// comments, each a hit of the target with probability ~0.6, all types mixed in every order: several disables / live /
// expired snoozes / rule/set on ONE rule, so that the decision depends on how the loops over the comments continue
// after an expired, a non-matching or a matching one).
func c07RuleComments(r *rand.Rand, now time.Time, name, str string, tags []string) []comments.Comment {
	var cs []comments.Comment
	dense := r.Intn(3) == 0
	k := r.Intn(4)
	if dense {
		k = 2 + r.Intn(5)
	}
	for ; k > 0; k-- {
		m := c07Spelling(r, name, str, tags)
		if dense && r.Intn(5) < 3 {
			hits := []string{name, str}
			for _, t := range tags {
				hits = append(hits, name+"(+"+t+")")
			}
			m = pick(r, hits)
		}
		switch r.Intn(5) {
		case 0, 1:
			cs = append(cs, comments.Comment{Type: comments.DisableType, Value: comments.Disable{Match: m}})
		case 2:
			cs = append(cs, comments.Comment{Type: comments.SnoozeType, Value: comments.Snooze{Match: m, Until: now.Add(time.Duration(1+r.Intn(1000)) * time.Hour)}})
		case 3:
			cs = append(cs, comments.Comment{Type: comments.SnoozeType, Value: comments.Snooze{Match: m, Until: now.Add(-time.Duration(1+r.Intn(1000)) * time.Hour)}})
		default:
			cs = append(cs, comments.Comment{Type: comments.RuleSetType, Value: comments.RuleSet{Value: m}})
		}
	}
	return cs
}

// c07Shape classifies a comment sequence by what the enable decision has to get right on it
func c07Shape(cs []comments.Comment, now time.Time, tgt config.VerifPR) string {
	hit := func(m string) bool {
		if m == tgt.Name || m == tgt.Check.Str {
			return true
		}
		for _, t := range tgt.Tags {
			if m == tgt.Name+"(+"+t+")" {
				return true
			}
		}
		return false
	}
	firstLiveHit, firstExpired, firstMissSnooze, firstDisableHit, firstMissDisable := -1, -1, -1, -1, -1
	nsn := 0
	for i, c := range cs {
		switch v := c.Value.(type) {
		case comments.Snooze:
			nsn++
			live := v.Until.After(now)
			switch {
			case live && hit(v.Match) && firstLiveHit < 0:
				firstLiveHit = i
			case !live && firstExpired < 0:
				firstExpired = i
			case live && !hit(v.Match) && firstMissSnooze < 0:
				firstMissSnooze = i
			}
		case comments.Disable:
			if hit(v.Match) && firstDisableHit < 0 {
				firstDisableHit = i
			}
			if !hit(v.Match) && firstMissDisable < 0 {
				firstMissDisable = i
			}
		}
	}
	switch {
	case firstDisableHit < 0 && firstLiveHit >= 0 && firstExpired >= 0 && firstExpired < firstLiveHit:
		return "only-a-live-snooze-hit-after-an-expired-snooze"
	case firstDisableHit < 0 && firstLiveHit >= 0 && firstMissSnooze >= 0 && firstMissSnooze < firstLiveHit:
		return "only-a-live-snooze-hit-after-a-live-miss"
	case firstDisableHit < 0 && firstLiveHit >= 0:
		return "only-a-live-snooze-hit"
	case firstDisableHit >= 0 && firstMissDisable >= 0 && firstMissDisable < firstDisableHit:
		return "disable-hit-after-a-disable-miss"
	case firstDisableHit >= 0:
		return "disable-hit"
	case nsn >= 2:
		return "no-hit-several-snoozes"
	case len(cs) == 0:
		return "no-comments"
	default:
		return "no-hit"
	}
}

func c07SubTags(r *rand.Rand) []string {
	var t []string
	for _, x := range c07Tags {
		if r.Intn(3) == 0 {
			t = append(t, x)
		}
	}
	return t
}

func c07Check(r *rand.Rand, name string) config.VerifCheck {
	str := name
	if r.Intn(2) == 0 {
		str = name + "(" + pick(r, []string{"team:true", "prom", "x"}) + ")"
	}
	states := []discovery.ChangeType{discovery.Noop, discovery.Added, discovery.Modified, discovery.Moved}
	if r.Intn(6) == 0 {
		states = []discovery.ChangeType{discovery.Removed}
	}
	return config.VerifCheck{Str: str, Rep: name, Always: r.Intn(8) == 0, States: states}
}

func c07CoqCheck(c config.VerifCheck) string {
	st := make([]string, len(c.States))
	for i, s := range c.States {
		st[i] = coqN(int(s))
	}
	return fmt.Sprintf("{| ck_string := %s; ck_always := %s; ck_states := %s |}", scStr(c.Str), coqBool(c.Always), coqList(st))
}

func c07StrList(ss []string) string { return scStrList(ss) }

func c07NameList(r *rand.Rand, p int) []string {
	var l []string
	for _, n := range c07Names {
		if r.Intn(p) == 0 {
			x := n
			switch r.Intn(6) {
			case 0:
				x = n + "(+" + pick(r, c07Tags) + ")"
			case 1:
				x = n + "(team:true)"
			}
			l = append(l, x)
		}
	}
	return l
}

func runC07(args []string) int {
	seed := seedFromEnv()
	r := rand.New(rand.NewSource(seed))
	n := argInt(args, "--n", 300)
	norac := argInt(args, "--oracle", 30)
	rep := newReport("C07", seed)
	rep.Rule = "parse case: non-trivial when the text contains '#'; enable case: non-trivial when at least one rule/file comment or " +
		"disabled/enabled list entry is present; file case: non-trivial when a file-level comment is present; oracle case: non-trivial " +
		"when the base report has >= 1 problem and the inserted comment targets a reporter present for that rule"
	wd, _ := os.Getwd()
	cw := newCaseWriter(wd, "Run.C07", 300)
	cw.preamble = scPreamble
	id := 0
	now := time.Now()
	nowZ := scTimeZ(now)

	addParse := func(kind string, lineno int, text string) {
		obs := comments.Parse(lineno, text)
		cw.add(fmt.Sprintf("KParse %s %s %s %s %s", coqN(id), coqN(lineno), scStr(text), scTimeTable(text), scComments(obs)))
		rep.hist("parse:" + kind)
		rep.count("parse:"+text, strings.Contains(text, "#"))
		if id < 3000 {
			var oj []map[string]any
			for _, c := range obs {
				oj = append(oj, scJSON(c))
			}
			rep.Cases[fmt.Sprint(id)] = map[string]any{"kind": "parse", "lineno": lineno, "text": text, "observed": oj}
		}
		if id%211 == 0 && len(obs) > 0 {
			rep.sample(map[string]any{"kind": "parse", "text": text, "observed": scJSON(obs[0])})
		}
		id++
	}
	// A1. grammar
	var alpha []string
	alpha = append(alpha, scIgnoreLines...)
	alpha = append(alpha, scCommentLines...)
	alpha = append(alpha, scInvalidLines...)
	alpha = append(alpha, scNearMisses...)
	alpha = append(alpha, scNonASCII...)
	// values whose parts are separated by more than one blank (SplitN(" ", 2) keeps the rest verbatim, TrimSpace only trims the ends)
	alpha = append(alpha, "# pint snooze 2099-01-01  promql/series", "# pint file/snooze 2099-01-01   promql/rate", "# pint snooze 2099-01-01 \talerts/for",
		"# pint snooze 2099-01-01  a  b", "# pint disable  promql/series", "# pint rule/set  promql/series  min-age 1d", "# pint file/owner  bob  ", "# pint snooze 2000-01-01  x")
	for _, f := range c07CorpusLines() {
		addParse("corpus", 1, f)
	}
	for _, a := range alpha {
		addParse("alphabet", 1+r.Intn(50), a)
		addParse("prefixed", 1+r.Intn(50), pick(r, []string{"foo: bar ", "  - alert: X  ", "\t", "{{ x }} ", "é ", "a#b ", "# ", "# pint ", "#pint", "# pint x "})+a)
		addParse("suffixed", 1+r.Intn(50), a+pick(r, []string{" ", "  # trailing", " # pint disable x", "\t", "\r", "\xc2\xa0", " é"}))
	}
	for i := 0; i < n; i++ {
		switch r.Intn(3) {
		case 0:
			addParse("mutated", 1+r.Intn(50), scMutate(r, pick(r, alpha)))
		case 1:
			k := 2 + r.Intn(3)
			var ls []string
			for j := 0; j < k; j++ {
				ls = append(ls, pick(r, alpha))
			}
			addParse("multiline", 1+r.Intn(50), strings.Join(ls, "\n"))
		default:
			// generated valid forms with random names/values and spacing
			sp := func() string { return pick(r, []string{" ", "  ", "\t", " \t "}) }
			name := c07Spelling(r, pick(r, c07Names), pick(r, c07Names)+"(x)", nil)
			stamp := pick(r, []string{"2099-01-01", "2000-01-01", "2099-11-28T10:24:18Z", "2030-02-30", "2099-01-01T00:00:00+01:00", "tomorrow", "2099-1-1"})
			form := pick(r, []string{"disable " + name, "file/disable " + name, "snooze " + stamp + " " + name, "file/snooze " + stamp + " " + name,
				"rule/owner " + name, "file/owner " + name, "rule/set " + name + " min-age 1d", "snooze " + stamp + sp() + name, "snooze " + stamp})
			form = strings.Replace(form, " ", sp(), 1)
			addParse("generated", 1+r.Intn(50), pick(r, []string{"", "  ", "expr: up ", "x: y  "})+"#"+pick(r, []string{"", " ", "  ", "\t"})+"pint"+sp()+form+pick(r, []string{"", " ", "\t", "  "}))
		}
	}

	// A2. enable decision
	for i := 0; i < n; i++ {
		npr := 1 + r.Intn(5)
		var prs []config.VerifPR
		for k := 0; k < npr; k++ {
			name := pick(r, c07Names)
			ck := c07Check(r, name)
			if k > 0 && r.Intn(4) == 0 { // duplicate String() (possibly with another locked flag): "already enabled" de-duplication
				ck = prs[r.Intn(k)].Check
				name = ck.Rep
			}
			prs = append(prs, config.VerifPR{Name: name, Check: ck, Tags: c07SubTags(r), Locked: r.Intn(4) == 0, MatchOK: r.Intn(6) > 0})
		}
		tgt := prs[r.Intn(len(prs))]
		cs := c07RuleComments(r, now, tgt.Name, tgt.Check.Str, tgt.Tags)
		var fileDis []string
		if r.Intn(3) == 0 {
			fileDis = append(fileDis, c07Spelling(r, tgt.Name, tgt.Check.Str, tgt.Tags))
		}
		if r.Intn(5) == 0 {
			fileDis = append(fileDis, c07NameList(r, 3)...)
		}
		var en, dis []string
		if r.Intn(4) == 0 {
			en = c07NameList(r, 2)
		}
		if r.Intn(3) == 0 {
			dis = c07NameList(r, 3)
			if r.Intn(2) == 0 {
				dis = append(dis, c07Spelling(r, tgt.Name, tgt.Check.Str, tgt.Tags))
			}
		}
		var cfg []config.VerifCfgRule
		for k := r.Intn(3); k > 0; k-- {
			c := config.VerifCfgRule{MatchOK: r.Intn(4) > 0}
			if r.Intn(2) == 0 {
				c.Disable = c07NameList(r, 4)
			}
			if r.Intn(2) == 0 {
				c.Enable = c07NameList(r, 3)
			}
			cfg = append(cfg, c)
		}
		state := pick(r, []discovery.ChangeType{discovery.Noop, discovery.Added, discovery.Modified, discovery.Removed, discovery.Moved, discovery.Unknown})
		rule := parser.Rule{Comments: cs}
		e := discovery.Entry{Rule: rule, DisabledChecks: fileDis, State: state, Path: discovery.Path{Name: "rules.yml", SymlinkTarget: "rules.yml"}}
		nontriv := len(cs)+len(fileDis)+len(en)+len(dis) > 0
		rep.hist("enable:shape:" + c07Shape(cs, now, tgt))
		switch r.Intn(4) {
		case 0:
			obs := config.VerifIsDisabledForRule(rule, tgt.Name, tgt.Check, tgt.Tags)
			cw.add(fmt.Sprintf("KDisabled %s %s %s %s %s %s %s", coqN(id), nowZ, c07Comments(cs), scStr(tgt.Name), scStr(tgt.Check.Str), c07StrList(tgt.Tags), coqBool(obs)))
			rep.hist("enable:isDisabledForRule")
			rep.hist(fmt.Sprintf("enable:isDisabledForRule=%v", obs))
		case 1:
			obs := config.VerifIsEnabled(en, fileDis, rule, tgt.Name, tgt.Check, tgt.Tags, tgt.Locked)
			cw.add(fmt.Sprintf("KIsEnabled %s %s %s %s %s %s %s %s %s %s", coqN(id), nowZ, c07StrList(en), c07StrList(fileDis), c07Comments(cs),
				scStr(tgt.Name), c07CoqCheck(tgt.Check), c07StrList(tgt.Tags), coqBool(tgt.Locked), coqBool(obs)))
			rep.hist("enable:isEnabled")
			rep.hist(fmt.Sprintf("enable:isEnabled=%v", obs))
		default:
			obs := config.VerifGetChecks(en, dis, prs, cfg, e)
			var cprs, ccfg, cobs []string
			for _, p := range prs {
				cprs = append(cprs, fmt.Sprintf("{| pr_name := %s; pr_check := %s; pr_tags := %s; pr_locked := %s; pr_match := %s |}",
					scStr(p.Name), c07CoqCheck(p.Check), c07StrList(p.Tags), coqBool(p.Locked), coqBool(p.MatchOK)))
			}
			for _, c := range cfg {
				ccfg = append(ccfg, fmt.Sprintf("{| cr_match := %s; cr_disable := %s; cr_enable := %s |}", coqBool(c.MatchOK), c07StrList(c.Disable), c07StrList(c.Enable)))
			}
			for _, o := range obs {
				cobs = append(cobs, coqN(o))
			}
			cw.add(fmt.Sprintf("KSelect %s %s %s %s {| e_comments := %s; e_disabled := %s; e_state := %s |} %s %s %s", coqN(id), nowZ, c07StrList(en), c07StrList(dis),
				c07Comments(cs), c07StrList(fileDis), coqN(int(state)), coqList(ccfg), coqList(cprs), coqList(cobs)))
			rep.hist("enable:select")
			rep.hist(fmt.Sprintf("enable:select-%d-of-%d", len(obs), len(prs)))
			if i%97 == 0 {
				rep.sample(map[string]any{"kind": "select", "parsed_rules": prs, "enabled": en, "disabled": dis, "file_disabled": fileDis, "selected": obs})
			}
		}
		rep.count(fmt.Sprintf("enable:%d", id), nontriv)
		id++
	}

	// A3. readRules: DisabledChecks of the entries of a file
	for i := 0; i < n/3+5; i++ {
		var ls []string
		nfc := 0
		// dense stratum: 2-5 file-level comments drawn over a pool of TWO match strings (file/disable, live and expired
		// file/snooze mixed in every order), so that several comments target the same check with mixed kinds and expiry
		dense := r.Intn(2) == 0
		pool := []string{pick(r, c07Names), pick(r, c07Names) + "(x)"}
		fc := func() {
			name := c07Spelling(r, pick(r, c07Names), pick(r, c07Names)+"(x)", nil)
			if dense && r.Intn(10) < 7 {
				name = pick(r, pool)
			}
			ls = append(ls, pick(r, []string{"# pint file/disable " + name, "# pint file/snooze 2099-01-01 " + name, "# pint file/snooze 2000-01-01 " + name,
				"# pint file/snooze 2099-11-28T10:24:18Z " + name, "# pint file/disable promql/series", "# pint file/owner bob", "# pint file/disable",
				"  # pint file/disable " + name + "  "}))
			nfc++
		}
		k0 := r.Intn(3)
		if dense {
			k0 = 2 + r.Intn(4)
		}
		for k := k0; k > 0; k-- {
			fc()
		}
		ls = append(ls, "groups:", "- name: g", "  rules:")
		nr := 1 + r.Intn(3)
		for k := 0; k < nr; k++ {
			ls = append(ls, fmt.Sprintf("  - record: job:r%d:sum", k), "    expr: sum(up)")
			if r.Intn(3) == 0 {
				fc()
			}
			if r.Intn(6) == 0 {
				ls = append(ls, "# pint ignore/begin")
				fc()
				ls = append(ls, "# pint ignore/end")
			}
		}
		if dense {
			for k := r.Intn(3); k > 0; k-- { // ... also after the rules
				fc()
			}
			rep.hist("file:dense-file-level-comments")
		}
		content := strings.Join(ls, "\n") + "\n"
		dis, _ := discovery.VerifReadRules(content, true)
		var cobs []string
		for _, d := range dis {
			cobs = append(cobs, c07StrList(d))
		}
		cw.add(fmt.Sprintf("KFile %s %s %s %s %s", coqN(id), nowZ, scStr(content), scTimeTable(content), coqList(cobs)))
		rep.hist("file:readRules")
		rep.count("file:"+content, nfc > 0)
		if id < 3000 {
			rep.Cases[fmt.Sprint(id)] = map[string]any{"kind": "file", "content": content, "disabled_checks_per_entry": dis}
		}
		id++
	}
	// A4. attachment: real parseRule on generated files with comments sprinkled at every kind of position
	rcomments := []string{"# pint disable promql/series", "# pint snooze 2099-01-01 alerts/for", "# pint rule/owner bob", "# pint rule/set promql/series min-age 1d",
		"# pint file/disable promql/rate", "# pint file/owner bob", "# plain comment", "# pint disable", "# pint disable alerts/template(+t1)", "#pint disable x",
		"# pint snooze 2000-01-01 promql/rate", "# pint bamboozle", "# pint ignore/line", "# pint disable a # pint disable b"}
	for i := 0; i < n/2+10; i++ {
		f := c07GenFile(r)
		lines := append([]string{}, f.Lines...)
		k := r.Intn(5)
		for ; k > 0; k-- {
			c := pick(r, rcomments)
			pos := r.Intn(len(lines) + 1)
			switch r.Intn(3) {
			case 0: // own line, random indentation
				ins := strings.Repeat(" ", 2*r.Intn(4)) + c
				lines = append(lines[:pos], append([]string{ins}, lines[pos:]...)...)
			case 1: // trailing
				if pos < len(lines) && lines[pos] != "" {
					lines[pos] = lines[pos] + " " + c
				}
			default: // a block of two comment lines, possibly after a blank line
				ind := strings.Repeat(" ", 2*r.Intn(4))
				blk := []string{ind + c, ind + pick(r, rcomments)}
				if r.Intn(3) == 0 {
					blk = append([]string{""}, blk...)
				}
				lines = append(lines[:pos], append(blk, lines[pos:]...)...)
			}
		}
		// trailing comment on a flow-style rule line: the mapping node's OWN line comment (hoisted onto its first key by
		// parseRule unless that key already has one); with and without a comment line above (the node's own head comment)
		for li, l := range lines {
			if strings.HasPrefix(l, "  - {") && !strings.Contains(l, "#") && r.Intn(2) == 0 {
				lines[li] = l + " " + pick(r, rcomments)
			}
		}
		// comment right after the dash of a sequence item (candidate for the mapping node's own line/head comment)
		if r.Intn(4) == 0 {
			for li, l := range lines {
				if (strings.HasPrefix(l, "  - alert: ") || strings.HasPrefix(l, "  - record: ")) && r.Intn(2) == 0 {
					lines[li] = "  - " + pick(r, rcomments) + "\n    " + strings.TrimPrefix(l, "  - ")
				}
			}
			lines = strings.Split(strings.Join(lines, "\n"), "\n")
		}
		content := strings.Join(lines, "\n") + "\n"
		for _, ac := range parser.VerifAttach(content) {
			if ac.Node.Line != "" {
				rep.hist("attach:mapping-node-has-line-comment")
			}
			if ac.Node.Head != "" {
				rep.hist("attach:mapping-node-has-head-comment")
			}
			if ac.Node.Foot != "" {
				rep.hist("attach:mapping-node-has-foot-comment")
			}
			cw.add(fmt.Sprintf("KAttach %s %s %s %s", coqN(id), c07YNode(ac.Node), scTimeTable(content), scComments(ac.Comments)))
			rep.hist("attach:rule")
			rep.hist(fmt.Sprintf("attach:rule-with-%d-comments", len(ac.Comments)))
			rep.count(fmt.Sprintf("attach:%d:%s", id, content), strings.Contains(content, "# pint"))
			if id < 4000 {
				var oj []map[string]any
				for _, c := range ac.Comments {
					oj = append(oj, scJSON(c))
				}
				rep.Cases[fmt.Sprint(id)] = map[string]any{"kind": "attach", "content": content, "rule_line": ac.Node.NLine, "observed": oj}
			}
			id++
		}
	}
	cw.flush()
	rep.CaseFiles = cw.files

	c07Oracle(r, rep, norac)

	rep.write("report.json")
	return 0
}

func c07YNode(n parser.VerifYNode) string {
	var cs []string
	for _, c := range n.Content {
		cs = append(cs, c07YNode(c))
	}
	return fmt.Sprintf("(YNode %s %s %s %s %s)", scStr(n.Head), scStr(n.Line), scStr(n.Foot), coqNat(n.NLine), coqList(cs))
}

func c07CorpusLines() []string {
	root := os.Getenv("VERIF_ROOT")
	if root == "" {
		root = "/verif"
	}
	b, err := os.ReadFile(root + "/corpus/C07/lines.txt")
	if err != nil {
		return nil
	}
	var out []string
	for _, l := range strings.Split(string(b), "\n") {
		if l != "" {
			out = append(out, l)
		}
	}
	return out
}
