//go:build verif

package main

// Phase B of C07: the property as written on the real pint binary.
// For a generated rule file with >= 1 reported problem and every (rule, reporter) pair present in the report, insert ONE comment
// (disable / live snooze / expired snooze / file/disable / file/snooze, at the placements the property lists) and compare the
// JSON reports before/after: after == before minus exactly the targeted slice, modulo the inserted line.

import (
	"encoding/json"
	"fmt"
	"math/rand"
	"os"
	"path/filepath"
	"sort"
	"strings"
)

const c07Config = `parser {
  relaxed = ["relaxed.*"]
}
rule {
  enable = ["alerts/comparison", "promql/regexp", "alerts/for"]
}
rule {
  label "owner" {
    required = true
    severity = "warning"
  }
}
rule {
  locked = true
  label "team" {
    required = true
    severity = "bug"
  }
}
rule {
  locked = true
  match { kind = "alerting" }
  for {
    min = "10m"
    severity = "info"
  }
  keep_firing_for {
    min = "2m"
    severity = "info"
  }
}
rule {
  locked = true
  aggregate ".+" {
    keep = ["job"]
    severity = "info"
  }
  name "job:.+" {
    severity = "info"
  }
  reject "b" {
    label_values = true
    severity = "info"
  }
}
rule {
  match { kind = "alerting" }
  annotation "summary" {
    required = true
    severity = "bug"
  }
}
rule {
  match { kind = "alerting" }
  locked = true
  annotation "runbook" {
    required = true
    severity = "info"
  }
}
`

type c07Rule struct {
	First, Last int   // 1-based line range in the base file
	FieldLines  []int // lines after which a comment line may be inserted inside the rule (between fields)
	PlainLines  []int // lines that can take a trailing comment
}

type c07BaseFile struct {
	Lines []string
	Rules []c07Rule
}

func c07GenFile(r *rand.Rand) c07BaseFile {
	var f c07BaseFile
	add := func(l string) int { f.Lines = append(f.Lines, l); return len(f.Lines) }
	if r.Intn(4) == 0 {
		add("# pint file/owner bob")
	}
	add("groups:")
	add("- name: g0")
	add("  rules:")
	nr := 1 + r.Intn(3)
	// control comments a rule may already carry (the inserted one lands somewhere among them: c1 ++ [d] ++ c2); the
	// expired snoozes name reporters that do fire on these files, so a later live snooze / disable of the same reporter
	// has to be honoured after them
	pre := []string{"# pint disable promql/regexp", "# pint rule/set promql/series min-age 1d", "# pint snooze 2000-01-01 alerts/comparison",
		"# pint disable promql/fragile", "# pint rule/owner alice", "# pint snooze 2000-01-01 rule/label", "# pint snooze 2001-11-28T10:24:18Z alerts/annotation",
		"# pint snooze 2000-01-01 promql/regexp", "# pint snooze 2000-01-01 alerts/for", "# pint snooze 2000-01-01 rule/label(owner:true)",
		"# pint disable nosuch/check", "# pint snooze 2099-01-01 nosuch/check"}
	for i := 0; i < nr; i++ {
		var ru c07Rule
		alert := r.Intn(3) > 0
		var ln int
		// comment line(s) directly above the rule: plain text or control comments (they become the head comment of the
		// rule's mapping node / first key)
		switch r.Intn(6) {
		case 0:
			add("  # " + pick(r, []string{"note", "legacy rule, see wiki", "pint is great"}))
		case 1:
			add("  " + pick(r, pre))
		case 2:
			add("  " + pick(r, pre))
			add("  " + pick(r, pre))
		}
		if r.Intn(4) == 0 {
			// flow-style rule: the whole mapping on one line; a trailing comment there is the mapping node's own line comment
			fields := []string{}
			if alert {
				fields = append(fields, fmt.Sprintf("alert: Alert%d", i), "expr: '"+pick(r, []string{"up", "foo{job=~\"bar\"}", "sum(rate(errors_total[5m])) > 0.5", "up == 0"})+"'")
				if r.Intn(2) == 0 {
					fields = append(fields, "for: "+pick(r, []string{"5m", "0m"}))
				}
				if r.Intn(2) == 0 {
					fields = append(fields, "labels: {"+pick(r, []string{"team: a", "owner: b"})+"}")
				}
				if r.Intn(2) == 0 {
					fields = append(fields, "annotations: {"+pick(r, []string{"summary: plain", "runbook: 'http://x'"})+"}")
				}
			} else {
				fields = append(fields, fmt.Sprintf("record: 'job:rec%d:sum'", i), "expr: '"+pick(r, []string{"sum(up)", "foo{job=~\"bar\"}", "count(up == 0)"})+"'")
				if r.Intn(2) == 0 {
					fields = append(fields, "labels: {team: a}")
				}
			}
			ln = add("  - {" + strings.Join(fields, ", ") + "}")
			ru.First, ru.Last = ln, ln
			ru.PlainLines = []int{ln}
			f.Rules = append(f.Rules, ru)
			if r.Intn(3) == 0 {
				add("")
			}
			continue
		}
		if alert {
			ln = add(fmt.Sprintf("  - alert: Alert%d", i))
		} else {
			ln = add(fmt.Sprintf("  - record: job:rec%d:sum", i))
		}
		ru.First = ln
		ru.PlainLines = append(ru.PlainLines, ln)
		ru.FieldLines = append(ru.FieldLines, ln)
		exprs := []string{"up", "foo{job=~\"bar\"}", "sum(rate(errors_total[5m])) > 0.5", "up == 0", "sum(foo) without(job) > 0", "rate(foo[5m])"}
		if !alert {
			exprs = []string{"sum(up)", "foo{job=~\"bar\"}", "sum(rate(errors_total[5m]))", "count(up == 0)"}
		}
		if r.Intn(4) == 0 { // a plain comment above a field: the key node then has a head comment of its own
			add("    # " + pick(r, []string{"note", "TODO check threshold", "pint is great"}))
		}
		ln = add("    expr: " + pick(r, exprs))
		ru.PlainLines = append(ru.PlainLines, ln)
		ru.FieldLines = append(ru.FieldLines, ln)
		if alert && r.Intn(2) == 0 {
			if r.Intn(4) == 0 {
				add("    # how long")
			}
			ln = add("    for: " + pick(r, []string{"5m", "0m", "1h"}))
			ru.PlainLines = append(ru.PlainLines, ln)
			ru.FieldLines = append(ru.FieldLines, ln)
		}
		if r.Intn(2) == 0 {
			ln = add("    labels:")
			ru.PlainLines = append(ru.PlainLines, ln)
			ru.FieldLines = append(ru.FieldLines, ln)
			ln = add("      " + pick(r, []string{"team: a", "owner: b", "severity: page"}))
			ru.PlainLines = append(ru.PlainLines, ln)
			ru.FieldLines = append(ru.FieldLines, ln)
		}
		if alert && r.Intn(2) == 0 {
			ln = add("    annotations:")
			ru.PlainLines = append(ru.PlainLines, ln)
			ru.FieldLines = append(ru.FieldLines, ln)
			ln = add("      " + pick(r, []string{"summary: plain", "runbook: http://x", "summary: '{{ $labels.job }} is down'", "description: d"}))
			ru.PlainLines = append(ru.PlainLines, ln)
			ru.FieldLines = append(ru.FieldLines, ln)
		}
		// the last field of a rule is not a "between fields" point: what follows it is a comment block AFTER the rule's
		// last field, whose attachment is yaml.v3's business (in a CRLF file yaml.v3 v3.0.1 hands every line but the
		// first of such a block to the document node: observed 2026-10-02, see notes/C07.md)
		ru.FieldLines = ru.FieldLines[:len(ru.FieldLines)-1]
		// pre-existing control comments after the last field
		for k := r.Intn(6) - 3; k > 0; k-- {
			add("    " + pick(r, pre))
		}
		ru.Last = len(f.Lines)
		f.Rules = append(f.Rules, ru)
		if r.Intn(3) == 0 {
			add("")
		}
	}
	// pre-existing FILE-level comments after the rules: expired file/snoozes of reporters that do fire (and comments for unknown
	// checks), so that an inserted file/disable or live file/snooze is followed / preceded by an expired one for the same match
	filePre := []string{"# pint file/snooze 2000-01-01 rule/label", "# pint file/snooze 2001-11-28T10:24:18Z alerts/annotation", "# pint file/snooze 2000-01-01 promql/regexp",
		"# pint file/snooze 2000-01-01 alerts/comparison", "# pint file/snooze 2000-01-01 alerts/for", "# pint file/snooze 2000-01-01 rule/label(owner:true)",
		"# pint file/disable nosuch/check", "# pint file/snooze 2099-01-01 nosuch/check"}
	for k := r.Intn(5) - 1; k > 0; k-- {
		add(pick(r, filePre))
	}
	return f
}

type c07Rep struct {
	Reporter string `json:"reporter"`
	Problem  string `json:"problem"`
	Details  string `json:"details"`
	Severity string `json:"severity"`
	Owner    string `json:"owner"`
	Lines    []int  `json:"lines"`
}

func c07RunPint(dir, content string) ([]c07Rep, string) {
	must(os.MkdirAll(dir, 0o755))
	writeFile(filepath.Join(dir, ".pint.hcl"), c07Config)
	writeFile(filepath.Join(dir, "rules.yml"), content)
	jp := filepath.Join(dir, "out.json")
	rc, _, se := runPint(dir, "--no-color", "--offline", "-c", ".pint.hcl", "--show-duplicates", "lint", "--min-severity", "info", "--json", jp, "rules.yml")
	b, err := os.ReadFile(jp)
	if err != nil {
		return nil, fmt.Sprintf("no json (rc=%d): %s", rc, lastN07(se, 300))
	}
	var reps []c07Rep
	if err := json.Unmarshal(b, &reps); err != nil {
		return nil, "bad json: " + err.Error()
	}
	return reps, ""
}

func lastN07(s string, n int) string {
	if len(s) > n {
		return s[len(s)-n:]
	}
	return s
}

func c07Key(rp c07Rep) string {
	b, _ := json.Marshal(rp)
	return string(b)
}

type c07FormPl struct {
	form string
	pl   int
}

// one random placement per form; all three placements per form for the fixed regression files
func c07FormPlacements(r *rand.Rand, forms []string, all bool) (out []c07FormPl) {
	for _, f := range forms {
		npl := 3
		if strings.HasPrefix(f, "file/") {
			npl = 4 // + inside text excluded by ignore comments
		}
		if all {
			for pl := 0; pl < npl; pl++ {
				out = append(out, c07FormPl{f, pl})
			}
		} else {
			out = append(out, c07FormPl{f, r.Intn(npl)})
		}
	}
	return out
}

func c07BlankOwner(key string) string {
	var rp c07Rep
	if json.Unmarshal([]byte(key), &rp) != nil {
		return key
	}
	rp.Owner = ""
	return c07Key(rp)
}

// problems of a locked config block (they must ignore rule-level comments); the JSON report does not carry the label
// name, the config gives the locked blocks severities no other block of the same reporter uses
func c07FromLocked(rp c07Rep) bool {
	// rule/for (for and keep_firing_for blocks), promql/aggregate, rule/name and rule/reject only come from locked blocks of c07Config
	switch rp.Reporter {
	case "rule/for", "promql/aggregate", "rule/name", "rule/reject":
		return true
	}
	return (rp.Reporter == "rule/label" && rp.Severity == "Bug") || (rp.Reporter == "alerts/annotation" && rp.Severity == "Information")
}

type c07Trial struct {
	ID        int      `json:"id"`
	CRLF      bool     `json:"crlf"`
	Base      string   `json:"base_file"`
	After     string   `json:"file_with_comment"`
	Comment   string   `json:"comment"`
	Form      string   `json:"form"`
	Placement string   `json:"placement"`
	Rule      int      `json:"rule_index"`
	Reporter  string   `json:"reporter"`
	Inserted  int      `json:"inserted_line"` // 0 = trailing comment, no new line
	Before    []string `json:"reports_before"`
	Expected  []string `json:"expected_after"`
	Got       []string `json:"got_after"`
	Err       string   `json:"error,omitempty"`
}

func c07Oracle(r *rand.Rand, rep *runReport, nfiles int) {
	if nfiles <= 0 {
		return
	}
	wd, _ := os.Getwd()
	base := filepath.Join(wd, "oracle")
	_ = os.RemoveAll(base)
	type fileRun struct {
		f      c07BaseFile
		reps   []c07Rep
		err    string
		crlf   bool // the file (before and after) uses CRLF line endings
		corpus bool // fixed regression file: every placement is tried for every form
	}
	files := make([]fileRun, nfiles)
	for i := range files {
		files[i].f = c07GenFile(r)
		files[i].crlf = r.Intn(4) == 0 // CRLF files at full strength (fix 670b316: the yaml decoder gets LF line endings)
	}
	// regression files (corpus/C07/crlf-attachment, seeds C07-3/C07-4 layouts): flow-style rule followed by a block rule, with and
	// without a comment above, CRLF and LF; an expired snooze ahead of the insertion points
	for k, crlf := range []bool{true, false} {
		if k >= nfiles {
			break
		}
		files[k].f = c07BaseFile{
			Lines: []string{"groups:", "- name: g0", "  rules:", "  # legacy one-liner", "  - {alert: Alert0, expr: up}", "  - alert: Alert1",
				"    # pint snooze 2000-01-01 alerts/comparison", "    expr: up", "    for: 5m", "    labels:", "      team: a", "# pint file/snooze 2000-01-01 rule/label"},
			Rules: []c07Rule{{First: 5, Last: 5, PlainLines: []int{5}}, {First: 6, Last: 11, FieldLines: []int{6, 8, 9, 10}, PlainLines: []int{6, 8, 9, 10, 11}}},
		}
		files[k].crlf = crlf
		files[k].corpus = true
	}
	parallel(nfiles, 16, func(i int) {
		content := strings.Join(files[i].f.Lines, "\n") + "\n"
		if files[i].crlf {
			content = strings.ReplaceAll(content, "\n", "\r\n")
		}
		files[i].reps, files[i].err = c07RunPint(filepath.Join(base, fmt.Sprintf("f%04d", i), "base"), content)
	})
	var trials []c07Trial
	for fi, fr := range files {
		if fr.err != "" || len(fr.reps) == 0 {
			rep.hist("oracle:file-without-problem")
			continue
		}
		rep.hist("oracle:file-with-problems")
		baseContent := strings.Join(fr.f.Lines, "\n") + "\n"
		if fr.crlf {
			rep.hist("oracle:file-crlf")
			baseContent = strings.ReplaceAll(baseContent, "\n", "\r\n")
		}
		// every (rule, reporter) pair present
		for ri, ru := range fr.f.Rules {
			seen := map[string]bool{}
			for _, rp := range fr.reps {
				if len(rp.Lines) == 0 || rp.Lines[0] < ru.First || rp.Lines[0] > ru.Last || seen[rp.Reporter] {
					continue
				}
				seen[rp.Reporter] = true
				// one trial per form, placement chosen at random per form (all placements covered across the run)
				forms := []string{"disable", "snooze-live", "snooze-expired", "file/disable", "file/snooze-live", "file/snooze-expired"}
				// the String() spelling of the UNLOCKED block of this reporter (known from c07Config)
				byString := map[string]string{"rule/label": "rule/label(owner:true)", "alerts/annotation": "alerts/annotation(summary:true)"}[rp.Reporter]
				if byString != "" {
					forms = append(forms, "disable-by-string", "file/disable-by-string", "disable-near-miss")
				}
				if len(seen) == 1 {
					// once per rule: comments that are no disable/snooze of a configured check (C07_untargeted_comment_selection):
					// other comment types and the partial promql/series(<selector>) forms must remove nothing
					forms = append(forms, "other-rule/set", "other-rule/owner", "other-partial-series", "file/owner-other")
				}
				for _, fp := range c07FormPlacements(r, forms, fr.corpus) {
					form := fp.form
					var text string
					switch form {
					case "other-rule/set":
						text = "# pint rule/set " + pick(r, []string{"promql/series min-age 3d", "promql/series ignore/label-value job", "promql/series(up) min-age 1d"})
					case "other-rule/owner":
						text = "# pint rule/owner carol"
					case "other-partial-series":
						text = pick(r, []string{"# pint disable promql/series(up)", "# pint snooze 2099-01-01 promql/series(up)", "# pint disable promql/series({job=\"a\"})", "# pint disable " + rp.Reporter + "(up)"})
					case "file/owner-other":
						text = "# pint file/owner carol"
					case "disable-by-string":
						text = "# pint disable " + byString
					case "file/disable-by-string":
						text = "# pint file/disable " + byString
					case "disable-near-miss":
						text = "# pint disable " + pick(r, []string{byString + "x", rp.Reporter + "(+nosuchtag)", rp.Reporter[:len(rp.Reporter)-1], strings.ToUpper(rp.Reporter)})
					case "disable":
						text = "# pint disable " + rp.Reporter
					case "snooze-live":
						text = "# pint snooze " + pick(r, []string{"2099-01-01", "2099-11-28T10:24:18Z"}) + " " + rp.Reporter
					case "snooze-expired":
						text = "# pint snooze " + pick(r, []string{"2000-01-01", "2001-11-28T10:24:18Z"}) + " " + rp.Reporter
					case "file/disable":
						text = "# pint file/disable " + rp.Reporter
					case "file/snooze-live":
						text = "# pint file/snooze 2099-01-01 " + rp.Reporter
					case "file/snooze-expired":
						text = "# pint file/snooze 2000-01-01 " + rp.Reporter
					}
					// spacing variants the grammar must accept
					switch r.Intn(5) {
					case 0:
						text = strings.Replace(text, "# pint ", "#pint  ", 1)
					case 1:
						text = text + pick(r, []string{" ", "\t", "  \t"})
					case 2:
						text = strings.Replace(text, "# pint ", "#\tpint\t", 1)
					}
					t := c07Trial{Base: baseContent, Comment: text, Form: form, Rule: ri, Reporter: rp.Reporter}
					lines := append([]string{}, fr.f.Lines...)
					fileLevel := strings.HasPrefix(form, "file/")
					unlockedOnly := func(b c07Rep) bool { // problems of the unlocked block of this reporter
						return b.Reporter == rp.Reporter && !c07FromLocked(b)
					}
					switch pl := fp.pl; {
					case fileLevel && pl == 0:
						t.Placement = "top-of-file"
						t.Inserted = 1
						lines = append([]string{text}, lines...)
					case fileLevel && pl == 1:
						t.Placement = "end-of-file"
						t.Inserted = len(lines) + 1
						lines = append(lines, text)
					case fileLevel && pl == 3:
						// on a line the reader blanks: between ignore/begin and ignore/end, or right after ignore/next-line. The
						// current reader still collects file-level comments there (C10 lists "control comments inside excluded text
						// are not inert" as its finding; C07's model and theorem follow the code: they count)
						t.Inserted = 0
						if r.Intn(2) == 0 {
							t.Placement = "end-of-file-inside-ignore-block"
							lines = append(lines, "# pint ignore/begin", text, "# pint ignore/end")
						} else {
							t.Placement = "end-of-file-after-ignore-next-line"
							lines = append(lines, "# pint ignore/next-line", text)
						}
					case pl == 0:
						t.Placement = "line-above-rule"
						t.Inserted = ru.First
						lines = append(lines[:ru.First-1], append([]string{"  " + text}, lines[ru.First-1:]...)...)
					case pl == 1 || len(ru.FieldLines) == 0:
						t.Placement = "trailing-on-rule-line"
						l := pick(r, ru.PlainLines)
						lines[l-1] = lines[l-1] + " " + text
					default:
						t.Placement = "between-fields"
						l := pick(r, ru.FieldLines)
						t.Inserted = l + 1
						ind := "    "
						if strings.HasPrefix(fr.f.Lines[l], "      ") {
							ind = "      "
						}
						lines = append(lines[:l], append([]string{ind + text}, lines[l:]...)...)
					}
					t.After = strings.Join(lines, "\n") + "\n"
					if fr.crlf {
						t.CRLF = true
						t.After = strings.ReplaceAll(t.After, "\n", "\r\n")
					}
					// expectation
					for _, b := range fr.reps {
						t.Before = append(t.Before, c07Key(b))
						inRule := len(b.Lines) > 0 && b.Lines[0] >= ru.First && b.Lines[0] <= ru.Last
						removed := false
						switch form {
						case "disable", "snooze-live":
							removed = b.Reporter == rp.Reporter && inRule && !c07FromLocked(b)
						case "file/disable", "file/snooze-live":
							removed = b.Reporter == rp.Reporter
						case "disable-by-string":
							removed = unlockedOnly(b) && inRule
						case "file/disable-by-string":
							removed = unlockedOnly(b)
						}
						if !removed {
							t.Expected = append(t.Expected, c07Key(b))
						}
					}
					if strings.Contains(form, "owner") { // the owner is no part of the problem: compared with the field blanked
						for k := range t.Expected {
							t.Expected[k] = c07BlankOwner(t.Expected[k])
						}
					}
					sort.Strings(t.Before)
					sort.Strings(t.Expected)
					t.ID = len(trials)
					_ = fi
					trials = append(trials, t)
				}
			}
		}
	}
	parallel(len(trials), 16, func(i int) {
		t := &trials[i]
		reps, err := c07RunPint(filepath.Join(base, fmt.Sprintf("t%05d", i)), t.After)
		if err != "" {
			t.Err = err
			return
		}
		for _, rp := range reps {
			// modulo the inserted line: drop it, shift what follows back
			if t.Inserted > 0 {
				var ls []int
				for _, l := range rp.Lines {
					switch {
					case l == t.Inserted:
					case l > t.Inserted:
						ls = append(ls, l-1)
					default:
						ls = append(ls, l)
					}
				}
				rp.Lines = ls
			}
			if strings.Contains(t.Form, "owner") {
				rp.Owner = ""
			}
			t.Got = append(t.Got, c07Key(rp))
		}
		sort.Strings(t.Got)
	})
	_ = os.RemoveAll(base)
	for i := range trials {
		t := trials[i]
		rep.hist("oracle:form-" + t.Form)
		rep.hist("oracle:placement-" + t.Placement)
		rep.count(fmt.Sprintf("oracle:%s\x00%s", t.Base, t.After), len(t.Before) > 0)
		if len(t.Expected) < len(t.Before) {
			rep.hist("oracle:expects-removal")
		} else {
			rep.hist("oracle:expects-no-change")
		}
		if t.Err != "" {
			rep.fail(fmt.Sprintf("oracle-%d", i), "C07: pint produced no report after inserting one comment: "+t.Err, t)
			continue
		}
		if strings.Join(t.Got, "\n") != strings.Join(t.Expected, "\n") {
			what := fmt.Sprintf("C07: inserting `%s` (%s, %s) did not remove exactly the targeted problems: expected %d reports, got %d",
				t.Comment, t.Form, t.Placement, len(t.Expected), len(t.Got))
			rep.fail(fmt.Sprintf("oracle-%d", i), what, t)
		} else if i%37 == 0 {
			rep.sample(map[string]any{"comment": t.Comment, "placement": t.Placement, "before": len(t.Before), "after": len(t.Got)})
		}
	}
}
