//go:build verif

package parser

import (
	"errors"
	"io"
	"strings"

	"gopkg.in/yaml.v3"

	"github.com/cloudflare/pint/internal/comments"
)

// VerifYNode is what parseRule/mergeComments read of a yaml.Node as far as comments are concerned.
type VerifYNode struct {
	Head, Line, Foot string
	NLine            int
	Content          []VerifYNode
	HasAlias         bool
}

func verifSnap(n *yaml.Node) VerifYNode {
	v := VerifYNode{Head: n.HeadComment, Line: n.LineComment, Foot: n.FootComment, NLine: n.Line}
	if n.Alias != nil || (n.ShortTag() == mergeTag && n.Value == "<<") {
		v.HasAlias = true
	}
	for _, c := range n.Content {
		s := verifSnap(c)
		if s.HasAlias {
			v.HasAlias = true
		}
		v.Content = append(v.Content, s)
	}
	return v
}

type VerifAttachCase struct {
	Node     VerifYNode // snapshot taken BEFORE parseRule (which moves comments between nodes)
	Comments []comments.Comment
}

// VerifAttach decodes the content the way Parser.Parse does (masking reader + yaml.v3) and runs the real parseRule on
// every mapping node that is an item of a sequence; returns the node snapshot and rule.Comments for every valid rule.
func VerifAttach(content string) (out []VerifAttachCase) {
	cr := newContentReader(strings.NewReader(content))
	dec := yaml.NewDecoder(cr)
	for {
		var doc yaml.Node
		err := dec.Decode(&doc)
		if errors.Is(err, io.EOF) || err != nil {
			break
		}
		var walk func(n *yaml.Node)
		walk = func(n *yaml.Node) {
			if n.Kind == yaml.SequenceNode {
				for _, item := range n.Content {
					if item.Kind == yaml.MappingNode {
						snap := verifSnap(item)
						rule, isEmpty := parseRule(item, 0, 0, cr.lines)
						if !isEmpty && rule.Error.Err == nil && !snap.HasAlias {
							out = append(out, VerifAttachCase{Node: snap, Comments: rule.Comments})
							continue
						}
					}
					walk(item)
				}
				return
			}
			for _, c := range n.Content {
				walk(c)
			}
		}
		walk(&doc)
	}
	return out
}
