//go:build verif

package discovery

import (
	"strings"

	"github.com/prometheus/common/model"

	"github.com/cloudflare/pint/internal/parser"
)

// VerifReadRules runs readRules on the content and returns, per entry that carries a rule, its DisabledChecks.
func VerifReadRules(content string, strict bool) (disabled [][]string, total int) {
	p := parser.NewParser(strict, parser.PrometheusSchema, model.UTF8Validation)
	entries, _ := readRules("rules.yml", "rules.yml", strings.NewReader(content), p, nil)
	for _, e := range entries {
		total++
		if e.PathError != nil {
			continue
		}
		d := e.DisabledChecks
		if d == nil {
			d = []string{}
		}
		disabled = append(disabled, d)
	}
	return disabled, total
}
