//go:build verif

package config

import (
	"context"

	"github.com/cloudflare/pint/internal/checks"
	"github.com/cloudflare/pint/internal/discovery"
	"github.com/cloudflare/pint/internal/parser"
)

// VerifCheck is a RuleChecker with freely chosen String()/Meta(); the enable decision reads nothing else.
type VerifCheck struct {
	Str    string
	Rep    string
	Always bool
	States []discovery.ChangeType
}

func (c VerifCheck) String() string   { return c.Str }
func (c VerifCheck) Reporter() string { return c.Rep }
func (c VerifCheck) Meta() checks.CheckMeta {
	return checks.CheckMeta{States: c.States, Online: false, AlwaysEnabled: c.Always}
}

func (c VerifCheck) Check(_ context.Context, _ discovery.Entry, _ []discovery.Entry) []checks.Problem {
	return nil
}

type VerifPR struct {
	Name    string
	Check   VerifCheck
	Tags    []string
	Locked  bool
	MatchOK bool
}

type VerifCfgRule struct {
	MatchOK bool
	Disable []string
	Enable  []string
}

const verifNoMatchPath = "never-matches-anything"

func verifMatch(ok bool) []Match {
	if ok {
		return nil
	}
	return []Match{{Path: verifNoMatchPath}}
}

// VerifGetChecks runs the selection loop of GetChecksForEntry (isMatch gate + parsedRule.isEnabled with the checks
// selected so far) over the given parsed rules and returns the indexes of the selected ones.
func VerifGetChecks(enabledChecks, disabledChecks []string, prs []VerifPR, cfg []VerifCfgRule, e discovery.Entry) []int {
	ctx := context.Background()
	var rules []Rule
	for _, c := range cfg {
		rules = append(rules, Rule{Match: verifMatch(c.MatchOK), Disable: c.Disable, Enable: c.Enable})
	}
	enabled := []checks.RuleChecker{}
	var out []int
	for i, p := range prs {
		pr := parsedRule{match: verifMatch(p.MatchOK), ignore: nil, name: p.Name, check: p.Check, tags: p.Tags, locked: p.Locked}
		if !isMatch(ctx, e, pr.ignore, pr.match) {
			continue
		}
		if pr.isEnabled(ctx, enabledChecks, disabledChecks, enabled, e, rules, pr.locked) {
			enabled = append(enabled, pr.check)
			out = append(out, i)
		}
	}
	return out
}

func VerifIsEnabled(enabledChecks, disabledChecks []string, rule parser.Rule, name string, check VerifCheck, tags []string, locked bool) bool {
	return isEnabled(enabledChecks, disabledChecks, rule, name, check, tags, locked)
}

func VerifIsDisabledForRule(rule parser.Rule, name string, check VerifCheck, tags []string) bool {
	return isDisabledForRule(rule, name, check, tags)
}
