//go:build verif

package discovery

import (
	"io"
	"regexp"

	"github.com/cloudflare/pint/internal/parser"
)

// Access to unexported identifiers of internal/discovery for the verification harness (overlay, tag verif).

type VerifMatched struct {
	Before      Entry
	After       Entry
	HasBefore   bool
	HasAfter    bool
	IsIdentical bool
	WasMoved    bool
}

func VerifMatchEntries(before, after []Entry) []VerifMatched {
	ml := matchEntries(before, after)
	out := make([]VerifMatched, 0, len(ml))
	for _, m := range ml {
		out = append(out, VerifMatched{Before: m.before, After: m.after, HasBefore: m.hasBefore, HasAfter: m.hasAfter,
			IsIdentical: m.isIdentical, WasMoved: m.wasMoved})
	}
	return out
}

func VerifReadRules(reportedPath, sourcePath string, r io.Reader, p parser.Parser, allowedOwners []*regexp.Regexp) ([]Entry, error) {
	return readRules(reportedPath, sourcePath, r, p, allowedOwners)
}

func VerifCommonLines(a, b []int) []int { return commonLines(a, b) }
