//go:build verif

package main

import (
	"fmt"
	"strings"
	"sync"

	"github.com/prometheus/common/model"

	"github.com/cloudflare/pint/internal/discovery"
	"github.com/cloudflare/pint/internal/parser"
)

// The parser sets a package-level variable of prometheus/common (model.NameValidationScheme); serialise its use.
var parseMu sync.Mutex

// parseEntries runs the real readRules (strict parser, Prometheus schema, UTF-8 names: pint ci's defaults).
func parseEntries(path, content string) []discovery.Entry {
	parseMu.Lock()
	defer parseMu.Unlock()
	p := parser.NewParser(true, parser.PrometheusSchema, model.UTF8Validation)
	es, err := discovery.VerifReadRules(path, path, strings.NewReader(content), p, nil)
	if err != nil {
		panic(err)
	}
	return es
}

// absEntry is the projection of discovery.Entry the Coq model works on (Model/GitBranch.v: entry).
type absEntry struct {
	UID      int      `json:"uid"`
	Path     string   `json:"path"`
	Target   string   `json:"target"`
	PErr     bool     `json:"path_error"`
	Kind     string   `json:"kind"` // KAlerting | KRecording | KInvalid
	Name     string   `json:"name"`
	CID      int      `json:"cid"`
	First    int      `json:"first"`
	Last     int      `json:"last"`
	RErr     bool     `json:"rule_error"`
	Disabled []string `json:"disabled"`
	Mod      []int    `json:"modified_lines"`
	State    string   `json:"state"`
}

func kindOf(e discovery.Entry) string {
	switch e.Rule.Type() {
	case parser.AlertingRuleType:
		return "KAlerting"
	case parser.RecordingRuleType:
		return "KRecording"
	}
	return "KInvalid"
}

var stateNames = map[discovery.ChangeType]string{discovery.Unknown: "Unknown", discovery.Noop: "Noop", discovery.Added: "Added",
	discovery.Modified: "Modified", discovery.Removed: "Removed", discovery.Moved: "Moved"}

// cidTable assigns IsIdentical classes with the real Rule.IsIdentical; reports whether the relation was an
// equivalence on the given rules (it must be, for the abstraction to be exact).
type cidTable struct {
	reps   []parser.Rule
	broken int
}

func (t *cidTable) cid(r parser.Rule) int {
	found := -1
	for i, q := range t.reps {
		ab, ba := r.IsIdentical(q), q.IsIdentical(r)
		if ab != ba {
			t.broken++
		}
		if ab && ba {
			if found < 0 {
				found = i
			} else {
				t.broken++ // identical to two distinct classes: not transitive
			}
		}
	}
	if found >= 0 {
		return found + 1
	}
	t.reps = append(t.reps, r)
	return len(t.reps)
}

func abstractEntry(e discovery.Entry, uid int, t *cidTable) absEntry {
	return absEntry{
		UID: uid, Path: e.Path.Name, Target: e.Path.SymlinkTarget, PErr: e.PathError != nil, Kind: kindOf(e), Name: e.Rule.Name(),
		CID: t.cid(e.Rule), First: e.Rule.Lines.First, Last: e.Rule.Lines.Last, RErr: e.Rule.Error.Err != nil,
		Disabled: append([]string{}, e.DisabledChecks...), Mod: append([]int{}, e.ModifiedLines...), State: stateNames[e.State],
	}
}

func coqIntListZ(xs []int) string {
	out := make([]string, len(xs))
	for i, x := range xs {
		out[i] = coqZ(int64(x))
	}
	return coqList(out)
}

func (a absEntry) coq() string {
	return fmt.Sprintf("(mkE %s %s %s %s %s %s %s %s %s %s %s %s %s)", coqN(a.UID), coqStr(a.Path), coqStr(a.Target), coqBool(a.PErr), a.Kind,
		coqStr(a.Name), coqN(a.CID), coqZ(int64(a.First)), coqZ(int64(a.Last)), coqBool(a.RErr), coqStrList(a.Disabled), coqIntListZ(a.Mod), a.State)
}

func absEntriesCoq(es []absEntry) string {
	out := make([]string, len(es))
	for i, e := range es {
		out[i] = e.coq()
	}
	return coqList(out)
}
