//go:build verif

package main

import (
	"strings"
)

// checkLogFaithful tests the named hypothesis of the C03 theorems on real git output: every entry of
// `git log --name-status` relates the trees of commit^ and commit as documented (A: absent -> present, D: present -> absent,
// M/T: present in both, R s d: s present -> absent, d absent -> present), every path whose blob differs is listed, each path is
// listed at most once per commit.  Returns human-readable violations (expected: none) and whether no rename of the log lands
// on a path that already has a change record (stratum only: since fix d9e7954 no theorem needs that guard).
func checkLogFaithful(dir, logText string) (violations []string, freshDst bool) {
	tree := func(rev string) map[string]string {
		out := map[string]string{}
		rc, so, _ := runCmd(dir, 60e9, gitEnv, "git", "ls-tree", "-r", "-z", rev)
		if rc != 0 {
			return out
		}
		for _, rec := range strings.Split(so, "\x00") {
			meta, path, ok := strings.Cut(rec, "\t")
			if !ok {
				continue
			}
			f := strings.Fields(meta)
			if len(f) == 3 {
				out[path] = f[2]
			}
		}
		return out
	}
	freshDst = true
	live := map[string]bool{} // paths that currently have a change record (model: get_change_by_path <> None)
	commit := ""
	var before, after map[string]string
	touched := map[string]bool{}
	flush := func() {
		if commit == "" {
			return
		}
		for p, b := range after {
			if before[p] != b && !touched[p] {
				violations = append(violations, "commit "+commit[:8]+": blob of "+p+" differs but the path is not listed")
			}
		}
		for p := range before {
			if _, ok := after[p]; !ok && !touched[p] {
				violations = append(violations, "commit "+commit[:8]+": "+p+" disappeared but is not listed")
			}
		}
	}
	for _, line := range strings.Split(logText, "\n") {
		parts := strings.Split(line, "\t")
		if len(parts) == 1 {
			if parts[0] != "" {
				flush()
				commit = parts[0]
				before, after = tree(commit+"^"), tree(commit)
				touched = map[string]bool{}
			}
			continue
		}
		st := parts[0][0]
		src, dst := gitUnquote(parts[1]), gitUnquote(parts[len(parts)-1])
		_, sb := before[src]
		_, sa := after[src]
		_, db := before[dst]
		_, da := after[dst]
		ok := true
		switch st {
		case 'A':
			ok = src == dst && !db && da
		case 'D':
			ok = src == dst && sb && !sa
		case 'M', 'T':
			ok = src == dst && sb && sa
		case 'R':
			ok = src != dst && sb && !sa && da && !db
		case 'C':
			// copy entries are outside log_faithful (A/D/M/T/R only): reported as such, not as a broken hypothesis
			violations = append(violations, "copy entry (outside log_faithful): "+line)
			ok = true
		default:
			ok = false
		}
		if !ok {
			violations = append(violations, "commit "+commit[:8]+": entry "+line+" does not relate the two trees as documented")
		}
		if touched[src] || touched[dst] {
			violations = append(violations, "commit "+commit[:8]+": path listed twice: "+line)
		}
		touched[src], touched[dst] = true, true
		if dst != src && live[dst] {
			freshDst = false
		}
		if dst != src {
			delete(live, src)
		}
		live[dst] = true
	}
	flush()
	return violations, freshDst
}

// gitUnquote undoes git's C-style path quoting (harness-side, independent of pint's unquotePath).
func gitUnquote(s string) string {
	if !strings.HasPrefix(s, `"`) {
		return s
	}
	var b []byte
	s = s[1 : len(s)-1]
	for i := 0; i < len(s); i++ {
		if s[i] != '\\' || i+1 >= len(s) {
			b = append(b, s[i])
			continue
		}
		i++
		switch s[i] {
		case 'n':
			b = append(b, '\n')
		case 't':
			b = append(b, '\t')
		case 'r':
			b = append(b, '\r')
		case 'a':
			b = append(b, 7)
		case 'b':
			b = append(b, 8)
		case 'f':
			b = append(b, 12)
		case 'v':
			b = append(b, 11)
		case '"', '\\':
			b = append(b, s[i])
		default:
			if s[i] >= '0' && s[i] <= '7' && i+2 < len(s)+0 {
				v := int(s[i]-'0')*64 + int(s[i+1]-'0')*8 + int(s[i+2]-'0')
				b = append(b, byte(v))
				i += 2
			} else {
				b = append(b, s[i])
			}
		}
	}
	return string(b)
}

