//go:build verif

package git

// Access to unexported identifiers of internal/git for the verification harness (overlay, tag verif).

func VerifTypeForPath(cmd CommandRunner, commit, fpath string) PathType {
	return getTypeForPath(cmd, commit, fpath)
}
