//go:build verif

package main

// Shared by C03 and C20: structured rule files (generator data model + renderer), the history generator and the
// scratch-repository driver.  The generator keeps its own rule-level truth (content keys), which is what the
// implementation-level oracles compare pint's output with.

import (
	"fmt"
	"math/rand"
	"sort"
	"strings"
)

type gRule struct {
	Kind   string      `json:"kind"` // "alert" | "record"
	Name   string      `json:"name"`
	Expr   string      `json:"expr"`
	For    string      `json:"for,omitempty"`
	Labels [][2]string `json:"labels,omitempty"`
	Annots [][2]string `json:"annotations,omitempty"`
	Ctl    []string    `json:"control_comments,omitempty"` // "disable promql/series" ... rendered as "# pint <x>" inside the rule
	// cosmetic, not part of the parsed content
	Blank int      `json:"blank,omitempty"`
	Plain []string `json:"plain_comments,omitempty"`
	Quote int      `json:"quote,omitempty"` // 0 plain, 1 "double", 2 'single'
	// a rule the parser rejects (no expr): Rule.Error is set, name is ""
	Broken bool `json:"broken,omitempty"`
	UID    int  `json:"uid"`
	// C20: what the expression refers to (the generator's reference graph)
	Refs      []string `json:"refs,omitempty"`       // recorded metrics selected by name
	AlertRefs []string `json:"alert_refs,omitempty"` // alerts selected through ALERTS/ALERTS_FOR_STATE{alertname="X"}
	NameRefs  []string `json:"name_refs,omitempty"`  // metrics selected with the {__name__="x"} spelling
}

// key = the parsed content the property talks about: kind, name, expression, labels, annotations, for, control comments.
func (r gRule) key() string {
	lab := make([]string, 0, len(r.Labels))
	for _, kv := range r.Labels {
		lab = append(lab, kv[0]+"="+kv[1])
	}
	sort.Strings(lab)
	ann := make([]string, 0, len(r.Annots))
	for _, kv := range r.Annots {
		ann = append(ann, kv[0]+"="+kv[1])
	}
	sort.Strings(ann)
	ctl := append([]string{}, r.Ctl...)
	sort.Strings(ctl)
	b := ""
	if r.Broken {
		b = "|broken"
	}
	return fmt.Sprintf("%s|%s|%s|for=%s|L%v|A%v|C%v%s", r.Kind, r.Name, r.Expr, r.For, lab, ann, ctl, b)
}

type gFile struct {
	Disables []string `json:"file_disables,omitempty"` // "# pint file/disable <x>", in file order
	Header   []string `json:"header,omitempty"`        // plain comments (cosmetic)
	Rules    []gRule  `json:"rules"`
	Raw      string   `json:"raw,omitempty"` // when set the file content is exactly this (broken yaml etc.)
	Trail    int      `json:"trail,omitempty"`
}

func (f gFile) clone() gFile {
	g := gFile{Raw: f.Raw, Trail: f.Trail}
	g.Disables = append([]string{}, f.Disables...)
	g.Header = append([]string{}, f.Header...)
	for _, r := range f.Rules {
		r2 := r
		r2.Labels = append([][2]string{}, r.Labels...)
		r2.Annots = append([][2]string{}, r.Annots...)
		r2.Ctl = append([]string{}, r.Ctl...)
		r2.Plain = append([]string{}, r.Plain...)
		g.Rules = append(g.Rules, r2)
	}
	return g
}

type ruleLoc struct {
	First int `json:"first"` // line of the "- alert:/record:" key
	Last  int `json:"last"`
	Expr  int `json:"expr"` // line of the expr key (0 when the rule has none)
}

func quoteExpr(e string, q int) string {
	if q == 0 && (strings.HasPrefix(e, "{") || strings.HasPrefix(e, "\"") || strings.HasPrefix(e, "[") || strings.Contains(e, ": ") || strings.Contains(e, " #")) {
		q = 2 // a plain scalar would not be valid yaml (flow mapping start, key separator, comment)
	}
	switch q {
	case 1:
		return `"` + strings.ReplaceAll(strings.ReplaceAll(e, `\`, `\\`), `"`, `\"`) + `"`
	case 2:
		return `'` + strings.ReplaceAll(e, `'`, `''`) + `'`
	}
	return e
}

// render returns the file text and the line range of every rule.
func (f gFile) render() (string, []ruleLoc) {
	if f.Raw != "" {
		return f.Raw, nil
	}
	var lines []string
	for _, d := range f.Disables {
		lines = append(lines, "# pint file/disable "+d)
	}
	for _, h := range f.Header {
		lines = append(lines, "# "+h)
	}
	lines = append(lines, "groups:", "- name: g")
	locs := make([]ruleLoc, 0, len(f.Rules))
	if len(f.Rules) == 0 {
		lines = append(lines, "  rules: []")
	} else {
		lines = append(lines, "  rules:")
	}
	for _, r := range f.Rules {
		for i := 0; i < r.Blank; i++ {
			lines = append(lines, "")
		}
		for _, p := range r.Plain {
			lines = append(lines, "  # "+p)
		}
		first := len(lines) + 1
		lines = append(lines, fmt.Sprintf("  - %s: %s", r.Kind, r.Name))
		for _, c := range r.Ctl {
			lines = append(lines, "    # pint "+c)
		}
		exprLine := 0
		if !r.Broken {
			lines = append(lines, "    expr: "+quoteExpr(r.Expr, r.Quote))
			exprLine = len(lines)
		}
		if r.For != "" && r.Kind == "alert" {
			lines = append(lines, "    for: "+r.For)
		}
		if len(r.Labels) > 0 {
			lines = append(lines, "    labels:")
			for _, kv := range r.Labels {
				lines = append(lines, fmt.Sprintf("      %s: %s", kv[0], kv[1]))
			}
		}
		if len(r.Annots) > 0 && r.Kind == "alert" {
			lines = append(lines, "    annotations:")
			for _, kv := range r.Annots {
				lines = append(lines, fmt.Sprintf("      %s: %s", kv[0], kv[1]))
			}
		}
		locs = append(locs, ruleLoc{First: first, Last: len(lines), Expr: exprLine})
	}
	for i := 0; i < f.Trail; i++ {
		lines = append(lines, "")
	}
	return strings.Join(lines, "\n") + "\n", locs
}

// ---------------------------------------------------------------------------------------------
// rule generator

var (
	gAlertNames  = []string{"Down", "HighLatency", "DiskFull", "Flapping"}
	gRecordNames = []string{"job:up:sum", "job:lat:avg", "inst:disk:max", "job:err:rate5m", "Down"} // "Down" is also an alert name
	gExprs       = []string{"up == 0", "up == 1", "sum(up) by (job)", "avg(lat) by (job) > 1", "max(disk) by (inst)",
		"rate(err[5m])", "job:up:sum < 1", "job:lat:avg > 2", "up{job=\"a\"} == 0", "count(inst:disk:max) > 3", "vector(1)"}
	gLabelKeys = []string{"team", "severity", "tier"}
	gLabelVals = []string{"a", "b", "core", "page"}
	gAnnKeys   = []string{"summary", "dashboard"}
	gFors      = []string{"", "", "5m", "10m"}
	// every rule-level control comment type: disable, snooze, rule/owner, rule/set (each documented form)
	gCtls = []string{"disable promql/series", "disable promql/rate", "disable alerts/for", "rule/owner bob", "rule/owner alice",
		"snooze 2099-01-01T00:00:00Z promql/series", "snooze 2099-06-01T00:00:00Z alerts/for",
		"rule/set promql/series min-age 3d", "rule/set promql/series min-age 1w", "rule/set promql/series ignore/label-value job",
		"rule/set promql/series ignore/label-value instance", "rule/set promql/regexp smelly_selector"}
	gDisables  = []string{"promql/series", "promql/rate", "alerts/template", "promql/regexp"}
	gPlain     = []string{"managed by team a", "TODO tidy", "see runbook"}
)

type gen struct {
	r   *rand.Rand
	uid int
}

func (g *gen) rule() gRule {
	r := g.r
	g.uid++
	ru := gRule{UID: g.uid}
	if r.Intn(2) == 0 {
		ru.Kind = "alert"
		ru.Name = pick(r, gAlertNames)
		ru.For = pick(r, gFors)
	} else {
		ru.Kind = "record"
		ru.Name = pick(r, gRecordNames)
	}
	ru.Expr = pick(r, gExprs)
	// one rule in three is "rich": several labels / annotations, so that removing or adding ONE entry of a map while others
	// remain (and deleting only the trailing lines of a rule) are common edits
	pl, pa := 4, 4
	if r.Intn(3) == 0 {
		pl, pa = 0, 0
	}
	for _, k := range gLabelKeys {
		if pl == 0 && r.Intn(4) > 0 || pl > 0 && r.Intn(pl) == 0 {
			ru.Labels = append(ru.Labels, [2]string{k, pick(r, gLabelVals)})
		}
	}
	if ru.Kind == "alert" {
		for _, k := range gAnnKeys {
			if pa == 0 && r.Intn(4) > 0 || pa > 0 && r.Intn(pa) == 0 {
				ru.Annots = append(ru.Annots, [2]string{k, pick(r, gLabelVals)})
			}
		}
	}
	if r.Intn(6) == 0 {
		ru.Ctl = append(ru.Ctl, pick(r, gCtls))
	}
	if r.Intn(5) == 0 {
		ru.Blank = 1 + r.Intn(2)
	}
	if r.Intn(6) == 0 {
		ru.Plain = append(ru.Plain, pick(r, gPlain))
	}
	if r.Intn(5) == 0 {
		ru.Quote = 1 + r.Intn(2)
	}
	return ru
}

func (g *gen) file(maxRules int) gFile {
	r := g.r
	f := gFile{}
	n := r.Intn(maxRules + 1)
	for i := 0; i < n; i++ {
		f.Rules = append(f.Rules, g.rule())
	}
	// duplicates of an existing rule (same content) and same-name variants: the adversarial zone of matchEntries
	if n > 0 && r.Intn(4) == 0 {
		d := f.Rules[r.Intn(n)]
		g.uid++
		d.UID = g.uid
		if r.Intn(2) == 0 {
			d.Expr = pick(r, gExprs)
		}
		f.Rules = append(f.Rules, d)
	}
	pd := 6
	if r.Intn(3) == 0 {
		pd = 2 // files with several file/disable comments: reorderings and replacements become possible
	}
	for _, d := range gDisables {
		if r.Intn(pd) == 0 {
			f.Disables = append(f.Disables, d)
		}
	}
	if r.Intn(5) == 0 {
		f.Header = append(f.Header, pick(r, gPlain))
	}
	return f
}

// mutateRule changes the parsed content of a rule (never its kind).
func (g *gen) mutateRule(ru *gRule) string {
	r := g.r
	// weights: expr 2, labels 3, for 1, annotations 2, control comment 3, name 1
	c := r.Intn(12)
	switch c {
	case 10, 11:
		c = 5
	case 7:
		c = 2
	case 8:
		c = 2
	case 9:
		c = 4
	}
	switch c {
	case 0, 1:
		old := ru.Expr
		for ru.Expr == old {
			ru.Expr = pick(r, gExprs)
		}
		return "expr"
	case 2:
		return g.mutateMap(&ru.Labels, gLabelKeys, "label")
	case 3:
		if ru.Kind == "alert" {
			old := ru.For
			for ru.For == old {
				ru.For = pick(r, gFors)
			}
			return "for"
		}
		old := ru.Expr
		for ru.Expr == old {
			ru.Expr = pick(r, gExprs)
		}
		return "expr"
	case 4:
		if ru.Kind == "alert" {
			return g.mutateMap(&ru.Annots, gAnnKeys, "annotation")
		}
		fallthrough
	case 5:
		// comment-only edits: one control comment added, removed (any position) or replaced by another one (other type or other value)
		cur := append([]string{}, ru.Ctl...)
		fresh := func() string {
			for try := 0; try < 30; try++ {
				c := pick(r, gCtls)
				dup := false
				for _, x := range cur {
					if x == c {
						dup = true
					}
				}
				if !dup {
					return c
				}
			}
			return ""
		}
		kind := func(c string) string { return strings.Join(strings.Fields(c)[:1], "") }
		switch c := r.Intn(3); {
		case len(cur) > 0 && c == 0:
			i := r.Intn(len(cur))
			tag := "ctl-del:" + kind(cur[i])
			ru.Ctl = append(cur[:i], cur[i+1:]...)
			return tag
		case len(cur) > 0 && c == 1:
			if n := fresh(); n != "" {
				i := r.Intn(len(cur))
				tag := "ctl-replace:" + kind(cur[i]) + "->" + kind(n)
				cur[i] = n
				ru.Ctl = cur
				return tag
			}
			fallthrough
		default:
			n := fresh()
			if n == "" {
				ru.Ctl = cur[1:]
				return "ctl-del:" + kind(cur[0])
			}
			pos := r.Intn(len(cur) + 1)
			ru.Ctl = append(cur[:pos], append([]string{n}, cur[pos:]...)...)
			return "ctl-add:" + kind(n)
		}
	default:
		// rename the rule (same kind)
		old := ru.Name
		for ru.Name == old {
			if ru.Kind == "alert" {
				ru.Name = pick(r, gAlertNames)
			} else {
				ru.Name = pick(r, gRecordNames)
			}
		}
		return "name"
	}
}

// mutateMap changes a labels/annotations map: another value for one key, one entry removed (any position: first, middle,
// last -- the others remain), or one entry added (any position).  Always returns a fresh slice.
func (g *gen) mutateMap(m *[][2]string, keys []string, what string) string {
	r := g.r
	cur := append([][2]string{}, (*m)...)
	var missing []string
	for _, k := range keys {
		has := false
		for _, kv := range cur {
			if kv[0] == k {
				has = true
			}
		}
		if !has {
			missing = append(missing, k)
		}
	}
	c := r.Intn(4) // 0 value, 1 and 3 delete, 2 add
	if c == 3 {
		c = 1
	}
	if len(cur) == 0 || (c == 2 && len(missing) > 0) {
		if len(missing) == 0 {
			c = 1
		} else {
			kv := [2]string{pick(r, missing), pick(r, gLabelVals)}
			pos := r.Intn(len(cur) + 1)
			cur = append(cur[:pos], append([][2]string{kv}, cur[pos:]...)...)
			*m = cur
			return what + "-add"
		}
	}
	if c == 0 || len(cur) == 0 {
		i := r.Intn(len(cur))
		old := cur[i][1]
		for cur[i][1] == old {
			cur[i][1] = pick(r, gLabelVals)
		}
		*m = cur
		return what + "-value"
	}
	i := r.Intn(len(cur))
	tag := what + "-del"
	switch {
	case len(cur) == 1:
		tag += "-all"
	case i == len(cur)-1:
		tag += "-last(others remain)"
	default:
		tag += "(others remain)"
	}
	cur = append(cur[:i], cur[i+1:]...)
	*m = cur
	return tag
}

// cosmeticRule changes the text of a rule but not its parsed content.
func (g *gen) cosmeticRule(ru *gRule) string {
	r := g.r
	switch r.Intn(5) {
	case 0:
		ru.Blank = (ru.Blank + 1 + r.Intn(2)) % 4
		return "blank-lines"
	case 1:
		if len(ru.Plain) > 0 {
			ru.Plain = nil
		} else {
			ru.Plain = []string{pick(r, gPlain)}
		}
		return "plain-comment"
	case 2:
		ru.Quote = (ru.Quote + 1 + r.Intn(2)) % 3
		return "quote-style"
	case 3:
		if len(ru.Labels) > 1 {
			ru.Labels[0], ru.Labels[1] = ru.Labels[1], ru.Labels[0]
			return "label-order"
		}
		ru.Blank = (ru.Blank + 1) % 3
		return "blank-lines"
	default:
		if len(ru.Annots) > 1 {
			ru.Annots[0], ru.Annots[1] = ru.Annots[1], ru.Annots[0]
			return "annotation-order"
		}
		ru.Quote = (ru.Quote + 1) % 3
		return "quote-style"
	}
}

func sortedCopy(ss []string) []string {
	c := append([]string{}, ss...)
	sort.Strings(c)
	return c
}

func sameStrings(a, b []string) bool {
	if len(a) != len(b) {
		return false
	}
	for i := range a {
		if a[i] != b[i] {
			return false
		}
	}
	return true
}
