//go:build verif

package main

import (
	"bufio"
	"bytes"
	"errors"
	"fmt"
	"os"
	"os/exec"
	"regexp"
	"strings"
	"sync"

	"github.com/prometheus/common/model"

	"github.com/cloudflare/pint/internal/discovery"
	pgit "github.com/cloudflare/pint/internal/git"
	"github.com/cloudflare/pint/internal/parser"
)

// In-process runs of the real git.Changes / GlobFinder / GitBranchFinder.Find on a scratch repository with a git
// runner that records every call (the real git outputs become the inputs of the model).

type gitCall struct {
	Args []string
	Out  []byte
	Err  bool
}

type transcript struct {
	dir   string
	Calls []gitCall
}

func (t *transcript) run(args ...string) ([]byte, error) {
	cmd := exec.Command("git", args...)
	cmd.Dir = t.dir
	cmd.Env = append(os.Environ(), gitEnv...)
	var so, se bytes.Buffer
	cmd.Stdout = &so
	cmd.Stderr = &se
	err := cmd.Run()
	out := append([]byte{}, so.Bytes()...)
	if so.Len() == 0 {
		out = nil
	}
	t.Calls = append(t.Calls, gitCall{Args: append([]string{}, args...), Out: out, Err: err != nil})
	if err != nil {
		if se.Len() > 0 {
			return nil, errors.New(se.String())
		}
		return nil, err
	}
	return out, nil
}

// replay answers a call from the transcript (used to evaluate real helper functions on recorded outputs)
func (t *transcript) replay(args ...string) ([]byte, error) {
	for _, c := range t.Calls {
		if sameStrings(c.Args, args) {
			if c.Err {
				return nil, errors.New("recorded error")
			}
			return c.Out, nil
		}
	}
	return nil, errors.New("not recorded")
}

var (
	chdirMu       sync.Mutex
	rulesFilter   = pgit.NewPathFilter([]*regexp.Regexp{regexp.MustCompile("rules/.*")}, nil, nil)
	inprocMaxComm = 20
)

type inprocResult struct {
	T         *transcript
	Changes   []*pgit.FileChange
	ChangeErr string
	Glob      []discovery.Entry // as returned by GlobFinder (before Find mutates it): deep-copied states
	GlobErr   string
	Final     []discovery.Entry
	FindErr   string
	Uncovered int // HEAD entries of changes (no rule error) without a glob entry at the same path and rule position
	GlobDup   int // glob entries that are not the first one at their path and rule position (hypothesis first_at)
}

// runInproc runs the three real functions in dir.
func runInproc(dir string) *inprocResult {
	res := &inprocResult{T: &transcript{dir: dir}}
	chs, err := pgit.Changes(res.T.run, "main", rulesFilter)
	if err != nil {
		res.ChangeErr = err.Error()
	}
	res.Changes = chs

	chdirMu.Lock()
	defer chdirMu.Unlock()
	parseMu.Lock()
	defer parseMu.Unlock()
	old, _ := os.Getwd()
	must(os.Chdir(dir))
	defer os.Chdir(old)
	glob, err := discovery.NewGlobFinder([]string{"*"}, rulesFilter, parser.PrometheusSchema, model.UTF8Validation, nil).Find()
	if err != nil {
		res.GlobErr = err.Error()
		return res
	}
	res.Glob = make([]discovery.Entry, len(glob))
	for i, e := range glob {
		e.ModifiedLines = append([]int{}, e.ModifiedLines...)
		res.Glob[i] = e
	}
	t2 := &transcript{dir: dir}
	final, err := discovery.NewGitBranchFinder(t2.run, rulesFilter, "main", inprocMaxComm, parser.PrometheusSchema, model.UTF8Validation, nil).Find(glob)
	if err != nil {
		res.FindErr = err.Error()
	}
	res.Final = final
	return res
}

func scanLines(b []byte) []string {
	var out []string
	s := bufio.NewScanner(bytes.NewReader(b))
	for s.Scan() {
		out = append(out, s.Text())
	}
	return out
}

func ptypeName(t pgit.PathType) string {
	switch t {
	case pgit.Dir:
		return "GC.Dir"
	case pgit.File:
		return "GC.File"
	case pgit.Symlink:
		return "GC.Symlink"
	}
	return "GC.Missing"
}

type bodyTable struct {
	ids   map[string]int
	lines map[int]int
}

func (b *bodyTable) id(body []byte) int {
	if len(body) == 0 {
		return 0
	}
	if b.ids == nil {
		b.ids = map[string]int{}
		b.lines = map[int]int{}
	}
	if v, ok := b.ids[string(body)]; ok {
		return v
	}
	v := len(b.ids) + 1
	b.ids[string(body)] = v
	b.lines[v] = len(pgit.CountLines(body))
	return v
}

// changesCaseCoq serialises the transcript (inputs) and the real change list (observed) as a Run.C03.changes_case.
func changesCaseCoq(res *inprocResult) (string, bool) {
	return changesCaseCoqBT(res, &bodyTable{})
}

func changesCaseCoqBT(res *inprocResult, bt *bodyTable) (string, bool) {
	t := res.T
	var logOut []byte
	var types, bodies, blames []string
	okLog := false
	for _, c := range t.Calls {
		switch {
		case len(c.Args) > 0 && c.Args[0] == "log":
			logOut = c.Out
			okLog = !c.Err
		case len(c.Args) == 3 && c.Args[0] == "ls-tree":
			ty := pgit.VerifTypeForPath(t.replay, c.Args[1], c.Args[2])
			types = append(types, "("+coqStr(c.Args[1])+", "+coqStr(c.Args[2])+", "+ptypeName(ty)+")")
		case len(c.Args) == 3 && c.Args[0] == "cat-file":
			rev, path, _ := strings.Cut(c.Args[2], ":")
			id := 0
			if !c.Err {
				id = bt.id(c.Out)
			}
			bodies = append(bodies, "("+coqStr(rev)+", "+coqStr(path)+", "+coqN(id)+")")
		case len(c.Args) == 5 && c.Args[0] == "blame":
			lb, err := pgit.Blame(t.replay, c.Args[4], c.Args[2])
			if err != nil {
				continue
			}
			var ls []string
			for _, l := range lb {
				ls = append(ls, "("+coqStr(l.Commit)+", "+coqZ(int64(l.PrevLine))+", "+coqZ(int64(l.Line))+")")
			}
			blames = append(blames, "("+coqStr(c.Args[2])+", "+coqStr(c.Args[4])+", "+coqList(ls)+")")
		}
	}
	if !okLog || res.ChangeErr != "" {
		return "", false
	}
	var obs []string
	for _, ch := range res.Changes {
		obs = append(obs, "("+strings.Join([]string{coqN(int(ch.Status)), coqStr(ch.Path.Before.Name), coqStr(ch.Path.After.Name), coqStrList(ch.Commits),
			ptypeName(ch.Path.Before.Type), ptypeName(ch.Path.After.Type), coqN(bt.id(ch.Body.Before)), coqN(bt.id(ch.Body.After)),
			coqIntListZ(ch.Body.ModifiedLines)}, ", ")+")")
	}
	var bl []string
	for id, n := range bt.lines {
		bl = append(bl, "("+coqN(id)+", "+coqN(n)+")")
	}
	sortStrings(bl)
	return "{| cc_lines := " + coqStrList(scanLines(logOut)) + "; cc_types := " + coqList(types) + "; cc_bodies := " + coqList(bodies) +
		"; cc_body_lines := " + coqList(bl) + "; cc_blames := " + coqList(blames) + "; cc_observed := " + coqList(obs) + " |}", true
}

func sortStrings(s []string) {
	for i := 1; i < len(s); i++ {
		for j := i; j > 0 && s[j] < s[j-1]; j-- {
			s[j], s[j-1] = s[j-1], s[j]
		}
	}
}

// findCaseCoq serialises glob entries + per change parsed bodies (inputs) and the real Find result (observed).
func findCaseCoq(res *inprocResult) (string, bool, int) {
	glob, cs, obs, ok, broken := findCaseParts(res, nil)
	if !ok {
		return "", false, 0
	}
	return "{| fc_glob := " + glob + "; fc_changes := " + cs + "; fc_observed := " + obs + " |}", true, broken
}

// findCaseParts: the three components of a find case; hook (optional) sees every abstracted entry with the uid it was given.
func findCaseParts(res *inprocResult, hook func(uid int, e discovery.Entry)) (globCoq, changesCoq, obsCoq string, ok bool, broken int) {
	res.Uncovered = 0
	if res.ChangeErr != "" || res.GlobErr != "" || res.FindErr != "" {
		return "", "", "", false, 0
	}
	t := &cidTable{}
	uid := 0
	abs := func(es []discovery.Entry) []absEntry {
		out := make([]absEntry, 0, len(es))
		for _, e := range es {
			uid++
			out = append(out, abstractEntry(e, uid, t))
			if hook != nil {
				hook(uid, e)
			}
		}
		return out
	}
	glob := abs(res.Glob)
	// hypothesis [first_at] of C03_changed_final_never_skipped: every valid glob entry is the first at its path and rule position
	res.GlobDup = 0
	seenPos := map[string]bool{}
	for _, g := range res.Glob {
		if g.PathError != nil || g.Rule.Error.Err != nil {
			continue
		}
		k := fmt.Sprintf("%s|%d|%d|%d", g.Path.Name, g.Rule.Type(), g.Rule.Lines.First, g.Rule.Lines.Last)
		if seenPos[k] {
			res.GlobDup++
		}
		seenPos[k] = true
	}
	var cs []string
	for _, ch := range res.Changes {
		p := parser.NewParser(true, parser.PrometheusSchema, model.UTF8Validation)
		eb, _ := discovery.VerifReadRules(ch.Path.Before.EffectivePath(), ch.Path.Before.Name, bytes.NewReader(ch.Body.Before), p, nil)
		ea, _ := discovery.VerifReadRules(ch.Path.After.EffectivePath(), ch.Path.After.Name, bytes.NewReader(ch.Body.After), p, nil)
		// hypothesis [covered] of C20_removed_reaches_check: every HEAD entry of a change without a rule error has a glob entry
		// with the same path and the same rule position (model: is_same)
		for _, a := range ea {
			if a.Rule.Error.Err != nil {
				continue
			}
			found := false
			for _, g := range res.Glob {
				if g.Path.Name == a.Path.Name && g.Rule.Error.Err == nil && g.Rule.Type() == a.Rule.Type() &&
					g.Rule.Lines.First == a.Rule.Lines.First && g.Rule.Lines.Last == a.Rule.Lines.Last {
					found = true
					break
				}
			}
			if !found {
				res.Uncovered++
			}
		}
		cs = append(cs, "{| ci_before := "+absEntriesCoq(abs(eb))+"; ci_after := "+absEntriesCoq(abs(ea))+"; ci_mod := "+coqIntListZ(ch.Body.ModifiedLines)+
			"; ci_after_lines := "+coqN(len(pgit.CountLines(ch.Body.After)))+" |}")
	}
	var obs []string
	for _, e := range res.Final {
		obs = append(obs, "("+strings.Join([]string{coqStr(e.Path.Name), kindOf(e), coqStr(e.Rule.Name()), coqZ(int64(e.Rule.Lines.First)),
			coqZ(int64(e.Rule.Lines.Last)), stateNames[e.State], coqIntListZ(e.ModifiedLines)}, ", ")+")")
	}
	return absEntriesCoq(glob), coqList(cs), coqList(obs), true, t.broken
}

// historyCaseCoq: the whole pipeline on one history (Run.C03.history_case): the git transcript, the parser table
// (body id, path name) -> readRules for every body the real change list carries, the glob list, and the real final list.
func historyCaseCoq(res *inprocResult) (string, bool) {
	if res.ChangeErr != "" || res.GlobErr != "" || res.FindErr != "" {
		return "", false
	}
	bt := &bodyTable{}
	cc, ok := changesCaseCoqBT(res, bt)
	if !ok {
		return "", false
	}
	t := &cidTable{}
	uid := 0
	abs := func(es []discovery.Entry) []absEntry {
		out := make([]absEntry, 0, len(es))
		for _, e := range es {
			uid++
			out = append(out, abstractEntry(e, uid, t))
		}
		return out
	}
	glob := abs(res.Glob)
	var table []string
	for _, ch := range res.Changes {
		p := parser.NewParser(true, parser.PrometheusSchema, model.UTF8Validation)
		eb, _ := discovery.VerifReadRules(ch.Path.Before.EffectivePath(), ch.Path.Before.Name, bytes.NewReader(ch.Body.Before), p, nil)
		ea, _ := discovery.VerifReadRules(ch.Path.After.EffectivePath(), ch.Path.After.Name, bytes.NewReader(ch.Body.After), p, nil)
		table = append(table, "("+coqN(bt.id(ch.Body.Before))+", "+coqStr(ch.Path.Before.Name)+", "+absEntriesCoq(abs(eb))+")")
		table = append(table, "("+coqN(bt.id(ch.Body.After))+", "+coqStr(ch.Path.After.Name)+", "+absEntriesCoq(abs(ea))+")")
	}
	var obs []string
	for _, e := range res.Final {
		obs = append(obs, "("+strings.Join([]string{coqStr(e.Path.Name), kindOf(e), coqStr(e.Rule.Name()), coqZ(int64(e.Rule.Lines.First)),
			coqZ(int64(e.Rule.Lines.Last)), stateNames[e.State], coqIntListZ(e.ModifiedLines)}, ", ")+")")
	}
	return "{| hc_changes := " + cc + "; hc_parse := " + coqList(table) + "; hc_glob := " + absEntriesCoq(glob) + "; hc_observed := " + coqList(obs) + " |}", true
}
