//go:build verif

package main

import (
	"encoding/json"
	"os"
	"path/filepath"
	"sort"
)

// corpus histories: corpus/<prop>/*.json = fixed histories (design-session witnesses, minimised failures), run first.
type corpusHistory struct {
	Name    string           `json:"name"`
	Why     string           `json:"why"`
	Fork    map[string]gFile `json:"fork"`
	Commits []struct {
		Branch string           `json:"branch"`
		Files  map[string]gFile `json:"files"`
	} `json:"commits"`
	Origin  map[string]string `json:"origin"`
	Renames [][2]string       `json:"renames"`
	RenOnto []bool            `json:"renames_onto_deleted"`
	CopyCfg bool              `json:"git_copy_detection"`
	Copies  [][2]string       `json:"copies"`
	Tainted map[string]bool   `json:"tainted"`
}

func findCorpusDir(prop string) string {
	dir, _ := os.Getwd()
	for i := 0; i < 6; i++ {
		c := filepath.Join(dir, "corpus", prop)
		if st, err := os.Stat(c); err == nil && st.IsDir() {
			if _, err := os.Stat(filepath.Join(dir, "checks")); err == nil {
				return c
			}
		}
		dir = filepath.Dir(dir)
	}
	return ""
}

func loadCorpusHistories(prop string) []*history {
	dir := findCorpusDir(prop)
	if dir == "" {
		return nil
	}
	names, _ := filepath.Glob(filepath.Join(dir, "*.json"))
	sort.Strings(names)
	var out []*history
	for _, n := range names {
		b, err := os.ReadFile(n)
		if err != nil {
			continue
		}
		var c corpusHistory
		if json.Unmarshal(b, &c) != nil || c.Fork == nil {
			continue
		}
		hi := &history{Fork: c.Fork, Origin: c.Origin, RenEdits: c.Renames, RenOnto: c.RenOnto, CopyConfig: c.CopyCfg, Copies: c.Copies, Tainted: c.Tainted, Strata: []string{"corpus:" + c.Name}}
		if hi.Tainted == nil {
			hi.Tainted = map[string]bool{}
		}
		for _, cm := range c.Commits {
			hi.Commits = append(hi.Commits, hCommit{Branch: cm.Branch, Ops: []hOp{{Op: "corpus"}}, Files: cm.Files})
			if cm.Branch == "feature" {
				hi.Head = cm.Files
			}
		}
		out = append(out, hi)
	}
	return out
}
