//go:build verif

package main

import (
	"encoding/json"
	"fmt"
	"os"
	"path/filepath"
	"sort"
	"strings"
)

// ---------------------------------------------------------------------------------------------
// History generator: a base branch "main", a fork point, a branch "feature" with a sequence of commits built from
// add/modify/delete/rename file, add/modify/delete rule, cosmetic edits, reorders, file/disable edits, reverts,
// and commits on main after the fork (base advancing).

type hOp struct {
	Op     string `json:"op"`
	Path   string `json:"path,omitempty"`
	To     string `json:"to,omitempty"`
	Detail string `json:"detail,omitempty"`
}

type hCommit struct {
	Branch string           `json:"branch"`
	Ops    []hOp            `json:"ops"`
	Files  map[string]gFile `json:"-"` // full state after the commit
	Text   map[string]string `json:"-"`
}

type history struct {
	Fork    map[string]gFile  `json:"fork"`
	Head    map[string]gFile  `json:"head"`
	Origin  map[string]string `json:"origin"` // HEAD path -> fork path it descends from ("" = created on the branch)
	Commits []hCommit         `json:"commits"`
	Strata  []string          `json:"strata"`
	// every rename; whether git reports it as a rename (R) or as delete+add depends on its similarity heuristic when the same
	// commit also edits the file, so the truth asks git's own log for that one bit
	RenEdits [][2]string `json:"rename_edits,omitempty"`
	// parallel to RenEdits: the rename landed on a fork path that was deleted earlier on the branch.  When git does not report
	// such a rename as R (delete + add), the added file sits at a path that has a fork version: that version is its base.
	RenOnto []bool `json:"rename_onto_deleted,omitempty"`
	// the repository is configured with `diff.renames = copies`: git then prints `C src dst` entries for a new file that is a copy
	// of a file modified in the same commit (known finding C03-copy-entry-consumes-source-record)
	CopyConfig bool        `json:"git_copy_detection,omitempty"`
	Copies     [][2]string `json:"copies,omitempty"`
	// HEAD paths whose lineage contains a rename that landed on a path deleted earlier on the branch
	// (stratum; was known finding C03-rename-onto-deleted-path until fix d9e7954)
	Tainted map[string]bool `json:"onto_deleted_lineage,omitempty"`
}

var gPathPool = []string{"rules/a.yml", "rules/b.yml", "rules/sub/c.yml", "rules/d.yaml", "rules/é.yml",
	"rules/sp ace.yml", "rules/q\"uote.yml", "rules/tab\there.yml", "rules/back\\slash.yml", "rules/日本.yml"}

type hgen struct {
	g      *gen
	nfresh int
	opts   hOpts
}

type hOpts struct {
	NoBroken   bool // no broken rules / raw files
	MaxFiles   int
	MaxRules   int
	MaxCommits int
	OddPaths   bool // allow non-ASCII / quoted paths
	OntoDeleted bool // allow renames onto paths deleted earlier on the branch
	CopyDetect  bool // repository with diff.renames=copies + commits that copy a file and modify the source
}

func (h *hgen) freshPath(used map[string]bool) string {
	r := h.g.r
	for try := 0; try < 20; try++ {
		var p string
		if h.opts.OddPaths && r.Intn(3) == 0 {
			p = gPathPool[4+r.Intn(len(gPathPool)-4)]
		} else {
			p = gPathPool[r.Intn(4)]
		}
		if !used[p] {
			used[p] = true
			return p
		}
	}
	h.nfresh++
	p := fmt.Sprintf("rules/n%d.yml", h.nfresh)
	if h.opts.OddPaths && r.Intn(3) == 0 {
		p = fmt.Sprintf("rules/ü%d ß.yml", h.nfresh)
	}
	used[p] = true
	return p
}

func cloneState(s map[string]gFile) map[string]gFile {
	c := map[string]gFile{}
	for k, v := range s {
		c[k] = v.clone()
	}
	return c
}

func (h *hgen) generate() *history {
	r := h.g.r
	hi := &history{Origin: map[string]string{}, Tainted: map[string]bool{}, CopyConfig: h.opts.CopyDetect}
	used := map[string]bool{} // every path that ever existed (renames/adds go to fresh paths)
	state := map[string]gFile{}
	nf := 1 + r.Intn(h.opts.MaxFiles)
	for i := 0; i < nf; i++ {
		p := h.freshPath(used)
		f := h.g.file(h.opts.MaxRules)
		if len(f.Rules) == 0 && r.Intn(2) == 0 {
			f.Rules = append(f.Rules, h.g.rule())
		}
		state[p] = f
	}
	hi.Fork = cloneState(state)
	for p := range state {
		hi.Origin[p] = p
	}
	mainState := cloneState(state)
	strata := map[string]bool{}
	nc := 1 + r.Intn(h.opts.MaxCommits)
	deleted := []string{} // fork paths deleted on the branch and not re-created
	// scripted stratum (OntoDeleted): delete a fork file, later rename another file onto its path, later edit the renamed file;
	// every step is taken with some probability only, ordinary operations are interleaved
	ontoStage, ontoPath := 0, ""
	if h.opts.OntoDeleted && nc < 3 {
		nc = 3 + r.Intn(2)
	}
	for ci := 0; ci < nc; ci++ {
		// base advancing
		if r.Intn(4) == 0 {
			ops := h.mainCommit(mainState, used)
			hi.Commits = append(hi.Commits, hCommit{Branch: "main", Ops: ops, Files: cloneState(mainState)})
			strata["base-advances"] = true
		}
		var ops []hOp
		nops := 1 + r.Intn(3)
		fileOpDone := false
		for k := 0; k < nops; k++ {
			paths := sortedKeys(state)
			choice := r.Intn(20)
			forcedPath, forcedOnto := "", false
			if h.opts.OntoDeleted && k == 0 {
				switch {
				case ontoStage == 0 && len(paths) >= 2 && r.Intn(3) > 0:
					for _, p := range paths {
						if hi.Origin[p] == p {
							choice, forcedPath, ontoStage = 1, p, 1
							break
						}
					}
				case ontoStage == 1 && len(deleted) > 0 && len(paths) >= 1 && r.Intn(3) > 0:
					choice, forcedOnto, ontoStage = 2, true, 2
				case ontoStage == 2 && r.Intn(4) > 0:
					if f, ok := state[ontoPath]; ok && len(f.Rules) > 0 {
						choice, forcedPath = 4, ontoPath
					}
				}
			}
			if len(paths) == 0 {
				choice = 0
			}
			if h.opts.CopyDetect && k == 0 && !fileOpDone && len(paths) > 0 && r.Intn(2) == 0 {
				// copy a file and modify the source in the same commit (what git's copy detection needs to print a C entry)
				var cands []string
				for _, p := range paths {
					if len(state[p].Rules) >= 2 {
						cands = append(cands, p)
					}
				}
				if len(cands) > 0 {
					p := pick(r, cands)
					q := h.freshPath(used)
					state[q] = state[p].clone()
					hi.Origin[q] = ""
					f := state[p]
					i := r.Intn(len(f.Rules))
					d := h.g.mutateRule(&f.Rules[i])
					state[p] = f
					hi.Copies = append(hi.Copies, [2]string{p, q})
					ops = append(ops, hOp{Op: "copy-file-and-modify-source", Path: p, To: q, Detail: fmt.Sprintf("%d:%s", i, d)})
					fileOpDone = true
					strata["file-copied-while-source-modified(copy detection on)"] = true
					continue
				}
			}
			switch {
			case choice == 0: // add file
				if fileOpDone {
					continue
				}
				var p string
				if len(deleted) > 0 && r.Intn(2) == 0 {
					p = deleted[len(deleted)-1]
					deleted = deleted[:len(deleted)-1]
					hi.Origin[p] = p // same path as at the fork point: the base version is that file
					strata["file-readded-at-same-path"] = true
				} else {
					p = h.freshPath(used)
					hi.Origin[p] = ""
				}
				f := h.g.file(h.opts.MaxRules)
				if len(f.Rules) == 0 {
					f.Rules = append(f.Rules, h.g.rule())
				}
				// sometimes a copy of an existing file's rules (an identical rule in a new file)
				if len(paths) > 0 && r.Intn(3) == 0 {
					f = state[pick(r, paths)].clone()
					strata["file-copied"] = true
				}
				state[p] = f
				ops = append(ops, hOp{Op: "add-file", Path: p})
				fileOpDone = true
				strata["file-added"] = true
			case choice == 1: // delete file
				if fileOpDone {
					continue
				}
				p := pick(r, paths)
				if forcedPath != "" {
					p = forcedPath
				}
				if hi.Origin[p] == p {
					deleted = append(deleted, p)
				}
				delete(state, p)
				delete(hi.Origin, p)
				delete(hi.Tainted, p)
				ops = append(ops, hOp{Op: "delete-file", Path: p})
				fileOpDone = true
				strata["file-deleted"] = true
			case choice == 2 || choice == 3: // rename file (pure, or with an edit of one rule)
				if fileOpDone {
					continue
				}
				p := pick(r, paths)
				to := h.freshPath(used)
				tainted := hi.Tainted[p]
				delete(hi.Tainted, p)
				onto := false
				if h.opts.OntoDeleted && len(deleted) > 0 && (forcedOnto || r.Intn(2) == 0) {
					onto = true
					// the rename lands on a path that was deleted earlier on the branch
					to = deleted[len(deleted)-1]
					deleted = deleted[:len(deleted)-1]
					tainted = true
					ontoPath = to
					if ontoStage < 2 {
						ontoStage = 2
					}
					strata["rename-onto-deleted-path"] = true
				}
				if tainted {
					hi.Tainted[to] = true
				}
				f := state[p]
				delete(state, p)
				o := hi.Origin[p]
				delete(hi.Origin, p)
				hi.Origin[to] = o
				op := hOp{Op: "rename-file", Path: p, To: to}
				if choice == 3 && len(f.Rules) >= 3 {
					i := r.Intn(len(f.Rules))
					op.Detail = "with-edit:" + h.g.mutateRule(&f.Rules[i])
					strata["file-renamed-with-edit"] = true
				}
				hi.RenEdits = append(hi.RenEdits, [2]string{p, to})
				hi.RenOnto = append(hi.RenOnto, onto)
				state[to] = f
				ops = append(ops, op)
				fileOpDone = true
				strata["file-renamed"] = true
			case choice <= 6: // modify a rule
				p := pick(r, paths)
				if forcedPath != "" {
					p = forcedPath
				}
				f := state[p]
				if len(f.Rules) == 0 {
					continue
				}
				i := r.Intn(len(f.Rules))
				if r.Intn(6) == 0 && !f.Rules[i].Broken {
					// the rule is replaced in place by a rule of the OTHER kind with the same name (record X -> alert X or back):
					// a new rule (added) and a removed one, never one modified rule
					nr := h.g.rule()
					nr.Name = f.Rules[i].Name
					if f.Rules[i].Kind == "record" {
						nr.Kind = "alert"
					} else {
						nr.Kind, nr.For, nr.Annots = "record", "", nil
					}
					f.Rules[i] = nr
					state[p] = f
					ops = append(ops, hOp{Op: "replace-by-other-kind", Path: p, Detail: fmt.Sprintf("%d:%s", i, nr.Kind)})
					strata["rule-replaced-by-other-kind-same-name"] = true
					continue
				}
				d := h.g.mutateRule(&f.Rules[i])
				ops = append(ops, hOp{Op: "modify-rule", Path: p, Detail: fmt.Sprintf("%d:%s", i, d)})
				strata["rule-modified"] = true
				strata["rule-edit:"+d] = true
				if hi.Tainted[p] {
					strata["edit-after-rename-onto-deleted-path"] = true
				}
			case choice <= 8: // add a rule
				p := pick(r, paths)
				f := state[p]
				nr := h.g.rule()
				pos := r.Intn(len(f.Rules) + 1)
				detail := "fresh"
				if len(f.Rules) > 0 && r.Intn(2) == 0 {
					// same kind+name as an existing rule, different content, inserted BEFORE it
					j := r.Intn(len(f.Rules))
					nr = f.Rules[j]
					h.g.uid++
					nr.UID = h.g.uid
					nr.Labels = append([][2]string{}, nr.Labels...)
					nr.Annots = append([][2]string{}, nr.Annots...)
					nr.Ctl = append([]string{}, nr.Ctl...)
					old := nr.Expr
					for nr.Expr == old {
						nr.Expr = pick(r, gExprs)
					}
					pos = j
					if r.Intn(4) == 0 {
						pos = j + 1
					}
					detail = "same-name-as-existing"
					strata["rule-added-same-name"] = true
				}
				f.Rules = append(f.Rules[:pos], append([]gRule{nr}, f.Rules[pos:]...)...)
				state[p] = f
				ops = append(ops, hOp{Op: "add-rule", Path: p, Detail: fmt.Sprintf("%d:%s", pos, detail)})
				strata["rule-added"] = true
			case choice == 9: // delete a rule
				p := pick(r, paths)
				f := state[p]
				if len(f.Rules) == 0 {
					continue
				}
				i := r.Intn(len(f.Rules))
				f.Rules = append(f.Rules[:i], f.Rules[i+1:]...)
				state[p] = f
				ops = append(ops, hOp{Op: "delete-rule", Path: p, Detail: fmt.Sprint(i)})
				strata["rule-deleted"] = true
			case choice <= 12: // cosmetic edit of a rule
				p := pick(r, paths)
				f := state[p]
				if len(f.Rules) == 0 {
					continue
				}
				i := r.Intn(len(f.Rules))
				d := h.g.cosmeticRule(&f.Rules[i])
				ops = append(ops, hOp{Op: "cosmetic-rule", Path: p, Detail: fmt.Sprintf("%d:%s", i, d)})
				strata["cosmetic-edit"] = true
			case choice == 13: // reorder
				p := pick(r, paths)
				f := state[p]
				if len(f.Rules) < 2 {
					continue
				}
				i, j := r.Intn(len(f.Rules)), r.Intn(len(f.Rules))
				f.Rules[i], f.Rules[j] = f.Rules[j], f.Rules[i]
				ops = append(ops, hOp{Op: "swap-rules", Path: p, Detail: fmt.Sprintf("%d,%d", i, j)})
				strata["rules-reordered"] = true
			case choice <= 15: // file/disable edits
				p := pick(r, paths)
				f := state[p]
				switch {
				case len(f.Disables) > 0 && r.Intn(4) == 0:
					// replace one disabled check by another: same number of disables, different set
					d := pick(r, gDisables)
					has := false
					for _, x := range f.Disables {
						if x == d {
							has = true
						}
					}
					if has {
						continue
					}
					f.Disables = append([]string{}, f.Disables...)
					f.Disables[r.Intn(len(f.Disables))] = d
					ops = append(ops, hOp{Op: "file-disable-replace", Path: p, Detail: d})
					strata["file-disable-changed"] = true
				case len(f.Disables) >= 2 && r.Intn(2) == 0:
					f.Disables[0], f.Disables[1] = f.Disables[1], f.Disables[0]
					ops = append(ops, hOp{Op: "file-disable-reorder", Path: p})
					strata["file-disable-reordered"] = true
				case len(f.Disables) > 0 && r.Intn(2) == 0:
					f.Disables = f.Disables[1:]
					ops = append(ops, hOp{Op: "file-disable-remove", Path: p})
					strata["file-disable-changed"] = true
				default:
					d := pick(r, gDisables)
					has := false
					for _, x := range f.Disables {
						if x == d {
							has = true
						}
					}
					if has {
						continue
					}
					if r.Intn(2) == 0 {
						f.Disables = append([]string{d}, f.Disables...)
					} else {
						f.Disables = append(f.Disables, d)
					}
					ops = append(ops, hOp{Op: "file-disable-add", Path: p, Detail: d})
					strata["file-disable-changed"] = true
				}
				state[p] = f
			case choice == 16: // header comment / trailing blank lines (cosmetic, file level)
				p := pick(r, paths)
				f := state[p]
				if r.Intn(2) == 0 {
					if len(f.Header) > 0 {
						f.Header = nil
					} else {
						f.Header = []string{pick(r, gPlain)}
					}
				} else {
					f.Trail = (f.Trail + 1) % 3
				}
				state[p] = f
				ops = append(ops, hOp{Op: "cosmetic-file", Path: p})
				strata["cosmetic-edit"] = true
			case choice <= 18: // revert a file to its fork-point content (edit-then-revert)
				var cands []string
				for _, p := range paths {
					if o := hi.Origin[p]; o == p {
						cands = append(cands, p)
					}
				}
				if len(cands) == 0 {
					continue
				}
				p := pick(r, cands)
				state[p] = hi.Fork[p].clone()
				ops = append(ops, hOp{Op: "revert-file", Path: p})
				strata["reverted"] = true
			default: // broken rule (no expr)
				if h.opts.NoBroken {
					continue
				}
				p := pick(r, paths)
				f := state[p]
				if len(f.Rules) == 0 {
					continue
				}
				i := r.Intn(len(f.Rules))
				f.Rules[i].Broken = !f.Rules[i].Broken
				ops = append(ops, hOp{Op: "toggle-broken-rule", Path: p, Detail: fmt.Sprint(i)})
				strata["broken-rule"] = true
			}
		}
		hi.Commits = append(hi.Commits, hCommit{Branch: "feature", Ops: ops, Files: cloneState(state)})
	}
	if r.Intn(5) == 0 {
		ops := h.mainCommit(mainState, used)
		hi.Commits = append(hi.Commits, hCommit{Branch: "main", Ops: ops, Files: cloneState(mainState)})
		strata["base-advances"] = true
	}
	hi.Head = cloneState(state)
	for p := range hi.Head {
		if strings.IndexFunc(p, func(c rune) bool { return c > 0x7e || c < 0x20 || c == '"' || c == '\\' }) >= 0 {
			strata["quoted-path"] = true
		}
	}
	hi.Strata = sortedKeys(strata)
	return hi
}

// a commit on main after the fork: edits files there (never seen by the branch)
func (h *hgen) mainCommit(mainState map[string]gFile, used map[string]bool) []hOp {
	r := h.g.r
	paths := sortedKeys(mainState)
	var ops []hOp
	if len(paths) > 0 && r.Intn(3) > 0 {
		p := pick(r, paths)
		f := mainState[p]
		if len(f.Rules) > 0 && r.Intn(2) == 0 {
			i := r.Intn(len(f.Rules))
			ops = append(ops, hOp{Op: "modify-rule", Path: p, Detail: h.g.mutateRule(&f.Rules[i])})
		} else {
			f.Rules = append(f.Rules, h.g.rule())
			ops = append(ops, hOp{Op: "add-rule", Path: p})
		}
		mainState[p] = f
	} else {
		p := h.freshPath(used)
		mainState[p] = h.g.file(3)
		ops = append(ops, hOp{Op: "add-file", Path: p})
	}
	return ops
}

// ---------------------------------------------------------------------------------------------
// scratch repository

const markerConfigHead = "parser {\n  include = [\"rules/.*\"]\n}\nchecks {\n  enabled = [\"rule/label\", \"rule/dependency\"]\n}\n"

var markerStates = []string{"added", "modified", "renamed", "unmodified", "removed"}

func markerConfig() string {
	var b strings.Builder
	b.WriteString(markerConfigHead)
	for _, s := range markerStates {
		fmt.Fprintf(&b, "rule {\n  match {\n    state = [\"%s\"]\n  }\n  label \"marker_%s\" {\n    required = true\n    comment  = \"STATE_%s\"\n  }\n}\n", s, s, s)
	}
	return b.String()
}

func syncTree(dir string, files map[string]gFile) {
	must(os.RemoveAll(filepath.Join(dir, "rules")))
	must(os.MkdirAll(filepath.Join(dir, "rules"), 0o755))
	for p, f := range files {
		txt, _ := f.render()
		writeFile(filepath.Join(dir, p), txt)
	}
}

// buildRepo materialises the history as a git repository in dir (HEAD = feature).
func buildRepo(dir string, hi *history, config string) {
	must(os.MkdirAll(dir, 0o755))
	git(dir, "init", "-q", "-b", "main", ".")
	if hi.CopyConfig {
		git(dir, "config", "diff.renames", "copies")
	}
	writeFile(filepath.Join(dir, ".pint.hcl"), config)
	syncTree(dir, hi.Fork)
	git(dir, "add", "-A")
	git(dir, "commit", "-q", "-m", "fork point")
	git(dir, "checkout", "-q", "-b", "feature")
	cur := "feature"
	for i, c := range hi.Commits {
		if c.Branch != cur {
			git(dir, "checkout", "-q", c.Branch)
			cur = c.Branch
		}
		syncTree(dir, c.Files)
			git(dir, "add", "-A")
		git(dir, "commit", "-q", "--allow-empty", "-m", fmt.Sprintf("commit %d on %s", i, c.Branch))
	}
	if cur != "feature" {
		git(dir, "checkout", "-q", "feature")
	}
}

// ---------------------------------------------------------------------------------------------
// running pint ci with the marker configuration

type ciReport struct {
	Path     string `json:"path"`
	Reporter string `json:"reporter"`
	Problem  string `json:"problem"`
	Details  string `json:"details"`
	Severity string `json:"severity"`
	Lines    []int  `json:"lines"`
}

type ciResult struct {
	Exit    int        `json:"exit"`
	Reports []ciReport `json:"reports"`
	JSONOK  bool       `json:"json_ok"`
	Stderr  string     `json:"stderr_tail,omitempty"`
}

func runCI(dir string) ciResult {
	jp := filepath.Join(dir, ".pint-out.json")
	os.Remove(jp)
	rc, _, se := runPint(dir, "--no-color", "-c", ".pint.hcl", "ci", "--base-branch", "main", "--json", jp)
	res := ciResult{Exit: rc}
	if len(se) > 600 {
		se = se[len(se)-600:]
	}
	res.Stderr = se
	if b, err := os.ReadFile(jp); err == nil {
		if json.Unmarshal(b, &res.Reports) == nil {
			res.JSONOK = true
		}
	}
	os.Remove(jp)
	sort.SliceStable(res.Reports, func(i, j int) bool {
		a, b := res.Reports[i], res.Reports[j]
		if a.Path != b.Path {
			return a.Path < b.Path
		}
		la, lb := 0, 0
		if len(a.Lines) > 0 {
			la = a.Lines[0]
		}
		if len(b.Lines) > 0 {
			lb = b.Lines[0]
		}
		if la != lb {
			return la < lb
		}
		return a.Details < b.Details
	})
	return res
}

type marker struct {
	Path  string
	Line  int
	State string
}

// markers lists the state markers of the report: (path, first line of the problem, state)
func (c ciResult) markers() []marker {
	var out []marker
	for _, r := range c.Reports {
		if r.Reporter != "rule/label" || len(r.Lines) == 0 {
			continue
		}
		i := strings.Index(r.Details, "STATE_")
		if i < 0 {
			continue
		}
		out = append(out, marker{Path: r.Path, Line: r.Lines[0], State: r.Details[i+len("STATE_"):]})
	}
	return out
}

// statesOf returns the marker states reported inside the line range of one rule and flags those markers as used
func statesOf(ms []marker, used []bool, path string, first, last int) []string {
	var out []string
	for i, m := range ms {
		if m.Path == path && m.Line >= first && m.Line <= last {
			out = append(out, m.State)
			used[i] = true
		}
	}
	sort.Strings(out)
	return out
}
