//go:build verif

package main

import (
	"bytes"
	"context"
	"fmt"
	"os"
	"os/exec"
	"path/filepath"
	"strings"
	"sync"
	"time"
)

// runCmd runs a command with a timeout; returns exit code (-1 timeout/-2 start failure), stdout, stderr.
func runCmd(dir string, timeout time.Duration, env []string, name string, args ...string) (int, string, string) {
	ctx, cancel := context.WithTimeout(context.Background(), timeout)
	defer cancel()
	cmd := exec.CommandContext(ctx, name, args...)
	cmd.Dir = dir
	cmd.Env = append(os.Environ(), env...)
	var so, se bytes.Buffer
	cmd.Stdout = &so
	cmd.Stderr = &se
	err := cmd.Run()
	if ctx.Err() == context.DeadlineExceeded {
		return -1, so.String(), se.String()
	}
	if err != nil {
		if ee, ok := err.(*exec.ExitError); ok {
			return ee.ExitCode(), so.String(), se.String()
		}
		return -2, so.String(), se.String() + err.Error()
	}
	return 0, so.String(), se.String()
}

var gitEnv = []string{
	"GIT_AUTHOR_NAME=verif", "GIT_AUTHOR_EMAIL=verif@example.com",
	"GIT_COMMITTER_NAME=verif", "GIT_COMMITTER_EMAIL=verif@example.com",
	"GIT_CONFIG_NOSYSTEM=1", "GIT_CONFIG_GLOBAL=/dev/null",
	"GIT_AUTHOR_DATE=2020-01-01T00:00:00Z", "GIT_COMMITTER_DATE=2020-01-01T00:00:00Z",
	"GIT_TERMINAL_PROMPT=0",
}

func git(dir string, args ...string) string {
	rc, so, se := runCmd(dir, 60*time.Second, gitEnv, "git", args...)
	if rc != 0 {
		panic(fmt.Sprintf("git %s in %s failed (%d): %s %s", strings.Join(args, " "), dir, rc, so, se))
	}
	return so
}

func writeFile(path, content string) {
	must(os.MkdirAll(filepath.Dir(path), 0o755))
	must(os.WriteFile(path, []byte(content), 0o644))
}

// pintBin returns the path of the pint binary built from the current tree.
func pintBin() string {
	p := os.Getenv("PINT_BIN")
	if p == "" {
		panic("PINT_BIN not set")
	}
	return p
}

// runPint runs the real binary; pint never needs the network in our scenarios.
func runPint(dir string, args ...string) (int, string, string) {
	env := append([]string{"NO_COLOR=1", "GITHUB_ACTION=", "GITHUB_BASE_REF=", "GITHUB_EVENT_NAME=", "GITHUB_REF="}, gitEnv...)
	return runCmd(dir, 120*time.Second, env, pintBin(), args...)
}

// parallel runs f(i) for i in [0,n) on w workers.
func parallel(n, w int, f func(i int)) {
	var wg sync.WaitGroup
	ch := make(chan int)
	for k := 0; k < w; k++ {
		wg.Add(1)
		go func() {
			defer wg.Done()
			for i := range ch {
				f(i)
			}
		}()
	}
	for i := 0; i < n; i++ {
		ch <- i
	}
	close(ch)
	wg.Wait()
}
