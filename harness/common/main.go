//go:build verif

package main

import (
	"fmt"
	"os"
)

var commands = map[string]func(args []string) int{}

func register(name string, f func(args []string) int) { commands[name] = f }

func main() {
	if len(os.Args) < 2 {
		fmt.Fprintln(os.Stderr, "usage: pint-verif <property> [args]")
		os.Exit(2)
	}
	f, ok := commands[os.Args[1]]
	if !ok {
		fmt.Fprintf(os.Stderr, "unknown command %s\n", os.Args[1])
		os.Exit(2)
	}
	os.Exit(f(os.Args[2:]))
}
