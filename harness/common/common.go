//go:build verif

// Package main is the pint verification harness. It is compiled INTO the repository's module with
// `go build -tags verif -overlay …` (see /verif/lib/pv.py), so it sees internal packages of the
// current working tree without any change to /repo.
package main

import (
	"encoding/json"
	"fmt"
	"math/rand"
	"os"
	"path/filepath"
	"sort"
	"strconv"
	"strings"
)

// ---------------------------------------------------------------------------------------------
// Coq term printers

func coqStr(s string) string {
	plain := true
	for i := 0; i < len(s); i++ {
		if s[i] < 0x20 || s[i] > 0x7e {
			plain = false
			break
		}
	}
	if plain {
		return `"` + strings.ReplaceAll(s, `"`, `""`) + `"`
	}
	var b strings.Builder
	b.WriteString("(bs [")
	for i := 0; i < len(s); i++ {
		if i > 0 {
			b.WriteString(";")
		}
		b.WriteString(strconv.Itoa(int(s[i])))
	}
	b.WriteString("])")
	return b.String()
}

func coqList(items []string) string { return "[" + strings.Join(items, "; ") + "]" }

func coqStrList(ss []string) string {
	out := make([]string, len(ss))
	for i, s := range ss {
		out[i] = coqStr(s)
	}
	return coqList(out)
}

func coqBool(b bool) string {
	if b {
		return "true"
	}
	return "false"
}

func coqZ(i int64) string {
	if i < 0 {
		return fmt.Sprintf("(%d)%%Z", i)
	}
	return fmt.Sprintf("%d%%Z", i)
}

func coqN(i int) string   { return fmt.Sprintf("%d%%N", i) }
func coqNat(i int) string { return fmt.Sprintf("%d%%nat", i) }

func coqOpt(ok bool, s string) string {
	if !ok {
		return "None"
	}
	return "(Some " + s + ")"
}

func coqPair(a, b string) string { return "(" + a + ", " + b + ")" }

// ---------------------------------------------------------------------------------------------
// Case files

// caseWriter shards Coq case terms into cases_NNN.v files.
type caseWriter struct {
	dir      string
	module   string // e.g. "Run.C05"
	perFile  int
	cur      []string
	n        int
	files    []string
	preamble string
}

func newCaseWriter(dir, module string, perFile int) *caseWriter {
	return &caseWriter{dir: dir, module: module, perFile: perFile}
}

func (w *caseWriter) add(term string) {
	w.cur = append(w.cur, term)
	if len(w.cur) >= w.perFile {
		w.flush()
	}
}

func (w *caseWriter) flush() {
	if len(w.cur) == 0 {
		return
	}
	name := filepath.Join(w.dir, fmt.Sprintf("cases_%03d.v", w.n))
	var b strings.Builder
	b.WriteString("From Coq Require Import List String ZArith NArith.\nFrom PintV Require Import Common.Bytes " + w.module + ".\n")
	b.WriteString("Import ListNotations.\nOpen Scope string_scope.\nSet Printing Width 1000000.\nSet Printing Depth 1000000.\n")
	b.WriteString(w.preamble)
	b.WriteString("Definition cases := [\n")
	b.WriteString(strings.Join(w.cur, ";\n"))
	b.WriteString("\n].\n")
	b.WriteString("Definition M := Eval vm_compute in mismatches cases.\nPrint M.\n")
	fmt.Fprintf(&b, "Goal True. idtac \"@@DONE %d\". Abort.\n", len(w.cur))
	if err := os.WriteFile(name, []byte(b.String()), 0o644); err != nil {
		panic(err)
	}
	w.files = append(w.files, name)
	w.cur = nil
	w.n++
}

// ---------------------------------------------------------------------------------------------
// Run report (read by the python driver)

type runReport struct {
	Property     string           `json:"property"`
	Seed         int64            `json:"seed"`
	Evaluations  int              `json:"evaluations"`
	Nontrivial   int              `json:"distinct_nontrivial"`
	Rule         string           `json:"rule"`
	CaseFiles    []string         `json:"case_files"`
	Samples      []any            `json:"samples"`
	Histogram    map[string]int   `json:"histogram"`
	OracleFails  []oracleFail     `json:"oracle_failures"`
	Known        map[string]int   `json:"known_findings_hit"`
	Cases        map[string]any   `json:"cases,omitempty"` // id -> replayable description (only kept for small runs)
	Notes        []string         `json:"notes,omitempty"`
	distinct     map[string]bool
}

type oracleFail struct {
	ID    string `json:"id"`
	What  string `json:"what"`
	Case  any    `json:"case"`
	Known string `json:"known,omitempty"`
}

func newReport(prop string, seed int64) *runReport {
	return &runReport{Property: prop, Seed: seed, Histogram: map[string]int{}, Known: map[string]int{},
		Cases: map[string]any{}, distinct: map[string]bool{}}
}

func (r *runReport) hist(k string) { r.Histogram[k]++ }

// count registers one evaluated case; key identifies it for distinctness, nontrivial by the property's rule.
func (r *runReport) count(key string, nontrivial bool) {
	r.Evaluations++
	if nontrivial && !r.distinct[key] {
		r.distinct[key] = true
		r.Nontrivial++
	}
}

func (r *runReport) sample(v any) {
	if len(r.Samples) < 5 {
		r.Samples = append(r.Samples, v)
	}
}

func (r *runReport) fail(id, what string, c any) {
	r.OracleFails = append(r.OracleFails, oracleFail{ID: id, What: what, Case: c})
}

// failKnown records an oracle failure that falls into the known-finding class `known` (id in known_findings).
func (r *runReport) failKnown(id, what string, c any, known string) {
	r.OracleFails = append(r.OracleFails, oracleFail{ID: id, What: what, Case: c, Known: known})
	r.Known[known]++
}

func (r *runReport) write(path string) {
	b, err := json.MarshalIndent(r, "", " ")
	if err != nil {
		panic(err)
	}
	if err := os.WriteFile(path, b, 0o644); err != nil {
		panic(err)
	}
}

// ---------------------------------------------------------------------------------------------
// misc

func seedFromEnv() int64 {
	s := os.Getenv("VERIF_SEED")
	if s == "" {
		return 1
	}
	v, err := strconv.ParseInt(s, 10, 64)
	if err != nil {
		return 1
	}
	return v
}

func pick[T any](r *rand.Rand, xs []T) T { return xs[r.Intn(len(xs))] }

func sortedKeys[V any](m map[string]V) []string {
	ks := make([]string, 0, len(m))
	for k := range m {
		ks = append(ks, k)
	}
	sort.Strings(ks)
	return ks
}

func must(err error) {
	if err != nil {
		panic(err)
	}
}

func argInt(args []string, name string, def int) int {
	for i := 0; i+1 < len(args); i++ {
		if args[i] == name {
			v, err := strconv.Atoi(args[i+1])
			if err == nil {
				return v
			}
		}
	}
	return def
}

func argStr(args []string, name, def string) string {
	for i := 0; i+1 < len(args); i++ {
		if args[i] == name {
			return args[i+1]
		}
	}
	return def
}
