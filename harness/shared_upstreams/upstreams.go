//go:build verif

package main

// In-process fake Prometheus upstreams shared by the C15 (failover) and C14 (single flight) harnesses.

import (
	"context"
	"errors"
	"fmt"
	"net"
	"net/http"
	"os"
	"sync"
	"sync/atomic"
	"syscall"
	"time"
)

// fakeUpstream is one upstream address with a request counter.
type fakeUpstream struct {
	URL     string
	hits    atomic.Int64 // HTTP requests that reached the handler (or connections accepted, for "reset")
	closeFn func()
	// comeBack (only for upstreams made by newRefusedThenHTTPUpstream): start listening on the reserved port
	comeBack func()
}

func (f *fakeUpstream) Close() {
	if f.closeFn != nil {
		f.closeFn()
	}
}

// newRefusedUpstream reserves a TCP port that refuses connections for as long as the upstream is open:
// the socket is bound but never listen()ed on, so connect() gets ECONNREFUSED and no other process can
// take the port in the meantime (a closed listener's port could be reused by a concurrent test).
func newRefusedUpstream() *fakeUpstream {
	fd, err := syscall.Socket(syscall.AF_INET, syscall.SOCK_STREAM, 0)
	must(err)
	sa := &syscall.SockaddrInet4{Port: 0, Addr: [4]byte{127, 0, 0, 1}}
	must(syscall.Bind(fd, sa))
	got, err := syscall.Getsockname(fd)
	must(err)
	port := got.(*syscall.SockaddrInet4).Port
	return &fakeUpstream{URL: fmt.Sprintf("http://127.0.0.1:%d", port), closeFn: func() { _ = syscall.Close(fd) }}
}

// newRefusedThenHTTPUpstream: like newRefusedUpstream (bound, not listening: ECONNREFUSED) until comeBack() is called;
// from then on the SAME address serves h — an upstream that was down and came back.
func newRefusedThenHTTPUpstream(h http.HandlerFunc) *fakeUpstream {
	fd, err := syscall.Socket(syscall.AF_INET, syscall.SOCK_STREAM, 0)
	must(err)
	sa := &syscall.SockaddrInet4{Port: 0, Addr: [4]byte{127, 0, 0, 1}}
	must(syscall.Bind(fd, sa))
	got, err := syscall.Getsockname(fd)
	must(err)
	port := got.(*syscall.SockaddrInet4).Port
	f := &fakeUpstream{URL: fmt.Sprintf("http://127.0.0.1:%d", port)}
	var srv *http.Server
	var wg sync.WaitGroup
	f.comeBack = func() {
		if srv != nil {
			return
		}
		must(syscall.Listen(fd, 128))
		file := os.NewFile(uintptr(fd), "upstream")
		ln, err := net.FileListener(file) // dup()s the descriptor
		must(err)
		_ = file.Close()
		fd = -1
		srv = &http.Server{Handler: http.HandlerFunc(func(w http.ResponseWriter, r *http.Request) {
			f.hits.Add(1)
			h(w, r)
		})}
		wg.Add(1)
		go func() { defer wg.Done(); _ = srv.Serve(ln) }()
	}
	f.closeFn = func() {
		if srv != nil {
			_ = srv.Close()
			wg.Wait()
		}
		if fd >= 0 {
			_ = syscall.Close(fd)
		}
	}
	return f
}

// newResetUpstream accepts TCP connections and closes them immediately with SO_LINGER=0 (RST).
func newResetUpstream() *fakeUpstream {
	ln, err := net.Listen("tcp4", "127.0.0.1:0")
	must(err)
	f := &fakeUpstream{URL: "http://" + ln.Addr().String()}
	done := make(chan struct{})
	go func() {
		defer close(done)
		for {
			c, err := ln.Accept()
			if err != nil {
				return
			}
			f.hits.Add(1)
			if tc, ok := c.(*net.TCPConn); ok {
				_ = tc.SetLinger(0)
			}
			_ = c.Close()
		}
	}()
	f.closeFn = func() { _ = ln.Close(); <-done }
	return f
}

// newHTTPUpstream serves every request with h (the counter is incremented before h runs).
func newHTTPUpstream(h http.HandlerFunc) *fakeUpstream {
	ln, err := net.Listen("tcp4", "127.0.0.1:0")
	must(err)
	f := &fakeUpstream{URL: "http://" + ln.Addr().String()}
	srv := &http.Server{Handler: http.HandlerFunc(func(w http.ResponseWriter, r *http.Request) {
		f.hits.Add(1)
		h(w, r)
	})}
	var wg sync.WaitGroup
	wg.Add(1)
	go func() { defer wg.Done(); _ = srv.Serve(ln) }()
	f.closeFn = func() { _ = srv.Close(); wg.Wait() }
	return f
}

// sleepingHandler never answers: it returns when the client gives up (or after max).
func sleepingHandler(max time.Duration) http.HandlerFunc {
	return func(w http.ResponseWriter, r *http.Request) {
		select {
		case <-r.Context().Done():
		case <-time.After(max):
		}
	}
}

// staticHandler answers with a fixed status and body.  cut > 0 declares a Content-Length that is cut
// bytes longer than what is sent and then drops the connection (a truncated transfer).
func staticHandler(status int, contentType, body string, cut int) http.HandlerFunc {
	return func(w http.ResponseWriter, r *http.Request) {
		_ = r.ParseForm()
		if contentType != "" {
			w.Header().Set("Content-Type", contentType)
		}
		if cut > 0 {
			w.Header().Set("Content-Length", fmt.Sprint(len(body)+cut))
			w.WriteHeader(status)
			_, _ = w.Write([]byte(body))
			if fl, ok := w.(http.Flusher); ok {
				fl.Flush()
			}
			if hj, ok := w.(http.Hijacker); ok {
				if c, _, err := hj.Hijack(); err == nil {
					_ = c.Close()
				}
			}
			return
		}
		w.WriteHeader(status)
		_, _ = w.Write([]byte(body))
	}
}

// countingTransport counts RoundTrip calls (client-side contact attempts, also for refused ports).
type countingTransport struct {
	inner    http.RoundTripper
	n        atomic.Int64
	timeouts atomic.Int64 // round trips that ended in a timeout / deadline error
}

func (c *countingTransport) RoundTrip(r *http.Request) (*http.Response, error) {
	c.n.Add(1)
	resp, err := c.inner.RoundTrip(r)
	if err != nil {
		var ne net.Error
		if errors.Is(err, context.DeadlineExceeded) || (errors.As(err, &ne) && ne.Timeout()) {
			c.timeouts.Add(1)
		}
	}
	return resp, err
}
