//go:build verif

package main

func init() { register("C04", func(args []string) int { return runPromql("C04", args) }) }
