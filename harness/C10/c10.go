//go:build verif

package main

// C10: text excluded by ignore comments cannot influence the result.
//
// Phase A (correspondence): the real ContentReader (parser.VerifReadAll) on corpus files, exhaustive short files
// over a line alphabet and random longer files; observed outputs are written as Coq terms and compared with
// Model.Reader.reader_impl by coqc (Run/C10.v).
// Phase B (oracle_impl): two-run relational check of the property as written on the real pipeline
// (in-process parser projection + the pint binary's JSON report): payload replacement and block insertion.

import (
	"bytes"
	"encoding/json"
	"fmt"
	"math/rand"
	"os"
	"path/filepath"
	"sort"
	"strings"

	"github.com/cloudflare/pint/internal/comments"
	"github.com/cloudflare/pint/internal/parser"
)

func init() { register("C10", runC10) }

const c10Known = "C10-control-comment-in-excluded-text"
const c10KnownColumn = "C10-directive-column"
const c10KnownScalar = "C10-length-in-block-scalar"
const c10KnownLong = "C10-long-blanked-line"

// ---------------------------------------------------------------------------------------------
// The documented meaning (mirror of coq/Model/MaskSpec.v) and the known-finding class predicate.

type c10SpecState int

const (
	c10Normal c10SpecState = iota
	c10NormalNext
	c10Block
	c10File
)

func c10Chunks(input []byte) []string {
	var out []string
	for len(input) > 0 {
		i := bytes.IndexByte(input, '\n')
		if i < 0 {
			out = append(out, string(input))
			break
		}
		out = append(out, string(input[:i+1]))
		input = input[i+1:]
	}
	return out
}

// c10LineComment = the (only) pint comment of a chunk, via the real comments.Parse.
func c10LineComment(lineno int, chunk string) *comments.Comment {
	cs := comments.Parse(lineno, strings.TrimSuffix(chunk, "\n"))
	if len(cs) == 0 {
		return nil
	}
	return &cs[0]
}

// c10Excluded returns the 1-based numbers of the lines the documented meaning excludes entirely and whether the file is in
// the known-finding class C10-control-comment-in-excluded-text (MaskSpec.known_leak_class).
func c10Excluded(input []byte) (excluded []int, class bool) {
	st := c10Normal
	for i, ch := range c10Chunks(input) {
		n := i + 1
		c := c10LineComment(n, ch)
		blankAll := false
		inFile := st == c10File
		switch st {
		case c10File:
			blankAll = true
		case c10Block:
			if c != nil && c.Type == comments.IgnoreEndType {
				st = c10Normal
			} else {
				blankAll = true
			}
		case c10NormalNext:
			blankAll = true
			st = c10Normal
		case c10Normal:
			if c != nil {
				switch c.Type { // nolint:exhaustive
				case comments.IgnoreFileType:
					st = c10File
				case comments.IgnoreNextLineType:
					st = c10NormalNext
				case comments.IgnoreBeginType:
					st = c10Block
				}
			}
		}
		if blankAll {
			excluded = append(excluded, n)
			// mirror of MaskSpec.leaks: after ignore/file only rule-type comments reach the result (their surviving text can
			// attach to a rule above); on next-line / begin..end lines every pint comment does
			if c != nil && (!inFile || comments.IsRuleComment(c.Type)) {
				class = true
			}
		}
	}
	return excluded, class
}

// ---------------------------------------------------------------------------------------------
// Phase A: reader correspondence

type c10ReaderObs struct {
	Input    string           `json:"input"`
	Out      string           `json:"out"`
	Lines    []string         `json:"lines"`
	Comments []map[string]any `json:"comments"`
	Diags    [][3]int         `json:"diags"`
	Lineno   int              `json:"lineno"`
	Flags    [4]bool          `json:"flags"`
	Class    bool             `json:"class"`
	Err      string           `json:"err,omitempty"`
}

func c10ReaderCase(id int, input string) (string, c10ReaderObs) {
	return c10ReaderCaseChunked(id, input, 0)
}

// chunk = 0: one piece (io.ReadAll); chunk > 0: ContentReader.Read called with a destination buffer of that many bytes.
// The model knows nothing about chunking: the observed bytes must be the same for every chunk size.
func c10ReaderCaseChunked(id int, input string, chunk int) (string, c10ReaderObs) {
	res, err := parser.VerifReadAll([]byte(input))
	if chunk > 0 {
		res, err = parser.VerifReadChunked([]byte(input), chunk)
	}
	_, class := c10Excluded([]byte(input))
	obs := c10ReaderObs{Input: input, Out: string(res.Out), Lines: res.Lines, Lineno: res.Lineno,
		Flags: [4]bool{res.SkipAll, res.SkipNext, res.AutoReset, res.InBegin}, Class: class}
	if err != nil {
		obs.Err = err.Error()
	}
	var ds []string
	for _, d := range res.Diags {
		l, f, t := 999999, 999999, 999999
		if len(d.Pos) == 1 && d.Pos[0].Line >= 0 && d.Pos[0].FirstColumn >= 0 && d.Pos[0].LastColumn >= 0 &&
			d.FirstColumn == d.Pos[0].FirstColumn && d.LastColumn == d.Pos[0].LastColumn {
			l, f, t = d.Pos[0].Line, d.Pos[0].FirstColumn, d.Pos[0].LastColumn
		}
		ds = append(ds, fmt.Sprintf("(%s, %s, %s)", coqN(l), coqN(f), coqN(t)))
		obs.Diags = append(obs.Diags, [3]int{l, f, t})
	}
	for _, c := range res.Comments {
		obs.Comments = append(obs.Comments, scJSON(c))
	}
	term := fmt.Sprintf("TReader {| k_id := %s; k_input := %s; k_times := %s; k_out := %s; k_lines := %s; k_comments := %s; "+
		"k_diags := %s; k_lineno := %s; k_flags := (%s, %s, %s, %s); k_class := %s |}",
		coqN(id), scStr(input), scTimeTable(input), scStr(string(res.Out)), scStrList(res.Lines), scComments(res.Comments),
		coqList(ds), coqN(res.Lineno), coqBool(res.SkipAll), coqBool(res.SkipNext), coqBool(res.AutoReset), coqBool(res.InBegin),
		coqBool(class))
	return term, obs
}

// the 9-symbol core alphabet (exhaustive enumeration) and the full alphabet (pairs + random)
var c10Core = []string{
	"- alert: A", "{{ garbage", "# pint ignore/begin", "# pint ignore/end", "# pint ignore/next-line",
	"x: y # pint ignore/line", "# pint ignore/file", "# pint file/disable promql/rate", "  expr: up # pint disable promql/series",
}

func c10FullAlphabet() []string {
	var a []string
	a = append(a, "- alert: A", "  expr: up", "{{ garbage }}", "   ", "\t- x", "foo\r", "- record: r # plain comment")
	a = append(a, scIgnoreLines...)
	a = append(a, scCommentLines...)
	a = append(a, scInvalidLines...)
	a = append(a, scNearMisses...)
	a = append(a, scNonASCII...)
	for _, c := range scIgnoreLines {
		a = append(a, "content: 1 "+c, "{% raw %} "+c+"  ", c+"\r")
	}

	for _, c := range []string{"# pint file/disable promql/series", "# pint disable promql/series", "# pint file/owner bob", "# pint ignore/line extra"} {
		a = append(a, "content: 1 "+c)
	}
	return a
}

// c10Long is a 4500-byte excluded-looking line
var c10Long = "{{ " + strings.Repeat("long jinja expression ", 204) + "}}"

func c10Join(lines []string, finalNL bool) string {
	s := strings.Join(lines, "\n")
	if finalNL && len(lines) > 0 {
		s += "\n"
	}
	return s
}

func c10Mutate(r *rand.Rand, s string) string { return scMutate(r, s) }

func runC10(args []string) int {
	seed := seedFromEnv()
	r := rand.New(rand.NewSource(seed))
	n := argInt(args, "--n", 300)
	exh := argInt(args, "--exh", 3)     // exhaustive length over the core alphabet
	pairs := argInt(args, "--pairs", 1) // all pairs over the full alphabet
	norac := argInt(args, "--oracle", n)
	rep := newReport("C10", seed)
	rep.Rule = "reader case: non-trivial when some line carries a pint control comment and the masked output differs from the input " +
		"or a comment/diagnostic is collected; oracle case: non-trivial when the base file yields >= 1 rule or problem and the excluded payload is non-empty"
	wd, _ := os.Getwd()
	cw := newCaseWriter(wd, "Run.C10", 120) // shards small enough to evaluate well within the per-file timeout on a loaded machine
	cw.preamble = scPreamble
	id := 0
	keep := n <= 2000
	addReader := func(kind, input string) {
		term, obs := c10ReaderCase(id, input)
		cw.add(term)
		rep.hist("reader:" + kind)
		nontriv := obs.Out != input || len(obs.Comments) > 0 || len(obs.Diags) > 0
		rep.count("reader:"+input, nontriv)
		if obs.Class {
			rep.hist("reader:class-control-comment-in-excluded-text")
		}
		if keep && id < 6000 {
			rep.Cases[fmt.Sprint(id)] = obs
		}
		if nontriv && id%97 == 0 {
			rep.sample(obs)
		}
		id++
	}
	// 1. corpus
	for _, f := range c10CorpusFiles() {
		b, err := os.ReadFile(f)
		must(err)
		addReader("corpus", string(b))
	}
	// 2. exhaustive over the core alphabet, with and without final newline
	var rec func(prefix []string, depth int)
	rec = func(prefix []string, depth int) {
		if len(prefix) > 0 {
			addReader("exhaustive-core", c10Join(prefix, true))
			if len(prefix) <= 2 {
				addReader("exhaustive-core", c10Join(prefix, false))
			}
		}
		if depth == 0 {
			return
		}
		for _, s := range c10Core {
			rec(append(append([]string{}, prefix...), s), depth-1)
		}
	}
	rec(nil, exh)
	addReader("exhaustive-core", "")
	// a random sample of longer files over the core alphabet (lengths exh+1 .. exh+3)
	for i := argInt(args, "--coresample", 0); i > 0; i-- {
		k := exh + 1 + r.Intn(3)
		ls := make([]string, k)
		for j := range ls {
			ls[j] = pick(r, c10Core)
		}
		addReader("sampled-core", c10Join(ls, r.Intn(5) > 0))
	}
	// 2b. lines longer than bufio's 4096-byte buffer: one ReadBytes result = one line, whatever its length
	for _, f := range []string{c10Long + "\n", c10Long + " # pint ignore/line\nfoo\n", "# pint ignore/next-line\n" + c10Long + "\n- alert: A\n",
		"# pint ignore/begin\n" + c10Long + "\nx\n# pint ignore/end\nfoo\n", "# pint disable " + c10Long, "a\n# pint ignore/file\n" + c10Long + "\nb\n"} {
		addReader("long-line", f)
	}
	// 3. every single line and (optionally) all pairs over the full alphabet
	full := c10FullAlphabet()
	for _, a := range full {
		addReader("single", a)
		addReader("single", a+"\n")
	}
	if pairs > 0 {
		for _, a := range full {
			for _, b := range full {
				if r.Intn(pairs) == 0 {
					addReader("pair", a+"\n"+b+"\n")
				}
			}
		}
	}
	// 4. random longer files: mostly alphabet lines, some mutated
	for i := 0; i < n; i++ {
		k := 3 + r.Intn(10)
		var lines []string
		for j := 0; j < k; j++ {
			var l string
			switch x := r.Intn(10); {
			case x < 4:
				l = pick(r, c10Core)
			case x < 8:
				l = pick(r, full)
			default:
				l = c10Mutate(r, pick(r, full))
			}
			lines = append(lines, l)
		}
		addReader("random", c10Join(lines, r.Intn(4) > 0))
	}
	// 5. the bytes handed to yaml must not depend on how the consumer chunks its reads (yaml.v3 reads 512 bytes at a time,
	// io.ReadAll grows from 512): files with CRLF / lone CR / LF line endings of 300-1600 bytes, read through destination
	// buffers of small, odd and boundary sizes; the model has no notion of chunking, so every observation must equal r_yaml
	chunkSizes := []int{1, 2, 3, 5, 7, 64, 255, 511, 512, 513, 1024}
	nchunk := 12
	if n >= 1000 {
		nchunk = 120
	}
	for i := 0; i < nchunk; i++ {
		var b strings.Builder
		target := 300 + r.Intn(1300)
		for b.Len() < target {
			var l string
			switch x := r.Intn(10); {
			case x < 5:
				l = pick(r, c10Core)
			case x < 9:
				l = pick(r, full)
			default:
				l = strings.Repeat("x", r.Intn(40))
			}
			b.WriteString(l)
			b.WriteString(pick(r, []string{"\r\n", "\r\n", "\r\n", "\n", "\r\r\n"}))
		}
		input := b.String()
		for _, cs := range []int{pick(r, chunkSizes), pick(r, chunkSizes), 512} {
			term, obs := c10ReaderCaseChunked(id, input, cs)
			cw.add(term)
			rep.hist(fmt.Sprintf("reader:chunked-read-%d", cs))
			rep.count(fmt.Sprintf("reader-chunk%d:%s", cs, input), obs.Out != input)
			id++
		}
	}
	// Phase B (adds one TPair case per known-class oracle failure: is it explained by the reader model?)
	c10Oracle(r, rep, norac, cw, &id)
	cw.flush()
	rep.CaseFiles = cw.files

	rep.write("report.json")
	return 0
}

func c10CorpusFiles() []string {
	root := os.Getenv("VERIF_ROOT")
	if root == "" {
		root = "/verif"
	}
	fs, _ := filepath.Glob(filepath.Join(root, "corpus", "C10", "*.txt"))
	sort.Strings(fs)
	return fs
}

var _ = json.Marshal
