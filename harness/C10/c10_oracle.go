//go:build verif

package main

// Phase B of C10: the property as written, checked relationally on the real pipeline.
//   replace: two files that differ only inside excluded lines (same number of lines)  => same rules, positions, problems
//   insert : a fully excluded block inserted between rules                           => same, with line numbers after it shifted
// Observables: (P1) the in-process parser result (strict and relaxed): groups, rules, values, positions, rule comments,
// errors, file comments, diagnostics, TotalLines; (P2) the JSON report of the real pint binary (reporter, problem,
// details, severity, lines, owner).

import (
	"bytes"
	"encoding/json"
	"fmt"
	"math/rand"
	"os"
	"path/filepath"
	"reflect"
	"regexp"
	"sort"
	"strings"

	"github.com/prometheus/common/model"

	"github.com/cloudflare/pint/internal/comments"
	"github.com/cloudflare/pint/internal/diags"
	"github.com/cloudflare/pint/internal/parser"
)

// ---------------------------------------------------------------------------------------------
// projection of arbitrary parser values into a JSON-able tree; line-valued ints become {"L": n}

type c10Line struct {
	L int `json:"L"`
}

func c10Proj(v reflect.Value) any {
	if !v.IsValid() {
		return nil
	}
	switch x := v.Interface().(type) {
	case diags.LineRange:
		return map[string]any{"First": c10Line{x.First}, "Last": c10Line{x.Last}}
	case diags.PositionRange:
		return map[string]any{"Line": c10Line{x.Line}, "First": x.FirstColumn, "Last": x.LastColumn}
	case parser.ParseError:
		if x.Err == nil {
			return nil
		}
		return map[string]any{"Err": x.Err.Error(), "Details": x.Details, "Line": c10Line{x.Line}}
	case comments.Comment:
		m := map[string]any{"Type": int(x.Type), "Offset": x.Offset}
		switch cv := x.Value.(type) {
		case comments.Owner:
			m["Owner"] = cv.Name
			m["Line"] = c10Line{cv.Line}
		case comments.Invalid:
			m["Invalid"] = cv.Err.Diagnostic.Message
			m["Pos"] = c10Proj(reflect.ValueOf(cv.Err.Diagnostic.Pos))
		case nil:
		default:
			m["Value"] = cv.String()
		}
		return m
	case error:
		return x.Error()
	}
	switch v.Kind() {
	case reflect.Ptr, reflect.Interface:
		if v.IsNil() {
			return nil
		}
		return c10Proj(v.Elem())
	case reflect.Struct:
		m := map[string]any{}
		t := v.Type()
		for i := 0; i < v.NumField(); i++ {
			if t.Field(i).PkgPath != "" { // unexported (e.g. the cached PromQL AST)
				continue
			}
			if t.Field(i).Name == "Query" || t.Field(i).Name == "SyntaxError" {
				// *PromQLNode AST / parse error of the expression: a function of the value string, which is compared
				f := v.Field(i)
				if t.Field(i).Name == "SyntaxError" && !f.IsNil() {
					m["SyntaxError"] = fmt.Sprint(f.Interface())
				}
				continue
			}
			m[t.Field(i).Name] = c10Proj(v.Field(i))
		}
		return m
	case reflect.Slice, reflect.Array:
		out := make([]any, 0, v.Len())
		for i := 0; i < v.Len(); i++ {
			out = append(out, c10Proj(v.Index(i)))
		}
		return out
	case reflect.Map:
		m := map[string]any{}
		for _, k := range v.MapKeys() {
			m[fmt.Sprint(k.Interface())] = c10Proj(v.MapIndex(k))
		}
		return m
	case reflect.String:
		return v.String()
	case reflect.Bool:
		return v.Bool()
	case reflect.Int, reflect.Int8, reflect.Int16, reflect.Int32, reflect.Int64:
		return v.Int()
	case reflect.Uint, reflect.Uint8, reflect.Uint16, reflect.Uint32, reflect.Uint64:
		return v.Uint()
	case reflect.Float32, reflect.Float64:
		return v.Float()
	}
	return fmt.Sprint(v.Interface())
}

// c10Shift adds k to every line number > after.
func c10Shift(t any, after, k int) any {
	switch x := t.(type) {
	case c10Line:
		if x.L > after {
			return c10Line{x.L + k}
		}
		return x
	case map[string]any:
		m := map[string]any{}
		for kk, v := range x {
			m[kk] = c10Shift(v, after, k)
		}
		return m
	case []any:
		out := make([]any, len(x))
		for i, v := range x {
			out[i] = c10Shift(v, after, k)
		}
		return out
	}
	return t
}

func c10ParseProj(content string, strict bool) (tree any, crashed string) {
	defer func() {
		if e := recover(); e != nil {
			crashed = fmt.Sprint(e)
		}
	}()
	p := parser.NewParser(strict, parser.PrometheusSchema, model.UTF8Validation)
	f := p.Parse(strings.NewReader(content))
	m := map[string]any{
		"Groups":      c10Proj(reflect.ValueOf(f.Groups)),
		"Error":       c10Proj(reflect.ValueOf(f.Error)),
		"Comments":    c10Proj(reflect.ValueOf(f.Comments)),
		"Diagnostics": c10DiagProj(f.Diagnostics),
		"IsIgnored":   f.IsIgnored,
	}
	return map[string]any{"File": m, "TotalLines": f.TotalLines}, ""
}

func c10DiagProj(ds []diags.Diagnostic) any {
	out := []any{}
	for _, d := range ds {
		out = append(out, map[string]any{"Message": d.Message, "Pos": c10Proj(reflect.ValueOf(d.Pos)), "First": d.FirstColumn, "Last": d.LastColumn})
	}
	return out
}

func c10JSON(t any) string {
	b, err := json.Marshal(t)
	must(err)
	return string(b)
}

// ---------------------------------------------------------------------------------------------
// generated files

type c10Seg struct {
	Lines    []string
	Excluded []bool // per line: payload (replaceable) line
	Prefix   []int  // per line: >0 = the first Prefix bytes are replaceable payload in front of an ignore/line directive
}

var c10PayloadPlain = []string{
	"{% set x = 1 %}", "{{ foo }}", "{%- if x %}", "{# comment #}", "{% endif -%}", "- [", "foo: : bar", "\t- tab", "  - alert: 'unterminated",
	"}}}", ": :", "&anchor *alias", "? !!", "--- # doc", "...", "  - alert: Fake", "    expr: up == 1", "  - record: fake", "groups:", "- name: other",
	"    labels: {a: b}", "", "   ", "# plain comment", "text", "a very long line of text that goes on and on and on and on and on and on and on",
	"caf\xc3\xa9 \xff\xfe", "cr\r",
	// non-ASCII text (2-, 3-, 4-byte characters) whose LAST bytes are active yaml syntax: a byte/character mix-up in front of an
	// ignore/line directive lets exactly these bytes through
	"{{ žluťoučký kůň }}", "{%- if šířka > 0 %}", "é: [", "名前: {日本語}", "\"über", "😀😀 ]", "ключ: 'значение", "- ¿qué? : :", "  expr: |", "    annotations:", "'", "\"", "@", "`", "[a, b", "# pintx ignore/end", "#pint", "key: value",
}

var c10PayloadComments = []string{
	"# pint disable promql/series", "# pint file/disable alerts/for", "# pint ignore/next-line", "# pint ignore/line", "# pint ignore/begin",
	"# pint ignore/file", "# pint file/owner bob", "# pint snooze 2099-01-01 alerts/for", "# pint rule/set promql/series min-age 1d",
	"{{ garbage # pint ignore/next-line", "{{ garbage }} # pint ignore/line", "# pint file/snooze 2099-01-01 alerts/comparison",
	"# pint disable alerts/comparison", "# pint rule/owner bob", "# pint file/disable", "x: y # pint disable alerts/for", "# pint ignore/end",
}

func c10Payload(r *rand.Rand, k int, withComments bool, inBlock bool, beforeDirective bool) []string {
	out := make([]string, k)
	for i := range out {
		if withComments && !beforeDirective && r.Intn(3) == 0 {
			p := pick(r, c10PayloadComments)
			if inBlock && strings.Contains(p, "ignore/end") {
				p = "# pint disable promql/series"
			}
			out[i] = p
		} else if r.Intn(40) == 0 {
			out[i] = c10Long // longer than the 4096-byte buffer of bufio.Reader
		} else {
			out[i] = pick(r, c10PayloadPlain)
		}
	}
	return out
}

// c10Region builds one excluded region of the given form around payload lines.
func c10Region(r *rand.Rand, form int, payload []string, indent string) c10Seg {
	var s c10Seg
	add := func(l string, ex bool, pre int) {
		s.Lines = append(s.Lines, l)
		s.Excluded = append(s.Excluded, ex)
		s.Prefix = append(s.Prefix, pre)
	}
	dir := func(name string) string {
		sp := ""
		if r.Intn(2) == 0 {
			sp = indent
		}
		return sp + "# pint " + name
	}
	switch form {
	case 0: // next-line
		for _, p := range payload {
			add(dir("ignore/next-line"), false, 0)
			add(p, true, 0)
		}
	case 1: // line
		for _, p := range payload {
			add(p+" # pint ignore/line", false, len(p)+1)
		}
	case 2: // begin/end
		add(dir("ignore/begin"), false, 0)
		for _, p := range payload {
			add(p, true, 0)
		}
		add(dir("ignore/end"), false, 0)
	case 3: // file (rest of the file)
		add(dir("ignore/file"), false, 0)
		for _, p := range payload {
			add(p, true, 0)
		}
	}
	return s
}

type c10Rule struct {
	lines      []string
	fieldPoint []bool // after line i a region may be placed (between fields, never after a block scalar line)
}

func c10GenRule(r *rand.Rand, idx int) c10Rule {
	var ru c10Rule
	add := func(l string, fp bool) {
		ru.lines = append(ru.lines, l)
		ru.fieldPoint = append(ru.fieldPoint, fp)
	}
	exprs := []string{"up == 0", "sum(rate(errors_total[5m])) > 0.5", "foo{job=\"a\"}", "sum(foo) without(", "rate(foo[5m]) > bool 1", "count(up) by (job)"}
	expr := pick(r, exprs)
	alert := r.Intn(2) == 0
	if alert {
		add(fmt.Sprintf("  - alert: Alert%d", idx), true)
	} else {
		add(fmt.Sprintf("  - record: job:rec%d:sum", idx), true)
	}
	switch r.Intn(4) {
	case 0:
		add("    expr: |", false)
		add("      "+expr, false)
		// a block scalar is always followed by a plain field so that no excluded line ever follows it directly
		add("    labels:", false)
		add("      team: a", true)
	default:
		add("    expr: "+expr, true)
	}
	if alert {
		if r.Intn(2) == 0 {
			add("    for: "+pick(r, []string{"5m", "0m", "abc", "1h"}), true)
		}
		if r.Intn(2) == 0 {
			add("    annotations:", true)
			add("      summary: "+pick(r, []string{"plain", "'{{ $labels.job }} down'", "\"{{ $value }}\""}), true)
		}
	}
	if r.Intn(5) == 0 {
		add("    # pint disable alerts/comparison", true)
	}
	return ru
}

// c10GenBase returns a valid strict-mode rule file split into lines with point kinds.
type c10Base struct {
	lines     []string
	rulePoint map[int]bool // insertion after line index i (0-based, -1 = top) is between rules
	fieldPt   map[int]bool
}

func c10GenBase(r *rand.Rand) c10Base {
	b := c10Base{rulePoint: map[int]bool{}, fieldPt: map[int]bool{}}
	if r.Intn(3) == 0 {
		b.lines = append(b.lines, "# pint file/owner bob")
	}
	if r.Intn(4) == 0 {
		b.lines = append(b.lines, "# pint file/disable promql/rate")
	}
	b.lines = append(b.lines, "groups:")
	idx := 0
	ng := 1 + r.Intn(2)
	for g := 0; g < ng; g++ {
		b.lines = append(b.lines, fmt.Sprintf("- name: g%d", g))
		b.lines = append(b.lines, "  rules:")
		b.rulePoint[len(b.lines)-1] = true
		nr := 1 + r.Intn(3)
		for k := 0; k < nr; k++ {
			ru := c10GenRule(r, idx)
			idx++
			for i, l := range ru.lines {
				b.lines = append(b.lines, l)
				if i < len(ru.lines)-1 && ru.fieldPoint[i] {
					b.fieldPt[len(b.lines)-1] = true
				}
			}
			b.rulePoint[len(b.lines)-1] = true
			if r.Intn(3) == 0 {
				b.lines = append(b.lines, "")
				b.rulePoint[len(b.lines)-1] = true
			}
		}
	}
	return b
}

const c10Config = `parser {
  relaxed = ["relaxed.*"]
}
rule {
  label "team" {
    required = true
    severity = "warning"
  }
}
rule {
  match { kind = "alerting" }
  annotation "summary" {
    required = true
    severity = "bug"
  }
}
`

type c10Pair struct {
	ID       int      `json:"id"`
	Kind     string   `json:"kind"` // replace | insert
	Form     []int    `json:"forms"`
	A        string   `json:"file_a"`
	B        string   `json:"file_b"`
	After    int      `json:"insert_after_line,omitempty"`
	K        int      `json:"inserted_lines,omitempty"`
	Class    bool     `json:"control_comment_in_excluded_text"`
	Column   bool     `json:"directive_column_moved"`
	Scalar   bool     `json:"excluded_length_changed_in_block_scalar"`
	Long     bool     `json:"excluded_line_crosses_yaml_comment_lookahead"`
	Diffs    []string `json:"diffs,omitempty"`
	Relaxed  bool     `json:"relaxed"`
	Embedded int      `json:"embedded_levels,omitempty"` // wrapped this many times into literal block scalars
}

func c10RunPint(dir, name, content string) (string, string) {
	must(os.MkdirAll(dir, 0o755))
	writeFile(filepath.Join(dir, ".pint.hcl"), c10Config)
	writeFile(filepath.Join(dir, name), content)
	jp := filepath.Join(dir, "out.json")
	rc, _, se := runPint(dir, "--no-color", "--offline", "-c", ".pint.hcl", "lint", "--min-severity", "info", "--json", jp, name)
	b, err := os.ReadFile(jp)
	if err != nil {
		return "", fmt.Sprintf("no json (rc=%d): %s", rc, lastN(se, 400))
	}
	var reps []map[string]any
	if err := json.Unmarshal(b, &reps); err != nil {
		return "", "bad json: " + err.Error()
	}
	return string(b), ""
}

func lastN(s string, n int) string {
	if len(s) > n {
		return s[len(s)-n:]
	}
	return s
}

type c10Report struct {
	Reporter string `json:"reporter"`
	Problem  string `json:"problem"`
	Details  string `json:"details"`
	Severity string `json:"severity"`
	Owner    string `json:"owner"`
	Lines    []int  `json:"lines"`
}

func c10Reports(js string, after, k int) []string {
	var reps []c10Report
	_ = json.Unmarshal([]byte(js), &reps)
	out := []string{}
	for _, rp := range reps {
		for i, l := range rp.Lines {
			if l > after {
				rp.Lines[i] = l + k
			}
		}
		b, _ := json.Marshal(rp)
		out = append(out, string(b))
	}
	sort.Strings(out)
	return out
}

func c10Oracle(r *rand.Rand, rep *runReport, n int, cw *caseWriter, nextID *int) {
	if n <= 0 {
		return
	}
	wd, _ := os.Getwd()
	base := filepath.Join(wd, "oracle")
	_ = os.RemoveAll(base)
	var pairs []c10Pair
	// corpus pairs: corpus/C10/*.pair.json {kind, file_a, file_b, insert_after_line, inserted_lines}
	for _, f := range c10CorpusPairs() {
		b, err := os.ReadFile(f)
		must(err)
		var p c10Pair
		must(json.Unmarshal(b, &p))
		pairs = append(pairs, p)
	}
	ncorpus := len(pairs)
	for len(pairs) < n {
		b := c10GenBase(r)
		withComments := r.Intn(4) == 0
		if r.Intn(2) == 0 {
			pairs = append(pairs, c10GenReplace(r, b, withComments))
		} else {
			pairs = append(pairs, c10GenInsert(r, b, withComments))
		}
	}
	for i := ncorpus; i < len(pairs); i++ {
		// one pair in three: the same two files embedded in literal block scalars (an insertion at the very top would make the
		// inserted block the first line of the scalar: not generated)
		if r.Intn(3) == 0 && !(pairs[i].Kind == "insert" && pairs[i].After == 0) {
			c10Wrap(&pairs[i], r)
		}
	}
	for i := range pairs {
		pairs[i].ID = i
	}
	parallel(len(pairs), 16, func(i int) {
		p := &pairs[i]
		_, ca := c10Excluded([]byte(p.A))
		_, cb := c10Excluded([]byte(p.B))
		p.Class = ca || cb
		p.Column = (p.Kind == "replace" && c10ColumnMoved(p.A, p.B)) || (p.Kind == "insert" && c10InsertNextToComment(p.A, p.After))
		p.Scalar = p.Kind == "replace" && c10LengthInBlockScalar(p.A, p.B)
		p.Long = c10LongBlankedLine(p)
		name := "rules.yml"
		if p.Relaxed {
			name = "relaxed.yml"
		}
		after, k := 0, 0
		if p.Kind == "insert" {
			after, k = p.After, p.K
		}
		for _, strict := range []bool{true, false} {
			ta, crA := c10ParseProj(p.A, strict)
			tb, crB := c10ParseProj(p.B, strict)
			if crA != "" || crB != "" {
				if crA != crB {
					p.Diffs = append(p.Diffs, fmt.Sprintf("parser(strict=%v) crash: %q vs %q", strict, crA, crB))
				}
				continue
			}
			if p.Kind == "insert" {
				m := ta.(map[string]any)
				m["File"] = c10Shift(m["File"], after, k)
				m["TotalLines"] = m["TotalLines"].(int) + k
			}
			ja, jb := c10JSON(ta), c10JSON(tb)
			if ja != jb {
				p.Diffs = append(p.Diffs, fmt.Sprintf("parser(strict=%v): %s", strict, c10FirstDiff(ja, jb)))
			}
		}
		ra, ea := c10RunPint(filepath.Join(base, fmt.Sprintf("p%05d", i), "a"), name, p.A)
		rb, eb := c10RunPint(filepath.Join(base, fmt.Sprintf("p%05d", i), "b"), name, p.B)
		if ea != "" || eb != "" {
			if (ea == "") != (eb == "") {
				p.Diffs = append(p.Diffs, "pint: "+ea+" | "+eb)
			}
		} else {
			la, lb := c10Reports(ra, after, k), c10Reports(rb, 0, 0)
			if strings.Join(la, "\n") != strings.Join(lb, "\n") {
				p.Diffs = append(p.Diffs, "pint reports: "+c10FirstDiff(strings.Join(la, "\n"), strings.Join(lb, "\n")))
			}
			if ra != "[]" || rb != "[]" {
				p.Form = append(p.Form, -1) // marker: some problem reported
			}
		}
	})
	_ = os.RemoveAll(base)
	if n >= 1000 {
		c10CRLFSweep(r, rep, 1100)
		c10CRLFSweep(r, rep, 1100)
	} else {
		c10CRLFSweep(r, rep, 560)
	}
	for i := 0; i < ncorpus && i < len(pairs); i++ {
		// the stored witnesses of the known findings are re-checked on every run
		if len(pairs[i].Diffs) == 0 {
			rep.Notes = append(rep.Notes, fmt.Sprintf("corpus pair #%d (%s) no longer fails on the implementation", i, filepath.Base(c10CorpusPairs()[i])))
		} else {
			rep.hist("oracle:corpus-witness-still-fails")
		}
	}
	for i := range pairs {
		p := pairs[i]
		hasProblem := false
		if len(p.Form) > 0 && p.Form[len(p.Form)-1] == -1 {
			hasProblem = true
			p.Form = p.Form[:len(p.Form)-1]
		}
		rep.hist("oracle:" + p.Kind)
		if p.Embedded > 0 {
			rep.hist(fmt.Sprintf("oracle:embedded-%d-levels", p.Embedded))
		}
		if p.Kind == "replace" && c10SameLengths(p.A, p.B) {
			rep.hist("oracle:replace-same-length")
		}
		for _, f := range p.Form {
			rep.hist(fmt.Sprintf("oracle:form-%s", []string{"next-line", "line", "begin-end", "file"}[f]))
		}
		if p.Class {
			rep.hist("oracle:class-control-comment-in-excluded-text")
		}
		rep.count("oracle:"+p.A+"\x00"+p.B, hasProblem || strings.Contains(p.A, "alert:") || strings.Contains(p.A, "record:"))
		if len(p.Diffs) > 0 {
			what := fmt.Sprintf("C10 %s: files differing only in excluded text give different results: %s", p.Kind, p.Diffs[0])
			if p.Kind == "replace" && (p.Class || p.Column || p.Scalar || p.Long) {
				// known-class failure: let Coq decide whether the reader MODEL explains it (Run/C10.v TPair)
				cw.add(fmt.Sprintf("TPair %s %s %s %s", coqN(*nextID), scStr(p.A), scStr(p.B), scTimeTable(p.A+"\n"+p.B)))
				rep.Cases[fmt.Sprint(*nextID)] = p
				rep.hist("oracle:known-class-failure-checked-against-model")
				*nextID++
			}
			if p.Class {
				rep.failKnown(fmt.Sprintf("oracle-%d", i), what, p, c10Known)
			} else if p.Column {
				rep.failKnown(fmt.Sprintf("oracle-%d", i), what, p, c10KnownColumn)
			} else if p.Scalar {
				rep.failKnown(fmt.Sprintf("oracle-%d", i), what, p, c10KnownScalar)
			} else if p.Long {
				rep.failKnown(fmt.Sprintf("oracle-%d", i), what, p, c10KnownLong)
			} else {
				rep.fail(fmt.Sprintf("oracle-%d", i), what, p)
			}
		} else if i%53 == 0 {
			rep.sample(p)
		}
	}
}

// c10CRLFSweep: stratum "CRLF files, payload-length sweep across the read-chunk boundaries". One CRLF rule file of > 1 KB with an
// ignore/begin..end block near the top (three excluded lines, each shorter than yaml's comment lookahead so that class
// C10-long-blanked-line is not entered) and, below it, rules followed by two-line `# pint disable` comment blocks and flow
// mappings followed by a comment line (the places where yaml.v3 attaches comments differently for CRLF). The total payload
// length is swept over `span` consecutive values, which moves every 512-byte boundary of the stream across every byte of the
// lines below the block; each variant is compared with the reference (shortest payload) by the in-process parser (strict and
// relaxed). Same number of lines, only excluded text differs: the results must be equal.
func c10CRLFSweep(r *rand.Rand, rep *runReport, span int) {
	var body []string
	body = append(body, "groups:", "- name: g0", "  rules:")
	nr := 10 + r.Intn(6)
	for k := 0; k < nr; k++ {
		if k%2 == 0 {
			body = append(body, fmt.Sprintf("  - alert: Alert%d", k), "    expr: up == 0", fmt.Sprintf("    for: %dm", 1+r.Intn(9)))
			if r.Intn(2) == 0 {
				body = append(body, "    labels: {team: a}", "    # pint disable alerts/comparison")
			} else {
				body = append(body, "    annotations:", "      summary: down")
			}
		} else {
			body = append(body, fmt.Sprintf("  - record: job:rec%d:sum", k), "    expr: sum(up) by (job)")
		}
		body = append(body, "    # pint disable promql/series", "    # pint disable alerts/for")
		if r.Intn(3) == 0 {
			body = append(body, "")
		}
	}
	mk := func(total int) string {
		l1 := min(total/3, 400)
		l2 := min((total-l1)/2, 400)
		l3 := min(total-l1-l2, 400)
		ls := []string{"# pint file/owner bob", "# pint ignore/begin", strings.Repeat("{", l1), strings.Repeat("%", l2), strings.Repeat("}", l3), "# pint ignore/end"}
		ls = append(ls, body...)
		return strings.Join(ls, "\r\n") + "\r\n"
	}
	base := 3
	ref := mk(base)
	refT := map[bool]string{}
	for _, strict := range []bool{true, false} {
		t, cr := c10ParseProj(ref, strict)
		refT[strict] = c10JSON(t) + cr
	}
	nfail := 0
	for total := base + 1; total <= base+span; total++ {
		v := mk(total)
		rep.hist("oracle:crlf-length-sweep")
		for _, strict := range []bool{true, false} {
			t, cr := c10ParseProj(v, strict)
			if got := c10JSON(t) + cr; got != refT[strict] {
				nfail++
				if nfail <= 5 {
					p := c10Pair{Kind: "replace", Form: []int{2}, A: ref, B: v}
					rep.fail(fmt.Sprintf("oracle-crlf-sweep-%d", total), fmt.Sprintf("C10 replace: CRLF files differing only in the length of text between ignore/begin and ignore/end "+
						"(%d vs %d bytes in three lines) give different results: parser(strict=%v): %s", base, total, strict, c10FirstDiff(refT[strict], got)), p)
				}
				break
			}
		}
	}
	rep.count("oracle:crlf-sweep:"+ref, true)
}

// c10ColumnMoved: known-finding class C10-directive-column — the replacement changed the byte length of the excluded text
// in front of an ignore/line (or ignore/file) directive, so the surviving comment starts in another column, AND the line
// directly above or below that directive carries a comment in one of the two files (yaml.v3 groups adjacent comment lines and
// attaches the group by column: only then can the column of the directive comment decide where a neighbouring pint
// comment ends up). A moved directive without a comment next to it is NOT in the class.
func c10ColumnMoved(a, b string) bool {
	ca, cb := c10Chunks([]byte(a)), c10Chunks([]byte(b))
	hasComment := func(cs []string, i int) bool {
		return i >= 0 && i < len(cs) && strings.IndexByte(cs[i], '#') >= 0
	}
	for i := 0; i < len(ca) && i < len(cb); i++ {
		x, y := c10LineComment(i+1, ca[i]), c10LineComment(i+1, cb[i])
		if x == nil || y == nil || x.Type != y.Type {
			continue
		}
		if (x.Type == comments.IgnoreLineType || x.Type == comments.IgnoreFileType) && x.Offset != y.Offset {
			if hasComment(ca, i-1) || hasComment(ca, i+1) || hasComment(cb, i-1) || hasComment(cb, i+1) {
				return true
			}
		}
	}
	return false
}

var c10BlockHeader = regexp.MustCompile(`:\s*[|>][+-]?[0-9]?[+-]?\s*(#.*)?$`)

func c10Indent(l string) int { return len(l) - len(strings.TrimLeft(l, " ")) }

// c10LengthInBlockScalar: known-finding class C10-length-in-block-scalar — an entirely excluded line whose byte length differs
// between the two files lies inside the extent of a block scalar: scanning upwards from it, every line is blank, excluded, or
// indented deeper than some block scalar header (`key: |`, `key: >-` ...) that is reached before any less indented content.
func c10LengthInBlockScalar(a, b string) bool {
	exA, _ := c10Excluded([]byte(a))
	la, lb := strings.Split(a, "\n"), strings.Split(b, "\n")
	isEx := map[int]bool{}
	for _, n := range exA {
		isEx[n] = true
	}
	for _, n := range exA {
		i := n - 1
		if i >= len(la) || i >= len(lb) || len(la[i]) == len(lb[i]) {
			continue
		}
		// minimal indentation of the content lines met so far on the way up
		minInd := 1 << 30
		for j := i - 1; j >= 0; j-- {
			l := la[j]
			if isEx[j+1] || strings.TrimSpace(l) == "" {
				continue
			}
			if c10BlockHeader.MatchString(l) && c10Indent(l) < minInd {
				// narrowed in round 4: a blanked line is scalar content only if it is LONGER than the block's content
				// indentation (= indentation of the first non-blank, non-excluded line after the header; none: header
				// indentation + 1); two versions that are both at most that long are both plain blank lines of the scalar.
				if hdr := l[strings.LastIndex(l, ":"):]; strings.ContainsAny(hdr, "0123456789") {
					return true // explicit indentation indicator: the content indentation is not the first line's
				}
				ci := c10Indent(l) + 1
				for k := j + 1; k < len(la); k++ {
					if isEx[k+1] || strings.TrimSpace(la[k]) == "" {
						continue
					}
					if c10Indent(la[k]) > c10Indent(l) {
						ci = c10Indent(la[k])
					}
					break
				}
				if len(la[i]) > ci || len(lb[i]) > ci {
					return true
				}
				break
			}
			if ind := c10Indent(l); ind < minInd {
				minInd = ind
			}
			if minInd == 0 {
				break
			}
		}
	}
	return false
}

// c10YamlCommentLookahead: yaml.v3's comment scanner (scannerc.go, yaml_parser_scan_comments) looks at most 512 bytes of
// blanks ahead for the '#' of a following comment; measured on the pint binary: a blanked line of >= 511 bytes in front of
// a `# pint disable ...` line detaches that comment from the rule above.
const c10YamlCommentLookahead = 511

// c10LongBlankedLine: known-finding class C10-long-blanked-line — an entirely excluded line is blanked to as many spaces as
// it had bytes; exactly one of the two versions of such a line reaches yaml.v3's comment lookahead limit (replace), or the
// inserted block contains such a line (insert).
func c10LongBlankedLine(p *c10Pair) bool {
	long := func(l string) bool { return len(strings.TrimSuffix(l, "\n")) >= c10YamlCommentLookahead }
	ca, cb := c10Chunks([]byte(p.A)), c10Chunks([]byte(p.B))
	if p.Kind == "insert" {
		for i := p.After; i < p.After+p.K && i < len(cb); i++ {
			if long(cb[i]) {
				return true
			}
		}
		return false
	}
	exA, _ := c10Excluded([]byte(p.A))
	for _, n := range exA {
		i := n - 1
		if i < len(ca) && i < len(cb) && long(ca[i]) != long(cb[i]) {
			return true
		}
	}
	return false
}

// c10InsertNextToComment: known-finding class C10-directive-column, insert form — the base line directly above or below the
// insertion point (after 1-based line `after`) is a comment-only line, so the inserted directive comment joins its comment block.
func c10InsertNextToComment(base string, after int) bool {
	ls := strings.Split(strings.TrimSuffix(base, "\n"), "\n")
	isComment := func(i int) bool { // 0-based index
		return i >= 0 && i < len(ls) && strings.HasPrefix(strings.TrimSpace(ls[i]), "#")
	}
	return isComment(after-1) || isComment(after)
}

func c10SameLengths(a, b string) bool {
	la, lb := strings.Split(a, "\n"), strings.Split(b, "\n")
	if len(la) != len(lb) {
		return false
	}
	for i := range la {
		if len(la[i]) != len(lb[i]) {
			return false
		}
	}
	return true
}

func c10FirstDiff(a, b string) string {
	i := 0
	for i < len(a) && i < len(b) && a[i] == b[i] {
		i++
	}
	lo := i - 80
	if lo < 0 {
		lo = 0
	}
	return fmt.Sprintf("...%s <<>> ...%s", lastN(a[lo:min(len(a), i+120)], 200), lastN(b[lo:min(len(b), i+120)], 200))
}

func c10CorpusPairs() []string {
	root := os.Getenv("VERIF_ROOT")
	if root == "" {
		root = "/verif"
	}
	fs, _ := filepath.Glob(filepath.Join(root, "corpus", "C10", "*.pair.json"))
	sort.Strings(fs)
	return fs
}

// regions at random points: returns file A and file B (payload replaced, same number of lines)
func c10GenReplace(r *rand.Rand, b c10Base, withComments bool) c10Pair {
	var la, lb []string
	var forms []int
	nreg := 0
	// half of the pairs replace text by text of the SAME byte length per line: the proved case (C10_spec_noninterference_eq),
	// where the only possible failures are control comments in excluded text
	sameLen := r.Intn(2) == 0
	emit := func(indent string, atEnd bool) {
		form := r.Intn(3)
		if atEnd && r.Intn(2) == 0 {
			form = 3
		}
		k := 1 + r.Intn(3)
		pa := c10Payload(r, k, withComments, form == 2, form == 1)
		pb := c10Payload(r, k, withComments && r.Intn(2) == 0, form == 2, form == 1)
		if sameLen {
			c10PadEqual(pa, pb)
		}
		// same directive layout in both files: build with a forked PRNG
		s1 := r.Int63()
		sa := c10Region(rand.New(rand.NewSource(s1)), form, pa, indent)
		sb := c10Region(rand.New(rand.NewSource(s1)), form, pb, indent)
		la = append(la, sa.Lines...)
		lb = append(lb, sb.Lines...)
		forms = append(forms, form)
		nreg++
	}
	cut := -1
	if r.Intn(6) == 0 {
		// ignore/file in the middle: everything after it is excluded, file B replaces the rest of the real file
		cut = r.Intn(len(b.lines))
	}
	for i, l := range b.lines {
		la = append(la, l)
		lb = append(lb, l)
		if cut == i {
			la = append(la, "# pint ignore/file")
			lb = append(lb, "# pint ignore/file")
			rest := append([]string{}, b.lines[i+1:]...)
			repl := c10Payload(r, len(rest), withComments, false, false)
			if sameLen {
				c10PadEqual(rest, repl)
			}
			la = append(la, rest...)
			lb = append(lb, repl...)
			forms = append(forms, 3)
			nreg++
			return c10Pair{Kind: "replace", Form: forms, A: c10Join(la, true), B: c10Join(lb, true), Relaxed: r.Intn(4) == 0}
		}
		if (b.rulePoint[i] || b.fieldPt[i]) && r.Intn(3) == 0 {
			indent := "    "
			if b.rulePoint[i] {
				indent = "  "
			}
			emit(indent, false)
		}
	}
	if nreg == 0 || r.Intn(4) == 0 {
		emit("", true)
	}
	return c10Pair{Kind: "replace", Form: forms, A: c10Join(la, true), B: c10Join(lb, r.Intn(8) > 0 || true), Relaxed: r.Intn(4) == 0}
}

// c10Wrap: stratum "YAML embedded in YAML" (kubernetes ConfigMap style, as C06/C19 generate): both files of the pair are wrapped
// 1-2 times into a literal block scalar. Every line is indented by the block indentation EXCEPT entirely excluded lines, which
// are (per line, the same decision in both files) kept verbatim — so their blanked length is below, equal to or above the block
// indentation depending on the payload — or indented like the rest. The first line of a block is never an excluded line.
// Relaxed mode only (strict mode reports the same error for both files).
func c10Wrap(p *c10Pair, r *rand.Rand) {
	depth := pick(r, []int{1, 1, 2})
	for d := 0; d < depth; d++ {
		ind := pick(r, []int{3, 4, 6, 8})
		hdr := []string{"data:", "  rules.yml: |"}
		if d > 0 {
			hdr = []string{"config:", "  inner.yml: |-"}
		}
		seed := r.Int63()
		wrap := func(text string) string {
			rr := rand.New(rand.NewSource(seed))
			ex := map[int]bool{}
			exl, _ := c10Excluded([]byte(text))
			for _, n := range exl {
				ex[n] = true
			}
			finalNL := strings.HasSuffix(text, "\n")
			ls := strings.Split(strings.TrimSuffix(text, "\n"), "\n")
			out := append([]string{}, hdr...)
			for i, l := range ls {
				keep := rr.Intn(2) == 0 // drawn for every line so that both files decide alike
				switch {
				case l == "":
					out = append(out, "")
				case ex[i+1] && keep && i > 0:
					out = append(out, l)
				default:
					out = append(out, strings.Repeat(" ", ind)+l)
				}
			}
			return c10Join(out, finalNL)
		}
		p.A, p.B = wrap(p.A), wrap(p.B)
		if p.Kind == "insert" {
			p.After += len(hdr)
		}
	}
	p.Relaxed = true
	p.Embedded = depth
}

// c10PadEqual pads the shorter of a[i], b[i] with trailing spaces (excluded text, so anything goes).
func c10PadEqual(a, b []string) {
	for i := range a {
		if i >= len(b) {
			break
		}
		for len(a[i]) < len(b[i]) {
			a[i] += " "
		}
		for len(b[i]) < len(a[i]) {
			b[i] += " "
		}
	}
}

// one excluded block inserted at a point between rules: A = base, B = base with the block
func c10GenInsert(r *rand.Rand, b c10Base, withComments bool) c10Pair {
	var pts []int
	for i := range b.lines {
		if b.rulePoint[i] {
			pts = append(pts, i)
		}
	}
	sort.Ints(pts)
	pts = append(pts, -1) // top of file
	at := pick(r, pts)
	if r.Intn(6) == 0 {
		// adversarial: right behind a rule's trailing comment line when there is one (known-finding class C10-directive-column)
		for _, p := range pts {
			if p >= 0 && strings.HasPrefix(strings.TrimSpace(b.lines[p]), "#") {
				at = p
			}
		}
	}
	form := r.Intn(3) // ignore/file is not a block "between rules": it excludes the whole file from the checks by design
	k := 1 + r.Intn(3)
	seg := c10Region(r, form, c10Payload(r, k, withComments, form == 2, form == 1), "  ")
	if r.Intn(3) == 0 && form != 3 {
		// adjacency of forms: a second region right behind the first one
		form2 := r.Intn(3)
		s2 := c10Region(r, form2, c10Payload(r, 1+r.Intn(2), withComments, form2 == 2, form2 == 1), "  ")
		seg.Lines = append(seg.Lines, s2.Lines...)
	}
	var lb []string
	lb = append(lb, b.lines[:at+1]...)
	lb = append(lb, seg.Lines...)
	lb = append(lb, b.lines[at+1:]...)
	return c10Pair{Kind: "insert", Form: []int{form}, A: c10Join(b.lines, true), B: c10Join(lb, true), After: at + 1, K: len(seg.Lines),
		Relaxed: r.Intn(4) == 0}
}

var _ = bytes.NewReader
