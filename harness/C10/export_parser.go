//go:build verif

package parser

import (
	"bytes"
	"io"

	"github.com/cloudflare/pint/internal/comments"
	"github.com/cloudflare/pint/internal/diags"
)

// VerifReadResult is everything the ContentReader leaves behind after a file was read through it.
type VerifReadResult struct {
	Out       []byte
	Lines     []string
	Comments  []comments.Comment
	Diags     []diags.Diagnostic
	Lineno    int
	SkipAll   bool
	SkipNext  bool
	AutoReset bool
	InBegin   bool
}

func VerifReadAll(input []byte) (VerifReadResult, error) {
	r := newContentReader(bytes.NewReader(input))
	out, err := io.ReadAll(r)
	return VerifReadResult{
		Out: out, Lines: r.lines, Comments: r.comments, Diags: r.diagnostics, Lineno: r.lineno,
		SkipAll: r.skipAll, SkipNext: r.skipNext, AutoReset: r.autoReset, InBegin: r.inBegin,
	}, err
}

// VerifReadChunked reads the file through ContentReader.Read with a destination buffer of exactly size bytes per call
// (io.ReadAll above uses a growing buffer that starts at 512 bytes): the bytes handed out must not depend on the chunking.
func VerifReadChunked(input []byte, size int) (VerifReadResult, error) {
	r := newContentReader(bytes.NewReader(input))
	var out []byte
	var err error
	for i := 0; i < 10*len(input)+100; i++ {
		buf := make([]byte, size)
		var n int
		n, err = r.Read(buf)
		out = append(out, buf[:n]...)
		if err != nil {
			break
		}
	}
	if err == io.EOF {
		err = nil
	}
	return VerifReadResult{
		Out: out, Lines: r.lines, Comments: r.comments, Diags: r.diagnostics, Lineno: r.lineno,
		SkipAll: r.skipAll, SkipNext: r.skipNext, AutoReset: r.autoReset, InBegin: r.inBegin,
	}, err
}
