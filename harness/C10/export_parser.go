//go:build verif

package parser

import (
	"bytes"
	"io"

	"github.com/cloudflare/pint/internal/comments"
	"github.com/cloudflare/pint/internal/diags"
)

// VerifReadResult is everything the ContentReader leaves behind after a file was read through it.
type VerifReadResult struct {
	Out       []byte
	Lines     []string
	Comments  []comments.Comment
	Diags     []diags.Diagnostic
	Lineno    int
	SkipAll   bool
	SkipNext  bool
	AutoReset bool
	InBegin   bool
}

func VerifReadAll(input []byte) (VerifReadResult, error) {
	r := newContentReader(bytes.NewReader(input))
	out, err := io.ReadAll(r)
	return VerifReadResult{
		Out: out, Lines: r.lines, Comments: r.comments, Diags: r.diagnostics, Lineno: r.lineno,
		SkipAll: r.skipAll, SkipNext: r.skipNext, AutoReset: r.autoReset, InBegin: r.inBegin,
	}, err
}
